import DendroModel.Model.C01
import DendroModel.Theory.IsoSame
import DendroModel.Theory.Reseed
import DendroModel.Theory.Unrooted
import DendroModel.Theory.Laminar
import DendroModel.Theory.Lsb
/-! C01 — property theorems.  Obligations are the theorems directly in `namespace DendroModel.C01`;
helpers live in `DendroModel.C01.Aux`.  The statements about `PyBits.*` are about definitions regenerated
from the current source on every run. -/
namespace DendroModel.C01.Aux
open DendroModel DendroModel.Hier

theorem pyAnd_cast (a b : Nat) : pyAnd (a : Int) (b : Int) = ((a &&& b : Nat) : Int) := rfl
theorem pyAnd_not_cast (b f : Nat) : pyAnd (pyNot (b : Int)) (f : Int) = ((sdiff f b : Nat) : Int) := rfl
theorem pyXor_cast (a b : Nat) : pyXor (a : Int) (b : Int) = ((a ^^^ b : Nat) : Int) := rfl

theorem cast_ne_zero (a : Nat) : ((a : Int) ≠ 0) ↔ a ≠ 0 := by omega

theorem sub_one_cast {n : Nat} (h : 0 < n) : ((n : Int) - 1) = ((n - 1 : Nat) : Int) := by omega

/-- the least set bit of a positive number, as an index -/
theorem low_spec : ∀ n : Nat, 0 < n → ∃ k, Lsb.low n = 1 <<< k ∧ n.testBit k = true ∧ ∀ j, j < k → n.testBit j = false := by
  intro n
  induction n using Nat.strong_induction_on with
  | _ n ih =>
    intro hn
    obtain ⟨m, rfl⟩ : ∃ m, n = m + 1 := ⟨n - 1, by omega⟩
    rw [Lsb.low]
    by_cases hodd : (m + 1) % 2 = 1
    · refine ⟨0, by simp [hodd], ?_, by intro j hj; omega⟩
      simp [Nat.testBit_zero, hodd]
    · simp only [hodd, if_false]
      have hk : 0 < (m + 1) / 2 := by omega
      obtain ⟨k, h1, h2, h3⟩ := ih ((m + 1) / 2) (by omega) hk
      refine ⟨k + 1, ?_, ?_, ?_⟩
      · rw [h1, Nat.shiftLeft_succ, Nat.mul_comm]
      · rw [Nat.testBit_succ]; exact h2
      · intro j hj
        cases j with
        | zero => simp [Nat.testBit_zero]; omega
        | succ j => rw [Nat.testBit_succ]; exact h3 j (by omega)

mutual
theorem toH_mask : ∀ t : T, Hier.mask (T.toH t) = T.mask t
  | .node _ x _ _ [] => by cases x <;> simp [T.toH, Hier.mask, Hier.maskL, T.mask]
  | .node _ _ _ _ (c :: cs) => by
    simp only [T.toH, Hier.mask, T.mask]; exact toHL_mask (c :: cs)
theorem toHL_mask : ∀ cs : List T, Hier.maskL (T.toHL cs) = T.maskL cs
  | [] => rfl
  | c :: cs => by simp [T.toHL, Hier.maskL, T.maskL, toH_mask c, toHL_mask cs]
end

mutual
theorem toH_clades : ∀ (t : T) (x : Nat), x ∈ Hier.clades (T.toH t) ↔ x ∈ T.masksPost t
  | .node i tx l s [], x => by
    cases tx <;> simp [T.toH, Hier.clades, Hier.cladesL, Hier.maskL, T.masksPost, T.masksPostL, T.mask]
  | .node i tx l s (c :: cs), x => by
    have h := toHL_clades (c :: cs) x
    have hm := toHL_mask (c :: cs)
    simp only [T.toH, Hier.clades, T.masksPost, List.mem_cons, List.mem_append, List.mem_singleton, hm, h, T.mask]
    tauto
theorem toHL_clades : ∀ (cs : List T) (x : Nat), x ∈ Hier.cladesL (T.toHL cs) ↔ x ∈ T.masksPostL cs
  | [], x => by simp [T.toHL, Hier.cladesL, T.masksPostL]
  | c :: cs, x => by
    simp only [T.toHL, Hier.cladesL, T.masksPostL, List.mem_append, toH_clades c x, toHL_clades cs x]
end

theorem withLen_toH (t : T) (l : Option Frac) : T.toH (t.withLen l) = T.toH t := by
  cases t with
  | node i x l' s cs => cases cs <;> simp [T.withLen, T.toH]

theorem toHL_length : ∀ cs : List T, (T.toHL cs).length = cs.length
  | [] => rfl
  | c :: cs => by simp [T.toHL, toHL_length cs]

mutual
theorem sup_toH : ∀ t : T, T.toH (T.sup t) = Hier.sup (T.toH t)
  | .node i x l s [] => by
    cases x <;> simp [T.sup, T.supL, T.toH, Hier.sup, Hier.supL]
  | .node i x l s (c :: cs) => by
    have h := supL_toH (c :: cs)
    simp only [T.sup, T.toH, Hier.sup]
    rw [← h]
    cases hs : T.supL (c :: cs) with
    | nil => simp [T.supL] at hs
    | cons d ds =>
      cases ds with
      | nil => simp [T.toHL, withLen_toH]
      | cons e es => simp [T.toHL, T.toH]
theorem supL_toH : ∀ cs : List T, T.toHL (T.supL cs) = Hier.supL (T.toHL cs)
  | [] => rfl
  | c :: cs => by simp [T.supL, T.toHL, Hier.supL, sup_toH c, supL_toH cs]
end

end DendroModel.C01.Aux

namespace DendroModel.C01
open DendroModel DendroModel.Hier DendroModel.C01.Aux

/-! ### tie (A): the regenerated integer functions mean what the theory assumes -/

/-- `Bipartition.normalize_bitmask` on natural arguments is LSB-0 normalisation within `L` -/
theorem normalize_refines (m L lo : Nat) :
    PyBits.normalize_bitmask (m : Int) (L : Int) (lo : Int) = ((Hier.norm L lo m : Nat) : Int) := by
  unfold PyBits.normalize_bitmask Hier.norm
  simp only [pyAnd_cast, pyAnd_not_cast]
  by_cases h : m &&& lo = 0
  · simp [h]
  · have : ((m &&& lo : Nat) : Int) ≠ 0 := by omega
    simp [h, this]

/-- `bitprocessing.least_significant_set_bit` is `(n &&& (n-1)) ^^^ n`, i.e. the lowest set bit -/
theorem lsb_refines (n : Nat) :
    PyBits.least_significant_set_bit (n : Int) = ((Lsb.lsb n : Nat) : Int) := by
  unfold PyBits.least_significant_set_bit Lsb.lsb
  by_cases h : n = 0
  · subst h; decide
  · rw [sub_one_cast (by omega), pyAnd_cast, pyXor_cast]

/-- the lowest set bit of a positive mask is a single bit, set in the mask, with nothing set below it -/
theorem lsb_spec (n : Nat) (h : 0 < n) :
    ∃ k, Lsb.lsb n = 1 <<< k ∧ n.testBit k = true ∧ ∀ j, j < k → n.testBit j = false := by
  rw [Lsb.lsb_eq_low n h]; exact low_spec n h

/-- `Bipartition.is_trivial_bitmask` within a fill: a side of the split has at most one member.
    (`x &&& (x-1) = 0` is "at most one bit set".) -/
theorem is_trivial_refines (a f : Nat) :
    PyBits.is_trivial_bitmask (a : Int) (f : Int)
      = (decide (a = 0) || decide (a = f) || decide (((a &&& f) - 1) &&& (a &&& f) = 0)
          || decide ((sdiff f a - 1) &&& sdiff f a = 0)) := by
  unfold PyBits.is_trivial_bitmask
  simp only [pyAnd_cast, pyAnd_not_cast]
  have e1 : ∀ x : Nat, (pyAnd ((x : Int) - 1) (x : Int) = 0) ↔ ((x - 1) &&& x = 0) := by
    intro x
    by_cases hx : x = 0
    · subst hx; decide
    · rw [sub_one_cast (by omega), pyAnd_cast]; omega
  by_cases h0 : a = 0
  · simp [h0]
  by_cases hf : a = f
  · simp [hf]
  have h0' : ¬ ((a : Int) = 0) := by omega
  have hf' : ¬ ((a : Int) = (f : Int)) := by omega
  simp only [h0, hf, h0', hf', decide_false, Bool.false_or, Bool.or_self, Bool.false_eq_true, if_false]
  by_cases h1 : ((a &&& f) - 1) &&& (a &&& f) = 0
  · have := (e1 (a &&& f)).mpr h1
    simp [h1, this]
  · have : ¬ (pyAnd (((a &&& f : Nat) : Int) - 1) ((a &&& f : Nat) : Int) = 0) := fun hh => h1 ((e1 _).mp hh)
    by_cases h2 : (sdiff f a - 1) &&& sdiff f a = 0
    · have h2' := (e1 (sdiff f a)).mpr h2
      simp [h1, this, h2, h2']
    · have h2' : ¬ (pyAnd (((sdiff f a : Nat) : Int) - 1) ((sdiff f a : Nat) : Int) = 0) := fun hh => h2 ((e1 _).mp hh)
      simp [h1, this, h2, h2']

/-- `Bipartition.is_compatible_bitmasks` on masks within a non-empty fill: disjoint, or nested either way
    (the fourth test of the code, `c1 & c2`, is the third again). -/
theorem is_compatible_refines (a b f : Nat) (hf : f ≠ 0) :
    PyBits.is_compatible_bitmasks (a : Int) (b : Int) (f : Int)
      = (decide ((f &&& a) &&& (f &&& b) = 0)
          || decide ((f &&& a) &&& ((f &&& a) ^^^ (f &&& b)) = 0)
          || decide ((f ^^^ (f &&& a)) &&& (f &&& b) = 0)
          || decide ((f ^^^ (f &&& a)) &&& ((f &&& a) ^^^ (f &&& b)) = 0)) := by
  unfold PyBits.is_compatible_bitmasks
  have hf' : (f : Int) ≠ 0 := by omega
  simp only [hf', ne_eq, not_false_eq_true, decide_true, if_true, pyAnd_cast, pyXor_cast]
  have e : ∀ x : Nat, ((0 : Int) = (x : Int)) ↔ (x = 0) := by intro x; omega
  by_cases h1 : (f &&& a) &&& (f &&& b) = 0
  · simp [h1]
  by_cases h2 : (f &&& a) &&& ((f &&& a) ^^^ (f &&& b)) = 0
  · simp [h1, h2, e]
  by_cases h3 : (f ^^^ (f &&& a)) &&& (f &&& b) = 0
  · simp [h1, h2, h3, e]
  by_cases h4 : (f ^^^ (f &&& a)) &&& ((f &&& a) ^^^ (f &&& b)) = 0
  · simp [h1, h2, h3, h4, e]
  · simp [h1, h2, h3, h4, e]

/-! ### (a) leafset masks -/

mutual
/-- a bit is in a node's leafset mask iff a leaf below it carries that taxon -/
theorem mask_spec : ∀ (t : T) (i : Nat), (T.mask t).testBit i = true ↔ ∃ l ∈ T.leaves t, l.taxon = some i
  | .node j x l s [], i => by
    cases x with
    | none => simp [T.mask, T.leaves, T.taxon]
    | some k =>
      simp only [T.mask, T.leaves, List.mem_singleton, exists_eq_left, T.taxon, Option.some.injEq]
      rw [Nat.testBit_shiftLeft]
      constructor
      · intro h
        simp only [ge_iff_le, Bool.and_eq_true, decide_eq_true_eq] at h
        have : i - k = 0 := by
          by_contra hne
          obtain ⟨q, hq⟩ := Nat.exists_eq_succ_of_ne_zero hne
          rw [hq] at h; simp [Nat.testBit_succ] at h
        omega
      · intro h; subst h; simp
  | .node j x l s (c :: cs), i => by
    simp only [T.mask, T.leaves]; exact maskL_spec (c :: cs) i
theorem maskL_spec : ∀ (cs : List T) (i : Nat), (T.maskL cs).testBit i = true ↔ ∃ l ∈ T.leavesL cs, l.taxon = some i
  | [], i => by simp [T.maskL, T.leavesL]
  | c :: cs, i => by
    simp only [T.maskL, T.leavesL, Nat.testBit_or, Bool.or_eq_true, List.mem_append, mask_spec c i, maskL_spec cs i]
    constructor
    · rintro (⟨l, h1, h2⟩ | ⟨l, h1, h2⟩)
      · exact ⟨l, Or.inl h1, h2⟩
      · exact ⟨l, Or.inr h1, h2⟩
    · rintro ⟨l, h1 | h1, h2⟩
      · exact Or.inl ⟨l, h1, h2⟩
      · exact Or.inr ⟨l, h1, h2⟩
end

/-! ### (b) split masks -/

/-- the split mask the encoder assigns: the leafset on a rooted tree; on an unrooted tree the leafset
    normalised within the tree's OWN leafset `L` on `L`'s lowest set bit (not bit 0, not the namespace) -/
theorem split_spec (rooted : Bool) (L m : Nat) :
    splitOf rooted L m = ((if rooted then m else Hier.norm L (Lsb.lsb L) m : Nat) : Int) := by
  unfold splitOf lsbOf
  cases rooted
  · simp only [Bool.false_eq_true, if_false]
    rw [lsb_refines, normalize_refines]
  · simp

/-- … and what normalisation means as sets: with `k` the lowest taxon bit present on the tree, a leafset
    containing `k` is replaced by its complement within the tree's leafset, any other is kept -/
theorem norm_sets (L m : Nat) (hL : 0 < L) (hm : bits m ⊆ bits L) :
    ∃ k, k ∈ bits L ∧ (∀ j, j < k → j ∉ bits L) ∧
      (k ∈ bits m → bits (Hier.norm L (Lsb.lsb L) m) = bits L \ bits m) ∧
      (k ∉ bits m → bits (Hier.norm L (Lsb.lsb L) m) = bits m) := by
  obtain ⟨k, hk, hkL, hlow⟩ := lsb_spec L hL
  refine ⟨k, hkL, fun j hj => by simpa [bits] using hlow j hj, ?_⟩
  unfold Hier.norm
  have hand : (m &&& Lsb.lsb L ≠ 0) ↔ k ∈ bits m := by
    rw [hk]
    constructor
    · intro h
      by_contra hn
      apply h
      apply bits_inj
      rw [bits_and, bits_shift, bits_zero]
      ext x; simp only [Set.mem_inter_iff, Set.mem_singleton_iff, Set.mem_empty_iff_false, iff_false, not_and]
      intro hx hxk; subst hxk; exact hn hx
    · intro h hz
      have : k ∈ bits (m &&& 1 <<< k) := by rw [bits_and, bits_shift]; exact ⟨h, rfl⟩
      rw [hz, bits_zero] at this; exact this
  constructor
  · intro hkm
    rw [if_pos (hand.mpr hkm), bits_sdiff]
  · intro hkm
    rw [if_neg (fun h => hkm (hand.mp h)), bits_and]
    exact Set.inter_eq_left.mpr hm

/-! ### (c) equal split sets ⇔ same topology -/

/-- rooted: two well-formed trees have equal sets of leafset (= split) masks after encoding iff they are the same
    topology up to child order once unifurcations are suppressed.  `T.toH` forgets ids, lengths and labels. -/
theorem rooted_splits_iff_topology (t u : T)
    (hgt : Good (T.toH t)) (ht0 : T.mask t ≠ 0) (hgu : Good (T.toH u)) (hu0 : T.mask u ≠ 0) :
    (∀ x, x ∈ T.masksPost t ↔ x ∈ T.masksPost u) ↔ Iso (Hier.sup (T.toH t)) (Hier.sup (T.toH u)) := by
  rw [← clades_eq_iff_iso (T.toH t) (T.toH u) hgt (by rw [toH_mask]; exact ht0) hgu (by rw [toH_mask]; exact hu0)]
  constructor
  · intro h x; rw [toH_clades, toH_clades]; exact h x
  · intro h x; rw [← toH_clades, ← toH_clades]; exact h x

/-- the encoder's unifurcation suppression does not change the set of leafset masks (nor the tree's leafset),
    and corresponds to suppression on the mask-labelled view -/
theorem suppress_keeps_masks (t : T) :
    T.toH (T.sup t) = Hier.sup (T.toH t) ∧ T.mask (T.sup t) = T.mask t
      ∧ ∀ x, x ∈ T.masksPost (T.sup t) ↔ x ∈ T.masksPost t := by
  refine ⟨sup_toH t, ?_, ?_⟩
  · rw [← toH_mask, sup_toH, sup_mask, toH_mask]
  · intro x; rw [← toH_clades, sup_toH, sup_clades, toH_clades]

/-- unrooted, seed position: one edge inversion at the root — the step `reseed_at` iterates — leaves the set of
    normalised split masks unchanged (`lo` any single bit of the tree's leafset, in particular its lowest) -/
theorem unrooted_splits_invariant_under_inversion (lo : Nat) (pre ds post : List Hier.T)
    (hg : GoodL (pre ++ .node ds :: post)) (hlo : bits lo ⊆ bits (maskL (pre ++ .node ds :: post)))
    (hsingle : ∀ a, bits lo ⊆ bits a ∨ Disjoint (bits lo) (bits a)) (hne : lo ≠ 0) :
    ∀ s, s ∈ usplits lo (invertAt pre ds post) ↔ s ∈ usplits lo (.node (pre ++ .node ds :: post)) :=
  usplits_invert lo pre ds post hg hlo hsingle hne

/-- unrooted, sufficiency: for two well-formed unifurcation-free trees over the same leaves, both seeded next to the lowest
    leaf (the canonical seed position; every unrooted tree reaches it by edge inversions, which keep the normalised split
    set by the previous theorem), equal sets of normalised split masks ⇒ the same tree up to child order -/
theorem unrooted_splits_determine_topology (k : Nat) (t u : Hier.T) (hgt : Good t) (hgu : Good u)
    (hnt : NoUnif t) (hnu : NoUnif u) (hct : Canon k t) (hcu : Canon k u) (hL : Hier.mask t = Hier.mask u)
    (hs : ∀ s, s ∈ usplits (1 <<< k) t ↔ s ∈ usplits (1 <<< k) u) : Iso t u :=
  usplits_injective_canon k t u hgt hgu hnt hnu hct hcu hL hs

/-- … and what the normalised split set of a tree in canonical position is: the complement of the lowest leaf, plus the
    clades of the other children of the seed, unchanged -/
theorem unrooted_splits_canonical_form (k : Nat) (cs : List Hier.T) (hg : GoodL cs) (hk : Hier.T.leaf k ∈ cs) (x : Nat) :
    x ∈ usplits (1 <<< k) (.node cs) ↔
      x = sdiff (maskL cs) (1 <<< k) ∨ ∃ c ∈ cs, c ≠ Hier.T.leaf k ∧ x ∈ clades c :=
  usplits_canon hg hk x

/-! ### (d) reconstruction from an encoding, in any order -/

/-- one insertion: a non-empty split contained in the root leafset, laminar with every clade and not yet present is
    added as exactly one new clade; the tree stays well formed and keeps its leafset -/
theorem insert_spec (S : Nat) (h0 : S ≠ 0) (t : Hier.T) (hg : Good t) (hsub : S &&& Hier.mask t = S)
    (hc : Compat S (clades t)) (hn : S ∉ clades t) :
    Hier.mask (addSplit t S) = Hier.mask t ∧ Good (addSplit t S) ∧ ∀ x, x ∈ clades (addSplit t S) ↔ x = S ∨ x ∈ clades t := by
  unfold addSplit
  simp only [hsub, bne_self_eq_false, Bool.false_eq_true, if_false]
  exact ins_spec S h0 t hg hsub hc hn

/-- a split that is not contained in the root leafset is skipped -/
theorem skip_spec (S : Nat) (t : Hier.T) (h : S &&& Hier.mask t ≠ S) : addSplit t S = t := by
  unfold addSplit; simp [h]

/-- folding the insertion over a pairwise-laminar list **in any order** adds exactly those clades -/
theorem build_spec (t0 : Hier.T) (ss : List Nat) (hg : Good t0)
    (hss : ∀ s ∈ ss, s ≠ 0 ∧ s &&& Hier.mask t0 = s ∧ Compat s (clades t0))
    (hlam : ∀ s ∈ ss, ∀ b ∈ ss, Lam s b) :
    Good (ss.foldl addSplit t0) ∧ Hier.mask (ss.foldl addSplit t0) = Hier.mask t0 ∧
      ∀ x, x ∈ clades (ss.foldl addSplit t0) ↔ x ∈ clades t0 ∨ x ∈ ss := by
  -- addSplit coincides with `ins` as long as the leafset is preserved, which `Hier.build_spec` guarantees stepwise
  have hgen : ∀ (ss : List Nat) (t : Hier.T) (done : List Nat),
      Good t → Hier.mask t = Hier.mask t0 → (∀ x, x ∈ clades t ↔ x ∈ clades t0 ∨ x ∈ done) →
      (∀ s ∈ ss, s ≠ 0 ∧ s &&& Hier.mask t0 = s ∧ Compat s (clades t0)) →
      (∀ s ∈ ss, ∀ b ∈ done ++ ss, Lam s b) →
      ss.foldl addSplit t = buildFrom t ss := by
    intro ss
    induction ss with
    | nil => intros; rfl
    | cons s rest ih =>
      intro t done hgt hm hcl hs hl
      have hs1 := hs s (by simp)
      have hadd : addSplit t s = ins s t := by
        unfold addSplit; rw [hm]; simp [hs1.2.1]
      simp only [List.foldl_cons, buildFrom_cons, hadd]
      have step := Hier.build_spec t0 [s] t done hgt hm hcl (by intro s' h'; simp at h'; subst h'; exact hs1)
        (by intro s' h' b hb; simp at h'; subst h'; exact hl s' (by simp) b (by simp at hb ⊢; tauto))
      simp only [buildFrom, List.foldl_cons, List.foldl_nil] at step
      exact ih (ins s t) (s :: done) step.1 step.2.1
        (by intro x; rw [step.2.2 x]; simp; tauto)
        (fun s' h' => hs s' (by simp [h']))
        (by intro s' h' b hb; exact hl s' (by simp [h']) b (by simp at hb ⊢; tauto))
  have hE := hgen ss t0 [] hg rfl (by intro x; simp) hss (by simpa using hlam)
  rw [hE]
  have := Hier.build_spec t0 ss t0 [] hg rfl (by intro x; simp) hss (by simpa using hlam)
  refine ⟨this.1, this.2.1, ?_⟩
  intro x; rw [this.2.2 x]; simp

/-- clades of one well-formed tree are pairwise laminar, so an encoding always meets the hypothesis of `build_spec` -/
theorem encoding_is_laminar (t : Hier.T) (hg : Good t) : ∀ x ∈ clades t, ∀ y ∈ clades t, Lam x y :=
  clades_laminar t hg

/-! non-vacuity: the hypotheses are met by concrete trees -/
example : Good (T.toH (.node 0 none none none [.node 1 (some 0) none none [], .node 2 none none none
    [.node 3 (some 2) none none [], .node 4 (some 3) none none []]])) := by
  simp [T.toH, T.toHL, Good, GoodL, Hier.mask, Hier.maskL]
example : (encode (some false) true true (.node 0 none none none [.node 1 (some 0) none none [], .node 2 none none none
    [.node 3 (some 2) none none [], .node 4 (some 3) none none []]])).map Prod.fst = [1, 4, 8, 13] := by decide

end DendroModel.C01
