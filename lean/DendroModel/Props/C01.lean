import DendroModel.Model.C01
import DendroModel.Theory.IsoSame
import DendroModel.Theory.Reseed
import DendroModel.Theory.Unrooted
import DendroModel.Theory.Laminar
import DendroModel.Theory.Lsb
import DendroModel.Theory.C01Bridge
import DendroModel.Theory.C01Reseed
import DendroModel.Theory.C01Sort
import DendroModel.Theory.C01Small
import DendroModel.Theory.C01Ext
/-! C01 — property theorems.  Obligations are the theorems directly in `namespace DendroModel.C01`;
helpers live in `DendroModel.C01.Aux`.  The statements about `PyBits.*` are about definitions regenerated
from the current source on every run. -/
namespace DendroModel.C01.Aux
open DendroModel DendroModel.Hier

theorem pyAnd_cast (a b : Nat) : pyAnd (a : Int) (b : Int) = ((a &&& b : Nat) : Int) := rfl
theorem pyAnd_not_cast (b f : Nat) : pyAnd (pyNot (b : Int)) (f : Int) = ((sdiff f b : Nat) : Int) := rfl
theorem pyXor_cast (a b : Nat) : pyXor (a : Int) (b : Int) = ((a ^^^ b : Nat) : Int) := rfl

theorem cast_ne_zero (a : Nat) : ((a : Int) ≠ 0) ↔ a ≠ 0 := by omega

theorem sub_one_cast {n : Nat} (h : 0 < n) : ((n : Int) - 1) = ((n - 1 : Nat) : Int) := by omega

/-! helper lemmas that do not depend on how the source spells a formula: equivalent canonical forms (`n & -n` for the lowest set
bit, either operand order of the one-bit test) are normalised to the same statement, so that the refinement theorems below close
for a semantics-preserving rewrite of the source while a semantic change still breaks them -/
theorem pyAnd_comm' (a b : Int) : pyAnd a b = pyAnd b a := by
  cases a <;> cases b <;> simp [pyAnd, Nat.and_comm, Nat.or_comm]

/-- `n & -n` and `(n & (n-1)) ^ n` are the same lowest-set-bit formula -/
theorem pyAnd_neg_self (n : Nat) : pyAnd (n : Int) (-(n : Int)) = ((Lsb.lsb n : Nat) : Int) := by
  cases n with
  | zero => decide
  | succ k =>
    show pyAnd (Int.ofNat (k + 1)) (Int.negSucc k) = _
    simp [pyAnd, natDiff, Lsb.lsb, Nat.xor_comm]

theorem lsb_xor_form (n : Nat) : pyXor (pyAnd (n : Int) ((n : Int) - 1)) (n : Int) = ((Lsb.lsb n : Nat) : Int) := by
  unfold Lsb.lsb
  by_cases h : n = 0
  · subst h; decide
  · rw [sub_one_cast (by omega), pyAnd_cast, pyXor_cast]

/-- "at most one bit", either operand order, on a cast natural -/
theorem one_bit_cast (x : Nat) : (pyAnd ((x : Int) - 1) (x : Int) = 0) ↔ ((x - 1) &&& x = 0) := by
  by_cases hx : x = 0
  · subst hx; decide
  · rw [sub_one_cast (by omega), pyAnd_cast]; omega
theorem one_bit_cast' (x : Nat) : (pyAnd (x : Int) ((x : Int) - 1) = 0) ↔ ((x - 1) &&& x = 0) := by
  rw [pyAnd_comm']; exact one_bit_cast x


/-- the least set bit of a positive number, as an index -/
theorem low_spec : ∀ n : Nat, 0 < n → ∃ k, Lsb.low n = 1 <<< k ∧ n.testBit k = true ∧ ∀ j, j < k → n.testBit j = false := by
  intro n
  induction n using Nat.strong_induction_on with
  | _ n ih =>
    intro hn
    obtain ⟨m, rfl⟩ : ∃ m, n = m + 1 := ⟨n - 1, by omega⟩
    rw [Lsb.low]
    by_cases hodd : (m + 1) % 2 = 1
    · refine ⟨0, by simp [hodd], ?_, by intro j hj; omega⟩
      simp [Nat.testBit_zero, hodd]
    · simp only [hodd, if_false]
      have hk : 0 < (m + 1) / 2 := by omega
      obtain ⟨k, h1, h2, h3⟩ := ih ((m + 1) / 2) (by omega) hk
      refine ⟨k + 1, ?_, ?_, ?_⟩
      · rw [h1, Nat.shiftLeft_succ, Nat.mul_comm]
      · rw [Nat.testBit_succ]; exact h2
      · intro j hj
        cases j with
        | zero => simp [Nat.testBit_zero]; omega
        | succ j => rw [Nat.testBit_succ]; exact h3 j (by omega)

mutual
theorem toH_mask : ∀ t : T, Hier.mask (T.toH t) = T.mask t
  | .node _ x _ _ [] => by cases x <;> simp [T.toH, Hier.mask, Hier.maskL, T.mask]
  | .node _ _ _ _ (c :: cs) => by
    simp only [T.toH, Hier.mask, T.mask]; exact toHL_mask (c :: cs)
theorem toHL_mask : ∀ cs : List T, Hier.maskL (T.toHL cs) = T.maskL cs
  | [] => rfl
  | c :: cs => by simp [T.toHL, Hier.maskL, T.maskL, toH_mask c, toHL_mask cs]
end

mutual
theorem toH_clades : ∀ (t : T) (x : Nat), x ∈ Hier.clades (T.toH t) ↔ x ∈ T.masksPost t
  | .node i tx l s [], x => by
    cases tx <;> simp [T.toH, Hier.clades, Hier.cladesL, Hier.maskL, T.masksPost, T.masksPostL, T.mask]
  | .node i tx l s (c :: cs), x => by
    have h := toHL_clades (c :: cs) x
    have hm := toHL_mask (c :: cs)
    simp only [T.toH, Hier.clades, T.masksPost, List.mem_cons, List.mem_append, List.mem_singleton, hm, h, T.mask]
    tauto
theorem toHL_clades : ∀ (cs : List T) (x : Nat), x ∈ Hier.cladesL (T.toHL cs) ↔ x ∈ T.masksPostL cs
  | [], x => by simp [T.toHL, Hier.cladesL, T.masksPostL]
  | c :: cs, x => by
    simp only [T.toHL, Hier.cladesL, T.masksPostL, List.mem_append, toH_clades c x, toHL_clades cs x]
end

theorem withLen_toH (t : T) (l : Option Frac) : T.toH (t.withLen l) = T.toH t := by
  cases t with
  | node i x l' s cs => cases cs <;> simp [T.withLen, T.toH]

theorem toHL_length : ∀ cs : List T, (T.toHL cs).length = cs.length
  | [] => rfl
  | c :: cs => by simp [T.toHL, toHL_length cs]

mutual
theorem sup_toH : ∀ t : T, T.toH (T.sup t) = Hier.sup (T.toH t)
  | .node i x l s [] => by
    cases x <;> simp [T.sup, T.supL, T.toH, Hier.sup, Hier.supL]
  | .node i x l s (c :: cs) => by
    have h := supL_toH (c :: cs)
    simp only [T.sup, T.toH, Hier.sup]
    rw [← h]
    cases hs : T.supL (c :: cs) with
    | nil => simp [T.supL] at hs
    | cons d ds =>
      cases ds with
      | nil => simp [T.toHL, withLen_toH]
      | cons e es => simp [T.toHL, T.toH]
theorem supL_toH : ∀ cs : List T, T.toHL (T.supL cs) = Hier.supL (T.toHL cs)
  | [] => rfl
  | c :: cs => by simp [T.supL, T.toHL, Hier.supL, sup_toH c, supL_toH cs]
end

end DendroModel.C01.Aux

namespace DendroModel.C01
open DendroModel DendroModel.Hier DendroModel.C01.Aux

/-! ### tie (A): the regenerated integer functions mean what the theory assumes -/

/-- `Bipartition.normalize_bitmask` on natural arguments is LSB-0 normalisation within `L` -/
theorem normalize_refines (m L lo : Nat) :
    PyBits.normalize_bitmask (m : Int) (L : Int) (lo : Int) = ((Hier.norm L lo m : Nat) : Int) := by
  unfold PyBits.normalize_bitmask Hier.norm
  try simp only [Ext.pyXor_and_self]
  by_cases h : m &&& lo = 0 <;> simp [pyAnd_cast, pyAnd_not_cast, h]

/-- `bitprocessing.least_significant_set_bit` is `(n &&& (n-1)) ^^^ n`, i.e. the lowest set bit -/
theorem lsb_refines (n : Nat) :
    PyBits.least_significant_set_bit (n : Int) = ((Lsb.lsb n : Nat) : Int) := by
  unfold PyBits.least_significant_set_bit
  first | exact lsb_xor_form n | exact pyAnd_neg_self n

/-- the lowest set bit of a positive mask is a single bit, set in the mask, with nothing set below it -/
theorem lsb_spec (n : Nat) (h : 0 < n) :
    ∃ k, Lsb.lsb n = 1 <<< k ∧ n.testBit k = true ∧ ∀ j, j < k → n.testBit j = false := by
  rw [Lsb.lsb_eq_low n h]; exact low_spec n h

/-- `Bipartition.is_trivial_bitmask` within a fill: a side of the split has at most one member.
    (`x &&& (x-1) = 0` is "at most one bit set".) -/
theorem is_trivial_refines (a f : Nat) :
    PyBits.is_trivial_bitmask (a : Int) (f : Int)
      = (decide (a = 0) || decide (a = f) || decide (((a &&& f) - 1) &&& (a &&& f) = 0)
          || decide ((sdiff f a - 1) &&& sdiff f a = 0)) := by
  unfold PyBits.is_trivial_bitmask
  simp only [pyAnd_cast, pyAnd_not_cast]
  by_cases h0 : a = 0 <;> by_cases hf : a = f <;> by_cases h1 : ((a &&& f) - 1) &&& (a &&& f) = 0 <;>
    by_cases h2 : (sdiff f a - 1) &&& sdiff f a = 0 <;>
    simp [h0, hf, h1, h2, one_bit_cast, one_bit_cast']

/-- `Bipartition.is_compatible_bitmasks` on masks within a non-empty fill: disjoint, or nested either way
    (the fourth test of the code, `c1 & c2`, is the third again). -/
theorem is_compatible_refines (a b f : Nat) (hf : f ≠ 0) :
    PyBits.is_compatible_bitmasks (a : Int) (b : Int) (f : Int)
      = (decide ((f &&& a) &&& (f &&& b) = 0)
          || decide ((f &&& a) &&& ((f &&& a) ^^^ (f &&& b)) = 0)
          || decide ((f ^^^ (f &&& a)) &&& (f &&& b) = 0)
          || decide ((f ^^^ (f &&& a)) &&& ((f &&& a) ^^^ (f &&& b)) = 0)) := by
  unfold PyBits.is_compatible_bitmasks
  have hf' : (f : Int) ≠ 0 := by omega
  simp only [hf', ne_eq, not_false_eq_true, decide_true, if_true, pyAnd_cast, pyXor_cast]
  have e : ∀ x : Nat, ((0 : Int) = (x : Int)) ↔ (x = 0) := by intro x; omega
  by_cases h1 : (f &&& a) &&& (f &&& b) = 0
  · simp [h1]
  by_cases h2 : (f &&& a) &&& ((f &&& a) ^^^ (f &&& b)) = 0
  · simp [h1, h2, e]
  by_cases h3 : (f ^^^ (f &&& a)) &&& (f &&& b) = 0
  · simp [h1, h2, h3, e]
  by_cases h4 : (f ^^^ (f &&& a)) &&& ((f &&& a) ^^^ (f &&& b)) = 0
  · simp [h1, h2, h3, h4, e]
  · simp [h1, h2, h3, h4, e]

/-! ### (a) leafset masks -/

mutual
/-- a bit is in a node's leafset mask iff a leaf below it carries that taxon -/
theorem mask_spec : ∀ (t : T) (i : Nat), (T.mask t).testBit i = true ↔ ∃ l ∈ T.leaves t, l.taxon = some i
  | .node j x l s [], i => by
    cases x with
    | none => simp [T.mask, T.leaves, T.taxon]
    | some k =>
      simp only [T.mask, T.leaves, List.mem_singleton, exists_eq_left, T.taxon, Option.some.injEq]
      rw [Nat.testBit_shiftLeft]
      constructor
      · intro h
        simp only [ge_iff_le, Bool.and_eq_true, decide_eq_true_eq] at h
        have : i - k = 0 := by
          by_contra hne
          obtain ⟨q, hq⟩ := Nat.exists_eq_succ_of_ne_zero hne
          rw [hq] at h; simp [Nat.testBit_succ] at h
        omega
      · intro h; subst h; simp
  | .node j x l s (c :: cs), i => by
    simp only [T.mask, T.leaves]; exact maskL_spec (c :: cs) i
theorem maskL_spec : ∀ (cs : List T) (i : Nat), (T.maskL cs).testBit i = true ↔ ∃ l ∈ T.leavesL cs, l.taxon = some i
  | [], i => by simp [T.maskL, T.leavesL]
  | c :: cs, i => by
    simp only [T.maskL, T.leavesL, Nat.testBit_or, Bool.or_eq_true, List.mem_append, mask_spec c i, maskL_spec cs i]
    constructor
    · rintro (⟨l, h1, h2⟩ | ⟨l, h1, h2⟩)
      · exact ⟨l, Or.inl h1, h2⟩
      · exact ⟨l, Or.inr h1, h2⟩
    · rintro ⟨l, h1 | h1, h2⟩
      · exact Or.inl ⟨l, h1, h2⟩
      · exact Or.inr ⟨l, h1, h2⟩
end

/-! ### (b) split masks -/

/-- the split mask the encoder assigns: the leafset on a rooted tree; on an unrooted tree the leafset
    normalised within the tree's OWN leafset `L` on `L`'s lowest set bit (not bit 0, not the namespace) -/
theorem split_spec (rooted : Bool) (L m : Nat) :
    splitOf rooted L m = ((if rooted then m else Hier.norm L (Lsb.lsb L) m : Nat) : Int) := by
  unfold splitOf lsbOf
  cases rooted
  · simp only [Bool.false_eq_true, if_false]
    rw [lsb_refines, normalize_refines]
  · simp

/-- … and what normalisation means as sets: with `k` the lowest taxon bit present on the tree, a leafset
    containing `k` is replaced by its complement within the tree's leafset, any other is kept -/
theorem norm_sets (L m : Nat) (hL : 0 < L) (hm : bits m ⊆ bits L) :
    ∃ k, k ∈ bits L ∧ (∀ j, j < k → j ∉ bits L) ∧
      (k ∈ bits m → bits (Hier.norm L (Lsb.lsb L) m) = bits L \ bits m) ∧
      (k ∉ bits m → bits (Hier.norm L (Lsb.lsb L) m) = bits m) := by
  obtain ⟨k, hk, hkL, hlow⟩ := lsb_spec L hL
  refine ⟨k, hkL, fun j hj => by simpa [bits] using hlow j hj, ?_⟩
  unfold Hier.norm
  have hand : (m &&& Lsb.lsb L ≠ 0) ↔ k ∈ bits m := by
    rw [hk]
    constructor
    · intro h
      by_contra hn
      apply h
      apply bits_inj
      rw [bits_and, bits_shift, bits_zero]
      ext x; simp only [Set.mem_inter_iff, Set.mem_singleton_iff, Set.mem_empty_iff_false, iff_false, not_and]
      intro hx hxk; subst hxk; exact hn hx
    · intro h hz
      have : k ∈ bits (m &&& 1 <<< k) := by rw [bits_and, bits_shift]; exact ⟨h, rfl⟩
      rw [hz, bits_zero] at this; exact this
  constructor
  · intro hkm
    rw [if_pos (hand.mpr hkm), bits_sdiff]
  · intro hkm
    rw [if_neg (fun h => hkm (hand.mp h)), bits_and]
    exact Set.inter_eq_left.mpr hm

/-! ### (c) equal split sets ⇔ same topology -/

/-- rooted: two well-formed trees have equal sets of leafset (= split) masks after encoding iff they are the same
    topology up to child order once unifurcations are suppressed.  `T.toH` forgets ids, lengths and labels. -/
theorem rooted_splits_iff_topology (t u : T)
    (hgt : Good (T.toH t)) (ht0 : T.mask t ≠ 0) (hgu : Good (T.toH u)) (hu0 : T.mask u ≠ 0) :
    (∀ x, x ∈ T.masksPost t ↔ x ∈ T.masksPost u) ↔ Iso (Hier.sup (T.toH t)) (Hier.sup (T.toH u)) := by
  rw [← clades_eq_iff_iso (T.toH t) (T.toH u) hgt (by rw [toH_mask]; exact ht0) hgu (by rw [toH_mask]; exact hu0)]
  constructor
  · intro h x; rw [toH_clades, toH_clades]; exact h x
  · intro h x; rw [← toH_clades, ← toH_clades]; exact h x

/-- the encoder's unifurcation suppression does not change the set of leafset masks (nor the tree's leafset),
    and corresponds to suppression on the mask-labelled view -/
theorem suppress_keeps_masks (t : T) :
    T.toH (T.sup t) = Hier.sup (T.toH t) ∧ T.mask (T.sup t) = T.mask t
      ∧ ∀ x, x ∈ T.masksPost (T.sup t) ↔ x ∈ T.masksPost t := by
  refine ⟨sup_toH t, ?_, ?_⟩
  · rw [← toH_mask, sup_toH, sup_mask, toH_mask]
  · intro x; rw [← toH_clades, sup_toH, sup_clades, toH_clades]

/-- unrooted, seed position: one edge inversion at the root — the step `reseed_at` iterates — leaves the set of
    normalised split masks unchanged (`lo` any single bit of the tree's leafset, in particular its lowest) -/
theorem unrooted_splits_invariant_under_inversion (lo : Nat) (pre ds post : List Hier.T)
    (hg : GoodL (pre ++ .node ds :: post)) (hlo : bits lo ⊆ bits (maskL (pre ++ .node ds :: post)))
    (hsingle : ∀ a, bits lo ⊆ bits a ∨ Disjoint (bits lo) (bits a)) (hne : lo ≠ 0) :
    ∀ s, s ∈ usplits lo (invertAt pre ds post) ↔ s ∈ usplits lo (.node (pre ++ .node ds :: post)) :=
  usplits_invert lo pre ds post hg hlo hsingle hne

/-- unrooted, sufficiency: for two well-formed unifurcation-free trees over the same leaves, both seeded next to the lowest
    leaf (the canonical seed position; every unrooted tree reaches it by edge inversions, which keep the normalised split
    set by the previous theorem), equal sets of normalised split masks ⇒ the same tree up to child order -/
theorem unrooted_splits_determine_topology (k : Nat) (t u : Hier.T) (hgt : Good t) (hgu : Good u)
    (hnt : NoUnif t) (hnu : NoUnif u) (hct : Canon k t) (hcu : Canon k u) (hL : Hier.mask t = Hier.mask u)
    (hs : ∀ s, s ∈ usplits (1 <<< k) t ↔ s ∈ usplits (1 <<< k) u) : Iso t u :=
  usplits_injective_canon k t u hgt hgu hnt hnu hct hcu hL hs

/-- … and what the normalised split set of a tree in canonical position is: the complement of the lowest leaf, plus the
    clades of the other children of the seed, unchanged -/
theorem unrooted_splits_canonical_form (k : Nat) (cs : List Hier.T) (hg : GoodL cs) (hk : Hier.T.leaf k ∈ cs) (x : Nat) :
    x ∈ usplits (1 <<< k) (.node cs) ↔
      x = sdiff (maskL cs) (1 <<< k) ∨ ∃ c ∈ cs, c ≠ Hier.T.leaf k ∧ x ∈ clades c :=
  usplits_canon hg hk x

/-! ### (d) reconstruction from an encoding, in any order -/

/-- one insertion: a non-empty split contained in the root leafset, laminar with every clade and not yet present is
    added as exactly one new clade; the tree stays well formed and keeps its leafset -/
theorem insert_spec (S : Nat) (h0 : S ≠ 0) (t : Hier.T) (hg : Good t) (hsub : S &&& Hier.mask t = S)
    (hc : Compat S (clades t)) (hn : S ∉ clades t) :
    Hier.mask (addSplit t S) = Hier.mask t ∧ Good (addSplit t S) ∧ ∀ x, x ∈ clades (addSplit t S) ↔ x = S ∨ x ∈ clades t := by
  unfold addSplit
  simp only [hsub, bne_self_eq_false, Bool.false_eq_true, if_false]
  exact ins_spec S h0 t hg hsub hc hn

/-- a split that is not contained in the root leafset is skipped -/
theorem skip_spec (S : Nat) (t : Hier.T) (h : S &&& Hier.mask t ≠ S) : addSplit t S = t := by
  unfold addSplit; simp [h]

/-- folding the insertion over a pairwise-laminar list **in any order** adds exactly those clades -/
theorem build_spec (t0 : Hier.T) (ss : List Nat) (hg : Good t0)
    (hss : ∀ s ∈ ss, s ≠ 0 ∧ s &&& Hier.mask t0 = s ∧ Compat s (clades t0))
    (hlam : ∀ s ∈ ss, ∀ b ∈ ss, Lam s b) :
    Good (ss.foldl addSplit t0) ∧ Hier.mask (ss.foldl addSplit t0) = Hier.mask t0 ∧
      ∀ x, x ∈ clades (ss.foldl addSplit t0) ↔ x ∈ clades t0 ∨ x ∈ ss := by
  -- addSplit coincides with `ins` as long as the leafset is preserved, which `Hier.build_spec` guarantees stepwise
  have hgen : ∀ (ss : List Nat) (t : Hier.T) (done : List Nat),
      Good t → Hier.mask t = Hier.mask t0 → (∀ x, x ∈ clades t ↔ x ∈ clades t0 ∨ x ∈ done) →
      (∀ s ∈ ss, s ≠ 0 ∧ s &&& Hier.mask t0 = s ∧ Compat s (clades t0)) →
      (∀ s ∈ ss, ∀ b ∈ done ++ ss, Lam s b) →
      ss.foldl addSplit t = buildFrom t ss := by
    intro ss
    induction ss with
    | nil => intros; rfl
    | cons s rest ih =>
      intro t done hgt hm hcl hs hl
      have hs1 := hs s (by simp)
      have hadd : addSplit t s = ins s t := by
        unfold addSplit; rw [hm]; simp [hs1.2.1]
      simp only [List.foldl_cons, buildFrom_cons, hadd]
      have step := Hier.build_spec t0 [s] t done hgt hm hcl (by intro s' h'; simp at h'; subst h'; exact hs1)
        (by intro s' h' b hb; simp at h'; subst h'; exact hl s' (by simp) b (by simp at hb ⊢; tauto))
      simp only [buildFrom, List.foldl_cons, List.foldl_nil] at step
      exact ih (ins s t) (s :: done) step.1 step.2.1
        (by intro x; rw [step.2.2 x]; simp; tauto)
        (fun s' h' => hs s' (by simp [h']))
        (by intro s' h' b hb; exact hl s' (by simp [h']) b (by simp at hb ⊢; tauto))
  have hE := hgen ss t0 [] hg rfl (by intro x; simp) hss (by simpa using hlam)
  rw [hE]
  have := Hier.build_spec t0 ss t0 [] hg rfl (by intro x; simp) hss (by simpa using hlam)
  refine ⟨this.1, this.2.1, ?_⟩
  intro x; rw [this.2.2 x]; simp

/-- clades of one well-formed tree are pairwise laminar, so an encoding always meets the hypothesis of `build_spec` -/
theorem encoding_is_laminar (t : Hier.T) (hg : Good t) : ∀ x ∈ clades t, ∀ y ∈ clades t, Lam x y :=
  clades_laminar t hg

end DendroModel.C01

/-! ## bridges to the definitions the driver runs (added after audit H) -/
namespace DendroModel.C01.Aux
open DendroModel DendroModel.Hier DendroModel.C01

theorem lsb_zero : Lsb.lsb 0 = 0 := by decide

/-- the normalisation bit the encoder computes for a non-empty leafset: non-zero, inside the leafset, a single bit -/
theorem lsb_ok (L : Nat) (h : L ≠ 0) : Lsb.lsb L ≠ 0 ∧ bits (Lsb.lsb L) ⊆ bits L ∧
    ∀ a, bits (Lsb.lsb L) ⊆ bits a ∨ Disjoint (bits (Lsb.lsb L)) (bits a) := by
  obtain ⟨k, hk, hkL, _⟩ := lsb_spec L (by omega)
  rw [hk, bits_shift]
  refine ⟨shift_ne_zero k, Set.singleton_subset_iff.mpr hkL, fun a => ?_⟩
  by_cases hka : k ∈ bits a
  · exact Or.inl (Set.singleton_subset_iff.mpr hka)
  · exact Or.inr (Set.disjoint_singleton_left.mpr hka)

theorem norm_root (L : Nat) : Hier.norm L (Lsb.lsb L) L = 0 := by
  by_cases h : L = 0
  · subst h; simp [Hier.norm, lsb_zero]
  · obtain ⟨h1, h2, _⟩ := lsb_ok L h
    exact Bridge.norm_self L _ h1 h2

/-- `x &&& (x-1) = 0` says "at most one member" -/
theorem pred_and_zero_iff (m : Nat) : (m - 1) &&& m = 0 ↔ (bits m).Subsingleton := by
  by_cases h0 : m = 0
  · subst h0; simp [Set.subsingleton_empty]
  · obtain ⟨k, hk, hkm, _⟩ := lsb_spec m (by omega)
    constructor
    · intro h
      unfold Lsb.lsb at hk
      rw [Nat.and_comm, h, Nat.zero_xor] at hk
      rw [hk, bits_shift]; exact Set.subsingleton_singleton
    · intro h
      have hm : m = 1 <<< k := by
        apply bits_inj; rw [bits_shift]
        ext j; constructor
        · intro hj; exact h hj hkm
        · intro hj; rw [Set.mem_singleton_iff] at hj; subst hj; exact hkm
      have e : Lsb.lsb m = m := hk.trans hm.symm
      unfold Lsb.lsb at e
      have : (m &&& (m - 1)) = ((m &&& (m - 1)) ^^^ m) ^^^ m := by
        rw [Nat.xor_assoc, Nat.xor_self, Nat.xor_zero]
      rw [e, Nat.xor_self] at this
      rw [Nat.and_comm]; exact this

theorem tsup_mask (t : T) : (T.sup t).mask = t.mask := (suppress_keeps_masks t).2.1

theorem encodeTree_mask (r : Option Bool) (s c : Bool) (t : T) : (encodeTree r s c t).mask = t.mask := by
  unfold encodeTree
  by_cases hc : (c && r != some true && t.cs.length == 2) = true <;> cases s <;>
    simp [hc, tsup_mask, Bridge.collapse_mask]

theorem good_basal_disjoint (t : T) (hg : Good (T.toH t)) : ∀ a b, t.cs = [a, b] → a.mask &&& b.mask = 0 := by
  intro a b h
  cases t with
  | node i x l s cs =>
    simp only [T.cs] at h; subst h
    simp only [T.toH, T.toHL, Good, GoodL, Hier.maskL, toH_mask, Nat.or_zero] at hg
    exact hg.2.2.1

theorem mem_encode_splits (r : Option Bool) (s c : Bool) (t : T) (z : Int) :
    z ∈ (encode r s c t).map (·.2) ↔
      ∃ m ∈ (encodeTree r s c t).masksPost, splitOf (r == some true) (encodeTree r s c t).mask m = z := by
  simp [encode, List.mem_map]

/-- rooted: the split masks `encode` emits are exactly the leafset masks of the tree it was given -/
theorem mem_encode_rooted (s c : Bool) (t : T) (z : Int) :
    z ∈ (encode (some true) s c t).map (·.2) ↔ ∃ x : Nat, z = (x : Int) ∧ x ∈ t.masksPost := by
  rw [mem_encode_splits]
  have e : encodeTree (some true) s c t = if s then t.sup else t := by simp [encodeTree]
  rw [e]
  have hb : ((some true : Option Bool) == some true) = true := rfl
  simp only [hb, splitOf, if_true]
  cases s
  · simp only [Bool.false_eq_true, if_false]
    constructor
    · rintro ⟨m, hm, rfl⟩; exact ⟨m, rfl, hm⟩
    · rintro ⟨x, rfl, hx⟩; exact ⟨x, hx, rfl⟩
  · simp only [if_true]
    constructor
    · rintro ⟨m, hm, rfl⟩; exact ⟨m, rfl, ((suppress_keeps_masks t).2.2 m).mp hm⟩
    · rintro ⟨x, rfl, hx⟩; exact ⟨x, ((suppress_keeps_masks t).2.2 x).mpr hx, rfl⟩

/-- unrooted: the collapse of the basal bifurcation and the suppression of unifurcations change the list of leafset
    masks but not the set of normalised masks -/
theorem encodeTree_norm_image (s c : Bool) (t : T) (hg : Good (T.toH t)) (lo : Nat) (hne : lo ≠ 0)
    (hlo : bits lo ⊆ bits t.mask) (hsingle : ∀ a, bits lo ⊆ bits a ∨ Disjoint (bits lo) (bits a)) (z : Nat) :
    (∃ m ∈ (encodeTree (some false) s c t).masksPost, Hier.norm t.mask lo m = z) ↔
      (∃ m ∈ t.masksPost, Hier.norm t.mask lo m = z) := by
  have hcol := Bridge.collapse_norm_image lo t (good_basal_disjoint t hg) hne hlo hsingle z
  have hsup : ∀ v : T, (∃ m ∈ v.sup.masksPost, Hier.norm t.mask lo m = z) ↔ (∃ m ∈ v.masksPost, Hier.norm t.mask lo m = z) := by
    intro v
    constructor
    · rintro ⟨m, hm, h⟩; exact ⟨m, ((suppress_keeps_masks v).2.2 m).mp hm, h⟩
    · rintro ⟨m, hm, h⟩; exact ⟨m, ((suppress_keeps_masks v).2.2 m).mpr hm, h⟩
  unfold encodeTree
  by_cases hc : (c && (some false : Option Bool) != some true && t.cs.length == 2) = true <;> cases s <;>
    simp only [hc, if_true, if_false, Bool.false_eq_true, hsup, hcol]

theorem mem_encode_unrooted (s c : Bool) (t : T) (hg : Good (T.toH t)) (h0 : t.mask ≠ 0) (z : Int) :
    z ∈ (encode (some false) s c t).map (·.2) ↔
      ∃ m ∈ t.masksPost, ((Hier.norm t.mask (Lsb.lsb t.mask) m : Nat) : Int) = z := by
  rw [mem_encode_splits, encodeTree_mask]
  have hb : ((some false : Option Bool) == some true) = false := rfl
  simp only [hb, split_spec, Bool.false_eq_true, if_false]
  obtain ⟨h1, h2, h3⟩ := lsb_ok t.mask h0
  constructor
  · rintro ⟨m, hm, rfl⟩
    obtain ⟨m', hm', e⟩ := (encodeTree_norm_image s c t hg _ h1 h2 h3 _).mp ⟨m, hm, rfl⟩
    exact ⟨m', hm', by rw [e]⟩
  · rintro ⟨m, hm, rfl⟩
    obtain ⟨m', hm', e⟩ := (encodeTree_norm_image s c t hg _ h1 h2 h3 _).mpr ⟨m, hm, rfl⟩
    exact ⟨m', hm', by rw [e]⟩

/-- the tree of the non-vacuity examples: (t0,(t2,t3)) -/
def exT : T := .node 0 none none none [.node 1 (some 0) none none [], .node 2 none none none
    [.node 3 (some 2) none none [], .node 4 (some 3) none none []]]
theorem exT_good : Good (T.toH exT) := by
  simp [exT, T.toH, T.toHL, Good, GoodL, Hier.mask, Hier.maskL]

end DendroModel.C01.Aux

namespace DendroModel.C01
open DendroModel DendroModel.Hier DendroModel.C01.Aux

/-! ### (a),(b) for the driver's own `encode` -/

/-- what `encode` returns, pair by pair: one pair per node of the tree left by the encoder's side effects; its first
    component is that node's leafset mask (whose bits are, by `mask_spec`, exactly the taxa on the leaves below it) and its
    second is that mask itself (rooted) or that mask normalised within the tree's own leafset on the lowest bit of that
    leafset (unrooted and `is_rooted = None`; what that means as sets is `norm_sets`).  Membership level only: that the
    list has exactly one pair per node (multiplicity) is not stated here — it is `encode`'s definition (a `map` over
    `masksPost`) — and which nodes survive the side effects is `encodeTree`'s, characterised by `encodeTree_norm_image`. -/
theorem encode_pairs_spec (r : Option Bool) (s c : Bool) (t : T) (p : Nat × Int) :
    p ∈ encode r s c t ↔ ∃ n ∈ (encodeTree r s c t).nodes,
      p = (n.mask, (((if r == some true then n.mask
              else Hier.norm (encodeTree r s c t).mask (Lsb.lsb (encodeTree r s c t).mask) n.mask) : Nat) : Int)) := by
  simp only [encode, List.mem_map, split_spec]
  constructor
  · rintro ⟨m, hm, rfl⟩
    obtain ⟨n, hn, rfl⟩ := (Bridge.mem_masksPost_iff _ m).mp hm
    exact ⟨n, hn, rfl⟩
  · rintro ⟨n, hn, rfl⟩
    exact ⟨n.mask, (Bridge.mem_masksPost_iff _ _).mpr ⟨n, hn, rfl⟩, rfl⟩

/-- `is_rooted = None` is encoded exactly as an unrooted tree -/
theorem encode_none_eq_unrooted (s c : Bool) (t : T) : encode none s c t = encode (some false) s c t := rfl

/-- the encoder's side effects (basal collapse, unifurcation suppression) never change the tree's leafset -/
theorem encode_keeps_leafset (r : Option Bool) (s c : Bool) (t : T) : (encodeTree r s c t).mask = t.mask :=
  encodeTree_mask r s c t

/-! ### (c) for the driver's own `encode` -/

/-- unrooted: the split masks `encode` emits are `0` (the seed edge) together with the normalised split set `usplits`
    of the tree left by the side effects — the set the unrooted theorems above are about.  No hypothesis. -/
theorem encode_unrooted_eq_usplits (sup col : Bool) (t : T) (s : Nat) :
    ((s : Int) ∈ (encode (some false) sup col t).map (·.2)) ↔
      (s = 0 ∨ s ∈ usplits (Lsb.lsb (encodeTree (some false) sup col t).mask)
                    (T.toH (encodeTree (some false) sup col t))) := by
  rw [mem_encode_splits]
  rw [Bridge.usplits_or_zero _ _ (by rw [toH_mask]; exact norm_root _), toH_mask]
  have hb : ((some false : Option Bool) == some true) = false := rfl
  simp only [hb, split_spec, Bool.false_eq_true, if_false]
  constructor
  · rintro ⟨m, hm, h⟩
    exact ⟨m, (toH_clades _ m).mpr hm, by exact_mod_cast h⟩
  · rintro ⟨m, hm, h⟩
    exact ⟨m, (toH_clades _ m).mp hm, by exact_mod_cast h⟩

/-- rooted, full strength, about `encode`: two well-formed trees are given equal SETS of split masks by the encoder —
    whatever the two flag settings — iff they are the same topology up to child order once unifurcations are suppressed.
    (`Iso` is one-directional by definition; between `Good` trees — `sup_good` — it is a genuine isomorphism: `iso_same`
    gives equal clade sets, hence `Iso` the other way round by this very theorem.) -/
theorem encode_rooted_iff_topology (s c s' c' : Bool) (t u : T)
    (hgt : Good (T.toH t)) (ht0 : T.mask t ≠ 0) (hgu : Good (T.toH u)) (hu0 : T.mask u ≠ 0) :
    (∀ z : Int, z ∈ (encode (some true) s c t).map (·.2) ↔ z ∈ (encode (some true) s' c' u).map (·.2))
      ↔ Iso (Hier.sup (T.toH t)) (Hier.sup (T.toH u)) := by
  rw [← rooted_splits_iff_topology t u hgt ht0 hgu hu0]
  simp only [mem_encode_rooted]
  constructor
  · intro h x
    constructor
    · intro hx
      obtain ⟨y, hy, hyu⟩ := (h x).mp ⟨x, rfl, hx⟩
      have : x = y := by exact_mod_cast hy
      subst this; exact hyu
    · intro hx
      obtain ⟨y, hy, hyu⟩ := (h x).mpr ⟨x, rfl, hx⟩
      have : x = y := by exact_mod_cast hy
      subst this; exact hyu
  · intro h z
    constructor
    · rintro ⟨x, rfl, hx⟩; exact ⟨x, rfl, (h x).mp hx⟩
    · rintro ⟨x, rfl, hx⟩; exact ⟨x, rfl, (h x).mpr hx⟩

/-- unrooted, necessity, about `encode`: two well-formed trees that are the same topology up to child order and
    unifurcations get equal sets of split masks, whatever the flags (so in particular the basal collapse, which moves
    the seed across one edge, does not change the set) -/
theorem encode_unrooted_invariant (s c s' c' : Bool) (t u : T)
    (hgt : Good (T.toH t)) (ht0 : T.mask t ≠ 0) (hgu : Good (T.toH u)) (hu0 : T.mask u ≠ 0)
    (hiso : Iso (Hier.sup (T.toH t)) (Hier.sup (T.toH u))) (z : Int) :
    z ∈ (encode (some false) s c t).map (·.2) ↔ z ∈ (encode (some false) s' c' u).map (·.2) := by
  have hmp := (rooted_splits_iff_topology t u hgt ht0 hgu hu0).mpr hiso
  have hmask : t.mask = u.mask := by
    have := (iso_same _ _ hiso (sup_good _ hgt) (sup_good _ hgu)
      (by rw [sup_mask, toH_mask]; exact ht0) (by rw [sup_mask, toH_mask]; exact hu0)).1
    rwa [sup_mask, sup_mask, toH_mask, toH_mask] at this
  rw [mem_encode_unrooted s c t hgt ht0, mem_encode_unrooted s' c' u hgu hu0, hmask]
  constructor
  · rintro ⟨m, hm, h⟩; exact ⟨m, (hmp m).mp hm, h⟩
  · rintro ⟨m, hm, h⟩; exact ⟨m, (hmp m).mpr hm, h⟩

/-- the flags alone never change the set of split masks of an unrooted tree -/
theorem encode_unrooted_flags_invariant (s c s' c' : Bool) (t : T) (hg : Good (T.toH t)) (h0 : T.mask t ≠ 0) (z : Int) :
    z ∈ (encode (some false) s c t).map (·.2) ↔ z ∈ (encode (some false) s' c' t).map (·.2) :=
  encode_unrooted_invariant s c s' c' t t hg h0 hg h0
    ((rooted_splits_iff_topology t t hg h0 hg h0).mp (fun _ => Iff.rfl)) z

end DendroModel.C01

namespace DendroModel.C01.Aux
open DendroModel DendroModel.Hier DendroModel.C01

/-- unrooted, sufficiency, about `encode`: if the trees left by the encoder are well formed, unifurcation-free and both
    seeded next to the lowest leaf `k` of their common leafset (seed of degree ≥ 3), equal sets of split masks force the same
    topology up to child order.  (`_partial`: only for this canonical seed position — superseded by
    `encode_unrooted_iff_topology` / `encode_unrooted_determines_topology` below, which hold for every seed position.  That every unrooted tree can be
    brought there by edge inversions — each of which keeps the split set, `unrooted_splits_invariant_under_inversion` —
    is not proved; other seed positions are covered by the correspondence and the oracle's graph re-rootings only.) -/
theorem encode_unrooted_determines_topology_partial (k : Nat) (s c s' c' : Bool) (t u : T)
    (hgt : Good (T.toH (encodeTree (some false) s c t))) (hgu : Good (T.toH (encodeTree (some false) s' c' u)))
    (hnt : NoUnif (T.toH (encodeTree (some false) s c t))) (hnu : NoUnif (T.toH (encodeTree (some false) s' c' u)))
    (hct : Canon k (T.toH (encodeTree (some false) s c t))) (hcu : Canon k (T.toH (encodeTree (some false) s' c' u)))
    (hL : t.mask = u.mask) (hk : Lsb.lsb t.mask = 1 <<< k)
    (hs : ∀ z : Int, z ∈ (encode (some false) s c t).map (·.2) ↔ z ∈ (encode (some false) s' c' u).map (·.2)) :
    Iso (T.toH (encodeTree (some false) s c t)) (T.toH (encodeTree (some false) s' c' u)) := by
  have hU : ∀ x : Nat, (x = 0 ∨ x ∈ usplits (1 <<< k) (T.toH (encodeTree (some false) s c t))) ↔
      (x = 0 ∨ x ∈ usplits (1 <<< k) (T.toH (encodeTree (some false) s' c' u))) := by
    intro x
    have h1 := encode_unrooted_eq_usplits s c t x
    have h2 := encode_unrooted_eq_usplits s' c' u x
    rw [encodeTree_mask, hk] at h1
    rw [encodeTree_mask, ← hL, hk] at h2
    rw [← h1, ← h2]; exact hs x
  have hmA : Hier.mask (T.toH (encodeTree (some false) s c t)) = t.mask := by rw [toH_mask, encodeTree_mask]
  have hmB : Hier.mask (T.toH (encodeTree (some false) s' c' u)) = t.mask := by rw [toH_mask, encodeTree_mask, hL]
  obtain ⟨cs, hcs, hk1, h31⟩ := hct
  obtain ⟨ds, hds, hk2, h32⟩ := hcu
  rw [hcs] at hgt hnt hU hmA ⊢
  rw [hds] at hgu hnu hU hmB ⊢
  simp only [Good] at hgt hgu
  simp only [Hier.mask] at hmA hmB
  have hLL : maskL cs = maskL ds := hmA.trans hmB.symm
  have h0 : maskL cs ≠ 0 := by
    intro hz
    have := k_mem_L hk1
    rw [hz, bits_zero] at this; exact this
  -- a normalised split other than "everything but the lowest leaf" is a clade of a well-formed child, hence non-zero
  have hnz : ∀ (as : List Hier.T), GoodL as → Hier.T.leaf k ∈ as → ∀ x, x ∈ usplits (1 <<< k) (.node as) →
      x ≠ Hier.sdiff (maskL as) (1 <<< k) → x ≠ 0 := by
    intro as hga hka x hx hne
    rcases (usplits_canon hga hka x).mp hx with h | ⟨c', hc', _, hxc⟩
    · exact absurd h hne
    · exact clades_ne_zero c' (goodL_mem hga hc').1 (goodL_mem hga hc').2 x hxc
  apply clades_injective (.node cs) (.node ds) (by simpa [Good] using hgt) (by simpa [Hier.mask] using h0)
    (by simpa [Good] using hgu) (by simpa [Hier.mask, ← hLL] using h0) hnt hnu
  intro x
  rw [clades_of_usplits hgt hk1 h31 x, clades_of_usplits hgu hk2 h32 x, hLL]
  constructor
  · rintro (h | h | ⟨h1, h2⟩)
    · exact Or.inl h
    · exact Or.inr (Or.inl h)
    · refine Or.inr (Or.inr ⟨?_, h2⟩)
      have hx0 := hnz cs hgt hk1 x h1 (by rw [hLL]; exact h2)
      rcases (hU x).mp (Or.inr h1) with h | h
      · exact absurd h hx0
      · exact h
  · rintro (h | h | ⟨h1, h2⟩)
    · exact Or.inl h
    · exact Or.inr (Or.inl h)
    · refine Or.inr (Or.inr ⟨?_, h2⟩)
      have hx0 := hnz ds hgu hk2 x h1 h2
      rcases (hU x).mpr (Or.inr h1) with h | h
      · exact absurd h hx0
      · exact h

end DendroModel.C01.Aux

namespace DendroModel.C01
open DendroModel DendroModel.Hier DendroModel.C01.Aux

/-! ### (e) the predicates as statements about taxon sets -/

/-- `is_trivial`: on a split inside the tree's leafset, true iff one of its two sides has at most one taxon -/
theorem is_trivial_sets (a f : Nat) (ha : bits a ⊆ bits f) :
    isTrivial (a : Int) (f : Int) = true ↔ (bits a).Subsingleton ∨ (bits f \ bits a).Subsingleton := by
  unfold isTrivial
  rw [is_trivial_refines]
  have e : a &&& f = a := (and_eq_left_iff a f).mpr ha
  simp only [e, Bool.or_eq_true, decide_eq_true_eq, pred_and_zero_iff, bits_sdiff]
  constructor
  · rintro (((h | h) | h) | h)
    · left; rw [h, bits_zero]; exact Set.subsingleton_empty
    · right; rw [h]; simp
    · exact Or.inl h
    · exact Or.inr h
  · rintro (h | h)
    · exact Or.inl (Or.inr h)
    · exact Or.inr h

/-- `is_compatible_with` on two masks inside a non-empty tree leafset: true iff the two taxon sets are disjoint or nested.
    This is the set-theoretic compatibility of rooted clades; for unrooted bipartitions the code passes NORMALISED masks
    (both avoid the lowest taxon of the tree), for which it coincides with the four-quadrant definition — next theorem. -/
theorem is_compatible_sets (a b f : Nat) (hf : f ≠ 0) (ha : bits a ⊆ bits f) (hb : bits b ⊆ bits f) :
    isCompatible (a : Int) (b : Int) (f : Int) = true ↔
      Disjoint (bits a) (bits b) ∨ bits a ⊆ bits b ∨ bits b ⊆ bits a := by
  unfold isCompatible
  rw [is_compatible_refines a b f hf, Bridge.and_of_sub ha, Bridge.and_of_sub hb]
  simp only [Bool.or_eq_true, decide_eq_true_eq, Bridge.and_xor_zero_iff,
    Bridge.compl_and_zero_iff f a b hb, Bridge.compl_and_xor_zero_iff f a b ha hb]
  rw [and_eq_zero_iff]
  tauto

/-- … and on masks that both avoid some taxon `k` of the tree (normalised unrooted splits avoid the lowest one):
    true iff one of the four intersections of sides A∩B, A∖B, B∖A, (F∖A)∩(F∖B) is empty -/
theorem is_compatible_four_quadrants (a b f k : Nat) (ha : bits a ⊆ bits f) (hb : bits b ⊆ bits f)
    (hk : k ∈ bits f) (hka : k ∉ bits a) (hkb : k ∉ bits b) :
    isCompatible (a : Int) (b : Int) (f : Int) = true ↔
      (bits a ∩ bits b = ∅ ∨ bits a \ bits b = ∅ ∨ bits b \ bits a = ∅ ∨ (bits f \ bits a) ∩ (bits f \ bits b) = ∅) := by
  have hf : f ≠ 0 := by intro h; rw [h, bits_zero] at hk; exact hk
  rw [is_compatible_sets a b f hf ha hb, Set.disjoint_iff_inter_eq_empty, Set.sdiff_eq_empty, Set.sdiff_eq_empty]
  constructor
  · rintro (h | h | h)
    · exact Or.inl h
    · exact Or.inr (Or.inl h)
    · exact Or.inr (Or.inr (Or.inl h))
  · rintro (h | h | h | h)
    · exact Or.inl h
    · exact Or.inr (Or.inl h)
    · exact Or.inr (Or.inr h)
    · exfalso
      have : k ∈ (bits f \ bits a) ∩ (bits f \ bits b) := ⟨⟨hk, hka⟩, ⟨hk, hkb⟩⟩
      rw [h] at this; exact this

/-- `is_leafset_nested_within`: on a leafset inside the tree's leafset, true iff it is a subset of the other -/
theorem is_nested_sets (a b f : Nat) (ha : bits a ⊆ bits f) :
    isNested (a : Int) (b : Int) (f : Int) = true ↔ bits a ⊆ bits b := by
  unfold isNested
  rw [pyAnd_cast, pyAnd_cast]
  simp only [beq_iff_eq, Int.natCast_inj]
  rw [Nat.and_comm, and_eq_left_iff, bits_and]
  constructor
  · intro h x hx; exact (h hx).2
  · intro h x hx; exact ⟨ha hx, h hx⟩

/-! ### (d) for the driver's own `build` -/

/-- rooted rebuild, any namespace: `build` (= `from_split_bitmasks`: head filter `prep`, then greedy insertion into the
    star over the namespace members) fed the clades of a well-formed tree `h` **in any order and multiplicity** yields a
    well-formed tree over all members whose clades are exactly: the star's (all members together, each member alone) plus
    every clade of `h` with at least two taxa (other than the namespace's all-bits mask, which the filter drops and which,
    when it is a clade at all, is the star's root). -/
theorem build_rooted_clades (all : Nat) (members : List Nat) (h : Hier.T) (ss : List Nat)
    (hm : members.Nodup) (hall : bits (maskL (members.map Hier.T.leaf)) ⊆ bits all)
    (hg : Good h) (hsub : bits (Hier.mask h) ⊆ bits (maskL (members.map Hier.T.leaf)))
    (hss : ∀ x, x ∈ ss ↔ x ∈ clades h) :
    Good (build all members true ss) ∧ Hier.mask (build all members true ss) = maskL (members.map Hier.T.leaf) ∧
    ∀ x, x ∈ clades (build all members true ss) ↔
      (x = maskL (members.map Hier.T.leaf) ∨ (∃ b ∈ members, x = 1 <<< b))
        ∨ (x ∈ clades h ∧ x ≠ all ∧ ¬ (bits x).Subsingleton) := by
  unfold build
  have hin : ∀ x, x ∈ clades h → bits x ⊆ bits all := fun x hx => ((clades_sub h x hx).trans hsub).trans hall
  have hfs : ∀ x, x ∈ ss.filterMap (prep all true) ↔ (x ∈ clades h ∧ x ≠ all ∧ ¬ (bits x).Subsingleton) := by
    intro x
    rw [List.mem_filterMap]
    constructor
    · rintro ⟨s, hs, hp⟩
      have hs' := (hss s).mp hs
      rw [Bridge.prep_rooted_of_sub all s (hin s hs')] at hp
      split at hp
      · rename_i hc
        simp only [Option.some.injEq] at hp; subst hp
        exact ⟨hs', hc.1, by rw [← pred_and_zero_iff]; exact hc.2⟩
      · simp at hp
    · rintro ⟨hx, h1, h2⟩
      refine ⟨x, (hss x).mpr hx, ?_⟩
      rw [Bridge.prep_rooted_of_sub all x (hin x hx), if_pos ⟨h1, by rw [Ne, pred_and_zero_iff]; exact h2⟩]
  have key := build_spec (starOf members) (ss.filterMap (prep all true)) (Bridge.starOf_good members hm)
    (by
      intro s hs
      obtain ⟨h1, _, h3⟩ := (hfs s).mp hs
      have hsS : bits s ⊆ bits (maskL (members.map Hier.T.leaf)) := (clades_sub h s h1).trans hsub
      refine ⟨?_, ?_, Bridge.compat_star members s hsS⟩
      · intro h0; apply h3; rw [h0, bits_zero]; exact Set.subsingleton_empty
      · rw [Bridge.starOf_mask]; exact (and_eq_left_iff _ _).mpr hsS)
    (by
      intro s hs b hb
      exact clades_laminar h hg s ((hfs s).mp hs).1 b ((hfs b).mp hb).1)
  refine ⟨key.1, key.2.1.trans (Bridge.starOf_mask members), fun x => ?_⟩
  rw [key.2.2 x, Bridge.starOf_clades, hfs]

end DendroModel.C01

namespace DendroModel.C01.Aux
open DendroModel DendroModel.Hier DendroModel.C01

/-- rooted rebuild of an encoding, about `encode` and `build` together (runner-up of audit H): when the namespace members
    are exactly the tree's taxa (the all-bits mask may still have more bits: removed members), the tree rebuilt from the
    split masks of `encode` **handed over in any order and multiplicity** is the encoded tree up to child order and
    unifurcations.  (`_partial`: unifurcations are suppressed on the rebuilt side too — removed in `rebuild_rooted_topology` below;
    the unrooted rebuild — `prep`'s complement-on-bit-0 path — is covered by the correspondence only.) -/
theorem rebuild_rooted_topology_partial (sup col : Bool) (t : T) (all : Nat) (members ss : List Nat)
    (hg : Good (T.toH t)) (h0 : t.mask ≠ 0) (hm : members.Nodup)
    (hmem : ∀ b, b ∈ members ↔ b ∈ bits t.mask) (hall : bits t.mask ⊆ bits all)
    (hss : ∀ x : Nat, x ∈ ss ↔ (x : Int) ∈ (encode (some true) sup col t).map (·.2)) :
    Iso (Hier.sup (T.toH t)) (Hier.sup (build all members true ss)) := by
  have hstar : maskL (members.map Hier.T.leaf) = t.mask := by
    apply bits_inj; rw [Bridge.bits_maskL_leaves]; ext b; exact hmem b
  have hss' : ∀ x, x ∈ ss ↔ x ∈ clades (T.toH t) := by
    intro x
    rw [hss x, mem_encode_rooted, toH_clades]
    constructor
    · rintro ⟨y, hy, hyt⟩
      have : x = y := by exact_mod_cast hy
      subst this; exact hyt
    · intro hx; exact ⟨x, rfl, hx⟩
  obtain ⟨hgb, hmb, hcl⟩ := build_rooted_clades all members (T.toH t) ss hm (by rw [hstar]; exact hall) hg
    (by rw [hstar, toH_mask]) hss'
  rw [hstar] at hmb hcl
  have ht0 : Hier.mask (T.toH t) ≠ 0 := by rw [toH_mask]; exact h0
  refine (clades_eq_iff_iso (T.toH t) _ hg ht0 hgb (by rw [hmb]; exact h0)).mp ?_
  intro x
  rw [hcl x]
  constructor
  · intro hx
    by_cases hnt : x ≠ all ∧ ¬ (bits x).Subsingleton
    · exact Or.inr ⟨hx, hnt⟩
    · left
      have hxs : bits x ⊆ bits t.mask := by rw [← toH_mask]; exact clades_sub _ x hx
      by_cases hxa : x = all
      · left; apply bits_inj; apply Set.Subset.antisymm hxs; rw [hxa]; exact hall
      · right
        have hsing : (bits x).Subsingleton := by
          by_contra hns; exact hnt ⟨hxa, hns⟩
        obtain ⟨i, hi⟩ := ne_zero_bits (clades_ne_zero _ hg ht0 x hx)
        refine ⟨i, (hmem i).mpr (hxs hi), ?_⟩
        apply bits_inj; rw [bits_shift]
        ext j; constructor
        · intro hj; exact hsing hj hi
        · intro hj; rw [Set.mem_singleton_iff] at hj; subst hj; exact hi
  · rintro ((rfl | ⟨b, hb, rfl⟩) | ⟨hx, _⟩)
    · rw [← toH_mask]; exact mask_mem_clades _
    · exact Bridge.single_mem_clades _ b (by rw [toH_mask]; exact (hmem b).mp hb)
    · exact hx

end DendroModel.C01.Aux

namespace DendroModel.C01
open DendroModel DendroModel.Hier DendroModel.C01.Aux

/-- rooted rebuild of an encoding (runner-up of audit H): as `rebuild_rooted_topology_partial`, without the suppression on
    the rebuilt side — `build` never creates a unifurcation (`Bridge.build_noUnif`).  ASSUMES `hmem`: the namespace members
    are exactly the tree's taxa (only the all-bits mask may be larger); a namespace with extra members is
    `rebuild_rooted_extras`.  `Iso` is one-directional by definition; here both sides are `Good` (`sup_good`,
    `build_rooted_clades`), between which it is a genuine isomorphism (`iso_same`). -/
theorem rebuild_rooted_topology (sup col : Bool) (t : T) (all : Nat) (members ss : List Nat)
    (hg : Good (T.toH t)) (h0 : t.mask ≠ 0) (hm : members.Nodup)
    (hmem : ∀ b, b ∈ members ↔ b ∈ bits t.mask) (hall : bits t.mask ⊆ bits all)
    (hss : ∀ x : Nat, x ∈ ss ↔ (x : Int) ∈ (encode (some true) sup col t).map (·.2)) :
    Iso (Hier.sup (T.toH t)) (build all members true ss) ∧ NoUnif (build all members true ss) := by
  have hne : members ≠ [] := by
    intro he; apply h0; apply bits_inj; rw [bits_zero]
    ext b; rw [← hmem b, he]; simp
  have hnu := Bridge.build_noUnif all members true ss hne
  have h := rebuild_rooted_topology_partial sup col t all members ss hg h0 hm hmem hall hss
  rw [Bridge.sup_of_noUnif _ hnu] at h
  exact ⟨h, hnu⟩

end DendroModel.C01

/-! ## extension round: unrooted sufficiency for every seed position, unrooted rebuild, tree compatibility -/
namespace DendroModel.C01.Aux
open DendroModel DendroModel.Hier DendroModel.C01

/-- the unrooted split masks of `encode`, read off any mask-labelled tree `H` with the tree's leafset and clade set
    (`T.toH t` itself, or `Hier.sup (T.toH t)`) -/
theorem mem_encode_unrooted_of (s c : Bool) (t : T) (hg : Good (T.toH t)) (h0 : t.mask ≠ 0) (k : Nat)
    (hk : Lsb.lsb t.mask = 1 <<< k) (H : Hier.T) (hm : Hier.mask H = t.mask) (hc : ∀ m, m ∈ clades H ↔ m ∈ t.masksPost)
    (z : Int) :
    z ∈ (encode (some false) s c t).map (·.2) ↔ ∃ x : Nat, (x : Int) = z ∧ (x = 0 ∨ x ∈ usplits (1 <<< k) H) := by
  have hroot : Hier.norm (Hier.mask H) (1 <<< k) (Hier.mask H) = 0 := by rw [hm, ← hk]; exact norm_root _
  rw [mem_encode_unrooted s c t hg h0, hk]
  constructor
  · rintro ⟨m, hmm, rfl⟩
    exact ⟨_, rfl, (Bridge.usplits_or_zero _ H hroot _).mpr ⟨m, (hc m).mpr hmm, by rw [hm]⟩⟩
  · rintro ⟨x, rfl, hx⟩
    obtain ⟨y, hy, e⟩ := (Bridge.usplits_or_zero _ H hroot _).mp hx
    rw [hm] at e
    exact ⟨y, (hc y).mp hy, by rw [e]⟩

theorem lsb_index_mem (L k : Nat) (h0 : L ≠ 0) (hk : Lsb.lsb L = 1 <<< k) : k ∈ bits L := by
  have := (lsb_ok L h0).2.1
  rw [hk, bits_shift] at this
  exact Set.singleton_subset_iff.mp this

theorem threeTaxa_ne_zero {m : Nat} (h : Bridge.ThreeTaxa m) : m ≠ 0 := by
  obtain ⟨a, _, _, ha, _⟩ := h
  intro h0; rw [h0, bits_zero] at ha; exact ha

end DendroModel.C01.Aux

namespace DendroModel.C01
open DendroModel DendroModel.Hier DendroModel.C01.Aux

/-- **unrooted, full strength, about `encode`, for every seed position**: two well-formed trees over the same ≥ 3 taxa are
    given equal sets of split masks by the encoder — whatever the flags, child order, unifurcations and seed positions —
    iff they are the same unrooted topology: the same tree up to child order once both are re-seeded at the node their lowest
    leaf `k` hangs from (`canonU`, executable; the driver prints it and the harness compares it with the oracle's own
    graph-based canonical form).  `Bridge.canonU_spec` is the chain the earlier `_partial` lacked: every tree reaches that
    seed position by edge inversions (each one `usplits_invert`) and suppression of the unifurcations they leave.
    (For fewer than three taxa there is one unrooted topology per leaf set and nothing to prove.)  Both sides of the `Iso`
    are `Good` (`canonU_is_canonical`), so it is a genuine isomorphism.  The link between this `Iso` and the STRING the
    harness compares is: `ucanon` re-seeds on `lowIdx`, which is this `k` (`ucanon_uses_lowest_taxon`); that equal
    `renderSorted` strings mean `Iso` is not proved (compared on every unrooted pair instead). -/
theorem encode_unrooted_iff_topology (s c s' c' : Bool) (t u : T) (hgt : Good (T.toH t)) (hgu : Good (T.toH u))
    (hL : t.mask = u.mask) (h3 : Bridge.ThreeTaxa t.mask) (k : Nat) (hk : Lsb.lsb t.mask = 1 <<< k) :
    (∀ z : Int, z ∈ (encode (some false) s c t).map (·.2) ↔ z ∈ (encode (some false) s' c' u).map (·.2)) ↔
      Iso (canonU k (Hier.sup (T.toH t))) (canonU k (Hier.sup (T.toH u))) := by
  have h0 : t.mask ≠ 0 := threeTaxa_ne_zero h3
  have h0u : u.mask ≠ 0 := by rw [← hL]; exact h0
  have hmt : Hier.mask (Hier.sup (T.toH t)) = t.mask := by rw [sup_mask, toH_mask]
  have hmu : Hier.mask (Hier.sup (T.toH u)) = u.mask := by rw [sup_mask, toH_mask]
  have ht0 : Hier.mask (T.toH t) ≠ 0 := by rw [toH_mask]; exact h0
  have hu0 : Hier.mask (T.toH u) ≠ 0 := by rw [toH_mask]; exact h0u
  rw [← Bridge.unrooted_same_splits_iff k _ _ (sup_good _ hgt) (sup_good _ hgu) (sup_noUnif _ hgt ht0) (sup_noUnif _ hgu hu0)
    (by rw [hmt, hmu, hL]) (by rw [hmt]; exact lsb_index_mem _ _ h0 hk) (by rw [hmt]; exact h3)]
  have et := mem_encode_unrooted_of s c t hgt h0 k hk (Hier.sup (T.toH t)) hmt
    (fun m => by rw [sup_clades, toH_clades])
  have eu := mem_encode_unrooted_of s' c' u hgu h0u k (by rw [← hL]; exact hk) (Hier.sup (T.toH u)) hmu
    (fun m => by rw [sup_clades, toH_clades])
  constructor
  · intro h x
    have hx := h (x : Int)
    rw [et, eu] at hx
    constructor
    · intro hxt
      obtain ⟨y, hy, hyu⟩ := hx.mp ⟨x, rfl, hxt⟩
      have : y = x := by exact_mod_cast hy
      subst this; exact hyu
    · intro hxu
      obtain ⟨y, hy, hyt⟩ := hx.mpr ⟨x, rfl, hxu⟩
      have : y = x := by exact_mod_cast hy
      subst this; exact hyt
  · intro h z
    rw [et, eu]
    constructor
    · rintro ⟨x, rfl, hx⟩; exact ⟨x, rfl, (h x).mp hx⟩
    · rintro ⟨x, rfl, hx⟩; exact ⟨x, rfl, (h x).mpr hx⟩

/-- the sufficiency half under its own name: equal unrooted split sets ⇒ same unrooted topology, no seed-position
    hypothesis (supersedes `encode_unrooted_determines_topology_partial`) -/
theorem encode_unrooted_determines_topology (s c s' c' : Bool) (t u : T) (hgt : Good (T.toH t)) (hgu : Good (T.toH u))
    (hL : t.mask = u.mask) (h3 : Bridge.ThreeTaxa t.mask) (k : Nat) (hk : Lsb.lsb t.mask = 1 <<< k)
    (hs : ∀ z : Int, z ∈ (encode (some false) s c t).map (·.2) ↔ z ∈ (encode (some false) s' c' u).map (·.2)) :
    Iso (canonU k (Hier.sup (T.toH t))) (canonU k (Hier.sup (T.toH u))) :=
  (encode_unrooted_iff_topology s c s' c' t u hgt hgu hL h3 k hk).mp hs

/-- what `canonU` is: for a well-formed tree with ≥ 3 taxa, a well-formed unifurcation-free tree over the same leafset whose
    seed (degree ≥ 3) carries leaf `k`, with the same normalised split set -/
theorem canonU_is_canonical (k : Nat) (t : T) (hg : Good (T.toH t)) (h3 : Bridge.ThreeTaxa t.mask) (hk : k ∈ bits t.mask) :
    Good (canonU k (Hier.sup (T.toH t))) ∧ NoUnif (canonU k (Hier.sup (T.toH t))) ∧ Canon k (canonU k (Hier.sup (T.toH t))) ∧
      Hier.mask (canonU k (Hier.sup (T.toH t))) = t.mask ∧
      ∀ x, x ∈ usplits (1 <<< k) (canonU k (Hier.sup (T.toH t))) ↔ x ∈ usplits (1 <<< k) (Hier.sup (T.toH t)) := by
  have hm : Hier.mask (Hier.sup (T.toH t)) = t.mask := by rw [sup_mask, toH_mask]
  have h0 : Hier.mask (T.toH t) ≠ 0 := by rw [toH_mask]; exact threeTaxa_ne_zero h3
  obtain ⟨a1, a2, a3, a4, a5⟩ := Bridge.canonU_spec k _ (sup_good _ hg) (sup_noUnif _ hg h0) (by rw [hm]; exact hk) (by rw [hm]; exact h3)
  exact ⟨a1, a2, a3, a4.trans hm, a5⟩

/-- seed position, about `encode` itself: if `u` is `t` with the seed moved across one edge (the mask-labelled view of `u` is
    the inversion of `t`'s at any child), the encoder gives both the same set of split masks, whatever the flags -/
theorem encode_unrooted_invariant_under_inversion (s c s' c' : Bool) (t u : T) (pre ds post : List Hier.T)
    (hgt : Good (T.toH t)) (hgu : Good (T.toH u)) (h0 : t.mask ≠ 0)
    (ht : T.toH t = .node (pre ++ .node ds :: post)) (hu : T.toH u = invertAt pre ds post) (z : Int) :
    z ∈ (encode (some false) s c t).map (·.2) ↔ z ∈ (encode (some false) s' c' u).map (·.2) := by
  obtain ⟨k, hk, _, _⟩ := lsb_spec t.mask (by omega)
  have hmt : Hier.mask (T.toH t) = t.mask := toH_mask t
  have hL : u.mask = t.mask := by
    rw [← toH_mask u, ← toH_mask t, hu, ht]; simp only [invertAt, Hier.mask]; exact maskL_invert pre ds post
  have et := mem_encode_unrooted_of s c t hgt h0 k hk (T.toH t) hmt (fun m => toH_clades t m)
  have eu := mem_encode_unrooted_of s' c' u hgu (by rw [hL]; exact h0) k (by rw [hL]; exact hk) (T.toH u)
    (toH_mask u) (fun m => toH_clades u m)
  rw [et, eu, ht, hu]
  have hgl : GoodL (pre ++ .node ds :: post) := by rw [ht] at hgt; simpa [Good] using hgt
  have hkm : k ∈ bits (maskL (pre ++ .node ds :: post)) := by
    have := lsb_index_mem _ _ h0 hk
    rw [← hmt, ht] at this; simpa [Hier.mask] using this
  have hinv := usplits_invert (1 <<< k) pre ds post hgl
    (by rw [bits_shift]; exact Set.singleton_subset_iff.mpr hkm) (Bridge.single_shift k) (shift_ne_zero k)
  constructor
  · rintro ⟨x, rfl, hx⟩
    exact ⟨x, rfl, hx.imp id (fun h => (hinv x).mpr h)⟩
  · rintro ⟨x, rfl, hx⟩
    exact ⟨x, rfl, hx.imp id (fun h => (hinv x).mp h)⟩

end DendroModel.C01

namespace DendroModel.C01.Aux
open DendroModel DendroModel.Hier DendroModel.C01

theorem norm_of_avoid (L k y : Nat) (hy : bits y ⊆ bits L) (hk : k ∉ bits y) : Hier.norm L (1 <<< k) y = y := by
  unfold Hier.norm
  rw [if_neg (by rw [and_shift_eq_zero_of_not_mem hk]; simp)]
  exact (and_eq_left_iff y L).mpr hy

theorem norm_single (L k : Nat) : Hier.norm L (1 <<< k) (1 <<< k) = Hier.sdiff L (1 <<< k) := by
  unfold Hier.norm
  rw [if_pos (by rw [Nat.and_self]; exact shift_ne_zero k)]

/-- the head filter of `from_split_bitmasks`, unrooted: on a mask inside the namespace that does not contain bit 0 — every
    split mask of an unrooted encoding is one — the complement-on-bit-0 path is not taken and the filter is the rooted one -/
theorem prep_unrooted_of_avoid0 (all s : Nat) (h0 : 0 ∉ bits s) : prep all false s = prep all true s := by
  have h0' : 0 ∉ bits (s &&& all) := by rw [bits_and]; exact fun h => h0 h.1
  have e : 1 &&& (s &&& all) = 0 := by
    rw [Nat.and_comm]; exact and_shift_eq_zero_of_not_mem (k := 0) h0'
  unfold prep
  simp [e]

/-- `build` in general: whatever survives the head filter, if non-empty, inside the star's leafset and pairwise laminar, is
    added to the star's clades — in any order -/
theorem build_clades_general (all : Nat) (members : List Nat) (rooted : Bool) (ss : List Nat) (hm : members.Nodup)
    (h1 : ∀ s ∈ ss.filterMap (prep all rooted), s ≠ 0 ∧ bits s ⊆ bits (maskL (members.map Hier.T.leaf)))
    (hlam : ∀ s ∈ ss.filterMap (prep all rooted), ∀ b ∈ ss.filterMap (prep all rooted), Lam s b) :
    Good (build all members rooted ss) ∧ Hier.mask (build all members rooted ss) = maskL (members.map Hier.T.leaf) ∧
    ∀ x, x ∈ clades (build all members rooted ss) ↔
      (x = maskL (members.map Hier.T.leaf) ∨ (∃ b ∈ members, x = 1 <<< b)) ∨ x ∈ ss.filterMap (prep all rooted) := by
  unfold build
  have key := build_spec (starOf members) (ss.filterMap (prep all rooted)) (Bridge.starOf_good members hm)
    (by
      intro s hs
      obtain ⟨h10, h11⟩ := h1 s hs
      exact ⟨h10, by rw [Bridge.starOf_mask]; exact (and_eq_left_iff _ _).mpr h11, Bridge.compat_star members s h11⟩)
    hlam
  refine ⟨key.1, key.2.1.trans (Bridge.starOf_mask members), fun x => ?_⟩
  rw [key.2.2 x, Bridge.starOf_clades]

end DendroModel.C01.Aux

namespace DendroModel.C01
open DendroModel DendroModel.Hier DendroModel.C01.Aux

/-- **unrooted rebuild of an encoding, about `encode` and `build` together**: when the namespace members are exactly the
    tree's ≥ 3 taxa (the all-bits mask may have more bits), the tree `build` makes of the split masks of the unrooted
    encoding **handed over in any order and multiplicity** is well formed, has no unifurcation, and is the encoded tree as
    an unrooted topology (same canonical re-seeding `canonU` up to child order).  The head filter's complement-on-bit-0
    path is shown not to fire on an encoding (`prep_unrooted_of_avoid0`: normalised masks never contain bit 0).
    ASSUMES `hmem`: members = the tree's taxa; the unrooted rebuild over a namespace with extra members has no theorem
    (oracle and correspondence only).  Both sides of the `Iso` are `Good`. -/
theorem rebuild_unrooted_topology (sup col : Bool) (t : T) (all : Nat) (members ss : List Nat)
    (hg : Good (T.toH t)) (h3 : Bridge.ThreeTaxa t.mask) (hm : members.Nodup)
    (hmem : ∀ b, b ∈ members ↔ b ∈ bits t.mask) (hall : bits t.mask ⊆ bits all)
    (k : Nat) (hk : Lsb.lsb t.mask = 1 <<< k)
    (hss : ∀ x : Nat, x ∈ ss ↔ (x : Int) ∈ (encode (some false) sup col t).map (·.2)) :
    Iso (canonU k (Hier.sup (T.toH t))) (canonU k (build all members false ss)) ∧
      Good (build all members false ss) ∧ NoUnif (build all members false ss) := by
  have h0 : t.mask ≠ 0 := threeTaxa_ne_zero h3
  have hkL : k ∈ bits t.mask := lsb_index_mem _ _ h0 hk
  have hlow : ∀ j, j < k → j ∉ bits t.mask := by
    obtain ⟨k', hk', _, hl⟩ := lsb_spec t.mask (by omega)
    have : k' = k := shift_inj (hk'.symm.trans hk)
    subst this
    intro j hj hjm; have := hl j hj; rw [hjm] at this; exact Bool.noConfusion this
  have hmT0 : Hier.mask (Hier.sup (T.toH t)) = t.mask := by rw [sup_mask, toH_mask]
  have hstar : maskL (members.map Hier.T.leaf) = t.mask := by
    apply bits_inj; rw [Bridge.bits_maskL_leaves]; ext b; exact hmem b
  obtain ⟨c1, c2, c3, c4, c5⟩ := canonU_is_canonical k t hg h3 hkL
  obtain ⟨cs, hC, hkcs, h3cs⟩ := c3
  rw [hC] at c1 c4 c5
  simp only [Good] at c1
  simp only [Hier.mask] at c4
  -- the list handed over is, as a set, {0} ∪ usplits of the canonical form
  have hssU : ∀ x, x ∈ ss ↔ (x = 0 ∨ x ∈ usplits (1 <<< k) (.node cs)) := by
    intro x
    rw [hss x, mem_encode_unrooted_of sup col t hg h0 k hk (Hier.sup (T.toH t)) hmT0 (fun m => by rw [sup_clades, toH_clades])]
    constructor
    · rintro ⟨y, hy, hyu⟩
      have : y = x := by exact_mod_cast hy
      subst this; exact hyu.imp id (fun h => (c5 y).mpr h)
    · intro hx; exact ⟨x, rfl, hx.imp id (fun h => (c5 x).mp h)⟩
  -- every member of it lies inside the leafset and avoids the lowest leaf
  have helem : ∀ x, x ∈ ss → bits x ⊆ bits t.mask ∧ k ∉ bits x := by
    intro x hx
    rcases (hssU x).mp hx with rfl | hx
    · simp [bits_zero]
    · rcases (usplits_canon c1 hkcs x).mp hx with rfl | ⟨c, hc, hck, hxc⟩
      · rw [bits_sdiff, bits_shift, c4]
        exact ⟨Set.sdiff_subset, fun h => h.2 rfl⟩
      · obtain ⟨o1, o2, o3⟩ := other_child_clades c1 hkcs hc hck hxc
        exact ⟨by rw [← c4]; exact o2.trans o3, o1⟩
  have h0bit : ∀ x, x ∈ ss → 0 ∉ bits x := by
    intro x hx h0x
    obtain ⟨e1, e2⟩ := helem x hx
    have : k = 0 := by
      by_contra hne
      exact hlow 0 (by omega) (e1 h0x)
    rw [this] at e2; exact e2 h0x
  have hfs : ∀ x, x ∈ ss.filterMap (prep all false) ↔ (x ∈ ss ∧ x ≠ all ∧ ¬ (bits x).Subsingleton) := by
    intro x
    rw [List.mem_filterMap]
    constructor
    · rintro ⟨s, hs, hp⟩
      rw [prep_unrooted_of_avoid0 all s (h0bit s hs), Bridge.prep_rooted_of_sub all s ((helem s hs).1.trans hall)] at hp
      split at hp
      · rename_i hc
        simp only [Option.some.injEq] at hp; subst hp
        exact ⟨hs, hc.1, by rw [← pred_and_zero_iff]; exact hc.2⟩
      · simp at hp
    · rintro ⟨hx, h1, h2⟩
      refine ⟨x, hx, ?_⟩
      rw [prep_unrooted_of_avoid0 all x (h0bit x hx), Bridge.prep_rooted_of_sub all x ((helem x hx).1.trans hall),
        if_pos ⟨h1, by rw [Ne, pred_and_zero_iff]; exact h2⟩]
  -- pairwise laminar: clades of one tree, or "everything but the lowest leaf", which contains all the others
  have hlamss : ∀ x ∈ ss, ∀ y ∈ ss, Lam x y := by
    intro x hx y hy
    have hxe := helem x hx
    have hye := helem y hy
    have big : ∀ z, z ∈ ss → bits z ⊆ bits (Hier.sdiff (maskL cs) (1 <<< k)) := by
      intro z hz
      rw [bits_sdiff, bits_shift, c4]
      intro i hi
      exact ⟨(helem z hz).1 hi, fun h => (helem z hz).2 (by rw [Set.mem_singleton_iff] at h; rw [← h]; exact hi)⟩
    rcases (hssU x).mp hx with rfl | hxu
    · exact lam_of_disj (by rw [bits_zero]; exact Set.disjoint_empty _)
    rcases (hssU y).mp hy with rfl | hyu
    · exact lam_of_sub (by rw [bits_zero]; exact Set.empty_subset _)
    rcases (usplits_canon c1 hkcs x).mp hxu with rfl | ⟨cx, hcx, _, hxc⟩
    · exact lam_of_sub (big y hy)
    rcases (usplits_canon c1 hkcs y).mp hyu with rfl | ⟨cy, hcy, _, hyc⟩
    · exact lam_of_sub' (big x hx)
    · exact cladesL_laminar cs c1 x ((mem_cladesL _ _).mpr ⟨cx, hcx, hxc⟩) y ((mem_cladesL _ _).mpr ⟨cy, hcy, hyc⟩)
  obtain ⟨hgb, hmb, hcl⟩ := build_clades_general all members false ss hm
    (by
      intro s hs
      obtain ⟨h1, _, h2⟩ := (hfs s).mp hs
      refine ⟨?_, by rw [hstar]; exact (helem s h1).1⟩
      intro hz; apply h2; rw [hz, bits_zero]; exact Set.subsingleton_empty)
    (by
      intro s hs b hb
      exact hlamss s ((hfs s).mp hs).1 b ((hfs b).mp hb).1)
  rw [hstar] at hmb hcl
  have hne : members ≠ [] := by
    intro he; apply h0; apply bits_inj; rw [bits_zero]
    ext b; rw [← hmem b, he]; simp
  have hnb := Bridge.build_noUnif all members false ss hne
  refine ⟨?_, hgb, hnb⟩
  have ht0 : Hier.mask (T.toH t) ≠ 0 := by rw [toH_mask]; exact h0
  apply (Bridge.unrooted_same_splits_iff k _ _ (sup_good _ hg) hgb (sup_noUnif _ hg ht0) hnb
    (by rw [hmT0, hmb]) (by rw [hmT0]; exact hkL) (by rw [hmT0]; exact h3)).mp
  intro x
  have hroot : Hier.norm (Hier.mask (build all members false ss)) (1 <<< k) (Hier.mask (build all members false ss)) = 0 := by
    rw [hmb]; exact Bridge.norm_self _ _ (shift_ne_zero k) (by rw [bits_shift]; exact Set.singleton_subset_iff.mpr hkL)
  rw [Bridge.usplits_or_zero _ (build all members false ss) hroot, hmb]
  -- left side: x ∈ ss
  have hleft : (x = 0 ∨ x ∈ usplits (1 <<< k) (Hier.sup (T.toH t))) ↔ x ∈ ss := by
    rw [hssU x]; exact or_congr Iff.rfl (c5 x).symm
  rw [hleft]
  constructor
  · intro hx
    rcases (hssU x).mp hx with rfl | hxu
    · exact ⟨t.mask, (hcl _).mpr (Or.inl (Or.inl rfl)),
        Bridge.norm_self _ _ (shift_ne_zero k) (by rw [bits_shift]; exact Set.singleton_subset_iff.mpr hkL)⟩
    rcases (usplits_canon c1 hkcs x).mp hxu with rfl | ⟨c, hc, hck, hxc⟩
    · exact ⟨1 <<< k, (hcl _).mpr (Or.inl (Or.inr ⟨k, (hmem k).mpr hkL, rfl⟩)), by rw [norm_single, c4]⟩
    · obtain ⟨e1, e2⟩ := helem x hx
      by_cases hnt : x ≠ all ∧ ¬ (bits x).Subsingleton
      · exact ⟨x, (hcl x).mpr (Or.inr ((hfs x).mpr ⟨hx, hnt⟩)), norm_of_avoid _ _ _ e1 e2⟩
      · have hxa : x ≠ all := by
          intro h; rw [h] at e2; exact e2 (hall hkL)
        have hsing : (bits x).Subsingleton := by
          by_contra hns; exact hnt ⟨hxa, hns⟩
        have hx0 : x ≠ 0 := clades_ne_zero c (goodL_mem c1 hc).1 (goodL_mem c1 hc).2 x hxc
        obtain ⟨i, hi⟩ := ne_zero_bits hx0
        have hxi : x = 1 <<< i := by
          apply bits_inj; rw [bits_shift]
          ext j; constructor
          · intro hj; exact hsing hj hi
          · intro hj; rw [Set.mem_singleton_iff] at hj; subst hj; exact hi
        refine ⟨x, (hcl x).mpr (Or.inl (Or.inr ⟨i, (hmem i).mpr (e1 hi), hxi⟩)), norm_of_avoid _ _ _ e1 e2⟩
  · rintro ⟨y, hy, rfl⟩
    rcases (hcl y).mp hy with (rfl | ⟨b, hb, rfl⟩) | hyf
    · rw [Bridge.norm_self _ _ (shift_ne_zero k) (by rw [bits_shift]; exact Set.singleton_subset_iff.mpr hkL)]
      exact (hssU 0).mpr (Or.inl rfl)
    · by_cases hbk : b = k
      · subst hbk
        rw [norm_single, ← c4]
        exact (hssU _).mpr (Or.inr ((usplits_canon c1 hkcs _).mpr (Or.inl rfl)))
      · have hbL : b ∈ bits t.mask := (hmem b).mp hb
        have hav : b ∉ ({k} : Set Nat) → k ∉ bits (1 <<< b) := by
          intro _ h; rw [bits_shift, Set.mem_singleton_iff] at h; exact hbk h.symm
        rw [norm_of_avoid _ _ _ (by rw [bits_shift]; exact Set.singleton_subset_iff.mpr hbL)
          (hav (by simpa using hbk))]
        -- the singleton clade of taxon b sits in a child other than leaf k
        have hmemc : 1 <<< b ∈ cladesL cs := Bridge.single_mem_cladesL cs b (by rw [c4]; exact hbL)
        obtain ⟨c, hc, hbc⟩ := (mem_cladesL _ _).mp hmemc
        have hck : c ≠ Hier.T.leaf k := by
          rintro rfl
          simp only [clades, List.mem_singleton] at hbc
          exact hbk (shift_inj hbc)
        exact (hssU _).mpr (Or.inr ((usplits_canon c1 hkcs _).mpr (Or.inr ⟨c, hc, hck, hbc⟩)))
    · obtain ⟨h1, _, _⟩ := (hfs y).mp hyf
      obtain ⟨e1, e2⟩ := helem y h1
      rw [norm_of_avoid _ _ _ e1 e2]; exact h1

end DendroModel.C01

namespace DendroModel.C01.Aux
open DendroModel DendroModel.Hier DendroModel.C01

/-- facts about the list of split masks of an unrooted encoding, as handed to `build` (no assumption on the namespace beyond
    `all ⊇` the tree's leafset): every mask lies inside the leafset and avoids the lowest taxon; the unrooted head filter keeps
    exactly those with ≥ 2 taxa other than the all-bits mask; they are pairwise laminar -/
theorem unrooted_ss_facts (sup col : Bool) (t : T) (all : Nat) (ss : List Nat)
    (hg : Good (T.toH t)) (h3 : Bridge.ThreeTaxa t.mask) (hall : bits t.mask ⊆ bits all)
    (k : Nat) (hk : Lsb.lsb t.mask = 1 <<< k)
    (hss : ∀ x : Nat, x ∈ ss ↔ (x : Int) ∈ (encode (some false) sup col t).map (·.2)) :
    (∀ x, x ∈ ss → bits x ⊆ bits t.mask ∧ k ∉ bits x) ∧
    (∀ x, x ∈ ss.filterMap (prep all false) ↔ (x ∈ ss ∧ x ≠ all ∧ ¬ (bits x).Subsingleton)) ∧
    (∀ x ∈ ss, ∀ y ∈ ss, Lam x y) ∧ (0 ∈ ss) ∧ (Hier.sdiff t.mask (1 <<< k) ∈ ss) := by
  have h0 : t.mask ≠ 0 := threeTaxa_ne_zero h3
  have hkL : k ∈ bits t.mask := lsb_index_mem _ _ h0 hk
  have hlow : ∀ j, j < k → j ∉ bits t.mask := by
    obtain ⟨k', hk', _, hl⟩ := lsb_spec t.mask (by omega)
    have : k' = k := shift_inj (hk'.symm.trans hk)
    subst this
    intro j hj hjm; have := hl j hj; rw [hjm] at this; exact Bool.noConfusion this
  have hmT0 : Hier.mask (Hier.sup (T.toH t)) = t.mask := by rw [sup_mask, toH_mask]
  obtain ⟨c1, c2, c3, c4, c5⟩ := canonU_is_canonical k t hg h3 hkL
  obtain ⟨cs, hC, hkcs, h3cs⟩ := c3
  rw [hC] at c1 c4 c5
  simp only [Good] at c1
  simp only [Hier.mask] at c4
  -- the list handed over is, as a set, {0} ∪ usplits of the canonical form
  have hssU : ∀ x, x ∈ ss ↔ (x = 0 ∨ x ∈ usplits (1 <<< k) (.node cs)) := by
    intro x
    rw [hss x, mem_encode_unrooted_of sup col t hg h0 k hk (Hier.sup (T.toH t)) hmT0 (fun m => by rw [sup_clades, toH_clades])]
    constructor
    · rintro ⟨y, hy, hyu⟩
      have : y = x := by exact_mod_cast hy
      subst this; exact hyu.imp id (fun h => (c5 y).mpr h)
    · intro hx; exact ⟨x, rfl, hx.imp id (fun h => (c5 x).mp h)⟩
  -- every member of it lies inside the leafset and avoids the lowest leaf
  have helem : ∀ x, x ∈ ss → bits x ⊆ bits t.mask ∧ k ∉ bits x := by
    intro x hx
    rcases (hssU x).mp hx with rfl | hx
    · simp [bits_zero]
    · rcases (usplits_canon c1 hkcs x).mp hx with rfl | ⟨c, hc, hck, hxc⟩
      · rw [bits_sdiff, bits_shift, c4]
        exact ⟨Set.sdiff_subset, fun h => h.2 rfl⟩
      · obtain ⟨o1, o2, o3⟩ := other_child_clades c1 hkcs hc hck hxc
        exact ⟨by rw [← c4]; exact o2.trans o3, o1⟩
  have h0bit : ∀ x, x ∈ ss → 0 ∉ bits x := by
    intro x hx h0x
    obtain ⟨e1, e2⟩ := helem x hx
    have : k = 0 := by
      by_contra hne
      exact hlow 0 (by omega) (e1 h0x)
    rw [this] at e2; exact e2 h0x
  have hfs : ∀ x, x ∈ ss.filterMap (prep all false) ↔ (x ∈ ss ∧ x ≠ all ∧ ¬ (bits x).Subsingleton) := by
    intro x
    rw [List.mem_filterMap]
    constructor
    · rintro ⟨s, hs, hp⟩
      rw [prep_unrooted_of_avoid0 all s (h0bit s hs), Bridge.prep_rooted_of_sub all s ((helem s hs).1.trans hall)] at hp
      split at hp
      · rename_i hc
        simp only [Option.some.injEq] at hp; subst hp
        exact ⟨hs, hc.1, by rw [← pred_and_zero_iff]; exact hc.2⟩
      · simp at hp
    · rintro ⟨hx, h1, h2⟩
      refine ⟨x, hx, ?_⟩
      rw [prep_unrooted_of_avoid0 all x (h0bit x hx), Bridge.prep_rooted_of_sub all x ((helem x hx).1.trans hall),
        if_pos ⟨h1, by rw [Ne, pred_and_zero_iff]; exact h2⟩]
  -- pairwise laminar: clades of one tree, or "everything but the lowest leaf", which contains all the others
  have hlamss : ∀ x ∈ ss, ∀ y ∈ ss, Lam x y := by
    intro x hx y hy
    have hxe := helem x hx
    have hye := helem y hy
    have big : ∀ z, z ∈ ss → bits z ⊆ bits (Hier.sdiff (maskL cs) (1 <<< k)) := by
      intro z hz
      rw [bits_sdiff, bits_shift, c4]
      intro i hi
      exact ⟨(helem z hz).1 hi, fun h => (helem z hz).2 (by rw [Set.mem_singleton_iff] at h; rw [← h]; exact hi)⟩
    rcases (hssU x).mp hx with rfl | hxu
    · exact lam_of_disj (by rw [bits_zero]; exact Set.disjoint_empty _)
    rcases (hssU y).mp hy with rfl | hyu
    · exact lam_of_sub (by rw [bits_zero]; exact Set.empty_subset _)
    rcases (usplits_canon c1 hkcs x).mp hxu with rfl | ⟨cx, hcx, _, hxc⟩
    · exact lam_of_sub (big y hy)
    rcases (usplits_canon c1 hkcs y).mp hyu with rfl | ⟨cy, hcy, _, hyc⟩
    · exact lam_of_sub' (big x hx)
    · exact cladesL_laminar cs c1 x ((mem_cladesL _ _).mpr ⟨cx, hcx, hxc⟩) y ((mem_cladesL _ _).mpr ⟨cy, hcy, hyc⟩)
  refine ⟨helem, hfs, hlamss, (hssU 0).mpr (Or.inl rfl), ?_⟩
  rw [← c4]; exact (hssU _).mpr (Or.inr ((usplits_canon c1 hkcs _).mpr (Or.inl rfl)))

end DendroModel.C01.Aux

namespace DendroModel.C01
open DendroModel DendroModel.Hier DendroModel.C01.Aux

/-- **unrooted rebuild over a namespace with extra members** (mirrors `rebuild_rooted_extras`): when the members include the
    tree's ≥ 3 taxa and at least one taxon that is not on the tree, the tree `build` makes of the split masks of the unrooted
    encoding, in any order and multiplicity, is well formed, unifurcation-free, over all members, and its clades are exactly:
    all members together, each member alone, and every non-empty split mask of the encoding — among them `L ∖ {k}`, the
    normalised split of the lowest leaf's own edge, so the tree's taxa other than `k` stay together and the absent members sit
    with leaf `k` at the root (on the lowest leaf's edge of the unrooted source).
    (The clade set pins the tree down up to child order; the explicit `Iso` to a reference tree built from `canonU` is
    `rebuild_unrooted_extras` below.) -/
theorem rebuild_unrooted_extras_clades (sup col : Bool) (t : T) (all : Nat) (members ss : List Nat)
    (hg : Good (T.toH t)) (h3 : Bridge.ThreeTaxa t.mask) (hm : members.Nodup)
    (hsub : bits t.mask ⊆ bits (maskL (members.map Hier.T.leaf))) (hall : bits (maskL (members.map Hier.T.leaf)) ⊆ bits all)
    (k : Nat) (hk : Lsb.lsb t.mask = 1 <<< k)
    (hss : ∀ x : Nat, x ∈ ss ↔ (x : Int) ∈ (encode (some false) sup col t).map (·.2)) :
    Good (build all members false ss) ∧ NoUnif (build all members false ss) ∧
      Hier.mask (build all members false ss) = maskL (members.map Hier.T.leaf) ∧
      (∀ x, x ∈ clades (build all members false ss) ↔
        x = maskL (members.map Hier.T.leaf) ∨ (∃ b ∈ members, x = 1 <<< b) ∨ (x ≠ 0 ∧ x ∈ ss)) ∧
      Hier.sdiff t.mask (1 <<< k) ∈ clades (build all members false ss) := by
  have h0 : t.mask ≠ 0 := threeTaxa_ne_zero h3
  have hkL : k ∈ bits t.mask := lsb_index_mem _ _ h0 hk
  obtain ⟨helem, hfs, hlamss, _, hcompl⟩ := unrooted_ss_facts sup col t all ss hg h3 (hsub.trans hall) k hk hss
  have hmemM : ∀ b, b ∈ bits (maskL (members.map Hier.T.leaf)) ↔ b ∈ members := by
    intro b; rw [Bridge.bits_maskL_leaves]; rfl
  obtain ⟨hgb, hmb, hcl⟩ := build_clades_general all members false ss hm
    (by
      intro s hs
      obtain ⟨h1, _, h2⟩ := (hfs s).mp hs
      refine ⟨?_, (helem s h1).1.trans hsub⟩
      intro hz; apply h2; rw [hz, bits_zero]; exact Set.subsingleton_empty)
    (by
      intro s hs b hb
      exact hlamss s ((hfs s).mp hs).1 b ((hfs b).mp hb).1)
  have hne : members ≠ [] := by
    intro he
    have : k ∈ members := (hmemM k).mp (hsub hkL)
    rw [he] at this; cases this
  have hclades : ∀ x, x ∈ clades (build all members false ss) ↔
      x = maskL (members.map Hier.T.leaf) ∨ (∃ b ∈ members, x = 1 <<< b) ∨ (x ≠ 0 ∧ x ∈ ss) := by
    intro x
    rw [hcl x]
    constructor
    · rintro ((h | h) | h)
      · exact Or.inl h
      · exact Or.inr (Or.inl h)
      · obtain ⟨h1, _, h2⟩ := (hfs x).mp h
        refine Or.inr (Or.inr ⟨?_, h1⟩)
        intro hz; apply h2; rw [hz, bits_zero]; exact Set.subsingleton_empty
    · rintro (h | h | ⟨hx0, hx⟩)
      · exact Or.inl (Or.inl h)
      · exact Or.inl (Or.inr h)
      · obtain ⟨e1, e2⟩ := helem x hx
        have hxa : x ≠ all := by
          intro h; rw [h] at e2; exact e2 (hall (hsub hkL))
        by_cases hsing : (bits x).Subsingleton
        · left; right
          obtain ⟨i, hi⟩ := ne_zero_bits hx0
          refine ⟨i, (hmemM i).mp (hsub (e1 hi)), ?_⟩
          apply bits_inj; rw [bits_shift]
          ext j; constructor
          · intro hj; exact hsing hj hi
          · intro hj; rw [Set.mem_singleton_iff] at hj; subst hj; exact hi
        · exact Or.inr ((hfs x).mpr ⟨hx, hxa, hsing⟩)
  refine ⟨hgb, Bridge.build_noUnif all members false ss hne, hmb, hclades, ?_⟩
  rw [hclades]
  refine Or.inr (Or.inr ⟨?_, hcompl⟩)
  -- L ∖ {k} is not empty: there are three taxa
  obtain ⟨a, b, c, ha, hb, hc, hab, hac, hbc⟩ := h3
  intro hz
  have hmem : ∀ y, y ∈ bits t.mask → y ≠ k → False := by
    intro y hy hyk
    have : y ∈ bits (Hier.sdiff t.mask (1 <<< k)) := by
      rw [bits_sdiff, bits_shift]; exact ⟨hy, fun h => hyk h⟩
    rw [hz, bits_zero] at this; exact this
  by_cases hak : a = k
  · exact hmem b hb (fun h => hab (hak.trans h.symm))
  · exact hmem a ha hak

/-! ### (e) `Tree.is_compatible_with_bipartition` as a statement over all edges -/

end DendroModel.C01

namespace DendroModel.C01.Aux
open DendroModel DendroModel.Hier DendroModel.C01

/-- two masks that are laminar in the bitwise sense are disjoint or nested as taxon sets -/
theorem lam_sets {a b : Nat} (h : Lam a b) : Disjoint (bits b) (bits a) ∨ bits b ⊆ bits a ∨ bits a ⊆ bits b := by
  rcases h with h | h | h
  · exact Or.inl ((and_eq_zero_iff _ _).mp h)
  · exact Or.inr (Or.inl ((and_eq_left_iff _ _).mp h))
  · exact Or.inr (Or.inr ((and_eq_left_iff _ _).mp (by rw [Nat.and_comm]; exact h)))

end DendroModel.C01.Aux

namespace DendroModel.C01
open DendroModel DendroModel.Hier DendroModel.C01.Aux

/-- rooted: `treeCompatible` on the encoding the driver computes (= `Tree.is_compatible_with_bipartition` with default
    arguments) answers true for a clade `s` inside the tree's leafset iff `s` is disjoint from or nested with the leafset
    below EVERY edge of the tree.  (The shortcut "already in the encoding" is sound because the clades of one tree are
    pairwise laminar.)  Stated for the default flags `true true` the library call uses, and for `s` inside the leafset. -/
theorem tree_compatible_rooted_sets (t : T) (s : Nat) (hg : Good (T.toH t)) (h0 : t.mask ≠ 0) (hs : bits s ⊆ bits t.mask) :
    treeCompatible (encode (some true) true true t) (encodeTree (some true) true true t).mask (s : Int) = true ↔
      ∀ m ∈ t.masksPost, Disjoint (bits m) (bits s) ∨ bits m ⊆ bits s ∨ bits s ⊆ bits m := by
  have hmem : ∀ p : Nat × Int, p ∈ encode (some true) true true t ↔ ∃ m ∈ t.masksPost, p = (m, (m : Int)) := by
    intro p
    have e : encodeTree (some true) true true t = t.sup := by simp [encodeTree]
    simp only [encode, e, List.mem_map]
    have hb : ((some true : Option Bool) == some true) = true := rfl
    simp only [hb, splitOf, if_true]
    constructor
    · rintro ⟨m, hm, rfl⟩; exact ⟨m, ((suppress_keeps_masks t).2.2 m).mp hm, rfl⟩
    · rintro ⟨m, hm, rfl⟩; exact ⟨m, ((suppress_keeps_masks t).2.2 m).mpr hm, rfl⟩
  have hsub : ∀ m ∈ t.masksPost, bits m ⊆ bits t.mask := by
    intro m hm; rw [← toH_mask]; exact clades_sub _ m ((toH_clades t m).mpr hm)
  have hone : ∀ m ∈ t.masksPost, (isCompatible (m : Int) (s : Int) (t.mask : Int) = true ↔
      (Disjoint (bits m) (bits s) ∨ bits m ⊆ bits s ∨ bits s ⊆ bits m)) :=
    fun m hm => is_compatible_sets m s t.mask h0 (hsub m hm) hs
  unfold treeCompatible
  rw [encodeTree_mask, Bool.or_eq_true, List.any_eq_true, List.all_eq_true]
  constructor
  · rintro (⟨p, hp, hps⟩ | hall)
    · obtain ⟨m', hm', rfl⟩ := (hmem p).mp hp
      have : m' = s := by
        have h' : ((m' : Nat) : Int) = (s : Int) := beq_iff_eq.mp hps
        exact_mod_cast h'
      subst this
      intro m hm
      have := clades_laminar (T.toH t) hg m' ((toH_clades t m').mpr hm') m ((toH_clades t m).mpr hm)
      exact lam_sets this
    · intro m hm
      exact (hone m hm).mp (hall (m, (m : Int)) ((hmem _).mpr ⟨m, hm, rfl⟩))
  · intro h
    right
    intro p hp
    obtain ⟨m, hm, rfl⟩ := (hmem p).mp hp
    exact (hone m hm).mpr (h m hm)

end DendroModel.C01

namespace DendroModel.C01.Aux
open DendroModel DendroModel.Hier DendroModel.C01

/-- compatibility of two bipartitions `A | F∖A`, `B | F∖B` of the same taxon set `F`: one of the four intersections of
    sides is empty -/
def Quad (A B F : Set Nat) : Prop := A ∩ B = ∅ ∨ A \ B = ∅ ∨ B \ A = ∅ ∨ (F \ A) ∩ (F \ B) = ∅

theorem quad_symm (A B F : Set Nat) : Quad A B F ↔ Quad B A F := by
  unfold Quad; rw [Set.inter_comm A B, Set.inter_comm (F \ A) (F \ B)]; tauto

/-- … and it does not matter which side of a bipartition is named -/
theorem quad_compl_left (A B F : Set Nat) (hA : A ⊆ F) (hB : B ⊆ F) : Quad (F \ A) B F ↔ Quad A B F := by
  have e1 : (F \ A) ∩ B = B \ A := by
    ext x; simp only [Set.mem_inter_iff, Set.mem_sdiff]
    exact ⟨fun h => ⟨h.2, h.1.2⟩, fun h => ⟨⟨hB h.1, h.2⟩, h.1⟩⟩
  have e2 : (F \ A) \ B = (F \ A) ∩ (F \ B) := by
    ext x; simp only [Set.mem_inter_iff, Set.mem_sdiff]
    exact ⟨fun h => ⟨h.1, h.1.1, h.2⟩, fun h => ⟨h.1, h.2.2⟩⟩
  have e3 : B \ (F \ A) = A ∩ B := by
    ext x; simp only [Set.mem_inter_iff, Set.mem_sdiff]
    constructor
    · intro h; refine ⟨?_, h.1⟩; by_contra hx; exact h.2 ⟨hB h.1, hx⟩
    · intro h; exact ⟨h.2, fun h' => h'.2 h.1⟩
  have e4 : (F \ (F \ A)) ∩ (F \ B) = A \ B := by
    ext x; simp only [Set.mem_inter_iff, Set.mem_sdiff]
    constructor
    · intro h; refine ⟨?_, h.2.2⟩; by_contra hx; exact h.1.2 ⟨h.1.1, hx⟩
    · intro h; exact ⟨⟨hA h.1, fun h' => h'.2 h.1⟩, hA h.1, h.2⟩
  unfold Quad; rw [e1, e2, e3, e4]; tauto

theorem quad_compl_right (A B F : Set Nat) (hA : A ⊆ F) (hB : B ⊆ F) : Quad A (F \ B) F ↔ Quad A B F := by
  rw [quad_symm, quad_compl_left B A F hB hA, quad_symm]

theorem quad_of_lam {A B : Set Nat} (F : Set Nat) (h : Disjoint A B ∨ A ⊆ B ∨ B ⊆ A) : Quad A B F := by
  rcases h with h | h | h
  · exact Or.inl (Set.disjoint_iff_inter_eq_empty.mp h)
  · exact Or.inr (Or.inl (Set.sdiff_eq_empty.mpr h))
  · exact Or.inr (Or.inr (Or.inl (Set.sdiff_eq_empty.mpr h)))

/-- the normalised mask of a leafset names the same bipartition -/
theorem quad_norm_left (L k m : Nat) (B : Set Nat) (hm : bits m ⊆ bits L) (hB : B ⊆ bits L) :
    Quad (bits (Hier.norm L (1 <<< k) m)) B (bits L) ↔ Quad (bits m) B (bits L) := by
  unfold Hier.norm
  by_cases h : m &&& (1 <<< k) ≠ 0
  · rw [if_pos h, bits_sdiff]; exact quad_compl_left _ _ _ hm hB
  · rw [if_neg h, (and_eq_left_iff m L).mpr hm]

theorem norm_sub (L lo m : Nat) : bits (Hier.norm L lo m) ⊆ bits L := by
  unfold Hier.norm; split
  · rw [bits_sdiff]; exact Set.sdiff_subset
  · rw [bits_and]; exact Set.inter_subset_right

theorem norm_avoid (L k m : Nat) : k ∉ bits (Hier.norm L (1 <<< k) m) := by
  unfold Hier.norm
  by_cases h : m &&& (1 <<< k) ≠ 0
  · rw [if_pos h, bits_sdiff]
    exact fun hx => hx.2 (mem_bits_of_and_shift_ne_zero h)
  · rw [if_neg h, bits_and]
    have h : m &&& (1 <<< k) = 0 := by by_contra hh; exact h hh
    intro hx
    have : k ∈ bits (m &&& 1 <<< k) := by rw [bits_and, bits_shift]; exact ⟨hx.1, rfl⟩
    rw [h, bits_zero] at this; exact this

end DendroModel.C01.Aux

namespace DendroModel.C01
open DendroModel DendroModel.Hier DendroModel.C01.Aux

/-- unrooted: `treeCompatible` on the encoding the driver computes answers true for a normalised split mask `s` (inside the
    tree's leafset, not containing its lowest taxon `k`) iff the bipartition `s | L∖s` is compatible — four-quadrant
    definition — with the bipartition induced by EVERY edge of the tree -/
theorem tree_compatible_unrooted_sets (t : T) (s k : Nat) (hg : Good (T.toH t)) (h0 : t.mask ≠ 0)
    (hk : Lsb.lsb t.mask = 1 <<< k) (hs : bits s ⊆ bits t.mask) (hks : k ∉ bits s) :
    treeCompatible (encode (some false) true true t) (encodeTree (some false) true true t).mask (s : Int) = true ↔
      ∀ m ∈ t.masksPost, Quad (bits m) (bits s) (bits t.mask) := by
  have hkL : k ∈ bits t.mask := lsb_index_mem _ _ h0 hk
  have hsub : ∀ m ∈ t.masksPost, bits m ⊆ bits t.mask := by
    intro m hm; rw [← toH_mask]; exact clades_sub _ m ((toH_clades t m).mpr hm)
  have hone : ∀ m ∈ t.masksPost,
      (isCompatible ((Hier.norm t.mask (1 <<< k) m : Nat) : Int) (s : Int) (t.mask : Int) = true ↔
        Quad (bits m) (bits s) (bits t.mask)) := by
    intro m hm
    rw [is_compatible_four_quadrants _ s t.mask k (norm_sub _ _ _) hs hkL (norm_avoid _ _ _) hks]
    exact quad_norm_left t.mask k m (bits s) (hsub m hm) hs
  have hmem := fun z => mem_encode_unrooted true true t hg h0 z
  simp only [hk] at hmem
  have hall : (∀ p ∈ encode (some false) true true t, isCompatible p.2 (s : Int) (t.mask : Int) = true) ↔
      ∀ m ∈ t.masksPost, isCompatible ((Hier.norm t.mask (1 <<< k) m : Nat) : Int) (s : Int) (t.mask : Int) = true := by
    constructor
    · intro h m hm
      obtain ⟨p, hp, hp2⟩ := List.mem_map.mp ((hmem _).mpr ⟨m, hm, rfl⟩)
      rw [← hp2]; exact h p hp
    · intro h p hp
      obtain ⟨m, hm, e⟩ := (hmem p.2).mp (List.mem_map.mpr ⟨p, hp, rfl⟩)
      rw [← e]; exact h m hm
  unfold treeCompatible
  rw [encodeTree_mask, Bool.or_eq_true, List.any_eq_true, List.all_eq_true, hall]
  constructor
  · rintro (⟨p, hp, hps⟩ | h)
    · obtain ⟨m', hm', e⟩ := (hmem p.2).mp (List.mem_map.mpr ⟨p, hp, rfl⟩)
      have hse : Hier.norm t.mask (1 <<< k) m' = s := by
        have h' : p.2 = (s : Int) := beq_iff_eq.mp hps
        rw [← e] at h'; exact_mod_cast h'
      intro m hm
      rw [← hse, quad_symm, quad_norm_left t.mask k m' (bits m) (hsub m' hm') (hsub m hm), quad_symm]
      have := clades_laminar (T.toH t) hg m' ((toH_clades t m').mpr hm') m ((toH_clades t m).mpr hm)
      exact quad_of_lam _ (lam_sets this)
    · intro m hm; exact (hone m hm).mp (h m hm)
  · intro h; right
    intro m hm; exact (hone m hm).mpr (h m hm)

end DendroModel.C01

/-! ## final round (audit 2-J) -/
namespace DendroModel.C01.Aux
open DendroModel DendroModel.Hier DendroModel.C01

/-- the bit index the driver normalises / re-seeds on (`lowIdx`, used by `ucanon`) is the one the theorems call `k` -/
theorem lowIdx_spec (m : Nat) (h : m ≠ 0) : Lsb.lsb m = 1 <<< lowIdx m := by
  obtain ⟨k, hk, hkm, hlow⟩ := lsb_spec m (by omega)
  have hklt : k < m.log2 + 1 := by
    have h1 : 2 ^ k ≤ m := Nat.ge_two_pow_of_testBit hkm
    have := (Nat.le_log2 h).mpr h1; omega
  have hf : (List.range (m.log2 + 1)).find? (fun i => m.testBit i) = some k := by
    rw [List.find?_range_eq_some]
    refine ⟨hkm, List.mem_range.mpr hklt, fun j hj => ?_⟩
    rw [hlow j hj]; rfl
  rw [hk]; unfold lowIdx; rw [hf]; rfl

/-- quartets for the non-vacuity examples: ((t0,t1),(t2,t3)), the same tree seeded elsewhere (t0,(t1,(t2,t3))), and the
    other quartet ((t0,t2),(t1,t3)) -/
def exQ1 : T := .node 0 none none none [.node 1 none none none [.node 2 (some 0) none none [], .node 3 (some 1) none none []],
    .node 4 none none none [.node 5 (some 2) none none [], .node 6 (some 3) none none []]]
def exQ1' : T := .node 0 none none none [.node 1 (some 0) none none [], .node 2 none none none [.node 3 (some 1) none none [],
    .node 4 none none none [.node 5 (some 2) none none [], .node 6 (some 3) none none []]]]
def exQ2 : T := .node 0 none none none [.node 1 none none none [.node 2 (some 0) none none [], .node 3 (some 2) none none []],
    .node 4 none none none [.node 5 (some 1) none none [], .node 6 (some 3) none none []]]

end DendroModel.C01.Aux

namespace DendroModel.C01
open DendroModel DendroModel.Hier DendroModel.C01.Aux

/-- what the driver's op `ucanon` re-seeds on is the lowest taxon of the tree, i.e. the `k` of
    `encode_unrooted_iff_topology` (the remaining informal link: `renderSorted` is only compared, not proved, to identify
    trees up to `Iso`) -/
theorem ucanon_uses_lowest_taxon (m : Nat) (h : m ≠ 0) : Lsb.lsb m = 1 <<< lowIdx m := lowIdx_spec m h

/-- `Bipartition.is_compatible_with` on two RAW unrooted leafsets `a`, `b` of a tree with leafset `L` (the code normalises
    both on the lowest taxon `k`, then runs the bit test): true iff the bipartitions `a | L∖a`, `b | L∖b` are compatible —
    one of the four intersections of sides is empty -/
theorem is_compatible_unrooted_raw (a b L k : Nat) (ha : bits a ⊆ bits L) (hb : bits b ⊆ bits L) (hk : k ∈ bits L) :
    isCompatible ((Hier.norm L (1 <<< k) a : Nat) : Int) ((Hier.norm L (1 <<< k) b : Nat) : Int) (L : Int) = true ↔
      Quad (bits a) (bits b) (bits L) := by
  rw [is_compatible_four_quadrants _ _ L k (norm_sub _ _ _) (norm_sub _ _ _) hk (norm_avoid _ _ _) (norm_avoid _ _ _)]
  show Quad (bits (Hier.norm L (1 <<< k) a)) (bits (Hier.norm L (1 <<< k) b)) (bits L) ↔ _
  rw [quad_norm_left L k a _ ha (norm_sub _ _ _), quad_symm, quad_norm_left L k b _ hb ha, quad_symm]

/-- **rooted rebuild over a namespace with extra members** (the quantifier's "namespaces larger than the leaf set"): when
    the members include the tree's ≥ 2 taxa and at least one taxon that is not on the tree, the tree `build` makes of the
    rooted split masks of `encode`, in any order and multiplicity, has as clades exactly: all members together, each member
    alone, and the clades of the encoded tree — i.e. it is (up to child order, `Iso` between two `Good` trees) the encoded
    tree, unifurcations suppressed, with the absent members hung next to it under a new root. -/
theorem rebuild_rooted_extras (sup col : Bool) (t : T) (all : Nat) (members ss : List Nat)
    (hg : Good (T.toH t)) (hm : members.Nodup)
    (hsub : bits t.mask ⊆ bits (maskL (members.map Hier.T.leaf))) (hall : bits (maskL (members.map Hier.T.leaf)) ⊆ bits all)
    (h2 : ¬ (bits t.mask).Subsingleton) (hex : ∃ b ∈ members, b ∉ bits t.mask)
    (hss : ∀ x : Nat, x ∈ ss ↔ (x : Int) ∈ (encode (some true) sup col t).map (·.2)) :
    (∀ x, x ∈ clades (build all members true ss) ↔
      x = maskL (members.map Hier.T.leaf) ∨ (∃ b ∈ members, x = 1 <<< b) ∨ x ∈ clades (Hier.sup (T.toH t))) ∧
    Iso (.node (Hier.sup (T.toH t) :: (members.filter (fun b => !(t.mask.testBit b))).map Hier.T.leaf))
        (build all members true ss) := by
  have h0 : t.mask ≠ 0 := by
    intro h; apply h2; rw [h, bits_zero]; exact Set.subsingleton_empty
  have ht0 : Hier.mask (T.toH t) ≠ 0 := by rw [toH_mask]; exact h0
  have hss' : ∀ x, x ∈ ss ↔ x ∈ clades (T.toH t) := by
    intro x
    rw [hss x, mem_encode_rooted, toH_clades]
    constructor
    · rintro ⟨y, hy, hyt⟩
      have : x = y := by exact_mod_cast hy
      subst this; exact hyt
    · intro hx; exact ⟨x, rfl, hx⟩
  obtain ⟨hgb, hmb, hcl⟩ := build_rooted_clades all members (T.toH t) ss hm hall hg (by rw [toH_mask]; exact hsub) hss'
  have hmemM : ∀ b, b ∈ bits (maskL (members.map Hier.T.leaf)) ↔ b ∈ members := by
    intro b; rw [Bridge.bits_maskL_leaves]; rfl
  have hclades : ∀ x, x ∈ clades (build all members true ss) ↔
      x = maskL (members.map Hier.T.leaf) ∨ (∃ b ∈ members, x = 1 <<< b) ∨ x ∈ clades (Hier.sup (T.toH t)) := by
    intro x
    rw [hcl x, sup_clades]
    constructor
    · rintro ((h | h) | ⟨h, _⟩)
      · exact Or.inl h
      · exact Or.inr (Or.inl h)
      · exact Or.inr (Or.inr h)
    · rintro (h | h | h)
      · exact Or.inl (Or.inl h)
      · exact Or.inl (Or.inr h)
      · have hxs : bits x ⊆ bits t.mask := by rw [← toH_mask]; exact clades_sub _ x h
        have hxa : x ≠ all := by
          obtain ⟨b, hb, hbt⟩ := hex
          intro he; rw [he] at hxs
          exact hbt (hxs (hall ((hmemM b).mpr hb)))
        by_cases hsing : (bits x).Subsingleton
        · left; right
          obtain ⟨i, hi⟩ := ne_zero_bits (clades_ne_zero _ hg ht0 x h)
          refine ⟨i, (hmemM i).mp (hsub (hxs hi)), ?_⟩
          apply bits_inj; rw [bits_shift]
          ext j; constructor
          · intro hj; exact hsing hj hi
          · intro hj; rw [Set.mem_singleton_iff] at hj; subst hj; exact hi
        · exact Or.inr ⟨h, hxa, hsing⟩
  refine ⟨hclades, ?_⟩
  -- the reference tree: the encoded tree (unifurcations suppressed) and the absent members under a new root
  set ex := members.filter (fun b => !(t.mask.testBit b)) with hexd
  have hexmem : ∀ b, b ∈ ex ↔ b ∈ members ∧ b ∉ bits t.mask := by
    intro b; rw [hexd, List.mem_filter]
    constructor
    · rintro ⟨h1, h2'⟩; refine ⟨h1, fun hb => ?_⟩
      have hb' : t.mask.testBit b = true := hb
      rw [hb'] at h2'; exact Bool.noConfusion h2'
    · rintro ⟨h1, h2'⟩; refine ⟨h1, ?_⟩
      cases hb : t.mask.testBit b
      · rfl
      · exact absurd hb h2'
  have hexne : ex ≠ [] := by
    obtain ⟨b, hb, hbt⟩ := hex
    intro he; have := (hexmem b).mpr ⟨hb, hbt⟩; rw [he] at this; cases this
  have hexnd : ex.Nodup := hm.filter _
  have hsupm : Hier.mask (Hier.sup (T.toH t)) = t.mask := by rw [sup_mask, toH_mask]
  have hXmask : maskL (Hier.sup (T.toH t) :: ex.map Hier.T.leaf) = maskL (members.map Hier.T.leaf) := by
    apply bits_inj
    simp only [maskL, bits_or, hsupm, Bridge.bits_maskL_leaves]
    ext b; simp only [Set.mem_union, Set.mem_ofPred_eq]
    constructor
    · rintro (h | h)
      · exact (hmemM b).mp (hsub h)
      · exact ((hexmem b).mp h).1
    · intro h
      by_cases hbt : b ∈ bits t.mask
      · exact Or.inl hbt
      · exact Or.inr ((hexmem b).mpr ⟨h, hbt⟩)
  have hXgood : GoodL (Hier.sup (T.toH t) :: ex.map Hier.T.leaf) := by
    simp only [GoodL]
    refine ⟨sup_good _ hg, by rw [hsupm]; exact h0, ?_, Bridge.goodL_leaves ex hexnd⟩
    rw [hsupm, and_eq_zero_iff, Bridge.bits_maskL_leaves, Set.disjoint_left]
    intro b hb hbe; exact ((hexmem b).mp hbe).2 hb
  have hXnu : NoUnif (.node (Hier.sup (T.toH t) :: ex.map Hier.T.leaf)) := by
    simp only [NoUnif, NoUnifL]
    refine ⟨?_, sup_noUnif _ hg ht0, ?_⟩
    · cases hq : ex with
      | nil => exact absurd hq hexne
      | cons _ _ => simp
    · have hl : ∀ l : List Nat, NoUnifL (l.map Hier.T.leaf) := by
        intro l
        induction l with
        | nil => simp [NoUnifL]
        | cons b r ih => simp [NoUnifL, NoUnif, ih]
      exact hl ex
  have hne : members ≠ [] := by
    obtain ⟨b, hb, _⟩ := hex; intro he; rw [he] at hb; cases hb
  have hMne : maskL (members.map Hier.T.leaf) ≠ 0 := by
    intro hz; apply h0; apply bits_inj; rw [bits_zero]
    have := hsub; rw [hz, bits_zero] at this; exact Set.subset_empty_iff.mp this
  apply clades_injective _ _ (by simpa [Good] using hXgood) (by simp only [Hier.mask]; rw [hXmask]; exact hMne)
    hgb (by rw [hmb]; exact hMne) hXnu (Bridge.build_noUnif all members true ss hne)
  intro x
  rw [hclades x]
  simp only [clades, cladesL, List.mem_cons, List.mem_append, hXmask, Bridge.cladesL_leaves]
  constructor
  · rintro (h | h | ⟨b, hb, rfl⟩)
    · exact Or.inl h
    · exact Or.inr (Or.inr h)
    · exact Or.inr (Or.inl ⟨b, ((hexmem b).mp hb).1, rfl⟩)
  · rintro (h | ⟨b, hb, rfl⟩ | h)
    · exact Or.inl h
    · by_cases hbt : b ∈ bits t.mask
      · exact Or.inr (Or.inl (Bridge.single_mem_clades _ b (by rw [hsupm]; exact hbt)))
      · exact Or.inr (Or.inr ⟨b, (hexmem b).mpr ⟨hb, hbt⟩, rfl⟩)
    · exact Or.inr (Or.inl h)

/-! ### last round: the driver's canonical unrooted tree `ucanonT` decides "same unrooted topology" -/

/-- `ucanonT` (what op `ucanon2` prints, structurally: re-seed at the lowest leaf, order children by mask) is a complete
    invariant: for two well-formed trees over the same ≥ 3 taxa, the two canonical trees are EQUAL iff the re-seeded trees are
    `Iso` (`Bridge.csort_iso`: `csort` does not see child order — via a matching of partners and uniqueness of a sorted
    permutation on distinct masks; `Bridge.iso_of_csort_eq`: `csort` keeps the clade set).  What stays trusted is only that
    the structural printer `Hier.render` is injective. -/
theorem ucanonT_eq_iff_iso (t u : T) (hgt : Good (T.toH t)) (hgu : Good (T.toH u)) (hL : t.mask = u.mask)
    (h3 : Bridge.ThreeTaxa t.mask) :
    ucanonT t = ucanonT u ↔
      Iso (canonU (lowIdx t.mask) (Hier.sup (T.toH t))) (canonU (lowIdx t.mask) (Hier.sup (T.toH u))) := by
  have h0 : t.mask ≠ 0 := threeTaxa_ne_zero h3
  have hk := lowIdx_spec t.mask h0
  have hkL := lsb_index_mem _ _ h0 hk
  have hmt : Hier.mask (Hier.sup (T.toH t)) = t.mask := by rw [sup_mask, toH_mask]
  have hmu : Hier.mask (Hier.sup (T.toH u)) = t.mask := by rw [sup_mask, toH_mask, hL]
  obtain ⟨a1, a2, _, a4, _⟩ := canonU_is_canonical (lowIdx t.mask) t hgt h3 hkL
  obtain ⟨b1, b2, _, b4, _⟩ := canonU_is_canonical (lowIdx t.mask) u hgu (by rw [← hL]; exact h3) (by rw [← hL]; exact hkL)
  unfold ucanonT
  simp only [hmt, hmu]
  exact Bridge.csort_eq_iff_iso _ _ a1 b1 (by rw [a4]; exact h0) (by rw [b4, ← hL]; exact h0) a2 b2

/-- … hence the clause of the statement in the driver's own terms: two well-formed unrooted trees over the same ≥ 3 taxa have
    equal sets of split masks (any flags) iff the driver computes the same canonical tree for both -/
theorem ucanonT_eq_iff_same_splits (s c s' c' : Bool) (t u : T) (hgt : Good (T.toH t)) (hgu : Good (T.toH u))
    (hL : t.mask = u.mask) (h3 : Bridge.ThreeTaxa t.mask) :
    ucanonT t = ucanonT u ↔
      ∀ z : Int, z ∈ (encode (some false) s c t).map (·.2) ↔ z ∈ (encode (some false) s' c' u).map (·.2) := by
  rw [ucanonT_eq_iff_iso t u hgt hgu hL h3]
  exact (encode_unrooted_iff_topology s c s' c' t u hgt hgu hL h3 (lowIdx t.mask)
    (lowIdx_spec t.mask (threeTaxa_ne_zero h3))).symm

/-- the order-free STRING of op `ucanon` is an invariant too: same unrooted topology ⇒ same string (`Bridge.renderSorted_iso`:
    insertion sort of the children's strings is permutation-invariant).  The converse for strings — that `renderSorted` is
    injective up to `Iso` — is not proved; the complete invariant is the tree `ucanonT` (`ucanonT_eq_iff_iso`). -/
theorem ucanon_eq_of_iso (t u : T) (hgt : Good (T.toH t)) (hgu : Good (T.toH u)) (hL : t.mask = u.mask)
    (h3 : Bridge.ThreeTaxa t.mask)
    (h : Iso (canonU (lowIdx t.mask) (Hier.sup (T.toH t))) (canonU (lowIdx t.mask) (Hier.sup (T.toH u)))) :
    ucanon t = ucanon u := by
  have h0 : t.mask ≠ 0 := threeTaxa_ne_zero h3
  have hkL := lsb_index_mem _ _ h0 (lowIdx_spec t.mask h0)
  have hmt : Hier.mask (Hier.sup (T.toH t)) = t.mask := by rw [sup_mask, toH_mask]
  have hmu : Hier.mask (Hier.sup (T.toH u)) = t.mask := by rw [sup_mask, toH_mask, hL]
  obtain ⟨a1, _⟩ := canonU_is_canonical (lowIdx t.mask) t hgt h3 hkL
  obtain ⟨b1, _⟩ := canonU_is_canonical (lowIdx t.mask) u hgu (by rw [← hL]; exact h3) (by rw [← hL]; exact hkL)
  unfold ucanon
  simp only [hmt, hmu]
  exact Bridge.renderSorted_iso _ _ h a1 b1

/-- `encode_unrooted_iff_topology` without the ≥ 3 taxa hypothesis: with one or two taxa a well-formed tree is, once
    unifurcations are suppressed, a single leaf or a cherry (`Bridge.small_shape`), `canonU` is the identity on it, there is one
    topology per leaf set (`Bridge.small_iso`) and both sides of the iff hold -/
theorem encode_unrooted_iff_topology_all (s c s' c' : Bool) (t u : T) (hgt : Good (T.toH t)) (hgu : Good (T.toH u))
    (hL : t.mask = u.mask) (h0 : t.mask ≠ 0) (k : Nat) (hk : Lsb.lsb t.mask = 1 <<< k) :
    (∀ z : Int, z ∈ (encode (some false) s c t).map (·.2) ↔ z ∈ (encode (some false) s' c' u).map (·.2)) ↔
      Iso (canonU k (Hier.sup (T.toH t))) (canonU k (Hier.sup (T.toH u))) := by
  by_cases h3 : Bridge.ThreeTaxa t.mask
  · exact encode_unrooted_iff_topology s c s' c' t u hgt hgu hL h3 k hk
  · have h0u : u.mask ≠ 0 := by rw [← hL]; exact h0
    have hmt : Hier.mask (Hier.sup (T.toH t)) = t.mask := by rw [sup_mask, toH_mask]
    have hmu : Hier.mask (Hier.sup (T.toH u)) = t.mask := by rw [sup_mask, toH_mask, hL]
    have ht0 : Hier.mask (T.toH t) ≠ 0 := by rw [toH_mask]; exact h0
    have hu0 : Hier.mask (T.toH u) ≠ 0 := by rw [toH_mask]; exact h0u
    have hiso := Bridge.small_iso _ _ (sup_good _ hgt) (sup_good _ hgu) (sup_noUnif _ hgt ht0) (sup_noUnif _ hgu hu0)
      (hmt.trans hmu.symm) (by rw [hmt]; exact h3)
    rw [Bridge.canonU_small k _ (sup_good _ hgt) (sup_noUnif _ hgt ht0) (by rw [hmt]; exact h3),
      Bridge.canonU_small k _ (sup_good _ hgu) (sup_noUnif _ hgu hu0) (by rw [hmu]; exact h3)]
    exact ⟨fun _ => hiso, fun _ z => encode_unrooted_invariant s c s' c' t u hgt h0 hgu h0u hiso z⟩

/-- … and the driver-level form for any number of taxa: equal sets of split masks iff the driver computes the same canonical tree -/
theorem ucanonT_eq_iff_same_splits_all (s c s' c' : Bool) (t u : T) (hgt : Good (T.toH t)) (hgu : Good (T.toH u))
    (hL : t.mask = u.mask) (h0 : t.mask ≠ 0) :
    ucanonT t = ucanonT u ↔
      ∀ z : Int, z ∈ (encode (some false) s c t).map (·.2) ↔ z ∈ (encode (some false) s' c' u).map (·.2) := by
  by_cases h3 : Bridge.ThreeTaxa t.mask
  · exact ucanonT_eq_iff_same_splits s c s' c' t u hgt hgu hL h3
  · have h0u : u.mask ≠ 0 := by rw [← hL]; exact h0
    have hmt : Hier.mask (Hier.sup (T.toH t)) = t.mask := by rw [sup_mask, toH_mask]
    have hmu : Hier.mask (Hier.sup (T.toH u)) = t.mask := by rw [sup_mask, toH_mask, hL]
    have ht0 : Hier.mask (T.toH t) ≠ 0 := by rw [toH_mask]; exact h0
    have hu0 : Hier.mask (T.toH u) ≠ 0 := by rw [toH_mask]; exact h0u
    have hiso := Bridge.small_iso _ _ (sup_good _ hgt) (sup_good _ hgu) (sup_noUnif _ hgt ht0) (sup_noUnif _ hgu hu0)
      (hmt.trans hmu.symm) (by rw [hmt]; exact h3)
    have heq : ucanonT t = ucanonT u := by
      unfold ucanonT
      simp only [hmt, hmu]
      rw [Bridge.canonU_small _ _ (sup_good _ hgt) (sup_noUnif _ hgt ht0) (by rw [hmt]; exact h3),
        Bridge.canonU_small _ _ (sup_good _ hgu) (sup_noUnif _ hgu hu0) (by rw [hmu]; exact h3)]
      exact Bridge.csort_iso _ _ hiso (sup_good _ hgt) (sup_good _ hgu)
    exact ⟨fun _ z => encode_unrooted_invariant s c s' c' t u hgt h0 hgu h0u hiso z, fun _ => heq⟩

end DendroModel.C01

namespace DendroModel.C01.Aux
open DendroModel DendroModel.Hier DendroModel.C01

theorem mem_bits_maskL (l : List Hier.T) (i : Nat) : i ∈ bits (maskL l) ↔ ∃ c ∈ l, i ∈ bits (Hier.mask c) := by
  induction l with
  | nil => simp [maskL, bits_zero]
  | cons c cs ih =>
    simp only [maskL, bits_or, Set.mem_union, ih, List.mem_cons]
    constructor
    · rintro (h | ⟨d, hd, hi⟩)
      · exact ⟨c, Or.inl rfl, h⟩
      · exact ⟨d, Or.inr hd, hi⟩
    · rintro ⟨d, (rfl | hd), hi⟩
      · exact Or.inl hi
      · exact Or.inr ⟨d, hd, hi⟩

/-- among well-formed siblings that include leaf `k`, only leaf `k` has bit `k` -/
theorem hasBit_iff_leaf {k : Nat} {cs : List Hier.T} (hg : GoodL cs) (hk : Hier.T.leaf k ∈ cs) {c : Hier.T} (hc : c ∈ cs) :
    (Hier.mask c).testBit k = true ↔ c = Hier.T.leaf k := by
  constructor
  · intro h
    apply goodL_eq_of_inter hg hc hk
    intro hz
    have hd := (and_eq_zero_iff _ _).mp hz
    have hk' : k ∈ bits (Hier.mask (Hier.T.leaf k)) := by simp [Hier.mask, bits_shift]
    exact (Set.disjoint_left.mp hd) h hk'
  · rintro rfl
    show k ∈ bits (Hier.mask (Hier.T.leaf k))
    simp [Hier.mask, bits_shift]

/-- a well-formed sibling list all of whose members are the same tree has at most one member -/
theorem goodL_const_length {x : Hier.T} : ∀ l : List Hier.T, GoodL l → (∀ c ∈ l, c = x) → l.length ≤ 1
  | [], _, _ => by simp
  | [_], _, _ => by simp
  | a :: b :: r, hg, hall => by
    exfalso
    have ha : a = x := hall a (by simp)
    have hb : b = x := hall b (by simp)
    simp only [GoodL, maskL] at hg
    obtain ⟨_, h0, hdis, _⟩ := hg
    apply h0
    have : Hier.mask a &&& Hier.mask b = 0 := by
      apply Nat.eq_of_testBit_eq; intro i
      have := congrArg (fun n => n.testBit i) hdis
      simp only [Nat.testBit_and, Nat.testBit_or, Nat.zero_testBit] at this ⊢
      cases h1 : (Hier.mask a).testBit i <;> cases h2 : (Hier.mask b).testBit i <;> simp_all
    rw [ha, hb, Nat.and_self] at this
    rw [ha]; exact this

end DendroModel.C01.Aux

namespace DendroModel.C01
open DendroModel DendroModel.Hier DendroModel.C01.Aux

/-- **unrooted rebuild over a namespace with extra members, full form**: the tree `build` makes of the unrooted encoding's split
    masks (any order and multiplicity) over members ⊋ the tree's ≥ 3 taxa is — up to child order, `Iso` between two `Good`
    unifurcation-free trees — this reference tree: a root carrying the lowest leaf `k`, the absent members, and ONE child holding
    everything else on the tree, namely the canonical re-seeding `canonU k` of the encoded tree (the driver's) with leaf `k` taken
    out of its seed.  So the encoded tree's unrooted topology is kept, and the absent members sit on the lowest leaf's edge.
    No hypothesis that an absent member exists: with members = the tree's taxa the reference tree is `(k, rest)`, the same unrooted
    tree (`rebuild_unrooted_topology`).  Supersedes the `_partial` form (now `rebuild_unrooted_extras_clades`). -/
theorem rebuild_unrooted_extras (sup col : Bool) (t : T) (all : Nat) (members ss : List Nat)
    (hg : Good (T.toH t)) (h3 : Bridge.ThreeTaxa t.mask) (hm : members.Nodup)
    (hsub : bits t.mask ⊆ bits (maskL (members.map Hier.T.leaf))) (hall : bits (maskL (members.map Hier.T.leaf)) ⊆ bits all)
    (k : Nat) (hk : Lsb.lsb t.mask = 1 <<< k)
    (hss : ∀ x : Nat, x ∈ ss ↔ (x : Int) ∈ (encode (some false) sup col t).map (·.2)) :
    ∃ cs, canonU k (Hier.sup (T.toH t)) = .node cs ∧ Hier.T.leaf k ∈ cs ∧
      Iso (.node (Hier.T.leaf k :: .node (cs.filter (fun c => !(Hier.mask c).testBit k)) ::
            (members.filter (fun b => !(t.mask.testBit b))).map Hier.T.leaf))
          (build all members false ss) := by
  have h0 : t.mask ≠ 0 := threeTaxa_ne_zero h3
  have hkL : k ∈ bits t.mask := lsb_index_mem _ _ h0 hk
  obtain ⟨hgb, hnb, hmb, hcl, hcompl⟩ := rebuild_unrooted_extras_clades sup col t all members ss hg h3 hm hsub hall k hk hss
  obtain ⟨c1, c2, ⟨cs, hC, hkcs, h3cs⟩, c4, c5⟩ := canonU_is_canonical k t hg h3 hkL
  rw [hC] at c1 c2 c4 c5
  simp only [Good] at c1
  simp only [NoUnif] at c2
  simp only [Hier.mask] at c4
  refine ⟨cs, hC, hkcs, ?_⟩
  have hmT0 : Hier.mask (Hier.sup (T.toH t)) = t.mask := by rw [sup_mask, toH_mask]
  have hmemM : ∀ b, b ∈ bits (maskL (members.map Hier.T.leaf)) ↔ b ∈ members := by
    intro b; rw [Bridge.bits_maskL_leaves]; rfl
  have hMne : maskL (members.map Hier.T.leaf) ≠ 0 := by
    intro hz; have := hsub hkL; rw [hz, bits_zero] at this; exact this
  have hcne : Hier.sdiff t.mask (1 <<< k) ≠ 0 := clades_ne_zero _ hgb (by rw [hmb]; exact hMne) _ hcompl
  -- ss, minus 0, is the normalised split set of the canonical form
  have hssU : ∀ x, (x ≠ 0 ∧ x ∈ ss) ↔ x ∈ usplits (1 <<< k) (.node cs) := by
    intro x
    rw [hss x, mem_encode_unrooted_of sup col t hg h0 k hk (Hier.sup (T.toH t)) hmT0 (fun m => by rw [sup_clades, toH_clades])]
    constructor
    · rintro ⟨hx0, y, hy, hyu⟩
      have : y = x := by exact_mod_cast hy
      subst this
      rcases hyu with h | h
      · exact absurd h hx0
      · exact (c5 y).mpr h
    · intro hx
      refine ⟨?_, x, rfl, Or.inr ((c5 x).mp hx)⟩
      rcases (usplits_canon c1 hkcs x).mp hx with rfl | ⟨c, hc, _, hxc⟩
      · rw [c4]; exact hcne
      · exact clades_ne_zero c (goodL_mem c1 hc).1 (goodL_mem c1 hc).2 x hxc
  -- the two filtered lists
  set others := cs.filter (fun c => !(Hier.mask c).testBit k) with hothd
  set ex := members.filter (fun b => !(t.mask.testBit b)) with hexd
  have hoth : ∀ c, c ∈ others ↔ c ∈ cs ∧ c ≠ Hier.T.leaf k := by
    intro c; rw [hothd, List.mem_filter]
    constructor
    · rintro ⟨hc, hb⟩
      refine ⟨hc, fun he => ?_⟩
      have := (hasBit_iff_leaf c1 hkcs hc).mpr he
      rw [this] at hb; exact Bool.noConfusion hb
    · rintro ⟨hc, hne⟩
      refine ⟨hc, ?_⟩
      cases hb : (Hier.mask c).testBit k
      · rfl
      · exact absurd ((hasBit_iff_leaf c1 hkcs hc).mp hb) hne
  have hexmem : ∀ b, b ∈ ex ↔ b ∈ members ∧ b ∉ bits t.mask := by
    intro b; rw [hexd, List.mem_filter]
    constructor
    · rintro ⟨h1, h2'⟩; refine ⟨h1, fun hb => ?_⟩
      have hb' : t.mask.testBit b = true := hb
      rw [hb'] at h2'; exact Bool.noConfusion h2'
    · rintro ⟨h1, h2'⟩; refine ⟨h1, ?_⟩
      cases hb : t.mask.testBit b
      · rfl
      · exact absurd hb h2'
  have hexnd : ex.Nodup := hm.filter _
  have hothmask : maskL others = Hier.sdiff t.mask (1 <<< k) := by
    apply bits_inj
    ext i
    rw [mem_bits_maskL, bits_sdiff, bits_shift]
    constructor
    · rintro ⟨c, hc, hi⟩
      obtain ⟨hc1, hc2⟩ := (hoth c).mp hc
      obtain ⟨o1, _, o3⟩ := other_child_clades c1 hkcs hc1 hc2 (mask_mem_clades c)
      refine ⟨by rw [← c4]; exact o3 hi, fun hik => ?_⟩
      rw [Set.mem_singleton_iff] at hik; subst hik; exact o1 hi
    · rintro ⟨hi, hik⟩
      rw [← c4, mem_bits_maskL] at hi
      obtain ⟨c, hc, hic⟩ := hi
      refine ⟨c, (hoth c).mpr ⟨hc, ?_⟩, hic⟩
      rintro rfl
      apply hik
      simpa [Hier.mask, bits_shift] using hic
  have hothlen : 2 ≤ others.length := by
    have hlen := List.length_eq_countP_add_countP (fun c : Hier.T => (Hier.mask c).testBit k) (l := cs)
    rw [List.countP_eq_length_filter, List.countP_eq_length_filter] at hlen
    have hone : (cs.filter (fun c => (Hier.mask c).testBit k)).length ≤ 1 :=
      goodL_const_length (x := Hier.T.leaf k) _ (goodL_filter _ c1) (by
        intro c hc
        obtain ⟨hc1, hc2⟩ := List.mem_filter.mp hc
        exact (hasBit_iff_leaf c1 hkcs hc1).mp hc2)
    have he : (cs.filter (fun a => decide ¬ ((Hier.mask a).testBit k = true))).length = others.length := by
      rw [hothd]; congr 1; apply List.filter_congr; intro c _; cases (Hier.mask c).testBit k <;> rfl
    omega
  have hothgood : GoodL others := goodL_filter _ c1
  have hothnu : NoUnifL others := Bridge.noUnifL_filter _ cs c2.2
  -- the reference tree
  have hRmask : maskL (Hier.T.leaf k :: .node others :: ex.map Hier.T.leaf) = maskL (members.map Hier.T.leaf) := by
    apply bits_inj
    simp only [maskL, Hier.mask, bits_or, hothmask, bits_sdiff, bits_shift, Bridge.bits_maskL_leaves]
    ext b
    simp only [Set.mem_union, Set.mem_singleton_iff, Set.mem_sdiff, Set.mem_ofPred_eq]
    constructor
    · rintro (rfl | ⟨h, _⟩ | h)
      · exact (hmemM _).mp (hsub hkL)
      · exact (hmemM b).mp (hsub h)
      · exact ((hexmem b).mp h).1
    · intro h
      by_cases hbt : b ∈ bits t.mask
      · by_cases hbk : b = k
        · exact Or.inl hbk
        · exact Or.inr (Or.inl ⟨hbt, hbk⟩)
      · exact Or.inr (Or.inr ((hexmem b).mpr ⟨h, hbt⟩))
  have hRgood : GoodL (Hier.T.leaf k :: .node others :: ex.map Hier.T.leaf) := by
    simp only [GoodL, Good, Hier.mask, maskL]
    refine ⟨trivial, shift_ne_zero k, ?_, hothgood, by rw [hothmask]; exact hcne, ?_, Bridge.goodL_leaves ex hexnd⟩
    · rw [and_eq_zero_iff, bits_shift, bits_or, hothmask, bits_sdiff, bits_shift, Bridge.bits_maskL_leaves, Set.disjoint_left]
      intro b hb hbe
      rw [Set.mem_singleton_iff] at hb; subst hb
      rcases hbe with h | h
      · exact h.2 rfl
      · exact ((hexmem _).mp h).2 hkL
    · rw [hothmask, and_eq_zero_iff, bits_sdiff, Bridge.bits_maskL_leaves, Set.disjoint_left]
      intro b hb hbe
      exact ((hexmem b).mp hbe).2 hb.1
  have hRnu : NoUnif (.node (Hier.T.leaf k :: .node others :: ex.map Hier.T.leaf)) := by
    have hl : ∀ l : List Nat, NoUnifL (l.map Hier.T.leaf) := by
      intro l
      induction l with
      | nil => simp [NoUnifL]
      | cons b r ih => simp [NoUnifL, NoUnif, ih]
    simp only [NoUnif, NoUnifL, List.length_cons]
    exact ⟨by omega, trivial, ⟨hothlen, hothnu⟩, hl ex⟩
  apply clades_injective _ _ (by simpa [Good] using hRgood) (by simp only [Hier.mask]; rw [hRmask]; exact hMne)
    hgb (by rw [hmb]; exact hMne) hRnu hnb
  intro x
  rw [hcl x]
  simp only [clades, cladesL, List.mem_cons, List.mem_append, hRmask, Bridge.cladesL_leaves, List.not_mem_nil, or_false]
  constructor
  · rintro (h | h | (h | h) | ⟨b, hb, rfl⟩)
    · exact Or.inl h
    · exact Or.inr (Or.inl ⟨k, (hmemM k).mp (hsub hkL), h⟩)
    · refine Or.inr (Or.inr ((hssU x).mpr ((usplits_canon c1 hkcs x).mpr (Or.inl ?_))))
      rw [h, hothmask, c4]
    · obtain ⟨c, hc, hxc⟩ := (mem_cladesL _ _).mp h
      obtain ⟨hc1, hc2⟩ := (hoth c).mp hc
      exact Or.inr (Or.inr ((hssU x).mpr ((usplits_canon c1 hkcs x).mpr (Or.inr ⟨c, hc1, hc2, hxc⟩))))
    · exact Or.inr (Or.inl ⟨b, ((hexmem b).mp hb).1, rfl⟩)
  · rintro (h | ⟨b, hb, rfl⟩ | h)
    · exact Or.inl h
    · by_cases hbt : b ∈ bits t.mask
      · by_cases hbk : b = k
        · subst hbk; exact Or.inr (Or.inl rfl)
        · refine Or.inr (Or.inr (Or.inl (Or.inr ?_)))
          apply Bridge.single_mem_cladesL
          rw [hothmask, bits_sdiff, bits_shift]
          exact ⟨hbt, hbk⟩
      · exact Or.inr (Or.inr (Or.inr ⟨b, (hexmem b).mpr ⟨hb, hbt⟩, rfl⟩))
    · rcases (usplits_canon c1 hkcs x).mp ((hssU x).mp h) with h | ⟨c, hc, hck, hxc⟩
      · refine Or.inr (Or.inr (Or.inl (Or.inl ?_)))
        rw [h, hothmask, c4]
      · exact Or.inr (Or.inr (Or.inl (Or.inr ((mem_cladesL _ _).mpr ⟨c, (hoth c).mpr ⟨hc, hck⟩, hxc⟩))))


/-! ## extension round 3: kernels regenerated from inside the anchored methods (tie A), `indexes_of_set_bits`, multiplicity,
histories of encodings, edits and queries -/

/-- **exactly one bipartition per retained edge**: the leafset components of `encode`, as a multiset, are the leafset masks of
    the nodes of the tree the encoder leaves behind — one pair per node, none twice, none missing (with `encode_pairs_spec`
    for what the second component of each pair is) -/
theorem encode_one_pair_per_node (r : Option Bool) (s c : Bool) (t : T) :
    ((encode r s c t).map (·.1)).Perm ((encodeTree r s c t).nodes.map T.mask) ∧
      (encode r s c t).length = (encodeTree r s c t).nodes.length := by
  have e : (encode r s c t).map (·.1) = (encodeTree r s c t).masksPost := by
    simp [encode, List.map_map, Function.comp_def]
  have hp := Ext.masksPost_perm (encodeTree r s c t)
  refine ⟨e ▸ hp, ?_⟩
  have := hp.length_eq
  rw [← e] at this
  simpa using this

/-- `bitprocessing.indexes_of_set_bits(s)` (the `while` loop of `set_bit_index_iter`, run by the driver as `sbiLoop` with fuel
    `bit length`): with the default arguments, and with `one_based`, the result is exactly the indices of the set bits of `s`,
    in increasing order — the fuel suffices and no bit is skipped or reported twice -/
theorem indexes_of_set_bits_spec (s : Nat) (oneBased : Bool) :
    indexesOfSetBits (s : Int) (-1) oneBased false =
      ((List.range (s.log2 + 1)).filter (fun j => s.testBit j)).map (fun (j : Nat) => (if oneBased then 1 else 0) + (j : Int)) :=
  Ext.indexes_default s oneBased

/-- … hence `Bipartition.leafset_taxa` / `bitmask_taxa_list` enumerate exactly the taxa whose bit is in the mask: an index is
    reported iff that bit is set -/
theorem indexes_of_set_bits_mem (s j : Nat) : ((j : Int) ∈ indexesOfSetBits (s : Int) (-1) false false) ↔ j ∈ bits s :=
  Ext.mem_indexes_default s j

/-! ### tie (A), second part: the hand-written model equals the kernels regenerated from the method bodies -/

/-- `is_leafset_nested_within`: the model's `isNested` is the regenerated test -/
theorem kernel_leafset_nested (a b f : Int) : C01Kernels.leafset_nested a f b = isNested a b f := Ext.k_leafset_nested a b f
/-- `is_nested_within` (both flags, both rooting states) -/
theorem kernel_nested_within (r m : Bool) (lf sp olf osp f : Int) :
    C01Kernels.nested_within r m lf sp olf osp f = nestedWithin r m lf sp olf osp f := Ext.k_nested_within r m lf sp olf osp f
/-- `Bipartition.normalize`, both conventions; "lsb0" is the static `normalize_bitmask` (operands commuted in the source) -/
theorem kernel_normalize (b f lo : Int) :
    C01Kernels.normalize_lsb0 b f lo = normalizeConv false b f lo ∧ C01Kernels.normalize_lsb1 b f lo = normalizeConv true b f lo ∧
      C01Kernels.normalize_lsb0 b f lo = PyBits.normalize_bitmask b f lo :=
  ⟨Ext.k_normalize_lsb0 b f lo, Ext.k_normalize_lsb1 b f lo, Ext.k_normalize_lsb0_static b f lo⟩
/-- `compile_split_bitmask` / `compile_tree_leafset_bitmask`: the encoder's `splitOf` and the object-level `compileBip` are the
    regenerated rooted/unrooted dispatch on the regenerated lowest relevant bit -/
theorem kernel_compile_split (r : Bool) (L m : Nat) :
    splitOf r L m = C01Kernels.compile_split r (m : Int) (L : Int) (lsbOf L) := Ext.k_compile_split r L m
theorem kernel_compile_bipartition (r : Bool) (L m : Int) (h : L ≠ 0) :
    C01Kernels.lowest_relevant_bit L = some (PyBits.least_significant_set_bit L) ∧
    compileBip r L m = (pyAnd m L, C01Kernels.compile_split r (pyAnd m L) L (PyBits.least_significant_set_bit L)) :=
  ⟨Ext.k_lowest_relevant_bit L h, Ext.k_compileBip r L m⟩
/-- `encode_bipartitions`: when the basal bifurcation is collapsed, when a node is suppressed, how child masks accumulate -/
theorem kernel_encode_conditions (c s : Bool) (r : Option Bool) (n : Nat) (ch : T) (cs : List T) :
    C01Kernels.collapse_cond c (r == some true) (n : Int) = (c && r != some true && n == 2) ∧
    C01Kernels.suppress_cond s (n : Int) = (s && n == 1) ∧
    ((T.maskL (ch :: cs) : Nat) : Int) = C01Kernels.accumulate (T.mask ch : Int) (T.maskL cs : Int) :=
  ⟨Ext.k_collapse_cond c r n, Ext.k_suppress_cond s n, Ext.k_accumulate ch cs⟩
/-- `from_split_bitmasks`, head filter: `prep` is the regenerated loop body -/
theorem kernel_head_filter (r : Bool) (all s : Nat) :
    C01Kernels.head_filter r (s : Int) (all : Int) = (prep all r s).map Int.ofNat := Ext.k_head_filter r all s
/-- `from_split_bitmasks`, greedy insertion: the four mask tests of `addSplit` / `Hier.ins` are the regenerated ones -/
theorem kernel_insertion_tests (t : Hier.T) (S M : Nat) :
    (addSplit t S = if C01Kernels.skip_not_in_root (S : Int) (Hier.mask t : Int) then t else Hier.ins S t) ∧
    C01Kernels.climb_further (S : Int) (M : Int) = !(S &&& M == S) ∧
    C01Kernels.already_present (S : Int) (M : Int) = (M == S) ∧
    C01Kernels.child_meets (S : Int) (M : Int) = (M &&& S != 0) :=
  ⟨Ext.k_addSplit t S, Ext.k_climb_further S M, Ext.k_already_present S M, Ext.k_child_meets S M⟩
/-- `is_compatible_with_bipartition`: when the tree is re-encoded first -/
theorem kernel_reencode_first (u : Bool) (o : TreeObj) :
    reencodeFirst u o = C01Kernels.reencode_first u (match o.stored with | some (enc, _) => !enc.isEmpty | none => false) :=
  Ext.k_reencode_first u o
/-- `TaxonNamespace.all_taxa_bitmask` / `taxon_bitmask` -/
theorem kernel_namespace_masks (n i : Nat) :
    C01Kernels.all_taxa_bitmask (n : Int) = ((allMask n : Nat) : Int) ∧ C01Kernels.taxon_bitmask (i : Int) = ((taxonBit i : Nat) : Int) :=
  ⟨Ext.k_all_taxa_bitmask n, Ext.k_taxon_bitmask i⟩
/-- `set_bit_index_iter`: initialisation and one turn of the loop are the regenerated expressions -/
theorem kernel_set_bit_loop (s masked fill : Int) (std ob om : Bool) (fuel : Nat) (idx tb : Int) :
    (indexesOfSetBits s fill ob om =
      sbiLoop (C01Kernels.sbi_masked s fill) fill (C01Kernels.sbi_standard om) (sbiFuel (C01Kernels.sbi_masked s fill))
        (C01Kernels.sbi_first_index ob) C01Kernels.sbi_first_bit) ∧
    (sbiLoop masked fill std (fuel + 1) idx tb =
      if C01Kernels.sbi_continue tb masked then
        (if C01Kernels.sbi_yield masked tb then [idx] else []) ++
          sbiLoop masked fill std fuel (if C01Kernels.sbi_advance std fill tb then idx + 1 else idx) (C01Kernels.sbi_next_bit tb)
      else []) :=
  ⟨Ext.k_sbi_init s fill ob om, Ext.k_sbi_step masked fill std fuel idx tb⟩

/-! ### histories: encode / edit / query on one tree object (`hstep`, `hrun` — what the driver's op `hist` runs) -/

/-- a query with the default flag re-encodes first, in ANY state (whatever history of encodings, edits and queries led to it):
    its answer is the answer for the tree as it stands, and the state afterwards stores that tree's encoding -/
theorem history_default_query_is_fresh (o : TreeObj) (ops : List HOp) (s : Int) :
    let o' := (hrun o ops).1
    hstep o' (.query false s) =
      (doEncode o' true true,
        some (treeCompatible (encode o'.rooted true true o'.tree) (encodeTree o'.rooted true true o'.tree).mask s)) := by
  simp [hstep, reencodeFirst, doEncode]

/-- … hence, as sets: after any history a default query on a well-formed rooted tree answers true iff the clade is disjoint from
    or nested with the leafset below EVERY edge of the tree as it stands (`tree_compatible_rooted_sets`) -/
theorem history_default_query_rooted_sets (o : TreeObj) (ops : List HOp) (s : Nat)
    (hr : (hrun o ops).1.rooted = some true) (hg : Good (T.toH (hrun o ops).1.tree)) (h0 : (hrun o ops).1.tree.mask ≠ 0)
    (hs : bits s ⊆ bits (hrun o ops).1.tree.mask) :
    (hstep (hrun o ops).1 (.query false (s : Int))).2 = some true ↔
      ∀ m ∈ (hrun o ops).1.tree.masksPost, Disjoint (bits m) (bits s) ∨ bits m ⊆ bits s ∨ bits s ⊆ bits m := by
  have h := history_default_query_is_fresh o ops (s : Int)
  simp only at h
  rw [h, hr, Option.some.injEq]
  exact tree_compatible_rooted_sets _ s hg h0 hs

/-- … and on a well-formed unrooted tree, for a normalised split (four-quadrant compatibility with EVERY edge) -/
theorem history_default_query_unrooted_sets (o : TreeObj) (ops : List HOp) (s k : Nat)
    (hr : (hrun o ops).1.rooted = some false) (hg : Good (T.toH (hrun o ops).1.tree)) (h0 : (hrun o ops).1.tree.mask ≠ 0)
    (hk : Lsb.lsb (hrun o ops).1.tree.mask = 1 <<< k) (hs : bits s ⊆ bits (hrun o ops).1.tree.mask) (hks : k ∉ bits s) :
    (hstep (hrun o ops).1 (.query false (s : Int))).2 = some true ↔
      ∀ m ∈ (hrun o ops).1.tree.masksPost, Quad (bits m) (bits s) (bits (hrun o ops).1.tree.mask) := by
  have h := history_default_query_is_fresh o ops (s : Int)
  simp only at h
  rw [h, hr, Option.some.injEq]
  exact tree_compatible_unrooted_sets _ s k hg h0 hk hs hks

/-- with `is_bipartitions_updated=True` and a non-empty stored encoding nothing is recomputed: the state is left alone and the
    answer is computed from the STORED pairs and the STORED tree leafset, whatever the tree looks like now — the documented
    contract (the caller vouches for the encoding), and exactly the staleness the query→edit→query oracle guards against -/
theorem history_updated_query_uses_stored (o : TreeObj) (enc : List (Nat × Int)) (L : Nat) (s : Int)
    (h : o.stored = some (enc, L)) (hne : enc ≠ []) :
    hstep o (.query true s) = (o, some (treeCompatible enc L s)) := by
  have he : enc.isEmpty = false := by cases enc <;> simp_all
  simp [hstep, reencodeFirst, h, he]

/-- an edit never touches the stored encoding, an explicit encoding replaces it by the encoding of the tree as it stood -/
theorem history_edit_and_encode (o : TreeObj) (t : T) (sup col : Bool) :
    (hstep o (.edit t)).1.stored = o.stored ∧ (hstep o (.edit t)).1.tree = t ∧
    (hstep o (.encode sup col)).1.stored = some (encode o.rooted sup col o.tree, (encodeTree o.rooted sup col o.tree).mask) ∧
    (hstep o (.encode sup col)).1.tree = encodeTree o.rooted sup col o.tree := by
  simp [hstep, doEncode]

/-- **unrooted rebuild with fewer than three taxa** (the case `rebuild_unrooted_topology` leaves out): every split mask of the
    unrooted encoding of a well-formed tree with one or two taxa has at most one member, so the head filter of `build` drops them
    all and the rebuilt tree is the star over the namespace members — whatever the members (extras included), the order and the
    multiplicity of the list handed over.  When the members are exactly the tree's taxa this star is the encoded tree (`Iso`,
    both sides `Good`): there is one unrooted topology per leaf set of size ≤ 2. -/
theorem rebuild_unrooted_small (sup col : Bool) (t : T) (all : Nat) (members ss : List Nat)
    (hg : Good (T.toH t)) (h0 : t.mask ≠ 0) (h3 : ¬ Bridge.ThreeTaxa t.mask)
    (hss : ∀ x : Nat, x ∈ ss → (x : Int) ∈ (encode (some false) sup col t).map (·.2)) :
    build all members false ss = Hier.starOf members ∧
      (members.Nodup → (∀ b, b ∈ members ↔ b ∈ bits t.mask) → Iso (Hier.sup (T.toH t)) (build all members false ss)) := by
  obtain ⟨k, hk, hkL, _⟩ := lsb_spec t.mask (by omega)
  have hsing : ∀ x, x ∈ ss → (bits x).Subsingleton := by
    intro x hx
    obtain ⟨m, _, e⟩ := (mem_encode_unrooted sup col t hg h0 _).mp (hss x hx)
    have e' : Hier.norm t.mask (1 <<< k) m = x := by rw [hk] at e; exact_mod_cast e
    have hsub : bits x ⊆ bits t.mask := by rw [← e']; exact norm_sub _ _ _
    have hav : k ∉ bits x := by rw [← e']; exact norm_avoid _ _ _
    intro a ha b hb
    by_contra hab
    exact h3 ⟨k, a, b, hkL, hsub ha, hsub hb, fun h => hav (h ▸ ha), fun h => hav (h ▸ hb), hab⟩
  have hnone : ∀ x ∈ ss, prep all false x = none := by
    intro x hx
    have hs' : (bits (x &&& all)).Subsingleton := by
      rw [bits_and]; exact (hsing x hx).anti Set.inter_subset_left
    have hz := (pred_and_zero_iff (x &&& all)).mpr hs'
    unfold prep
    simp [hz]
  have hb : build all members false ss = Hier.starOf members := by
    unfold build
    rw [List.filterMap_eq_nil_iff.mpr hnone]; rfl
  refine ⟨hb, fun hm hmem => ?_⟩
  rw [hb]
  have hne : members ≠ [] := by
    intro he; apply h0; apply bits_inj; rw [bits_zero]
    ext b; rw [← hmem b, he]; simp
  have hstar : maskL (members.map Hier.T.leaf) = t.mask := by
    apply bits_inj; rw [Bridge.bits_maskL_leaves]; ext b; exact hmem b
  have ht0 : Hier.mask (T.toH t) ≠ 0 := by rw [toH_mask]; exact h0
  have hmt : Hier.mask (Hier.sup (T.toH t)) = t.mask := by rw [sup_mask, toH_mask]
  exact Bridge.small_iso _ _ (sup_good _ hg) (Bridge.starOf_good members hm) (sup_noUnif _ hg ht0) (Bridge.starOf_noUnif members hne)
    (by rw [hmt, Bridge.starOf_mask, hstar]) (by rw [hmt]; exact h3)

end DendroModel.C01

namespace DendroModel.C01.Aux
open DendroModel DendroModel.Hier DendroModel.C01

theorem toHL_append : ∀ a b : List T, T.toHL (a ++ b) = T.toHL a ++ T.toHL b
  | [], b => rfl
  | c :: cs, b => by simp [T.toHL, toHL_append cs b]

theorem toH_of_cs (t : T) (h : 1 ≤ t.cs.length) : T.toH t = .node (T.toHL t.cs) := by
  cases t with
  | node i x l s cs =>
    cases cs with
    | nil => simp [T.cs] at h
    | cons c cs => simp [T.toH, T.cs]

/-- `collapse_basal_bifurcation` keeps the mask-labelled view well formed -/
theorem collapse_good (t : T) (hg : Good (T.toH t)) : Good (T.toH t.collapseBasal) := by
  cases t with
  | node i x l s cs =>
    match cs, hg with
    | [], hg => simpa [T.collapseBasal] using hg
    | [a], hg => simpa [T.collapseBasal] using hg
    | a :: b :: c :: r, hg => simpa [T.collapseBasal] using hg
    | [a, b], hg =>
      simp only [T.toH, T.toHL, Good, GoodL, Hier.maskL, Nat.or_zero] at hg
      obtain ⟨ga, a0, dab, gb, b0, _, _⟩ := hg
      simp only [T.collapseBasal]
      by_cases hb : b.cs.length ≥ 2
      · rw [if_pos hb]
        have eb := toH_of_cs b (by omega)
        rw [eb] at gb dab
        simp only [Good] at gb
        simp only [Hier.mask] at dab
        cases hbc : b.cs with
        | nil => rw [hbc] at hb; simp at hb
        | cons d ds =>
          rw [hbc] at gb dab
          simp only [T.toH, T.toHL, withLen_toH, Good, GoodL]
          exact ⟨ga, a0, dab, gb⟩
      · rw [if_neg hb]
        by_cases ha : a.cs.length ≥ 2
        · rw [if_pos ha]
          have ea := toH_of_cs a (by omega)
          rw [ea] at ga dab a0
          simp only [Good] at ga
          simp only [Hier.mask] at dab a0
          cases hac : a.cs with
          | nil => rw [hac] at ha; simp at ha
          | cons d ds =>
            rw [hac] at ga dab
            have : T.toH (.node i x l s ((d :: ds) ++ [b.withLen (tryAdd b.len a.len)])) =
                .node (T.toHL (d :: ds) ++ [T.toH b]) := by
              simp [T.toH, toHL_append, T.toHL, withLen_toH]
            rw [this]
            simp only [Good]
            rw [Bridge.goodL_append_iff]
            refine ⟨ga, ?_, ?_⟩
            · simp only [GoodL, Hier.maskL, Nat.and_zero, and_true]; exact ⟨gb, b0⟩
            · simpa [Hier.maskL] using dab
        · rw [if_neg ha]
          simp only [T.toH, T.toHL, Good, GoodL, Hier.maskL, Nat.or_zero, Nat.and_zero, and_true]
          exact ⟨ga, a0, dab, gb, b0⟩

theorem encodeTree_good (r : Option Bool) (s c : Bool) (t : T) (hg : Good (T.toH t)) : Good (T.toH (encodeTree r s c t)) := by
  unfold encodeTree
  have h1 : Good (T.toH (if (c && r != some true && t.cs.length == 2) = true then t.collapseBasal else t)) := by
    split
    · exact collapse_good t hg
    · exact hg
  cases s
  · simpa using h1
  · simp only [if_true]; rw [sup_toH]; exact sup_good _ h1

/-- `treeCompatible` looks at the stored pairs only through the SET of their split masks -/
theorem treeCompatible_congr (e1 e2 : List (Nat × Int)) (L : Nat) (s : Int)
    (h : ∀ z, z ∈ e1.map (·.2) ↔ z ∈ e2.map (·.2)) : treeCompatible e1 L s = treeCompatible e2 L s := by
  have hany : ∀ (a b : List (Nat × Int)), (∀ z, z ∈ a.map (·.2) → z ∈ b.map (·.2)) →
      a.any (fun p => p.2 == s) = true → b.any (fun p => p.2 == s) = true := by
    intro a b hab ha
    rw [List.any_eq_true] at ha ⊢
    obtain ⟨p, hp, hps⟩ := ha
    obtain ⟨q, hq, e⟩ := List.mem_map.mp (hab p.2 (List.mem_map.mpr ⟨p, hp, rfl⟩))
    exact ⟨q, hq, by rw [e]; exact hps⟩
  have hall : ∀ (a b : List (Nat × Int)), (∀ z, z ∈ b.map (·.2) → z ∈ a.map (·.2)) →
      a.all (fun p => isCompatible p.2 s (L : Int)) = true → b.all (fun p => isCompatible p.2 s (L : Int)) = true := by
    intro a b hba ha
    rw [List.all_eq_true] at ha ⊢
    intro q hq
    obtain ⟨p, hp, e⟩ := List.mem_map.mp (hba q.2 (List.mem_map.mpr ⟨q, hq, rfl⟩))
    have := ha p hp
    rw [e] at this; exact this
  unfold treeCompatible
  have e_any : e1.any (fun p => p.2 == s) = e2.any (fun p => p.2 == s) := by
    apply Bool.eq_iff_iff.mpr
    exact ⟨hany e1 e2 (fun z hz => (h z).mp hz), hany e2 e1 (fun z hz => (h z).mpr hz)⟩
  have e_all : e1.all (fun p => isCompatible p.2 s (L : Int)) = e2.all (fun p => isCompatible p.2 s (L : Int)) := by
    apply Bool.eq_iff_iff.mpr
    exact ⟨hall e1 e2 (fun z hz => (h z).mpr hz), hall e2 e1 (fun z hz => (h z).mp hz)⟩
  rw [e_any, e_all]

theorem encode_ne_nil (r : Option Bool) (s c : Bool) (t : T) : encode r s c t ≠ [] := by
  intro h
  have hm := Bridge.mask_mem_masksPost (encodeTree r s c t)
  have : (encode r s c t).map (·.1) = (encodeTree r s c t).masksPost := by
    simp [encode, List.map_map, Function.comp_def]
  rw [h] at this
  rw [← this] at hm; cases hm

end DendroModel.C01.Aux

namespace DendroModel.C01
open DendroModel DendroModel.Hier DendroModel.C01.Aux

/-! ### wave 2: encoding twice, updated query after an encoding -/

/-- **encoding twice changes no split**: the SET of split masks of a second encoding (any flags) of the tree a first encoding
    (any flags) leaves behind is the set of the first — although the tree itself may change again (a basal bifurcation that
    only appears once unifurcations are suppressed is collapsed by the second call) -/
theorem encode_twice_same_splits (r : Option Bool) (s c s' c' : Bool) (t : T) (hg : Good (T.toH t)) (h0 : t.mask ≠ 0) (z : Int) :
    z ∈ (encode r s' c' (encodeTree r s c t)).map (·.2) ↔ z ∈ (encode r s c t).map (·.2) := by
  have hg' : Good (T.toH (encodeTree r s c t)) := encodeTree_good r s c t hg
  have hU : ∀ (s c s' c' : Bool) (t : T), Good (T.toH t) → t.mask ≠ 0 → Good (T.toH (encodeTree (some false) s c t)) → ∀ z : Int,
      z ∈ (encode (some false) s' c' (encodeTree (some false) s c t)).map (·.2) ↔ z ∈ (encode (some false) s c t).map (·.2) := by
    intro s c s' c' t hg h0 hg' z
    have hm : (encodeTree (some false) s c t).mask = t.mask := encodeTree_mask _ s c t
    rw [mem_encode_unrooted s' c' _ hg' (by rw [hm]; exact h0), mem_encode_unrooted s c t hg h0, hm]
    obtain ⟨h1, h2, h3⟩ := lsb_ok t.mask h0
    constructor
    · rintro ⟨m, hmm, rfl⟩
      obtain ⟨m', hm', e⟩ := (encodeTree_norm_image s c t hg _ h1 h2 h3 _).mp ⟨m, hmm, rfl⟩
      exact ⟨m', hm', by rw [e]⟩
    · rintro ⟨m, hmm, rfl⟩
      obtain ⟨m', hm', e⟩ := (encodeTree_norm_image s c t hg _ h1 h2 h3 _).mpr ⟨m, hmm, rfl⟩
      exact ⟨m', hm', by rw [e]⟩
  match r with
  | some true =>
    rw [mem_encode_rooted, mem_encode_rooted]
    have e : encodeTree (some true) s c t = if s then t.sup else t := by simp [encodeTree]
    rw [e]
    cases s
    · simp
    · simp only [if_true]
      constructor
      · rintro ⟨x, rfl, hx⟩; exact ⟨x, rfl, ((suppress_keeps_masks t).2.2 x).mp hx⟩
      · rintro ⟨x, rfl, hx⟩; exact ⟨x, rfl, ((suppress_keeps_masks t).2.2 x).mpr hx⟩
  | some false => exact hU s c s' c' t hg h0 hg' z
  | none => exact hU s c s' c' t hg h0 hg' z

/-- **an updated query right after an encoding is a fresh one** (closes the oracle-only gap): encode with any flags, then ask with
    `is_bipartitions_updated=True` — the answer is the one a default (re-encoding) query gives in the same state; `o` is any state,
    in particular one reached by any history -/
theorem history_updated_query_after_encode_is_fresh (o : TreeObj) (sup col : Bool) (s : Int)
    (hg : Good (T.toH o.tree)) (h0 : o.tree.mask ≠ 0) :
    (hstep (hstep o (.encode sup col)).1 (.query true s)).2 = (hstep (hstep o (.encode sup col)).1 (.query false s)).2 := by
  have hst : (hstep o (.encode sup col)).1.stored = some (encode o.rooted sup col o.tree, (encodeTree o.rooted sup col o.tree).mask) := by
    simp [hstep, doEncode]
  have htr : (hstep o (.encode sup col)).1.tree = encodeTree o.rooted sup col o.tree := by simp [hstep, doEncode]
  have hro : (hstep o (.encode sup col)).1.rooted = o.rooted := by simp [hstep, doEncode]
  rw [history_updated_query_uses_stored _ _ _ s hst (encode_ne_nil _ _ _ _)]
  have hf := history_default_query_is_fresh (hstep o (.encode sup col)).1 [] s
  simp only [hrun] at hf
  rw [hf, htr, hro]
  simp only [Option.some.injEq]
  rw [encodeTree_mask, encodeTree_mask, encodeTree_mask]
  exact (treeCompatible_congr _ _ _ s (fun z => encode_twice_same_splits o.rooted sup col true true o.tree hg h0 z)).symm


end DendroModel.C01

namespace DendroModel.C01.Aux
open DendroModel DendroModel.Hier DendroModel.C01

def proj (r : Nat × Bool × Nat) : Nat × Nat := (r.1, r.2.2)

theorem recsPost_withLen (t : T) (l : Option Frac) : recsPost (t.withLen l) = recsPost t := by
  cases t with
  | node i x l' s cs => cases cs <;> simp [T.withLen, recsPost, T.mask]

theorem recsPostL_append (a b : List T) : recsPostL (a ++ b) = recsPostL a ++ recsPostL b := by
  induction a with
  | nil => simp [recsPostL]
  | cons c cs ih => simp [recsPostL, ih]

mutual
/-- dropping the records of the unary nodes from a tree's post-order records gives the records of the suppressed tree
    (ids and masks; the surviving nodes keep their id, their mask and their relative order) -/
theorem recs_sup : ∀ t : T, ((recsPost t).filter (fun r => !r.2.1)).map proj = (recsPost t.sup).map proj
  | .node i x l s [] => by simp [recsPost, recsPostL, T.sup, T.supL, proj]
  | .node i x l s [c] => by
    have ih := recs_sup c
    simp only [recsPost, recsPostL, List.append_nil, List.filter_append, List.map_append, T.sup, T.supL, recsPost_withLen]
    simp [ih]
  | .node i x l s (c :: d :: r) => by
    have ih := recsL_sup (c :: d :: r)
    have hm : T.mask (T.sup (.node i x l s (c :: d :: r))) = T.mask (.node i x l s (c :: d :: r)) := tsup_mask _
    simp only [T.sup, T.supL] at hm
    simp only [recsPost, List.filter_append, List.map_append, T.sup, T.supL]
    simp only [T.supL] at ih
    rw [ih]
    simp [proj, hm]
theorem recsL_sup : ∀ cs : List T, ((recsPostL cs).filter (fun r => !r.2.1)).map proj = (recsPostL (T.supL cs)).map proj
  | [] => by simp [recsPostL, T.supL]
  | c :: cs => by
    simp only [recsPostL, T.supL, List.filter_append, List.map_append, recs_sup c, recsL_sup cs]
end

end DendroModel.C01.Aux

namespace DendroModel.C01
open DendroModel DendroModel.Hier DendroModel.C01.Aux

/-! ### wave 2: a maintained encoding, the edge map -/

/-- **maintained encoding**: encode without suppression (any collapse flag, any rooting state), then
    `suppress_unifurcations(update_bipartitions=True)`: when the edge ids are distinct, what `suppressMaint` leaves in the stored
    list is exactly the id-tagged encoding of the edited tree — same edges (identity), same leafsets and splits, same order,
    nothing left over of a removed edge and nothing lost (in particular not the edge BELOW a removed one, which has the same
    split: pruning by split mask instead of by identity would drop it).  No well-formedness hypothesis: taxon-less leaves included. -/
theorem suppress_maintained (r : Option Bool) (c : Bool) (t : T)
    (hid : ((recsPost (encodeTree r false c t)).map (fun x => x.1)).Nodup) :
    suppressMaint (encodeTree r false c t) (encodeIds r false c t) =
      ((encodeTree r false c t).sup, encodeIds r false false (encodeTree r false c t).sup) := by
  set t1 := encodeTree r false c t with ht1
  have e2 : encodeTree r false false t1.sup = t1.sup := by simp [encodeTree]
  have e1 : encodeTree r false c t = t1 := rfl
  unfold suppressMaint encodeIds
  rw [e2]
  simp only [e1, Prod.mk.injEq, true_and]
  rw [tsup_mask, List.filter_map]
  have hfilt : (recsPost t1).filter ((fun e : Nat × Nat × Int =>
        !(List.map (fun q => q.1) (List.filter (fun q => q.2.1) (recsPost t1))).contains e.1) ∘
        (fun q : Nat × Bool × Nat => (q.1, q.2.2, splitOf (r == some true) t1.mask q.2.2)))
      = (recsPost t1).filter (fun q => !q.2.1) := by
    apply List.filter_congr
    intro x hx
    simp only [Function.comp]
    congr 1
    apply Bool.eq_iff_iff.mpr
    simp only [List.contains_iff_mem, List.mem_map, List.mem_filter]
    constructor
    · rintro ⟨y, ⟨hy, hyu⟩, hyx⟩
      have : y = x := List.inj_on_of_nodup_map hid hy hx hyx
      rw [← this]; exact hyu
    · intro hxu; exact ⟨x, ⟨hx, hxu⟩, rfl⟩
  rw [hfilt]
  have hcore := recs_sup t1
  have hg : ∀ l : List (Nat × Bool × Nat),
      l.map (fun q => (q.1, q.2.2, splitOf (r == some true) t1.mask q.2.2)) =
        (l.map proj).map (fun p => (p.1, p.2, splitOf (r == some true) t1.mask p.2)) := by
    intro l; simp [List.map_map, Function.comp_def, proj]
  rw [hg, hg, hcore]

/-- reading `split_bitmask_edge_map` after the maintenance: every stored edge's split is a key, and a key's edge carries that
    split (the last one in post-order when two edges share it) -/
theorem edgeMap_keys (enc : List (Nat × Nat × Int)) (z : Int) :
    (∃ p ∈ edgeMap enc, p.1 = z) ↔ ∃ e ∈ enc, e.2.2 = z := by
  unfold edgeMap
  induction enc using List.reverseRecOn with
  | nil => simp
  | append_singleton l e ih =>
    rw [List.foldl_append]
    simp only [List.foldl_cons, List.foldl_nil, List.mem_append, List.mem_singleton, List.mem_filter]
    constructor
    · rintro ⟨p, (⟨hp, _⟩ | rfl), hz⟩
      · obtain ⟨e', he', h'⟩ := ih.mp ⟨p, hp, hz⟩
        exact ⟨e', Or.inl he', h'⟩
      · exact ⟨e, Or.inr rfl, hz⟩
    · rintro ⟨e', (he' | rfl), hz⟩
      · by_cases hze : z = e.2.2
        · exact ⟨(e.2.2, e.1), Or.inr rfl, hze.symm⟩
        · obtain ⟨p, hp, hpz⟩ := ih.mpr ⟨e', he', hz⟩
          exact ⟨p, Or.inl ⟨hp, by simpa [hpz] using hze⟩, hpz⟩
      · exact ⟨(e'.2.2, e'.1), Or.inr rfl, hz⟩


/-! non-vacuity: the hypotheses are met by concrete trees -/
example : Good (T.toH (.node 0 none none none [.node 1 (some 0) none none [], .node 2 none none none
    [.node 3 (some 2) none none [], .node 4 (some 3) none none []]])) := by
  simp [T.toH, T.toHL, Good, GoodL, Hier.mask, Hier.maskL]
example : (encode (some false) true true (.node 0 none none none [.node 1 (some 0) none none [], .node 2 none none none
    [.node 3 (some 2) none none [], .node 4 (some 3) none none []]])).map Prod.fst = [1, 4, 8, 13] := by decide

/-! non-vacuity of the theorems added after audit H -/
section
-- encode_pairs_spec / encode_unrooted_eq_usplits: the unrooted encoding of a 3-leaf tree, basal bifurcation collapsed
example : encode (some false) true true exT = [(1, 12), (4, 4), (8, 8), (13, 0)] := by decide
example : (12 : Int) ∈ (encode (some false) true true exT).map (·.2) := by decide
-- encode_rooted_iff_topology / encode_unrooted_invariant / flags_invariant: hypotheses hold (and `Iso` holds reflexively)
example : Good (T.toH exT) ∧ T.mask exT ≠ 0 := ⟨exT_good, by decide⟩
example : Iso (Hier.sup (T.toH exT)) (Hier.sup (T.toH exT)) :=
  (rooted_splits_iff_topology exT exT exT_good (by decide) exT_good (by decide)).mp (fun _ => Iff.rfl)
-- the predicates: a split of {0,2,3} with sides {0} / {2,3}; clades {2,3} ⊆ {0,2,3}; avoiding taxon 0
example : bits 1 ⊆ bits 13 := by rw [← and_eq_left_iff]; decide
example : bits 12 ⊆ bits 13 ∧ (13 : Nat) ≠ 0 := ⟨by rw [← and_eq_left_iff]; decide, by decide⟩
example : 0 ∈ bits 13 ∧ 0 ∉ bits 12 ∧ 0 ∉ bits 4 := by simp [bits]
-- build_rooted_clades / rebuild_rooted_topology_partial: members = the tree's taxa, namespace with a removed bit 1
example : Hier.render (build 15 [0, 2, 3] true [13, 12, 1, 8, 4]) = "(0,(2,3))" := by decide
example : ([0, 2, 3] : List Nat).Nodup ∧ bits (T.mask exT) ⊆ bits 15 :=
  ⟨by decide, by rw [← and_eq_left_iff]; decide⟩
example : ∀ b, b ∈ ([0, 2, 3] : List Nat) ↔ b ∈ bits (T.mask exT) := by
  intro b
  have : T.mask exT = 1 <<< 0 ||| (1 <<< 2 ||| 1 <<< 3) := by decide
  rw [this, bits_or, bits_or, bits_shift, bits_shift, bits_shift]; simp; tauto
-- encode_unrooted_determines_topology_partial: the encoded example tree is (t0,t2,t3): seeded next to its lowest leaf 0
example : Canon 0 (T.toH (encodeTree (some false) true true exT)) ∧ Lsb.lsb (T.mask exT) = 1 <<< 0 :=
  ⟨⟨[.leaf 0, .leaf 2, .leaf 3], by rfl, by simp, by simp⟩, by decide⟩
example : Good (T.toH (encodeTree (some false) true true exT)) ∧ NoUnif (T.toH (encodeTree (some false) true true exT)) := by
  have e : T.toH (encodeTree (some false) true true exT) = .node [.leaf 0, .leaf 2, .leaf 3] := by rfl
  rw [e]; simp [Good, GoodL, NoUnif, NoUnifL, Hier.mask, Hier.maskL]
-- extension round.  encode_unrooted_iff_topology / _determines_topology / canonU_is_canonical: three taxa 0,2,3, lowest 0
example : Bridge.ThreeTaxa (T.mask exT) ∧ Lsb.lsb (T.mask exT) = 1 <<< 0 :=
  ⟨⟨0, 2, 3, by show Nat.testBit _ _ = true; decide, by show Nat.testBit _ _ = true; decide,
    by show Nat.testBit _ _ = true; decide, by decide, by decide, by decide⟩, by decide⟩
example : Hier.render (canonU 0 (Hier.sup (T.toH exT))) = "(2,3,0)" := by decide
-- a second drawing of the same unrooted tree, seeded elsewhere, with a unifurcation: ((t3,(t0)),t2)
example : Hier.render (canonU 0 (Hier.sup (T.toH (.node 0 none none none [.node 1 none none none [.node 2 (some 3) none none [],
    .node 3 none none none [.node 4 (some 0) none none []]], .node 5 (some 2) none none []])))) = "(3,0,2)" := by decide
-- encode_unrooted_invariant_under_inversion: exT is of the required shape (pre = [leaf 0], ds = [leaf 2, leaf 3], post = [])
example : T.toH exT = .node ([.leaf 0] ++ .node [.leaf 2, .leaf 3] :: []) := by rfl
-- rebuild_unrooted_topology: the unrooted encoding of exT has split masks {12, 4, 8, 0}; any order, duplicates allowed
example : Hier.render (build 15 [0, 2, 3] false [0, 8, 12, 4, 12]) = "(0,(2,3))" := by decide
example : Hier.render (canonU 0 (build 15 [0, 2, 3] false [0, 8, 12, 4, 12])) = "(2,3,0)" := by decide
-- tree_compatible_rooted_sets / _unrooted_sets: clade {2,3} on exT; it avoids the lowest taxon 0
example : treeCompatible (encode (some true) true true exT) (encodeTree (some true) true true exT).mask 12 = true := by decide
example : treeCompatible (encode (some false) true true exT) (encodeTree (some false) true true exT).mask 12 = true := by decide
example : bits 12 ⊆ bits (T.mask exT) ∧ 0 ∉ bits 12 :=
  ⟨by rw [← and_eq_left_iff]; decide, by show ¬ (Nat.testBit _ _ = true); decide⟩
-- final round.  encode_unrooted_iff_topology on FOUR taxa, where there are three unrooted topologies: the two drawings of the
-- quartet 01|23 get the same canonical form and the same split set {0,2,4,8,12,14}; the quartet 02|13 differs in both
example : Good (T.toH exQ1) ∧ Good (T.toH exQ1') ∧ Good (T.toH exQ2) := by
  simp [exQ1, exQ1', exQ2, T.toH, T.toHL, Good, GoodL, Hier.mask, Hier.maskL]
example : T.mask exQ1 = 15 ∧ T.mask exQ1' = 15 ∧ T.mask exQ2 = 15 ∧ Lsb.lsb 15 = 1 <<< 0 := by decide
example : renderSorted (canonU 0 (Hier.sup (T.toH exQ1))) = "((2,3),0,1)" := by decide
example : renderSorted (canonU 0 (Hier.sup (T.toH exQ1'))) = "((2,3),0,1)" := by decide
example : renderSorted (canonU 0 (Hier.sup (T.toH exQ2))) = "((1,3),0,2)" := by decide
example : (12 : Int) ∈ (encode (some false) true true exQ1).map (·.2) ∧ (12 : Int) ∈ (encode (some false) true true exQ1').map (·.2)
    ∧ (12 : Int) ∉ (encode (some false) true true exQ2).map (·.2) := by decide
-- ucanon_uses_lowest_taxon
example : lowIdx 12 = 2 ∧ Lsb.lsb 12 = 1 <<< 2 := by decide
-- is_compatible_unrooted_raw: raw leafsets {0,1} and {0,1,2} of a 4-taxon tree (both contain the lowest taxon)
example : bits 3 ⊆ bits 15 ∧ bits 7 ⊆ bits 15 ∧ 0 ∈ bits 15 :=
  ⟨by rw [← and_eq_left_iff]; decide, by rw [← and_eq_left_iff]; decide, by show Nat.testBit _ _ = true; decide⟩
-- rebuild_rooted_extras: exT has taxa 0,2,3; the namespace also has member 1, which ends up next to the tree under a new root
example : ([0, 1, 2, 3] : List Nat).filter (fun b => !((T.mask exT).testBit b)) = [1] := by decide
example : Hier.render (build 15 [0, 1, 2, 3] true [13, 12, 1, 8, 4]) = "(1,(0,(2,3)))" := by decide
example : ¬ (bits (T.mask exT)).Subsingleton := by
  intro h
  have h0 : (0 : Nat) ∈ bits (T.mask exT) := by show Nat.testBit _ _ = true; decide
  have h2 : (2 : Nat) ∈ bits (T.mask exT) := by show Nat.testBit _ _ = true; decide
  exact absurd (h h0 h2) (by decide)
-- last round.  ucanonT: the two drawings of quartet 01|23 get the SAME tree, quartet 02|13 another one
example : Hier.render (ucanonT exQ1) = "(0,1,(2,3))" ∧ Hier.render (ucanonT exQ1') = "(0,1,(2,3))"
    ∧ Hier.render (ucanonT exQ2) = "(0,2,(1,3))" := by decide
-- …_all on two taxa: (t1,t5) and ((t5),t1) — well formed, same leafset, lowest taxon 1, same canonical tree
example : Good (T.toH (.node 0 none none none [.node 1 (some 1) none none [], .node 2 (some 5) none none []])) ∧
    T.mask (.node 0 none none none [.node 1 (some 1) none none [], .node 2 (some 5) none none []]) = 34 ∧ Lsb.lsb 34 = 1 <<< 1 := by
  refine ⟨by simp [T.toH, T.toHL, Good, GoodL, Hier.mask, Hier.maskL], by decide, by decide⟩
example : Hier.render (ucanonT (.node 0 none none none [.node 1 (some 1) none none [], .node 2 (some 5) none none []])) = "(1,5)" ∧
    Hier.render (ucanonT (.node 0 none none none [.node 1 none none none [.node 2 (some 5) none none []], .node 3 (some 1) none none []]))
      = "(1,5)" := by decide
-- rebuild_unrooted_extras_clades / rebuild_unrooted_extras: exT (taxa 0,2,3) over members 0,1,2,3: the absent member 1 sits with the lowest leaf 0 at the
-- root, the other taxa L∖{0} = {2,3} = 12 stay together
example : Hier.render (build 15 [0, 1, 2, 3] false [0, 8, 12, 4, 12]) = "(0,1,(2,3))" := by decide
example : Hier.sdiff (T.mask exT) (1 <<< 0) = 12 := by decide
-- rebuild_unrooted_extras: exQ1 = ((0,1),(2,3)) over members 0..4: canonU 0 = (0,1,(2,3)); reference (0,(1,(2,3)),4); the rebuild is it
example : Hier.render (canonU 0 (Hier.sup (T.toH exQ1))) = "(0,1,(2,3))" := by decide
example : (encode (some false) true true exQ1).map (·.2) = [14, 2, 12, 4, 8, 0] := by decide
example : Hier.render (build 31 [0, 1, 2, 3, 4] false [0, 12, 8, 4, 2, 14]) = "(0,4,(1,(2,3)))" := by decide
-- round 3.  encode_one_pair_per_node: exT unrooted, basal bifurcation collapsed: four nodes, four pairs
example : (encodeTree (some false) true true exT).nodes.length = 4 ∧ (encode (some false) true true exT).length = 4 := by decide
-- indexes_of_set_bits_spec: 22 = 0b10110
example : indexesOfSetBits 22 (-1) false false = [1, 2, 4] ∧ indexesOfSetBits 22 (-1) true false = [2, 3, 5]
    ∧ indexesOfSetBits 22 6 false true = [0, 1] := by decide
-- kernels on concrete values (the same numbers the Python side produces)
example : compileBip false 14 6 = (6, 8) ∧ compileBip true 14 6 = (6, 6) ∧ nestedWithin true false 4 4 6 6 14 = true := by decide
example : C01Kernels.head_filter false 13 15 = some 2 ∧ C01Kernels.head_filter true 13 15 = some 13
    ∧ C01Kernels.head_filter true 8 15 = none := by decide
-- histories: query (re-encodes), edit to the other quartet, then a stale `updated` query still answers for the old tree while a
-- default query answers for the new one
example : (hrun { tree := exQ1, rooted := some true, stored := none }
    [.query false 3, .edit exQ2, .query true 3, .query false 3]).2 = [some true, none, some true, some false] := by decide
example : (hrun { tree := exQ1, rooted := some true, stored := none } [.query false 3]).1.rooted = some true := by decide
-- suppress_maintained: ((t0),t1,t2), ids 0..4: edge 1 (the unifurcation) and edge 2 (t0) share leafset/split 1; the maintenance
-- removes edge 1 BY IDENTITY and keeps edge 2; the edge map then sends split 1 to edge 2
example : encodeIds (some true) false true (.node 0 none none none [.node 1 none none none [.node 2 (some 0) none none []],
    .node 3 (some 1) none none [], .node 4 (some 2) none none []]) = [(2, 1, 1), (1, 1, 1), (3, 2, 2), (4, 4, 4), (0, 7, 7)] := by decide
example : (suppressMaint (.node 0 none none none [.node 1 none none none [.node 2 (some 0) none none []],
    .node 3 (some 1) none none [], .node 4 (some 2) none none []]) [(2, 1, 1), (1, 1, 1), (3, 2, 2), (4, 4, 4), (0, 7, 7)]).2
    = [(2, 1, 1), (3, 2, 2), (4, 4, 4), (0, 7, 7)] := by decide
example : edgeMap [(2, 1, 1), (1, 1, 1), (3, 2, 2)] = [(1, 1), (2, 3)] ∧ edgeMap [(2, 1, 1), (3, 2, 2)] = [(1, 2), (2, 3)] := by decide
-- wave 2.  encode_twice_same_splits: (t0,((t2,t3))) unrooted: the first encoding (collapse sees a unifurcation, then suppresses it)
-- leaves the basal bifurcation (t0,(t2,t3)); the second collapses it - the tree changes, the split set {12,4,8,0} does not
example : (encodeTree (some false) true true (.node 0 none none none [.node 1 (some 0) none none [], .node 2 none none none
    [.node 3 none none none [.node 4 (some 2) none none [], .node 5 (some 3) none none []]]])).cs.length = 2 := by decide
example : (hrun { tree := exQ1, rooted := some false, stored := none } [.encode false true, .query true 12, .query false 12]).2
    = [none, some true, some true] := by decide
-- rebuild_unrooted_small: the cherry (t1,t5) over members 1,5 (and with an extra member 3): the star
example : (encode (some false) true true (.node 0 none none none [.node 1 (some 1) none none [], .node 2 (some 5) none none []])).map (·.2)
    = [32, 32, 0] := by decide
example : Hier.render (build 63 [1, 5] false [32, 0, 32]) = "(1,5)" ∧ Hier.render (build 63 [1, 3, 5] false [32, 0, 32]) = "(1,3,5)" := by decide
end

end DendroModel.C01
