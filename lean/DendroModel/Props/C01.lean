import DendroModel.Model.C01
import DendroModel.Theory.IsoSame
import DendroModel.Theory.Reseed
import DendroModel.Theory.Unrooted
import DendroModel.Theory.Laminar
import DendroModel.Theory.Lsb
import DendroModel.Theory.C01Bridge
/-! C01 — property theorems.  Obligations are the theorems directly in `namespace DendroModel.C01`;
helpers live in `DendroModel.C01.Aux`.  The statements about `PyBits.*` are about definitions regenerated
from the current source on every run. -/
namespace DendroModel.C01.Aux
open DendroModel DendroModel.Hier

theorem pyAnd_cast (a b : Nat) : pyAnd (a : Int) (b : Int) = ((a &&& b : Nat) : Int) := rfl
theorem pyAnd_not_cast (b f : Nat) : pyAnd (pyNot (b : Int)) (f : Int) = ((sdiff f b : Nat) : Int) := rfl
theorem pyXor_cast (a b : Nat) : pyXor (a : Int) (b : Int) = ((a ^^^ b : Nat) : Int) := rfl

theorem cast_ne_zero (a : Nat) : ((a : Int) ≠ 0) ↔ a ≠ 0 := by omega

theorem sub_one_cast {n : Nat} (h : 0 < n) : ((n : Int) - 1) = ((n - 1 : Nat) : Int) := by omega

/-- the least set bit of a positive number, as an index -/
theorem low_spec : ∀ n : Nat, 0 < n → ∃ k, Lsb.low n = 1 <<< k ∧ n.testBit k = true ∧ ∀ j, j < k → n.testBit j = false := by
  intro n
  induction n using Nat.strong_induction_on with
  | _ n ih =>
    intro hn
    obtain ⟨m, rfl⟩ : ∃ m, n = m + 1 := ⟨n - 1, by omega⟩
    rw [Lsb.low]
    by_cases hodd : (m + 1) % 2 = 1
    · refine ⟨0, by simp [hodd], ?_, by intro j hj; omega⟩
      simp [Nat.testBit_zero, hodd]
    · simp only [hodd, if_false]
      have hk : 0 < (m + 1) / 2 := by omega
      obtain ⟨k, h1, h2, h3⟩ := ih ((m + 1) / 2) (by omega) hk
      refine ⟨k + 1, ?_, ?_, ?_⟩
      · rw [h1, Nat.shiftLeft_succ, Nat.mul_comm]
      · rw [Nat.testBit_succ]; exact h2
      · intro j hj
        cases j with
        | zero => simp [Nat.testBit_zero]; omega
        | succ j => rw [Nat.testBit_succ]; exact h3 j (by omega)

mutual
theorem toH_mask : ∀ t : T, Hier.mask (T.toH t) = T.mask t
  | .node _ x _ _ [] => by cases x <;> simp [T.toH, Hier.mask, Hier.maskL, T.mask]
  | .node _ _ _ _ (c :: cs) => by
    simp only [T.toH, Hier.mask, T.mask]; exact toHL_mask (c :: cs)
theorem toHL_mask : ∀ cs : List T, Hier.maskL (T.toHL cs) = T.maskL cs
  | [] => rfl
  | c :: cs => by simp [T.toHL, Hier.maskL, T.maskL, toH_mask c, toHL_mask cs]
end

mutual
theorem toH_clades : ∀ (t : T) (x : Nat), x ∈ Hier.clades (T.toH t) ↔ x ∈ T.masksPost t
  | .node i tx l s [], x => by
    cases tx <;> simp [T.toH, Hier.clades, Hier.cladesL, Hier.maskL, T.masksPost, T.masksPostL, T.mask]
  | .node i tx l s (c :: cs), x => by
    have h := toHL_clades (c :: cs) x
    have hm := toHL_mask (c :: cs)
    simp only [T.toH, Hier.clades, T.masksPost, List.mem_cons, List.mem_append, List.mem_singleton, hm, h, T.mask]
    tauto
theorem toHL_clades : ∀ (cs : List T) (x : Nat), x ∈ Hier.cladesL (T.toHL cs) ↔ x ∈ T.masksPostL cs
  | [], x => by simp [T.toHL, Hier.cladesL, T.masksPostL]
  | c :: cs, x => by
    simp only [T.toHL, Hier.cladesL, T.masksPostL, List.mem_append, toH_clades c x, toHL_clades cs x]
end

theorem withLen_toH (t : T) (l : Option Frac) : T.toH (t.withLen l) = T.toH t := by
  cases t with
  | node i x l' s cs => cases cs <;> simp [T.withLen, T.toH]

theorem toHL_length : ∀ cs : List T, (T.toHL cs).length = cs.length
  | [] => rfl
  | c :: cs => by simp [T.toHL, toHL_length cs]

mutual
theorem sup_toH : ∀ t : T, T.toH (T.sup t) = Hier.sup (T.toH t)
  | .node i x l s [] => by
    cases x <;> simp [T.sup, T.supL, T.toH, Hier.sup, Hier.supL]
  | .node i x l s (c :: cs) => by
    have h := supL_toH (c :: cs)
    simp only [T.sup, T.toH, Hier.sup]
    rw [← h]
    cases hs : T.supL (c :: cs) with
    | nil => simp [T.supL] at hs
    | cons d ds =>
      cases ds with
      | nil => simp [T.toHL, withLen_toH]
      | cons e es => simp [T.toHL, T.toH]
theorem supL_toH : ∀ cs : List T, T.toHL (T.supL cs) = Hier.supL (T.toHL cs)
  | [] => rfl
  | c :: cs => by simp [T.supL, T.toHL, Hier.supL, sup_toH c, supL_toH cs]
end

end DendroModel.C01.Aux

namespace DendroModel.C01
open DendroModel DendroModel.Hier DendroModel.C01.Aux

/-! ### tie (A): the regenerated integer functions mean what the theory assumes -/

/-- `Bipartition.normalize_bitmask` on natural arguments is LSB-0 normalisation within `L` -/
theorem normalize_refines (m L lo : Nat) :
    PyBits.normalize_bitmask (m : Int) (L : Int) (lo : Int) = ((Hier.norm L lo m : Nat) : Int) := by
  unfold PyBits.normalize_bitmask Hier.norm
  simp only [pyAnd_cast, pyAnd_not_cast]
  by_cases h : m &&& lo = 0
  · simp [h]
  · have : ((m &&& lo : Nat) : Int) ≠ 0 := by omega
    simp [h, this]

/-- `bitprocessing.least_significant_set_bit` is `(n &&& (n-1)) ^^^ n`, i.e. the lowest set bit -/
theorem lsb_refines (n : Nat) :
    PyBits.least_significant_set_bit (n : Int) = ((Lsb.lsb n : Nat) : Int) := by
  unfold PyBits.least_significant_set_bit Lsb.lsb
  by_cases h : n = 0
  · subst h; decide
  · rw [sub_one_cast (by omega), pyAnd_cast, pyXor_cast]

/-- the lowest set bit of a positive mask is a single bit, set in the mask, with nothing set below it -/
theorem lsb_spec (n : Nat) (h : 0 < n) :
    ∃ k, Lsb.lsb n = 1 <<< k ∧ n.testBit k = true ∧ ∀ j, j < k → n.testBit j = false := by
  rw [Lsb.lsb_eq_low n h]; exact low_spec n h

/-- `Bipartition.is_trivial_bitmask` within a fill: a side of the split has at most one member.
    (`x &&& (x-1) = 0` is "at most one bit set".) -/
theorem is_trivial_refines (a f : Nat) :
    PyBits.is_trivial_bitmask (a : Int) (f : Int)
      = (decide (a = 0) || decide (a = f) || decide (((a &&& f) - 1) &&& (a &&& f) = 0)
          || decide ((sdiff f a - 1) &&& sdiff f a = 0)) := by
  unfold PyBits.is_trivial_bitmask
  simp only [pyAnd_cast, pyAnd_not_cast]
  have e1 : ∀ x : Nat, (pyAnd ((x : Int) - 1) (x : Int) = 0) ↔ ((x - 1) &&& x = 0) := by
    intro x
    by_cases hx : x = 0
    · subst hx; decide
    · rw [sub_one_cast (by omega), pyAnd_cast]; omega
  by_cases h0 : a = 0
  · simp [h0]
  by_cases hf : a = f
  · simp [hf]
  have h0' : ¬ ((a : Int) = 0) := by omega
  have hf' : ¬ ((a : Int) = (f : Int)) := by omega
  simp only [h0, hf, h0', hf', decide_false, Bool.false_or, Bool.or_self, Bool.false_eq_true, if_false]
  by_cases h1 : ((a &&& f) - 1) &&& (a &&& f) = 0
  · have := (e1 (a &&& f)).mpr h1
    simp [h1, this]
  · have : ¬ (pyAnd (((a &&& f : Nat) : Int) - 1) ((a &&& f : Nat) : Int) = 0) := fun hh => h1 ((e1 _).mp hh)
    by_cases h2 : (sdiff f a - 1) &&& sdiff f a = 0
    · have h2' := (e1 (sdiff f a)).mpr h2
      simp [h1, this, h2, h2']
    · have h2' : ¬ (pyAnd (((sdiff f a : Nat) : Int) - 1) ((sdiff f a : Nat) : Int) = 0) := fun hh => h2 ((e1 _).mp hh)
      simp [h1, this, h2, h2']

/-- `Bipartition.is_compatible_bitmasks` on masks within a non-empty fill: disjoint, or nested either way
    (the fourth test of the code, `c1 & c2`, is the third again). -/
theorem is_compatible_refines (a b f : Nat) (hf : f ≠ 0) :
    PyBits.is_compatible_bitmasks (a : Int) (b : Int) (f : Int)
      = (decide ((f &&& a) &&& (f &&& b) = 0)
          || decide ((f &&& a) &&& ((f &&& a) ^^^ (f &&& b)) = 0)
          || decide ((f ^^^ (f &&& a)) &&& (f &&& b) = 0)
          || decide ((f ^^^ (f &&& a)) &&& ((f &&& a) ^^^ (f &&& b)) = 0)) := by
  unfold PyBits.is_compatible_bitmasks
  have hf' : (f : Int) ≠ 0 := by omega
  simp only [hf', ne_eq, not_false_eq_true, decide_true, if_true, pyAnd_cast, pyXor_cast]
  have e : ∀ x : Nat, ((0 : Int) = (x : Int)) ↔ (x = 0) := by intro x; omega
  by_cases h1 : (f &&& a) &&& (f &&& b) = 0
  · simp [h1]
  by_cases h2 : (f &&& a) &&& ((f &&& a) ^^^ (f &&& b)) = 0
  · simp [h1, h2, e]
  by_cases h3 : (f ^^^ (f &&& a)) &&& (f &&& b) = 0
  · simp [h1, h2, h3, e]
  by_cases h4 : (f ^^^ (f &&& a)) &&& ((f &&& a) ^^^ (f &&& b)) = 0
  · simp [h1, h2, h3, h4, e]
  · simp [h1, h2, h3, h4, e]

/-! ### (a) leafset masks -/

mutual
/-- a bit is in a node's leafset mask iff a leaf below it carries that taxon -/
theorem mask_spec : ∀ (t : T) (i : Nat), (T.mask t).testBit i = true ↔ ∃ l ∈ T.leaves t, l.taxon = some i
  | .node j x l s [], i => by
    cases x with
    | none => simp [T.mask, T.leaves, T.taxon]
    | some k =>
      simp only [T.mask, T.leaves, List.mem_singleton, exists_eq_left, T.taxon, Option.some.injEq]
      rw [Nat.testBit_shiftLeft]
      constructor
      · intro h
        simp only [ge_iff_le, Bool.and_eq_true, decide_eq_true_eq] at h
        have : i - k = 0 := by
          by_contra hne
          obtain ⟨q, hq⟩ := Nat.exists_eq_succ_of_ne_zero hne
          rw [hq] at h; simp [Nat.testBit_succ] at h
        omega
      · intro h; subst h; simp
  | .node j x l s (c :: cs), i => by
    simp only [T.mask, T.leaves]; exact maskL_spec (c :: cs) i
theorem maskL_spec : ∀ (cs : List T) (i : Nat), (T.maskL cs).testBit i = true ↔ ∃ l ∈ T.leavesL cs, l.taxon = some i
  | [], i => by simp [T.maskL, T.leavesL]
  | c :: cs, i => by
    simp only [T.maskL, T.leavesL, Nat.testBit_or, Bool.or_eq_true, List.mem_append, mask_spec c i, maskL_spec cs i]
    constructor
    · rintro (⟨l, h1, h2⟩ | ⟨l, h1, h2⟩)
      · exact ⟨l, Or.inl h1, h2⟩
      · exact ⟨l, Or.inr h1, h2⟩
    · rintro ⟨l, h1 | h1, h2⟩
      · exact Or.inl ⟨l, h1, h2⟩
      · exact Or.inr ⟨l, h1, h2⟩
end

/-! ### (b) split masks -/

/-- the split mask the encoder assigns: the leafset on a rooted tree; on an unrooted tree the leafset
    normalised within the tree's OWN leafset `L` on `L`'s lowest set bit (not bit 0, not the namespace) -/
theorem split_spec (rooted : Bool) (L m : Nat) :
    splitOf rooted L m = ((if rooted then m else Hier.norm L (Lsb.lsb L) m : Nat) : Int) := by
  unfold splitOf lsbOf
  cases rooted
  · simp only [Bool.false_eq_true, if_false]
    rw [lsb_refines, normalize_refines]
  · simp

/-- … and what normalisation means as sets: with `k` the lowest taxon bit present on the tree, a leafset
    containing `k` is replaced by its complement within the tree's leafset, any other is kept -/
theorem norm_sets (L m : Nat) (hL : 0 < L) (hm : bits m ⊆ bits L) :
    ∃ k, k ∈ bits L ∧ (∀ j, j < k → j ∉ bits L) ∧
      (k ∈ bits m → bits (Hier.norm L (Lsb.lsb L) m) = bits L \ bits m) ∧
      (k ∉ bits m → bits (Hier.norm L (Lsb.lsb L) m) = bits m) := by
  obtain ⟨k, hk, hkL, hlow⟩ := lsb_spec L hL
  refine ⟨k, hkL, fun j hj => by simpa [bits] using hlow j hj, ?_⟩
  unfold Hier.norm
  have hand : (m &&& Lsb.lsb L ≠ 0) ↔ k ∈ bits m := by
    rw [hk]
    constructor
    · intro h
      by_contra hn
      apply h
      apply bits_inj
      rw [bits_and, bits_shift, bits_zero]
      ext x; simp only [Set.mem_inter_iff, Set.mem_singleton_iff, Set.mem_empty_iff_false, iff_false, not_and]
      intro hx hxk; subst hxk; exact hn hx
    · intro h hz
      have : k ∈ bits (m &&& 1 <<< k) := by rw [bits_and, bits_shift]; exact ⟨h, rfl⟩
      rw [hz, bits_zero] at this; exact this
  constructor
  · intro hkm
    rw [if_pos (hand.mpr hkm), bits_sdiff]
  · intro hkm
    rw [if_neg (fun h => hkm (hand.mp h)), bits_and]
    exact Set.inter_eq_left.mpr hm

/-! ### (c) equal split sets ⇔ same topology -/

/-- rooted: two well-formed trees have equal sets of leafset (= split) masks after encoding iff they are the same
    topology up to child order once unifurcations are suppressed.  `T.toH` forgets ids, lengths and labels. -/
theorem rooted_splits_iff_topology (t u : T)
    (hgt : Good (T.toH t)) (ht0 : T.mask t ≠ 0) (hgu : Good (T.toH u)) (hu0 : T.mask u ≠ 0) :
    (∀ x, x ∈ T.masksPost t ↔ x ∈ T.masksPost u) ↔ Iso (Hier.sup (T.toH t)) (Hier.sup (T.toH u)) := by
  rw [← clades_eq_iff_iso (T.toH t) (T.toH u) hgt (by rw [toH_mask]; exact ht0) hgu (by rw [toH_mask]; exact hu0)]
  constructor
  · intro h x; rw [toH_clades, toH_clades]; exact h x
  · intro h x; rw [← toH_clades, ← toH_clades]; exact h x

/-- the encoder's unifurcation suppression does not change the set of leafset masks (nor the tree's leafset),
    and corresponds to suppression on the mask-labelled view -/
theorem suppress_keeps_masks (t : T) :
    T.toH (T.sup t) = Hier.sup (T.toH t) ∧ T.mask (T.sup t) = T.mask t
      ∧ ∀ x, x ∈ T.masksPost (T.sup t) ↔ x ∈ T.masksPost t := by
  refine ⟨sup_toH t, ?_, ?_⟩
  · rw [← toH_mask, sup_toH, sup_mask, toH_mask]
  · intro x; rw [← toH_clades, sup_toH, sup_clades, toH_clades]

/-- unrooted, seed position: one edge inversion at the root — the step `reseed_at` iterates — leaves the set of
    normalised split masks unchanged (`lo` any single bit of the tree's leafset, in particular its lowest) -/
theorem unrooted_splits_invariant_under_inversion (lo : Nat) (pre ds post : List Hier.T)
    (hg : GoodL (pre ++ .node ds :: post)) (hlo : bits lo ⊆ bits (maskL (pre ++ .node ds :: post)))
    (hsingle : ∀ a, bits lo ⊆ bits a ∨ Disjoint (bits lo) (bits a)) (hne : lo ≠ 0) :
    ∀ s, s ∈ usplits lo (invertAt pre ds post) ↔ s ∈ usplits lo (.node (pre ++ .node ds :: post)) :=
  usplits_invert lo pre ds post hg hlo hsingle hne

/-- unrooted, sufficiency: for two well-formed unifurcation-free trees over the same leaves, both seeded next to the lowest
    leaf (the canonical seed position; every unrooted tree reaches it by edge inversions, which keep the normalised split
    set by the previous theorem), equal sets of normalised split masks ⇒ the same tree up to child order -/
theorem unrooted_splits_determine_topology (k : Nat) (t u : Hier.T) (hgt : Good t) (hgu : Good u)
    (hnt : NoUnif t) (hnu : NoUnif u) (hct : Canon k t) (hcu : Canon k u) (hL : Hier.mask t = Hier.mask u)
    (hs : ∀ s, s ∈ usplits (1 <<< k) t ↔ s ∈ usplits (1 <<< k) u) : Iso t u :=
  usplits_injective_canon k t u hgt hgu hnt hnu hct hcu hL hs

/-- … and what the normalised split set of a tree in canonical position is: the complement of the lowest leaf, plus the
    clades of the other children of the seed, unchanged -/
theorem unrooted_splits_canonical_form (k : Nat) (cs : List Hier.T) (hg : GoodL cs) (hk : Hier.T.leaf k ∈ cs) (x : Nat) :
    x ∈ usplits (1 <<< k) (.node cs) ↔
      x = sdiff (maskL cs) (1 <<< k) ∨ ∃ c ∈ cs, c ≠ Hier.T.leaf k ∧ x ∈ clades c :=
  usplits_canon hg hk x

/-! ### (d) reconstruction from an encoding, in any order -/

/-- one insertion: a non-empty split contained in the root leafset, laminar with every clade and not yet present is
    added as exactly one new clade; the tree stays well formed and keeps its leafset -/
theorem insert_spec (S : Nat) (h0 : S ≠ 0) (t : Hier.T) (hg : Good t) (hsub : S &&& Hier.mask t = S)
    (hc : Compat S (clades t)) (hn : S ∉ clades t) :
    Hier.mask (addSplit t S) = Hier.mask t ∧ Good (addSplit t S) ∧ ∀ x, x ∈ clades (addSplit t S) ↔ x = S ∨ x ∈ clades t := by
  unfold addSplit
  simp only [hsub, bne_self_eq_false, Bool.false_eq_true, if_false]
  exact ins_spec S h0 t hg hsub hc hn

/-- a split that is not contained in the root leafset is skipped -/
theorem skip_spec (S : Nat) (t : Hier.T) (h : S &&& Hier.mask t ≠ S) : addSplit t S = t := by
  unfold addSplit; simp [h]

/-- folding the insertion over a pairwise-laminar list **in any order** adds exactly those clades -/
theorem build_spec (t0 : Hier.T) (ss : List Nat) (hg : Good t0)
    (hss : ∀ s ∈ ss, s ≠ 0 ∧ s &&& Hier.mask t0 = s ∧ Compat s (clades t0))
    (hlam : ∀ s ∈ ss, ∀ b ∈ ss, Lam s b) :
    Good (ss.foldl addSplit t0) ∧ Hier.mask (ss.foldl addSplit t0) = Hier.mask t0 ∧
      ∀ x, x ∈ clades (ss.foldl addSplit t0) ↔ x ∈ clades t0 ∨ x ∈ ss := by
  -- addSplit coincides with `ins` as long as the leafset is preserved, which `Hier.build_spec` guarantees stepwise
  have hgen : ∀ (ss : List Nat) (t : Hier.T) (done : List Nat),
      Good t → Hier.mask t = Hier.mask t0 → (∀ x, x ∈ clades t ↔ x ∈ clades t0 ∨ x ∈ done) →
      (∀ s ∈ ss, s ≠ 0 ∧ s &&& Hier.mask t0 = s ∧ Compat s (clades t0)) →
      (∀ s ∈ ss, ∀ b ∈ done ++ ss, Lam s b) →
      ss.foldl addSplit t = buildFrom t ss := by
    intro ss
    induction ss with
    | nil => intros; rfl
    | cons s rest ih =>
      intro t done hgt hm hcl hs hl
      have hs1 := hs s (by simp)
      have hadd : addSplit t s = ins s t := by
        unfold addSplit; rw [hm]; simp [hs1.2.1]
      simp only [List.foldl_cons, buildFrom_cons, hadd]
      have step := Hier.build_spec t0 [s] t done hgt hm hcl (by intro s' h'; simp at h'; subst h'; exact hs1)
        (by intro s' h' b hb; simp at h'; subst h'; exact hl s' (by simp) b (by simp at hb ⊢; tauto))
      simp only [buildFrom, List.foldl_cons, List.foldl_nil] at step
      exact ih (ins s t) (s :: done) step.1 step.2.1
        (by intro x; rw [step.2.2 x]; simp; tauto)
        (fun s' h' => hs s' (by simp [h']))
        (by intro s' h' b hb; exact hl s' (by simp [h']) b (by simp at hb ⊢; tauto))
  have hE := hgen ss t0 [] hg rfl (by intro x; simp) hss (by simpa using hlam)
  rw [hE]
  have := Hier.build_spec t0 ss t0 [] hg rfl (by intro x; simp) hss (by simpa using hlam)
  refine ⟨this.1, this.2.1, ?_⟩
  intro x; rw [this.2.2 x]; simp

/-- clades of one well-formed tree are pairwise laminar, so an encoding always meets the hypothesis of `build_spec` -/
theorem encoding_is_laminar (t : Hier.T) (hg : Good t) : ∀ x ∈ clades t, ∀ y ∈ clades t, Lam x y :=
  clades_laminar t hg

end DendroModel.C01

/-! ## bridges to the definitions the driver runs (added after audit H) -/
namespace DendroModel.C01.Aux
open DendroModel DendroModel.Hier DendroModel.C01

theorem lsb_zero : Lsb.lsb 0 = 0 := by decide

/-- the normalisation bit the encoder computes for a non-empty leafset: non-zero, inside the leafset, a single bit -/
theorem lsb_ok (L : Nat) (h : L ≠ 0) : Lsb.lsb L ≠ 0 ∧ bits (Lsb.lsb L) ⊆ bits L ∧
    ∀ a, bits (Lsb.lsb L) ⊆ bits a ∨ Disjoint (bits (Lsb.lsb L)) (bits a) := by
  obtain ⟨k, hk, hkL, _⟩ := lsb_spec L (by omega)
  rw [hk, bits_shift]
  refine ⟨shift_ne_zero k, Set.singleton_subset_iff.mpr hkL, fun a => ?_⟩
  by_cases hka : k ∈ bits a
  · exact Or.inl (Set.singleton_subset_iff.mpr hka)
  · exact Or.inr (Set.disjoint_singleton_left.mpr hka)

theorem norm_root (L : Nat) : Hier.norm L (Lsb.lsb L) L = 0 := by
  by_cases h : L = 0
  · subst h; simp [Hier.norm, lsb_zero]
  · obtain ⟨h1, h2, _⟩ := lsb_ok L h
    exact Bridge.norm_self L _ h1 h2

/-- `x &&& (x-1) = 0` says "at most one member" -/
theorem pred_and_zero_iff (m : Nat) : (m - 1) &&& m = 0 ↔ (bits m).Subsingleton := by
  by_cases h0 : m = 0
  · subst h0; simp [Set.subsingleton_empty]
  · obtain ⟨k, hk, hkm, _⟩ := lsb_spec m (by omega)
    constructor
    · intro h
      unfold Lsb.lsb at hk
      rw [Nat.and_comm, h, Nat.zero_xor] at hk
      rw [hk, bits_shift]; exact Set.subsingleton_singleton
    · intro h
      have hm : m = 1 <<< k := by
        apply bits_inj; rw [bits_shift]
        ext j; constructor
        · intro hj; exact h hj hkm
        · intro hj; rw [Set.mem_singleton_iff] at hj; subst hj; exact hkm
      have e : Lsb.lsb m = m := hk.trans hm.symm
      unfold Lsb.lsb at e
      have : (m &&& (m - 1)) = ((m &&& (m - 1)) ^^^ m) ^^^ m := by
        rw [Nat.xor_assoc, Nat.xor_self, Nat.xor_zero]
      rw [e, Nat.xor_self] at this
      rw [Nat.and_comm]; exact this

theorem tsup_mask (t : T) : (T.sup t).mask = t.mask := (suppress_keeps_masks t).2.1

theorem encodeTree_mask (r : Option Bool) (s c : Bool) (t : T) : (encodeTree r s c t).mask = t.mask := by
  unfold encodeTree
  by_cases hc : (c && r != some true && t.cs.length == 2) = true <;> cases s <;>
    simp [hc, tsup_mask, Bridge.collapse_mask]

theorem good_basal_disjoint (t : T) (hg : Good (T.toH t)) : ∀ a b, t.cs = [a, b] → a.mask &&& b.mask = 0 := by
  intro a b h
  cases t with
  | node i x l s cs =>
    simp only [T.cs] at h; subst h
    simp only [T.toH, T.toHL, Good, GoodL, Hier.maskL, toH_mask, Nat.or_zero] at hg
    exact hg.2.2.1

theorem mem_encode_splits (r : Option Bool) (s c : Bool) (t : T) (z : Int) :
    z ∈ (encode r s c t).map (·.2) ↔
      ∃ m ∈ (encodeTree r s c t).masksPost, splitOf (r == some true) (encodeTree r s c t).mask m = z := by
  simp [encode, List.mem_map]

/-- rooted: the split masks `encode` emits are exactly the leafset masks of the tree it was given -/
theorem mem_encode_rooted (s c : Bool) (t : T) (z : Int) :
    z ∈ (encode (some true) s c t).map (·.2) ↔ ∃ x : Nat, z = (x : Int) ∧ x ∈ t.masksPost := by
  rw [mem_encode_splits]
  have e : encodeTree (some true) s c t = if s then t.sup else t := by simp [encodeTree]
  rw [e]
  have hb : ((some true : Option Bool) == some true) = true := rfl
  simp only [hb, splitOf, if_true]
  cases s
  · simp only [Bool.false_eq_true, if_false]
    constructor
    · rintro ⟨m, hm, rfl⟩; exact ⟨m, rfl, hm⟩
    · rintro ⟨x, rfl, hx⟩; exact ⟨x, hx, rfl⟩
  · simp only [if_true]
    constructor
    · rintro ⟨m, hm, rfl⟩; exact ⟨m, rfl, ((suppress_keeps_masks t).2.2 m).mp hm⟩
    · rintro ⟨x, rfl, hx⟩; exact ⟨x, ((suppress_keeps_masks t).2.2 x).mpr hx, rfl⟩

/-- unrooted: the collapse of the basal bifurcation and the suppression of unifurcations change the list of leafset
    masks but not the set of normalised masks -/
theorem encodeTree_norm_image (s c : Bool) (t : T) (hg : Good (T.toH t)) (lo : Nat) (hne : lo ≠ 0)
    (hlo : bits lo ⊆ bits t.mask) (hsingle : ∀ a, bits lo ⊆ bits a ∨ Disjoint (bits lo) (bits a)) (z : Nat) :
    (∃ m ∈ (encodeTree (some false) s c t).masksPost, Hier.norm t.mask lo m = z) ↔
      (∃ m ∈ t.masksPost, Hier.norm t.mask lo m = z) := by
  have hcol := Bridge.collapse_norm_image lo t (good_basal_disjoint t hg) hne hlo hsingle z
  have hsup : ∀ v : T, (∃ m ∈ v.sup.masksPost, Hier.norm t.mask lo m = z) ↔ (∃ m ∈ v.masksPost, Hier.norm t.mask lo m = z) := by
    intro v
    constructor
    · rintro ⟨m, hm, h⟩; exact ⟨m, ((suppress_keeps_masks v).2.2 m).mp hm, h⟩
    · rintro ⟨m, hm, h⟩; exact ⟨m, ((suppress_keeps_masks v).2.2 m).mpr hm, h⟩
  unfold encodeTree
  by_cases hc : (c && (some false : Option Bool) != some true && t.cs.length == 2) = true <;> cases s <;>
    simp only [hc, if_true, if_false, Bool.false_eq_true, hsup, hcol]

theorem mem_encode_unrooted (s c : Bool) (t : T) (hg : Good (T.toH t)) (h0 : t.mask ≠ 0) (z : Int) :
    z ∈ (encode (some false) s c t).map (·.2) ↔
      ∃ m ∈ t.masksPost, ((Hier.norm t.mask (Lsb.lsb t.mask) m : Nat) : Int) = z := by
  rw [mem_encode_splits, encodeTree_mask]
  have hb : ((some false : Option Bool) == some true) = false := rfl
  simp only [hb, split_spec, Bool.false_eq_true, if_false]
  obtain ⟨h1, h2, h3⟩ := lsb_ok t.mask h0
  constructor
  · rintro ⟨m, hm, rfl⟩
    obtain ⟨m', hm', e⟩ := (encodeTree_norm_image s c t hg _ h1 h2 h3 _).mp ⟨m, hm, rfl⟩
    exact ⟨m', hm', by rw [e]⟩
  · rintro ⟨m, hm, rfl⟩
    obtain ⟨m', hm', e⟩ := (encodeTree_norm_image s c t hg _ h1 h2 h3 _).mpr ⟨m, hm, rfl⟩
    exact ⟨m', hm', by rw [e]⟩

/-- the tree of the non-vacuity examples: (t0,(t2,t3)) -/
def exT : T := .node 0 none none none [.node 1 (some 0) none none [], .node 2 none none none
    [.node 3 (some 2) none none [], .node 4 (some 3) none none []]]
theorem exT_good : Good (T.toH exT) := by
  simp [exT, T.toH, T.toHL, Good, GoodL, Hier.mask, Hier.maskL]

end DendroModel.C01.Aux

namespace DendroModel.C01
open DendroModel DendroModel.Hier DendroModel.C01.Aux

/-! ### (a),(b) for the driver's own `encode` -/

/-- what `encode` returns, pair by pair: one pair per node of the tree left by the encoder's side effects; its first
    component is that node's leafset mask (whose bits are, by `mask_spec`, exactly the taxa on the leaves below it) and its
    second is that mask itself (rooted) or that mask normalised within the tree's own leafset on the lowest bit of that
    leafset (unrooted and `is_rooted = None`; what that means as sets is `norm_sets`) -/
theorem encode_pairs_spec (r : Option Bool) (s c : Bool) (t : T) (p : Nat × Int) :
    p ∈ encode r s c t ↔ ∃ n ∈ (encodeTree r s c t).nodes,
      p = (n.mask, (((if r == some true then n.mask
              else Hier.norm (encodeTree r s c t).mask (Lsb.lsb (encodeTree r s c t).mask) n.mask) : Nat) : Int)) := by
  simp only [encode, List.mem_map, split_spec]
  constructor
  · rintro ⟨m, hm, rfl⟩
    obtain ⟨n, hn, rfl⟩ := (Bridge.mem_masksPost_iff _ m).mp hm
    exact ⟨n, hn, rfl⟩
  · rintro ⟨n, hn, rfl⟩
    exact ⟨n.mask, (Bridge.mem_masksPost_iff _ _).mpr ⟨n, hn, rfl⟩, rfl⟩

/-- `is_rooted = None` is encoded exactly as an unrooted tree -/
theorem encode_none_eq_unrooted (s c : Bool) (t : T) : encode none s c t = encode (some false) s c t := rfl

/-- the encoder's side effects (basal collapse, unifurcation suppression) never change the tree's leafset -/
theorem encode_keeps_leafset (r : Option Bool) (s c : Bool) (t : T) : (encodeTree r s c t).mask = t.mask :=
  encodeTree_mask r s c t

/-! ### (c) for the driver's own `encode` -/

/-- unrooted: the split masks `encode` emits are `0` (the seed edge) together with the normalised split set `usplits`
    of the tree left by the side effects — the set the unrooted theorems above are about.  No hypothesis. -/
theorem encode_unrooted_eq_usplits (sup col : Bool) (t : T) (s : Nat) :
    ((s : Int) ∈ (encode (some false) sup col t).map (·.2)) ↔
      (s = 0 ∨ s ∈ usplits (Lsb.lsb (encodeTree (some false) sup col t).mask)
                    (T.toH (encodeTree (some false) sup col t))) := by
  rw [mem_encode_splits]
  rw [Bridge.usplits_or_zero _ _ (by rw [toH_mask]; exact norm_root _), toH_mask]
  have hb : ((some false : Option Bool) == some true) = false := rfl
  simp only [hb, split_spec, Bool.false_eq_true, if_false]
  constructor
  · rintro ⟨m, hm, h⟩
    exact ⟨m, (toH_clades _ m).mpr hm, by exact_mod_cast h⟩
  · rintro ⟨m, hm, h⟩
    exact ⟨m, (toH_clades _ m).mp hm, by exact_mod_cast h⟩

/-- rooted, full strength, about `encode`: two well-formed trees are given equal SETS of split masks by the encoder —
    whatever the two flag settings — iff they are the same topology up to child order once unifurcations are suppressed.
    (`Iso` is one-directional by definition; between `Good` trees — `sup_good` — it is a genuine isomorphism: `iso_same`
    gives equal clade sets, hence `Iso` the other way round by this very theorem.) -/
theorem encode_rooted_iff_topology (s c s' c' : Bool) (t u : T)
    (hgt : Good (T.toH t)) (ht0 : T.mask t ≠ 0) (hgu : Good (T.toH u)) (hu0 : T.mask u ≠ 0) :
    (∀ z : Int, z ∈ (encode (some true) s c t).map (·.2) ↔ z ∈ (encode (some true) s' c' u).map (·.2))
      ↔ Iso (Hier.sup (T.toH t)) (Hier.sup (T.toH u)) := by
  rw [← rooted_splits_iff_topology t u hgt ht0 hgu hu0]
  simp only [mem_encode_rooted]
  constructor
  · intro h x
    constructor
    · intro hx
      obtain ⟨y, hy, hyu⟩ := (h x).mp ⟨x, rfl, hx⟩
      have : x = y := by exact_mod_cast hy
      subst this; exact hyu
    · intro hx
      obtain ⟨y, hy, hyu⟩ := (h x).mpr ⟨x, rfl, hx⟩
      have : x = y := by exact_mod_cast hy
      subst this; exact hyu
  · intro h z
    constructor
    · rintro ⟨x, rfl, hx⟩; exact ⟨x, rfl, (h x).mp hx⟩
    · rintro ⟨x, rfl, hx⟩; exact ⟨x, rfl, (h x).mpr hx⟩

/-- unrooted, necessity, about `encode`: two well-formed trees that are the same topology up to child order and
    unifurcations get equal sets of split masks, whatever the flags (so in particular the basal collapse, which moves
    the seed across one edge, does not change the set) -/
theorem encode_unrooted_invariant (s c s' c' : Bool) (t u : T)
    (hgt : Good (T.toH t)) (ht0 : T.mask t ≠ 0) (hgu : Good (T.toH u)) (hu0 : T.mask u ≠ 0)
    (hiso : Iso (Hier.sup (T.toH t)) (Hier.sup (T.toH u))) (z : Int) :
    z ∈ (encode (some false) s c t).map (·.2) ↔ z ∈ (encode (some false) s' c' u).map (·.2) := by
  have hmp := (rooted_splits_iff_topology t u hgt ht0 hgu hu0).mpr hiso
  have hmask : t.mask = u.mask := by
    have := (iso_same _ _ hiso (sup_good _ hgt) (sup_good _ hgu)
      (by rw [sup_mask, toH_mask]; exact ht0) (by rw [sup_mask, toH_mask]; exact hu0)).1
    rwa [sup_mask, sup_mask, toH_mask, toH_mask] at this
  rw [mem_encode_unrooted s c t hgt ht0, mem_encode_unrooted s' c' u hgu hu0, hmask]
  constructor
  · rintro ⟨m, hm, h⟩; exact ⟨m, (hmp m).mp hm, h⟩
  · rintro ⟨m, hm, h⟩; exact ⟨m, (hmp m).mpr hm, h⟩

/-- the flags alone never change the set of split masks of an unrooted tree -/
theorem encode_unrooted_flags_invariant (s c s' c' : Bool) (t : T) (hg : Good (T.toH t)) (h0 : T.mask t ≠ 0) (z : Int) :
    z ∈ (encode (some false) s c t).map (·.2) ↔ z ∈ (encode (some false) s' c' t).map (·.2) :=
  encode_unrooted_invariant s c s' c' t t hg h0 hg h0
    ((rooted_splits_iff_topology t t hg h0 hg h0).mp (fun _ => Iff.rfl)) z

/-- unrooted, sufficiency, about `encode`: if the trees left by the encoder are well formed, unifurcation-free and both
    seeded next to the lowest leaf `k` of their common leafset (seed of degree ≥ 3), equal sets of split masks force the same
    topology up to child order.  (`_partial`: only for this canonical seed position.  That every unrooted tree can be
    brought there by edge inversions — each of which keeps the split set, `unrooted_splits_invariant_under_inversion` —
    is not proved; other seed positions are covered by the correspondence and the oracle's graph re-rootings only.) -/
theorem encode_unrooted_determines_topology_partial (k : Nat) (s c s' c' : Bool) (t u : T)
    (hgt : Good (T.toH (encodeTree (some false) s c t))) (hgu : Good (T.toH (encodeTree (some false) s' c' u)))
    (hnt : NoUnif (T.toH (encodeTree (some false) s c t))) (hnu : NoUnif (T.toH (encodeTree (some false) s' c' u)))
    (hct : Canon k (T.toH (encodeTree (some false) s c t))) (hcu : Canon k (T.toH (encodeTree (some false) s' c' u)))
    (hL : t.mask = u.mask) (hk : Lsb.lsb t.mask = 1 <<< k)
    (hs : ∀ z : Int, z ∈ (encode (some false) s c t).map (·.2) ↔ z ∈ (encode (some false) s' c' u).map (·.2)) :
    Iso (T.toH (encodeTree (some false) s c t)) (T.toH (encodeTree (some false) s' c' u)) := by
  have hU : ∀ x : Nat, (x = 0 ∨ x ∈ usplits (1 <<< k) (T.toH (encodeTree (some false) s c t))) ↔
      (x = 0 ∨ x ∈ usplits (1 <<< k) (T.toH (encodeTree (some false) s' c' u))) := by
    intro x
    have h1 := encode_unrooted_eq_usplits s c t x
    have h2 := encode_unrooted_eq_usplits s' c' u x
    rw [encodeTree_mask, hk] at h1
    rw [encodeTree_mask, ← hL, hk] at h2
    rw [← h1, ← h2]; exact hs x
  have hmA : Hier.mask (T.toH (encodeTree (some false) s c t)) = t.mask := by rw [toH_mask, encodeTree_mask]
  have hmB : Hier.mask (T.toH (encodeTree (some false) s' c' u)) = t.mask := by rw [toH_mask, encodeTree_mask, hL]
  obtain ⟨cs, hcs, hk1, h31⟩ := hct
  obtain ⟨ds, hds, hk2, h32⟩ := hcu
  rw [hcs] at hgt hnt hU hmA ⊢
  rw [hds] at hgu hnu hU hmB ⊢
  simp only [Good] at hgt hgu
  simp only [Hier.mask] at hmA hmB
  have hLL : maskL cs = maskL ds := hmA.trans hmB.symm
  have h0 : maskL cs ≠ 0 := by
    intro hz
    have := k_mem_L hk1
    rw [hz, bits_zero] at this; exact this
  -- a normalised split other than "everything but the lowest leaf" is a clade of a well-formed child, hence non-zero
  have hnz : ∀ (as : List Hier.T), GoodL as → Hier.T.leaf k ∈ as → ∀ x, x ∈ usplits (1 <<< k) (.node as) →
      x ≠ Hier.sdiff (maskL as) (1 <<< k) → x ≠ 0 := by
    intro as hga hka x hx hne
    rcases (usplits_canon hga hka x).mp hx with h | ⟨c', hc', _, hxc⟩
    · exact absurd h hne
    · exact clades_ne_zero c' (goodL_mem hga hc').1 (goodL_mem hga hc').2 x hxc
  apply clades_injective (.node cs) (.node ds) (by simpa [Good] using hgt) (by simpa [Hier.mask] using h0)
    (by simpa [Good] using hgu) (by simpa [Hier.mask, ← hLL] using h0) hnt hnu
  intro x
  rw [clades_of_usplits hgt hk1 h31 x, clades_of_usplits hgu hk2 h32 x, hLL]
  constructor
  · rintro (h | h | ⟨h1, h2⟩)
    · exact Or.inl h
    · exact Or.inr (Or.inl h)
    · refine Or.inr (Or.inr ⟨?_, h2⟩)
      have hx0 := hnz cs hgt hk1 x h1 (by rw [hLL]; exact h2)
      rcases (hU x).mp (Or.inr h1) with h | h
      · exact absurd h hx0
      · exact h
  · rintro (h | h | ⟨h1, h2⟩)
    · exact Or.inl h
    · exact Or.inr (Or.inl h)
    · refine Or.inr (Or.inr ⟨?_, h2⟩)
      have hx0 := hnz ds hgu hk2 x h1 h2
      rcases (hU x).mpr (Or.inr h1) with h | h
      · exact absurd h hx0
      · exact h

/-! ### (e) the predicates as statements about taxon sets -/

/-- `is_trivial`: on a split inside the tree's leafset, true iff one of its two sides has at most one taxon -/
theorem is_trivial_sets (a f : Nat) (ha : bits a ⊆ bits f) :
    isTrivial (a : Int) (f : Int) = true ↔ (bits a).Subsingleton ∨ (bits f \ bits a).Subsingleton := by
  unfold isTrivial
  rw [is_trivial_refines]
  have e : a &&& f = a := (and_eq_left_iff a f).mpr ha
  simp only [e, Bool.or_eq_true, decide_eq_true_eq, pred_and_zero_iff, bits_sdiff]
  constructor
  · rintro (((h | h) | h) | h)
    · left; rw [h, bits_zero]; exact Set.subsingleton_empty
    · right; rw [h]; simp
    · exact Or.inl h
    · exact Or.inr h
  · rintro (h | h)
    · exact Or.inl (Or.inr h)
    · exact Or.inr h

/-- `is_compatible_with` on two masks inside a non-empty tree leafset: true iff the two taxon sets are disjoint or nested.
    This is the set-theoretic compatibility of rooted clades; for unrooted bipartitions the code passes NORMALISED masks
    (both avoid the lowest taxon of the tree), for which it coincides with the four-quadrant definition — next theorem. -/
theorem is_compatible_sets (a b f : Nat) (hf : f ≠ 0) (ha : bits a ⊆ bits f) (hb : bits b ⊆ bits f) :
    isCompatible (a : Int) (b : Int) (f : Int) = true ↔
      Disjoint (bits a) (bits b) ∨ bits a ⊆ bits b ∨ bits b ⊆ bits a := by
  unfold isCompatible
  rw [is_compatible_refines a b f hf, Bridge.and_of_sub ha, Bridge.and_of_sub hb]
  simp only [Bool.or_eq_true, decide_eq_true_eq, Bridge.and_xor_zero_iff,
    Bridge.compl_and_zero_iff f a b hb, Bridge.compl_and_xor_zero_iff f a b ha hb]
  rw [and_eq_zero_iff]
  tauto

/-- … and on masks that both avoid some taxon `k` of the tree (normalised unrooted splits avoid the lowest one):
    true iff one of the four intersections of sides A∩B, A∖B, B∖A, (F∖A)∩(F∖B) is empty -/
theorem is_compatible_four_quadrants (a b f k : Nat) (ha : bits a ⊆ bits f) (hb : bits b ⊆ bits f)
    (hk : k ∈ bits f) (hka : k ∉ bits a) (hkb : k ∉ bits b) :
    isCompatible (a : Int) (b : Int) (f : Int) = true ↔
      (bits a ∩ bits b = ∅ ∨ bits a \ bits b = ∅ ∨ bits b \ bits a = ∅ ∨ (bits f \ bits a) ∩ (bits f \ bits b) = ∅) := by
  have hf : f ≠ 0 := by intro h; rw [h, bits_zero] at hk; exact hk
  rw [is_compatible_sets a b f hf ha hb, Set.disjoint_iff_inter_eq_empty, Set.sdiff_eq_empty, Set.sdiff_eq_empty]
  constructor
  · rintro (h | h | h)
    · exact Or.inl h
    · exact Or.inr (Or.inl h)
    · exact Or.inr (Or.inr (Or.inl h))
  · rintro (h | h | h | h)
    · exact Or.inl h
    · exact Or.inr (Or.inl h)
    · exact Or.inr (Or.inr h)
    · exfalso
      have : k ∈ (bits f \ bits a) ∩ (bits f \ bits b) := ⟨⟨hk, hka⟩, ⟨hk, hkb⟩⟩
      rw [h] at this; exact this

/-- `is_leafset_nested_within`: on a leafset inside the tree's leafset, true iff it is a subset of the other -/
theorem is_nested_sets (a b f : Nat) (ha : bits a ⊆ bits f) :
    isNested (a : Int) (b : Int) (f : Int) = true ↔ bits a ⊆ bits b := by
  unfold isNested
  rw [pyAnd_cast, pyAnd_cast]
  simp only [beq_iff_eq, Int.natCast_inj]
  rw [Nat.and_comm, and_eq_left_iff, bits_and]
  constructor
  · intro h x hx; exact (h hx).2
  · intro h x hx; exact ⟨ha hx, h hx⟩

/-! ### (d) for the driver's own `build` -/

/-- rooted rebuild, any namespace: `build` (= `from_split_bitmasks`: head filter `prep`, then greedy insertion into the
    star over the namespace members) fed the clades of a well-formed tree `h` **in any order and multiplicity** yields a
    well-formed tree over all members whose clades are exactly: the star's (all members together, each member alone) plus
    every clade of `h` with at least two taxa (other than the namespace's all-bits mask, which the filter drops and which,
    when it is a clade at all, is the star's root). -/
theorem build_rooted_clades (all : Nat) (members : List Nat) (h : Hier.T) (ss : List Nat)
    (hm : members.Nodup) (hall : bits (maskL (members.map Hier.T.leaf)) ⊆ bits all)
    (hg : Good h) (hsub : bits (Hier.mask h) ⊆ bits (maskL (members.map Hier.T.leaf)))
    (hss : ∀ x, x ∈ ss ↔ x ∈ clades h) :
    Good (build all members true ss) ∧ Hier.mask (build all members true ss) = maskL (members.map Hier.T.leaf) ∧
    ∀ x, x ∈ clades (build all members true ss) ↔
      (x = maskL (members.map Hier.T.leaf) ∨ (∃ b ∈ members, x = 1 <<< b))
        ∨ (x ∈ clades h ∧ x ≠ all ∧ ¬ (bits x).Subsingleton) := by
  unfold build
  have hin : ∀ x, x ∈ clades h → bits x ⊆ bits all := fun x hx => ((clades_sub h x hx).trans hsub).trans hall
  have hfs : ∀ x, x ∈ ss.filterMap (prep all true) ↔ (x ∈ clades h ∧ x ≠ all ∧ ¬ (bits x).Subsingleton) := by
    intro x
    rw [List.mem_filterMap]
    constructor
    · rintro ⟨s, hs, hp⟩
      have hs' := (hss s).mp hs
      rw [Bridge.prep_rooted_of_sub all s (hin s hs')] at hp
      split at hp
      · rename_i hc
        simp only [Option.some.injEq] at hp; subst hp
        exact ⟨hs', hc.1, by rw [← pred_and_zero_iff]; exact hc.2⟩
      · simp at hp
    · rintro ⟨hx, h1, h2⟩
      refine ⟨x, (hss x).mpr hx, ?_⟩
      rw [Bridge.prep_rooted_of_sub all x (hin x hx), if_pos ⟨h1, by rw [Ne, pred_and_zero_iff]; exact h2⟩]
  have key := build_spec (starOf members) (ss.filterMap (prep all true)) (Bridge.starOf_good members hm)
    (by
      intro s hs
      obtain ⟨h1, _, h3⟩ := (hfs s).mp hs
      have hsS : bits s ⊆ bits (maskL (members.map Hier.T.leaf)) := (clades_sub h s h1).trans hsub
      refine ⟨?_, ?_, Bridge.compat_star members s hsS⟩
      · intro h0; apply h3; rw [h0, bits_zero]; exact Set.subsingleton_empty
      · rw [Bridge.starOf_mask]; exact (and_eq_left_iff _ _).mpr hsS)
    (by
      intro s hs b hb
      exact clades_laminar h hg s ((hfs s).mp hs).1 b ((hfs b).mp hb).1)
  refine ⟨key.1, key.2.1.trans (Bridge.starOf_mask members), fun x => ?_⟩
  rw [key.2.2 x, Bridge.starOf_clades, hfs]

/-- rooted rebuild of an encoding, about `encode` and `build` together (runner-up of audit H): when the namespace members
    are exactly the tree's taxa (the all-bits mask may still have more bits: removed members), the tree rebuilt from the
    split masks of `encode` **handed over in any order and multiplicity** is the encoded tree up to child order and
    unifurcations.  (`_partial`: unifurcations are suppressed on the rebuilt side too — removed in `rebuild_rooted_topology` below;
    the unrooted rebuild — `prep`'s complement-on-bit-0 path — is covered by the correspondence only.) -/
theorem rebuild_rooted_topology_partial (sup col : Bool) (t : T) (all : Nat) (members ss : List Nat)
    (hg : Good (T.toH t)) (h0 : t.mask ≠ 0) (hm : members.Nodup)
    (hmem : ∀ b, b ∈ members ↔ b ∈ bits t.mask) (hall : bits t.mask ⊆ bits all)
    (hss : ∀ x : Nat, x ∈ ss ↔ (x : Int) ∈ (encode (some true) sup col t).map (·.2)) :
    Iso (Hier.sup (T.toH t)) (Hier.sup (build all members true ss)) := by
  have hstar : maskL (members.map Hier.T.leaf) = t.mask := by
    apply bits_inj; rw [Bridge.bits_maskL_leaves]; ext b; exact hmem b
  have hss' : ∀ x, x ∈ ss ↔ x ∈ clades (T.toH t) := by
    intro x
    rw [hss x, mem_encode_rooted, toH_clades]
    constructor
    · rintro ⟨y, hy, hyt⟩
      have : x = y := by exact_mod_cast hy
      subst this; exact hyt
    · intro hx; exact ⟨x, rfl, hx⟩
  obtain ⟨hgb, hmb, hcl⟩ := build_rooted_clades all members (T.toH t) ss hm (by rw [hstar]; exact hall) hg
    (by rw [hstar, toH_mask]) hss'
  rw [hstar] at hmb hcl
  have ht0 : Hier.mask (T.toH t) ≠ 0 := by rw [toH_mask]; exact h0
  refine (clades_eq_iff_iso (T.toH t) _ hg ht0 hgb (by rw [hmb]; exact h0)).mp ?_
  intro x
  rw [hcl x]
  constructor
  · intro hx
    by_cases hnt : x ≠ all ∧ ¬ (bits x).Subsingleton
    · exact Or.inr ⟨hx, hnt⟩
    · left
      have hxs : bits x ⊆ bits t.mask := by rw [← toH_mask]; exact clades_sub _ x hx
      by_cases hxa : x = all
      · left; apply bits_inj; apply Set.Subset.antisymm hxs; rw [hxa]; exact hall
      · right
        have hsing : (bits x).Subsingleton := by
          by_contra hns; exact hnt ⟨hxa, hns⟩
        obtain ⟨i, hi⟩ := ne_zero_bits (clades_ne_zero _ hg ht0 x hx)
        refine ⟨i, (hmem i).mpr (hxs hi), ?_⟩
        apply bits_inj; rw [bits_shift]
        ext j; constructor
        · intro hj; exact hsing hj hi
        · intro hj; rw [Set.mem_singleton_iff] at hj; subst hj; exact hi
  · rintro ((rfl | ⟨b, hb, rfl⟩) | ⟨hx, _⟩)
    · rw [← toH_mask]; exact mask_mem_clades _
    · exact Bridge.single_mem_clades _ b (by rw [toH_mask]; exact (hmem b).mp hb)
    · exact hx

/-- rooted rebuild of an encoding, full strength (runner-up of audit H): as `rebuild_rooted_topology_partial`, without the
    suppression on the rebuilt side — `build` never creates a unifurcation (`Bridge.build_noUnif`) -/
theorem rebuild_rooted_topology (sup col : Bool) (t : T) (all : Nat) (members ss : List Nat)
    (hg : Good (T.toH t)) (h0 : t.mask ≠ 0) (hm : members.Nodup)
    (hmem : ∀ b, b ∈ members ↔ b ∈ bits t.mask) (hall : bits t.mask ⊆ bits all)
    (hss : ∀ x : Nat, x ∈ ss ↔ (x : Int) ∈ (encode (some true) sup col t).map (·.2)) :
    Iso (Hier.sup (T.toH t)) (build all members true ss) ∧ NoUnif (build all members true ss) := by
  have hne : members ≠ [] := by
    intro he; apply h0; apply bits_inj; rw [bits_zero]
    ext b; rw [← hmem b, he]; simp
  have hnu := Bridge.build_noUnif all members true ss hne
  have h := rebuild_rooted_topology_partial sup col t all members ss hg h0 hm hmem hall hss
  rw [Bridge.sup_of_noUnif _ hnu] at h
  exact ⟨h, hnu⟩

/-! non-vacuity: the hypotheses are met by concrete trees -/
example : Good (T.toH (.node 0 none none none [.node 1 (some 0) none none [], .node 2 none none none
    [.node 3 (some 2) none none [], .node 4 (some 3) none none []]])) := by
  simp [T.toH, T.toHL, Good, GoodL, Hier.mask, Hier.maskL]
example : (encode (some false) true true (.node 0 none none none [.node 1 (some 0) none none [], .node 2 none none none
    [.node 3 (some 2) none none [], .node 4 (some 3) none none []]])).map Prod.fst = [1, 4, 8, 13] := by decide

/-! non-vacuity of the theorems added after audit H -/
section
-- encode_pairs_spec / encode_unrooted_eq_usplits: the unrooted encoding of a 3-leaf tree, basal bifurcation collapsed
example : encode (some false) true true exT = [(1, 12), (4, 4), (8, 8), (13, 0)] := by decide
example : (12 : Int) ∈ (encode (some false) true true exT).map (·.2) := by decide
-- encode_rooted_iff_topology / encode_unrooted_invariant / flags_invariant: hypotheses hold (and `Iso` holds reflexively)
example : Good (T.toH exT) ∧ T.mask exT ≠ 0 := ⟨exT_good, by decide⟩
example : Iso (Hier.sup (T.toH exT)) (Hier.sup (T.toH exT)) :=
  (rooted_splits_iff_topology exT exT exT_good (by decide) exT_good (by decide)).mp (fun _ => Iff.rfl)
-- the predicates: a split of {0,2,3} with sides {0} / {2,3}; clades {2,3} ⊆ {0,2,3}; avoiding taxon 0
example : bits 1 ⊆ bits 13 := by rw [← and_eq_left_iff]; decide
example : bits 12 ⊆ bits 13 ∧ (13 : Nat) ≠ 0 := ⟨by rw [← and_eq_left_iff]; decide, by decide⟩
example : 0 ∈ bits 13 ∧ 0 ∉ bits 12 ∧ 0 ∉ bits 4 := by simp [bits]
-- build_rooted_clades / rebuild_rooted_topology_partial: members = the tree's taxa, namespace with a removed bit 1
example : Hier.render (build 15 [0, 2, 3] true [13, 12, 1, 8, 4]) = "(0,(2,3))" := by decide
example : ([0, 2, 3] : List Nat).Nodup ∧ bits (T.mask exT) ⊆ bits 15 :=
  ⟨by decide, by rw [← and_eq_left_iff]; decide⟩
example : ∀ b, b ∈ ([0, 2, 3] : List Nat) ↔ b ∈ bits (T.mask exT) := by
  intro b
  have : T.mask exT = 1 <<< 0 ||| (1 <<< 2 ||| 1 <<< 3) := by decide
  rw [this, bits_or, bits_or, bits_shift, bits_shift, bits_shift]; simp; tauto
-- encode_unrooted_determines_topology_partial: the encoded example tree is (t0,t2,t3): seeded next to its lowest leaf 0
example : Canon 0 (T.toH (encodeTree (some false) true true exT)) ∧ Lsb.lsb (T.mask exT) = 1 <<< 0 :=
  ⟨⟨[.leaf 0, .leaf 2, .leaf 3], by rfl, by simp, by simp⟩, by decide⟩
example : Good (T.toH (encodeTree (some false) true true exT)) ∧ NoUnif (T.toH (encodeTree (some false) true true exT)) := by
  have e : T.toH (encodeTree (some false) true true exT) = .node [.leaf 0, .leaf 2, .leaf 3] := by rfl
  rw [e]; simp [Good, GoodL, NoUnif, NoUnifL, Hier.mask, Hier.maskL]
end

end DendroModel.C01
