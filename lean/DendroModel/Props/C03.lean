import DendroModel.Gen.C03Guards
import DendroModel.Model.C01
import DendroModel.Theory.C03Heap
import DendroModel.Theory.C03Leaves
/-! C03 — property theorems about the definitions `drv_c03` runs (`Model/C03.lean`, `Model/C03Heap.lean`; the driver
executes `step` per operation, `run` for whole histories, and the `Heap.*` primitives).

Obligations (every `theorem` directly in `namespace DendroModel.C03` of this file):
* `step_wf`, `history_wf` — NO SHARING: every operation of the alphabet (all 31 constructors of `Op`, incl. assigning `Tree.seed_node` and `resolve_polytomies` under any scripted rng) and every finite
  history keeps `(ids t).Nodup`, nodes created by the operation included.  This is the part of clause (a) that an
  inductive rose tree does not give for free; "seed parentless / listed once under its parent / edge head and tail"
  are facts about pointers and are proved only where a heap refinement exists (below).  These two theorems say
  nothing about nodes being KEPT — that is `step_keeps_leaves_partial`.  An operation that raises keeps the state by
  construction of `run` (the model has no partially mutated states; the harness checks the real tree after a raise).
* `step_keeps_leaves`, `history_keeps_leaves` — the NOTHING-LOST half of clause (b), in identity form, for every
  operation (shuffle_taxa apart) and every history: on a tree without shared nodes, a taxon-bearing leaf the operation was not asked to remove (or to
  hang a child under) is still a leaf, same node, same taxon.  `step_keeps_leaves_partial` /
  `history_keeps_leaves_partial` (14 operations, no well-formedness hypothesis) are kept as they were.
* `step_no_new_node_taxon`, `step_no_new_leaf` — the NOTHING-GAINED half: no node acquires a taxon; and, when no internal
  node carries a taxon (explicit hypothesis `InnerUntaxed`; false without it), no taxon-bearing leaf appears except on
  nodes the operation created.
* `shuffle_keeps_leaf_taxa` — shuffle_taxa permutes the leaf taxa (`drawTaxa` is a permutation).
* `addChild_subtree_repr` — heap layer: `add_child` of a detached, separately represented SUBTREE (re-attachment).
* `addChild_repr`, `insertChild_repr`, `addChild_refines` — heap layer: `add_child` / `insert_child` of a NEW childless
  node refine the tree-level attachment (end to end from `ofTree`).
* `suppress_keeps_leaf_taxa` — unifurcation suppression keeps the left-to-right list of leaf taxa.
* `ofTree_repr`, `removeChild_repr`, `removeChild_frame`, `removeChild_refines` — heap layer: the pointer-level
  `remove_child` refines the tree-level operation (result represented, removed node parentless, frame property).
* `polytomize_fixpoint`, `dropLeavesFix_fixpoint`, `filterLoop_fixpoint`, `pruneUp_fuel_suffices` — the fuel of the
  bounded loops suffices.
* `reseedChain_refines` (+ `reseedAt_refines_partial`) — heap layer: the edge-inversion chain of `reseed_at`, as written
  (walk up the parent pointers, `Edge.invert` from the seed downwards, clear the new seed's parent), represents the
  tree-level re-seeding before clean-up.
* `removeChild_detached_repr` — after `remove_child` the heap represents the remaining tree AND, separately, the removed
  subtree as a parentless arborescence.
* `setParent_repr`, `setParent_refines` — the `parent_node` setter as written refines `setParent` (end to end through `step`).
* `edgeCollapse_repr`, `edgeCollapse_refines`, `edgeCollapse_error_refines` — `Edge.collapse` as written (removal + the
  insertion loop with the running position) refines `splice c (collapseKids adjust)`; `step` and the pointer routine
  complete / raise together.  `collapseBasal_repr` / `collapseBasal_refines` — `collapse_basal_bifurcation` is that one
  `Edge.collapse` on the child `collapseBasal` dissolves.
* `edgeInvert_repr` — `Edge.invert` on an edge whose tail is the parentless seed; `edgeInvert_inner_breaks` — on any other
  edge the routine leaves a structure that represents no tree (why only the chain of `reseed_at` may use it).
* `removeChildSuppress_refines`, `removeChildSuppress_step_refines` — the `suppress_unifurcations=True` branch of
  `remove_child`, both cases (`self` has a parent and is left with one child; `self` is the seed and is left with two
  children, the first internal one dissolved by the reversed insertion loop), end to end from the tree's own heap.
* `removeChild_error_refines` — where `step` answers `ValueError` the pointer-level `remove_child` (either flag) raises
  before touching a pointer.  `insertMove_refines` — `insert_child` of a node that already is a child.
  `reseedAt_collapse_refines` — `reseed_at(…, suppress_unifurcations=False)`: chain, then the guarded basal collapse.
* `errState_wf`, `errState_unchanged`, `filterLeaves_error_state`, `historyE_wf`, `runE_eq_run` — the ERROR CLAUSE: the state
  a raising operation leaves behind (`errState`, executed by the driver and compared with the real tree after every raise)
  has no shared node; every operation but `filter_leaf_nodes` raises before its first write; `filter_leaf_nodes` leaves the
  bare seed; histories continued from those states (`runE`) stay free of sharing.
* `encodeStruct_is_C01`, `encodeStruct_rooted`, `encode_is_fresh`, `step_update_is_fresh` — CLAUSE (c), through C01's model of
  `encode_bipartitions` (imported read-only): the restructuring `step` performs is the tree C01's `encode` encodes; the
  encoding that call stores equals a fresh, non-restructuring encoding of the tree it leaves; and for 12 operations asked to
  update bipartitions the returned state is the output of such a final call.
* `suppressLoop_repr`, `suppressLoop_refines` — the loop of `Tree.suppress_unifurcations` as written (post-order, every node with
  one child spliced out at its position, seed case) leaves a heap that represents `sup t`.  `reseedAt_refines` — `reseed_at`
  with `suppress_unifurcations=True` IN FULL for an internal new seed: chain, guarded basal `Edge.collapse`, suppression loop
  (the full form of `reseedAt_refines_partial`).
* `repr_is_arborescence` — what `Repr h none t ∧ WF t` says on the pointers alone: clause (a) literally.
* `gen_*` — tie (A): the decision kernels regenerated from the current source (`Gen/C03Guards.lean`) are what the model does.

NOT proved here: the leaf-target clean-up of `reseed_at` (a LEAF as new seed is outside the documented domain; not in the
heap model), so `reseedAt_refines` assumes an internal new seed; the pointer-level `supStep` / `supLoop` are executable
(`heap suppress`) but not yet among the harness's generated heap cases (their tree-level counterpart `sup` is compared on
every `suppress` / `encode` / `reseed` step); pointer-level refinement of the raising path of `filter_leaf_nodes` (its error
state is modelled at tree level: `errState`); clause (c) for `to_outgroup_position`, `suppress_unifurcations`,
`randomly_reorient` (the model has no stored encoding: `step_update_is_fresh` speaks of the tree the final encoding call
leaves; the stored masks are judged by the oracle); `reroot_at_midpoint` (no model).
Helper lemmas are in `DendroModel.C03.Aux` / `.AuxP` / `.AuxR` / `.AuxH` / `.HeapAux` / `.Leaves`. -/
namespace DendroModel.C03.Aux
open DendroModel DendroModel.C03

/-- number of occurrences of node id `i` in a tree / a list of trees -/
def cnt (i : Nat) (t : T) : Nat := (ids t).count i
def cntL (i : Nat) (l : List T) : Nat := (idsL l).count i

@[simp] theorem cnt_node (i j : Nat) (x l s cs) :
    cnt i (.node j x l s cs) = cntL i cs + (if j = i then 1 else 0) := by
  simp [cnt, cntL, ids, List.count_cons]
@[simp] theorem cntL_nil (i : Nat) : cntL i [] = 0 := by simp [cntL, idsL]
@[simp] theorem cntL_cons (i : Nat) (c : T) (cs : List T) : cntL i (c :: cs) = cnt i c + cntL i cs := by
  simp [cnt, cntL, idsL, List.count_append]
@[simp] theorem cntL_append (i : Nat) (a b : List T) : cntL i (a ++ b) = cntL i a + cntL i b := by
  induction a with
  | nil => simp
  | cons x xs ih => simp [ih]; omega

theorem cnt_eq (i : Nat) (t : T) : cnt i t = cntL i t.cs + (if t.id = i then 1 else 0) := by
  cases t; simp only [T.cs, T.id, cnt_node]; rfl
@[simp] theorem cnt_withLen (i : Nat) (t : T) (l) : cnt i (t.withLen l) = cnt i t := by
  cases t; simp [T.withLen]
@[simp] theorem cnt_withCs (i : Nat) (t : T) (cs) : cnt i (t.withCs cs) = cntL i cs + (if t.id = i then 1 else 0) := by
  cases t; simp only [T.withCs, T.id, cnt_node]; rfl
@[simp] theorem id_withLen (t : T) (l) : (t.withLen l).id = t.id := by cases t; rfl
@[simp] theorem id_withCs (t : T) (cs) : (t.withCs cs).id = t.id := by cases t; rfl
@[simp] theorem cs_withLen (t : T) (l) : (t.withLen l).cs = t.cs := by cases t; rfl
@[simp] theorem cs_withCs (t : T) (cs) : (t.withCs cs).cs = cs := by cases t; rfl

theorem wf_iff (t : T) : WF t ↔ ∀ i, cnt i t ≤ 1 := by
  simp [WF, cnt, List.nodup_iff_count]

theorem wf_of_le {t t' : T} (h : WF t) (hle : ∀ i, cnt i t' ≤ cnt i t) : WF t' := by
  rw [wf_iff] at *; intro i; exact Nat.le_trans (hle i) (h i)

/-! ### splice / modify -/
mutual
theorem splice_le (c : Nat) (f : T → List T) (hf : ∀ x i, cntL i (f x) ≤ cnt i x) :
    ∀ (t : T) (i : Nat), cnt i (splice c f t) ≤ cnt i t
  | .node j x l s cs, i => by
      have := spliceL_le c f hf cs i
      simp [splice]; omega
theorem spliceL_le (c : Nat) (f : T → List T) (hf : ∀ x i, cntL i (f x) ≤ cnt i x) :
    ∀ (cs : List T) (i : Nat), cntL i (spliceL c f cs) ≤ cntL i cs
  | [], i => by simp [spliceL]
  | x :: xs, i => by
      simp only [spliceL]
      split
      · have := hf x i; simp; omega
      · have := splice_le c f hf x i; have := spliceL_le c f hf xs i; simp; omega
end

mutual
theorem modify_le (p : Nat) (f : T → T) (hf : ∀ x i, cnt i (f x) ≤ cnt i x) :
    ∀ (t : T) (i : Nat), cnt i (modify p f t) ≤ cnt i t
  | .node j x l s cs, i => by
      simp only [modify]
      split
      · exact hf _ i
      · have := modifyL_le p f hf cs i; simp; omega
theorem modifyL_le (p : Nat) (f : T → T) (hf : ∀ x i, cnt i (f x) ≤ cnt i x) :
    ∀ (cs : List T) (i : Nat), cntL i (modifyL p f cs) ≤ cntL i cs
  | [], i => by simp [modifyL]
  | x :: xs, i => by
      have := modify_le p f hf x i; have := modifyL_le p f hf xs i
      simp [modifyL]; omega
end

/- `f` may add up to `k i` occurrences of `i` at each node named `p` -/
mutual
theorem modify_add (p : Nat) (f : T → T) (k : Nat → Nat) (hf : ∀ x i, cnt i (f x) ≤ cnt i x + k i) :
    ∀ (t : T) (i : Nat), cnt i (modify p f t) ≤ cnt i t + cnt p t * k i
  | .node j x l s cs, i => by
      simp only [modify]
      split
      · rename_i h
        have hj : j = p := by simpa using h
        have := hf (.node j x l s cs) i
        have h1 : 1 ≤ cnt p (.node j x l s cs) := by simp [hj]
        have : k i ≤ cnt p (.node j x l s cs) * k i := Nat.le_mul_of_pos_left _ h1
        omega
      · rename_i h
        have hj : ¬ j = p := by simpa using h
        have := modifyL_add p f k hf cs i
        simp [hj]; omega
theorem modifyL_add (p : Nat) (f : T → T) (k : Nat → Nat) (hf : ∀ x i, cnt i (f x) ≤ cnt i x + k i) :
    ∀ (cs : List T) (i : Nat), cntL i (modifyL p f cs) ≤ cntL i cs + cntL p cs * k i
  | [], i => by simp [modifyL]
  | x :: xs, i => by
      have := modify_add p f k hf x i; have := modifyL_add p f k hf xs i
      simp [modifyL, Nat.add_mul]; omega
end


theorem cntL_ite_le (i : Nat) (b : Bool) (x : T) : cntL i (if b then [] else [x]) ≤ cnt i x := by
  cases b <;> simp

/-! ### clean-up steps never duplicate a node -/
mutual
theorem sup_le : ∀ (t : T) (i : Nat), cnt i (sup t) ≤ cnt i t
  | .node j x l s cs, i => by
      have h := supL_le cs i
      simp only [sup]
      split
      · rename_i c hc
        rw [hc] at h; simp at h ⊢; omega
      · simp; omega
theorem supL_le : ∀ (cs : List T) (i : Nat), cntL i (supL cs) ≤ cntL i cs
  | [], i => by simp [supL]
  | c :: cs, i => by
      have := sup_le c i; have := supL_le cs i
      simp [supL]; omega
end

theorem collapseBasal_le (t t' : T) (h : collapseBasal t = some t') (i : Nat) : cnt i t' ≤ cnt i t := by
  unfold collapseBasal at h
  split at h
  · rename_i a b hcs
    have ha := cnt_eq i a; have hb := cnt_eq i b
    rw [cnt_eq i t, hcs]
    split at h
    · injection h with h; subst h
      simp; omega
    · split at h
      · injection h with h; subst h
        simp; omega
      · cases h
  · cases h

theorem collapseBasalSt_le (su : Bool) (s : St) (i : Nat) : cnt i (collapseBasalSt su s).t ≤ cnt i s.t := by
  unfold collapseBasalSt
  split
  · rename_i t' h; exact collapseBasal_le _ _ h i
  · exact Nat.le_refl _

theorem encodeStruct_le (a b : Bool) (s : St) (i : Nat) : cnt i (encodeStruct a b s).t ≤ cnt i s.t := by
  unfold encodeStruct
  have h1 := collapseBasalSt_le true s i
  split
  · split
    · exact Nat.le_trans (sup_le _ i) h1
    · exact h1
  · split
    · exact sup_le _ i
    · exact Nat.le_refl _

theorem finish_le (a b : Bool) (s : St) (i : Nat) : cnt i (finish a b s).t ≤ cnt i s.t := by
  unfold finish
  have h1 := sup_le s.t i
  split
  · split
    · exact Nat.le_trans (encodeStruct_le _ _ _ i) h1
    · exact h1
  · split
    · exact encodeStruct_le _ _ _ i
    · exact Nat.le_refl _

theorem polyStep_le (t t' : T) (h : polyStep t = some t') (i : Nat) : cnt i t' ≤ cnt i t := by
  unfold polyStep at h
  split at h
  · rename_i l hcs
    have hl := cnt_eq i l
    split at h
    · injection h with h; subst h
      rw [cnt_eq i t, hcs]; simp; omega
    · cases h
  · rename_i l r hcs
    have hl := cnt_eq i l; have hr := cnt_eq i r
    split at h
    · injection h with h; subst h
      rw [cnt_eq i t, hcs]; simp; omega
    · split at h
      · injection h with h; subst h
        rw [cnt_eq i t, hcs]; simp; omega
      · cases h
  · cases h

theorem polytomize_le : ∀ (f : Nat) (t : T) (i : Nat), cnt i (polytomize f t) ≤ cnt i t
  | 0, t, i => by simp [polytomize]
  | f + 1, t, i => by
      simp only [polytomize]
      split
      · rename_i t' h
        exact Nat.le_trans (polytomize_le f t' i) (polyStep_le _ _ h i)
      · exact Nat.le_refl _

mutual
theorem cu_le (thr : Frac) : ∀ (t : T) (i : Nat), cnt i (cu thr t) ≤ cnt i t
  | .node j x l s cs, i => by
      have := cuL_le thr cs i
      simp [cu]; omega
theorem cuL_le (thr : Frac) : ∀ (cs : List T) (i : Nat), cntL i (cuL thr cs) ≤ cntL i cs
  | [], i => by simp [cuL]
  | c :: cs, i => by
      have h1 := cu_le thr c i; have h2 := cuL_le thr cs i
      simp only [cuL]
      split
      · rw [cnt_eq i (cu thr c)] at h1; simp; omega
      · simp; omega
end

mutual
theorem dropLeaves_le (keep : T → Bool) : ∀ (t : T) (i : Nat), cnt i (dropLeaves keep t) ≤ cnt i t
  | .node j x l s cs, i => by
      have := dropLeavesL_le keep cs i
      simp [dropLeaves]; omega
theorem dropLeavesL_le (keep : T → Bool) : ∀ (cs : List T) (i : Nat), cntL i (dropLeavesL keep cs) ≤ cntL i cs
  | [], i => by simp [dropLeavesL]
  | c :: cs, i => by
      have h1 := dropLeaves_le keep c i; have h2 := dropLeavesL_le keep cs i
      simp only [dropLeavesL]
      split
      · split <;> simp <;> omega
      · simp; omega
end

theorem dropLeavesFix_le (keep : T → Bool) : ∀ (f : Nat) (t : T) (i : Nat), cnt i (dropLeavesFix keep f t) ≤ cnt i t
  | 0, t, i => by simp [dropLeavesFix]
  | f + 1, t, i => by
      simp only [dropLeavesFix]
      split
      · exact Nat.le_refl _
      · exact Nat.le_trans (dropLeavesFix_le keep f _ i) (dropLeaves_le keep t i)

mutual
theorem pt_le (bad : Nat → Bool) : ∀ (t : T) (i : Nat), cnt i (pt bad t) ≤ cnt i t
  | .node j x l s cs, i => by
      have := ptL_le bad cs i
      simp [pt]; omega
theorem ptL_le (bad : Nat → Bool) : ∀ (cs : List T) (i : Nat), cntL i (ptL bad cs) ≤ cntL i cs
  | [], i => by simp [ptL]
  | c :: cs, i => by
      have h1 := pt_le bad c i; have h2 := ptL_le bad cs i
      simp only [ptL]
      generalize ptDrop bad c (pt bad c) = b
      have := cntL_ite_le i b (pt bad c)
      rw [cntL_append, cntL_cons]; omega
end

/-! ### re-seeding is a rearrangement -/
mutual
theorem reseedGo_cnt (target : Nat) (rl : Option Frac) :
    ∀ (t : T) (acc : List T) (r : T), reseedGo target rl acc t = some r → ∀ i, cnt i r = cnt i t + cntL i acc
  | .node j x l s cs, acc, r, h, i => by
      simp only [reseedGo] at h
      split at h
      · injection h with h; subst h; simp; omega
      · have := reseedGoL_cnt target rl j x s cs acc [] r h i
        simp at this ⊢; omega
theorem reseedGoL_cnt (target : Nat) (rl : Option Frac) (j : Nat) (x : Option Nat) (s : Option String) :
    ∀ (post acc pre : List T) (r : T), reseedGoL target rl j x s acc pre post = some r →
      ∀ i, cnt i r = cntL i pre + cntL i post + cntL i acc + (if j = i then 1 else 0)
  | [], acc, pre, r, h, i => by simp [reseedGoL] at h
  | c :: post, acc, pre, r, h, i => by
      simp only [reseedGoL] at h
      split at h
      · rename_i r' hr
        injection h with h; subst h
        have := reseedGo_cnt target rl c _ _ hr i
        simp at this ⊢; omega
      · have := reseedGoL_cnt target rl j x s post acc (pre ++ [c]) r h i
        simp at this ⊢; omega
end

theorem reseedCore_le (target : Nat) (b : Bool) (t : T) (i : Nat) : cnt i (reseedCore target b t) ≤ cnt i t := by
  unfold reseedCore
  split
  · exact Nat.le_refl _
  · split
    · exact Nat.le_refl _
    · split
      · exact Nat.le_refl _
      · rename_i t1 h1
        have h := reseedGo_cnt target t.len t [] t1 h1 i
        simp at h
        split
        · split
          · rename_i c hc
            have hc' := cnt_eq i c
            rw [cnt_eq i t1, hc] at h; simp at h ⊢; omega
          · omega
        · omega

/-! ### sorting and rotating are permutations -/
theorem insertBy_cnt (le : T → T → Bool) (x : T) : ∀ (l : List T) (i : Nat), cntL i (insertBy le x l) = cnt i x + cntL i l
  | [], i => by simp [insertBy]
  | y :: ys, i => by
      simp only [insertBy]
      split
      · simp
      · have := insertBy_cnt le x ys i; simp; omega

theorem sortBy_cnt (le : T → T → Bool) : ∀ (l : List T) (i : Nat), cntL i (sortBy le l) = cntL i l
  | [], i => by simp [sortBy]
  | y :: ys, i => by
      have := sortBy_cnt le ys i
      simp only [sortBy, List.foldr_cons] at this ⊢
      rw [insertBy_cnt]; simp; omega

mutual
theorem sortAll_cnt (le : T → T → Bool) : ∀ (t : T) (i : Nat), cnt i (sortAll le t) = cnt i t
  | .node j x l s cs, i => by
      have := sortAllL_cnt le cs i
      simp [sortAll, sortBy_cnt]; omega
theorem sortAllL_cnt (le : T → T → Bool) : ∀ (cs : List T) (i : Nat), cntL i (sortAllL le cs) = cntL i cs
  | [], i => by simp [sortAllL]
  | c :: cs, i => by
      have := sortAll_cnt le c i; have := sortAllL_cnt le cs i
      simp [sortAllL]; omega
end

theorem cntL_reverse (i : Nat) (l : List T) : cntL i l.reverse = cntL i l := by
  induction l with
  | nil => simp
  | cons x xs ih => simp [ih]; omega

theorem cntL_drop_take (i n : Nat) (l : List T) : cntL i (l.drop n ++ l.take n) = cntL i l := by
  have h : cntL i (l.take n ++ l.drop n) = cntL i l := by rw [List.take_append_drop]
  rw [cntL_append] at h ⊢; omega

mutual
theorem rotate_cnt (m : Nat) : ∀ (t : T) (i : Nat), cnt i (rotate m t) = cnt i t
  | .node j x l s cs, i => by
      have := rotateL_cnt m cs i
      simp only [rotate]
      split
      · simp [cntL_reverse]; omega
      · split
        · simp only [cnt_node, cntL_drop_take]; omega
        · simp; omega
theorem rotateL_cnt (m : Nat) : ∀ (cs : List T) (i : Nat), cntL i (rotateL m cs) = cntL i cs
  | [], i => by simp [rotateL]
  | c :: cs, i => by
      have := rotate_cnt m c i; have := rotateL_cnt m cs i
      simp [rotateL]; omega
end

mutual
theorem assignTaxa_cnt : ∀ (t : T) (new : List Nat) (i : Nat), cnt i (assignTaxa t new).1 = cnt i t
  | .node j x l s [], new, i => by
      simp only [assignTaxa]
      split <;> simp
  | .node j x l s (c :: cs), new, i => by
      have := assignTaxaL_cnt (c :: cs) new i
      simp [assignTaxa] at this ⊢; omega
theorem assignTaxaL_cnt : ∀ (cs : List T) (new : List Nat) (i : Nat), cntL i (assignTaxaL cs new).1 = cntL i cs
  | [], new, i => by simp [assignTaxaL]
  | c :: cs, new, i => by
      have := assignTaxa_cnt c new i; have := assignTaxaL_cnt cs (assignTaxa c new).2 i
      simp [assignTaxaL]; omega
end


/-! ### fresh ids -/
theorem foldl_max_ge (l : List Nat) : ∀ acc, acc ≤ l.foldl Nat.max acc ∧ ∀ x ∈ l, x ≤ l.foldl Nat.max acc := by
  induction l with
  | nil => intro acc; simp
  | cons y ys ih =>
    intro acc
    have h := ih (Nat.max acc y)
    simp only [List.foldl_cons, List.mem_cons]
    refine ⟨Nat.le_trans (Nat.le_max_left _ _) h.1, ?_⟩
    intro x hx
    rcases hx with rfl | hx
    · exact Nat.le_trans (Nat.le_max_right _ _) h.1
    · exact h.2 x hx

theorem cnt_fresh (t : T) (i : Nat) (h : maxId t < i) : cnt i t = 0 := by
  unfold cnt
  rw [List.count_eq_zero]
  intro hm
  have := (foldl_max_ge (ids t) 0).2 i hm
  unfold maxId at h; omega

theorem cnt_leafNode (i k : Nat) (x l) : cnt i (leafNode k x l) = if k = i then 1 else 0 := by
  simp [leafNode]

mutual
theorem cnt_shift (k : Nat) : ∀ (t : T) (i : Nat), cnt i (shiftIds k t) = if k ≤ i then cnt (i - k) t else 0
  | .node j x l s cs, i => by
      have h := cntL_shift k cs i
      simp only [shiftIds, cnt_node, h]
      by_cases hk : k ≤ i
      · simp only [hk, if_true]
        by_cases hj : j + k = i
        · have : j = i - k := by omega
          simp [hj, this]; omega
        · have : ¬ j = i - k := by omega
          simp [hj, this]
      · have : ¬ j + k = i := by omega
        simp [hk, this]
theorem cntL_shift (k : Nat) : ∀ (cs : List T) (i : Nat), cntL i (shiftIdsL k cs) = if k ≤ i then cntL (i - k) cs else 0
  | [], i => by simp [shiftIdsL]
  | c :: cs, i => by
      have h1 := cnt_shift k c i; have h2 := cntL_shift k cs i
      simp only [shiftIdsL, cntL_cons, h1, h2]
      split <;> rfl
end

/-! ### attaching a detached subtree -/
theorem cntL_insertAt (i idx : Nat) (x : T) (l : List T) : cntL i (insertAt idx x l) = cnt i x + cntL i l := by
  have h : cntL i (l.take idx ++ l.drop idx) = cntL i l := by rw [List.take_append_drop]
  unfold insertAt
  rw [cntL_append] at h; rw [cntL_append, cntL_cons]; omega

theorem addChild_cnt (p : Nat) (sub t : T) (i : Nat) : cnt i (addChild p sub t) ≤ cnt i t + cnt p t * cnt i sub := by
  unfold addChild
  apply modify_add p _ (fun i => cnt i sub)
  intro x i
  rw [cnt_withCs, cntL_append, cnt_eq i x]; simp; omega

theorem insertChild_cnt (p idx : Nat) (sub t : T) (i : Nat) :
    cnt i (insertChild p idx sub t) ≤ cnt i t + cnt p t * cnt i sub := by
  unfold insertChild
  apply modify_add p _ (fun i => cnt i sub)
  intro x i
  rw [cnt_withCs, cntL_insertAt, cnt_eq i x]; omega

/-- a detached, well-formed subtree whose ids do not occur in `t` can be attached under any node -/
theorem wf_attach {t t' sub : T} {p : Nat} (h : WF t) (hs : WF sub) (hd : ∀ i, 1 ≤ cnt i sub → cnt i t = 0)
    (hle : ∀ i, cnt i t' ≤ cnt i t + cnt p t * cnt i sub) : WF t' := by
  rw [wf_iff] at *
  intro i
  have h1 := hle i; have h2 := h i; have h3 := hs i; have hp := h p
  have h4 : cnt p t * cnt i sub ≤ 1 * cnt i sub := Nat.mul_le_mul_right _ hp
  by_cases h0 : cnt i sub = 0
  · rw [h0] at h1; simp at h1; omega
  · have := hd i (by omega); omega

theorem wf_leafNode (k : Nat) (x l) : WF (leafNode k x l) := by
  rw [wf_iff]; intro i; rw [cnt_leafNode]; split <;> omega

theorem wf_shift (k : Nat) (sub : T) (h : WF sub) : WF (shiftIds k sub) := by
  rw [wf_iff] at *; intro i; rw [cnt_shift]; split
  · exact h _
  · omega

/-! ### detaching and re-attaching -/
mutual
theorem splice_remove (c : Nat) : ∀ (t sub : T), t.id ≠ c → T.find? c t = some sub →
    ∀ i, cnt i (splice c (fun _ => []) t) + cnt i sub ≤ cnt i t
  | .node j x l s cs, sub, hne, hf, i => by
      simp only [T.id] at hne
      have hcj : (c == j) = false := by simp; omega
      simp only [T.find?, hcj] at hf
      have := spliceL_remove c cs sub hf i
      simp [splice]; omega
theorem spliceL_remove (c : Nat) : ∀ (cs : List T) (sub : T), T.findL? c cs = some sub →
    ∀ i, cntL i (spliceL c (fun _ => []) cs) + cnt i sub ≤ cntL i cs
  | [], sub, hf, i => by simp [T.findL?] at hf
  | x :: xs, sub, hf, i => by
      simp only [T.findL?] at hf
      simp only [spliceL]
      by_cases hx : x.id = c
      · have hfx : T.find? c x = some x := by
          cases x with
          | node j a b d e => simp only [T.id] at hx; simp [T.find?, hx]
        rw [hfx] at hf; injection hf with hf; subst hf
        simp [hx]; omega
      · have hb : (x.id == c) = false := by simp [hx]
        simp only [hb]
        split at hf
        · rename_i r hr
          injection hf with hf; subst hf
          have := splice_remove c x r hx hr i
          have := spliceL_le c (fun _ => []) (by intro y k; simp) xs i
          simp; omega
        · have := spliceL_remove c xs sub hf i
          have := splice_le c (fun _ => []) (by intro y k; simp) x i
          simp; omega
end

/-- remove the subtree at `c`, then attach `wrap sub` under `q`: no node is duplicated as long as `wrap` adds only
ids that do not occur in the tree -/
theorem regraft_wf {t sub w : T} {c q : Nat} (h : WF t) (hne : t.id ≠ c) (hf : T.find? c t = some sub)
    (hw : WF w) (hwd : ∀ i, cnt i w ≤ cnt i sub ∨ (cnt i t = 0 ∧ cnt i w ≤ 1)) :
    WF (addChild q w (splice c (fun _ => []) t)) := by
  have hrm := splice_remove c t sub hne hf
  have hle := splice_le c (fun _ => []) (by intro y k; simp) t
  rw [wf_iff] at *
  intro i
  have h1 := addChild_cnt q w (splice c (fun _ => []) t) i
  have hq : cnt q (splice c (fun _ => []) t) ≤ 1 := Nat.le_trans (hle q) (h q)
  have h4 : cnt q (splice c (fun _ => []) t) * cnt i w ≤ 1 * cnt i w := Nat.mul_le_mul_right _ hq
  have := hrm i; have := h i; have := hle i
  rcases hwd i with h5 | h5 <;> omega

theorem cntL_filter_le (p : T → Bool) : ∀ (l : List T) (i : Nat), cntL i (l.filter p) ≤ cntL i l
  | [], i => by simp
  | y :: ys, i => by
      have := cntL_filter_le p ys i
      simp only [List.filter_cons]
      split <;> simp <;> omega

theorem find_filter_cnt (og : Nat) : ∀ (l : List T) (sub : T), l.find? (fun x => x.id == og) = some sub →
    ∀ i, cnt i sub + cntL i (l.filter (fun x => x.id != og)) ≤ cntL i l
  | [], sub, h, i => by simp at h
  | x :: xs, sub, h, i => by
      have hsub := cntL_filter_le (fun x => x.id != og) xs
      by_cases hx : x.id = og
      · simp [List.find?_cons, hx] at h; subst h
        have := hsub i
        simp [List.filter_cons, hx]; omega
      · have hb : (x.id == og) = false := by simp [hx]
        simp only [List.find?_cons, hb] at h
        have := find_filter_cnt og xs sub h i
        simp [List.filter_cons, hx]; omega

/-! ### resolving polytomies: new nodes take the ids `k, k+1, …` -/
def ind (k k' i : Nat) : Nat := if k ≤ i ∧ i < k' then 1 else 0

theorem ind_add (k k1 k2 i : Nat) (h1 : k ≤ k1) (h2 : k1 ≤ k2) : ind k k1 i + ind k1 k2 i = ind k k2 i := by
  unfold ind
  by_cases a : k ≤ i ∧ i < k1 <;> by_cases b : k1 ≤ i ∧ i < k2 <;> by_cases c : k ≤ i ∧ i < k2 <;> simp [a, b, c] <;> omega

theorem ind_self (k i : Nat) : ind k k i = 0 := by
  unfold ind; split <;> omega

theorem ind_succ (k i : Nat) : ind k (k + 1) i = if k = i then 1 else 0 := by
  unfold ind
  by_cases a : k = i
  · subst a; simp
  · have : ¬ (k ≤ i ∧ i < k + 1) := by omega
    simp [a, this]

theorem joinLoop_cnt (limit : Nat) : ∀ (f : Nat) (cs : List T) (k : Nat),
    k ≤ (joinLoop limit f cs k).2 ∧ ∀ i, cntL i (joinLoop limit f cs k).1 ≤ cntL i cs + ind k (joinLoop limit f cs k).2 i
  | 0, cs, k => by simp [joinLoop, ind_self]
  | f + 1, cs, k => by
      simp only [joinLoop]
      split
      · split
        · rename_i c1 c2 rest _hlen
          have ih := joinLoop_cnt limit f (rest ++ [.node k none (some Frac.zero) none [c1, c2]]) (k + 1)
          refine ⟨by omega, ?_⟩
          intro i
          have h1 := ih.2 i
          have h2 := ind_add k (k + 1) _ i (by omega) ih.1
          rw [ind_succ] at h2
          simp at h1 ⊢; omega
        · simp [ind_self]
      · simp [ind_self]

mutual
theorem rp_cnt (limit : Nat) : ∀ (t : T) (k : Nat),
    k ≤ (rp limit t k).2 ∧ ∀ i, cnt i (rp limit t k).1 ≤ cnt i t + ind k (rp limit t k).2 i
  | .node j x l s cs, k => by
      have h1 := rpL_cnt limit cs k
      have h2 := joinLoop_cnt limit (rpL limit cs k).1.length (rpL limit cs k).1 (rpL limit cs k).2
      simp only [rp]
      refine ⟨by omega, ?_⟩
      intro i
      have a := h1.2 i; have b := h2.2 i
      have c := ind_add k _ _ i h1.1 h2.1
      simp; omega
theorem rpL_cnt (limit : Nat) : ∀ (cs : List T) (k : Nat),
    k ≤ (rpL limit cs k).2 ∧ ∀ i, cntL i (rpL limit cs k).1 ≤ cntL i cs + ind k (rpL limit cs k).2 i
  | [], k => by simp [rpL, ind_self]
  | c :: cs, k => by
      have h1 := rp_cnt limit c k
      have h2 := rpL_cnt limit cs (rp limit c k).2
      simp only [rpL]
      refine ⟨by omega, ?_⟩
      intro i
      have a := h1.2 i; have b := h2.2 i
      have c := ind_add k _ _ i h1.1 h2.1
      simp; omega
end

theorem ind_le_one (k k' i : Nat) : ind k k' i ≤ 1 := by unfold ind; split <;> omega
theorem ind_pos (k k' i : Nat) (h : 1 ≤ ind k k' i) : k ≤ i := by
  unfold ind at h; split at h
  · omega
  · omega


/-! ### replacing one node exactly (needs the node id to be unique) -/
mutual
theorem find_pos (c : Nat) : ∀ (t sub : T), T.find? c t = some sub → 1 ≤ cnt c t
  | .node j x l s cs, sub, hf => by
      simp only [T.find?] at hf
      split at hf
      · rename_i h; have : j = c := by have := beq_iff_eq.mp h; omega
        simp [this]
      · have := findL_pos c cs sub hf; simp; omega
theorem findL_pos (c : Nat) : ∀ (cs : List T) (sub : T), T.findL? c cs = some sub → 1 ≤ cntL c cs
  | [], sub, hf => by simp [T.findL?] at hf
  | x :: xs, sub, hf => by
      simp only [T.findL?] at hf
      split at hf
      · rename_i r hr; have := find_pos c x r hr; simp; omega
      · have := findL_pos c xs sub hf; simp; omega
end

mutual
theorem splice_notin (c : Nat) (f : T → List T) : ∀ (t : T), cnt c t = 0 → splice c f t = t
  | .node j x l s cs, h => by
      simp at h
      simp [splice, spliceL_notin c f cs h.1]
theorem spliceL_notin (c : Nat) (f : T → List T) : ∀ (cs : List T), cntL c cs = 0 → spliceL c f cs = cs
  | [], _ => by simp [spliceL]
  | x :: xs, h => by
      simp at h
      have hx : ¬ x.id = c := by
        intro e; have := cnt_eq c x; simp [e] at this; omega
      simp [spliceL, hx, splice_notin c f x h.1, spliceL_notin c f xs h.2]
end

mutual
theorem find_le (c : Nat) : ∀ (t sub : T), T.find? c t = some sub → ∀ i, cnt i sub ≤ cnt i t
  | .node j x l s cs, sub, hf, i => by
      simp only [T.find?] at hf
      split at hf
      · injection hf with hf; subst hf; exact Nat.le_refl _
      · have := findL_le c cs sub hf i; simp; omega
theorem findL_le (c : Nat) : ∀ (cs : List T) (sub : T), T.findL? c cs = some sub → ∀ i, cnt i sub ≤ cntL i cs
  | [], sub, hf, i => by simp [T.findL?] at hf
  | x :: xs, sub, hf, i => by
      simp only [T.findL?] at hf
      split at hf
      · rename_i r hr; injection hf with hf; subst hf
        have := find_le c x _ hr i; simp; omega
      · have := findL_le c xs sub hf i; simp; omega
end

mutual
theorem find_none_cnt (c : Nat) : ∀ (t : T), T.find? c t = none → cnt c t = 0
  | .node j x l s cs, hf => by
      simp only [T.find?] at hf
      split at hf
      · cases hf
      · rename_i h
        have hj : ¬ j = c := by intro e; simp [e] at h
        have := findL_none_cnt c cs hf
        simp [hj, this]
theorem findL_none_cnt (c : Nat) : ∀ (cs : List T), T.findL? c cs = none → cntL c cs = 0
  | [], _ => by simp
  | x :: xs, hf => by
      simp only [T.findL?] at hf
      split at hf
      · cases hf
      · rename_i hnone
        simp [find_none_cnt c x hnone, findL_none_cnt c xs hf]
end

mutual
theorem splice_exact (c : Nat) (f : T → List T) : ∀ (t sub : T), t.id ≠ c → T.find? c t = some sub → cnt c t ≤ 1 →
    ∀ i, cnt i (splice c f t) + cnt i sub = cnt i t + cntL i (f sub)
  | .node j x l s cs, sub, hne, hf, h1, i => by
      simp only [T.id] at hne
      have hcj : (c == j) = false := by simp; omega
      simp only [T.find?, hcj] at hf
      have h1' : cntL c cs ≤ 1 := by simp [hne] at h1; exact h1
      have := spliceL_exact c f cs sub hf h1' i
      simp [splice]; omega
theorem spliceL_exact (c : Nat) (f : T → List T) : ∀ (cs : List T) (sub : T), T.findL? c cs = some sub → cntL c cs ≤ 1 →
    ∀ i, cntL i (spliceL c f cs) + cnt i sub = cntL i cs + cntL i (f sub)
  | [], sub, hf, _, i => by simp [T.findL?] at hf
  | x :: xs, sub, hf, h1, i => by
      simp only [T.findL?] at hf
      simp only [spliceL]
      simp at h1
      by_cases hx : x.id = c
      · have hfx : T.find? c x = some x := by
          cases x with
          | node j a b d e => simp only [T.id] at hx; simp [T.find?, hx]
        rw [hfx] at hf; injection hf with hf; subst hf
        simp [hx]; omega
      · have hb : (x.id == c) = false := by simp [hx]
        simp only [hb]
        split at hf
        · rename_i r hr
          injection hf with hf; subst hf
          have hp := find_pos c x r hr
          have := splice_exact c f x r hx hr (by omega) i
          rw [spliceL_notin c f xs (by omega)]
          simp; omega
        · rename_i hnone
          have := spliceL_exact c f xs sub hf (by omega) i
          have hx0 : cnt c x = 0 := by
            -- `find?` fails on `x`, so `c` does not occur in it
            exact find_none_cnt c x hnone
          rw [splice_notin c f x hx0]
          simp; omega
end


/-! ### per-operation bounds -/
theorem removeChild_le (p c : Nat) (sp : Bool) (t t' : T) (hw : WF t) (h : removeChild p c sp t = .ok t') (i : Nat) :
    cnt i t' ≤ cnt i t := by
  have hle := splice_le c (fun _ => []) (by intro y k; simp) t
  unfold removeChild at h
  split at h
  · cases h
  · simp only at h
    split at h
    · injection h with h; subst h; exact hle i
    · split at h
      · rename_i hp
        split at h
        · rename_i child hfind
          injection h with h; subst h
          -- the node `p` of `t1` has exactly the child `child`
          cases hf : T.find? p (splice c (fun _ => []) t) with
          | none => simp [hf] at hfind
          | some n =>
            simp [hf] at hfind
            have hid : (splice c (fun _ => []) t).id ≠ p := by
              cases t with
              | node j a b d e => simp [splice, T.id] at hp ⊢; omega
            have h1 : cnt p (splice c (fun _ => []) t) ≤ 1 := Nat.le_trans (hle p) ((wf_iff t).mp hw p)
            have := splice_exact p (fun n => [child.withLen (tryAdd child.len n.len)]) _ n hid hf h1 i
            have hn := cnt_eq i n
            rw [hfind] at hn
            simp at this hn; have := hle i; omega
        · injection h with h; subst h; exact hle i
      · split at h
        · rename_i a b hcs
          have h0 := cnt_eq i (splice c (fun _ => []) t)
          rw [hcs] at h0
          have ha := cnt_eq i a; have hb := cnt_eq i b
          split at h
          · injection h with h; subst h; have := hle i; simp at h0 ⊢; omega
          · split at h
            · injection h with h; subst h; have := hle i; simp at h0 ⊢; omega
            · injection h with h; subst h; exact hle i
        · injection h with h; subst h; exact hle i

theorem cntL_map_eq (g : T → T) (hg : ∀ x i, cnt i (g x) = cnt i x) : ∀ (l : List T) (i : Nat), cntL i (l.map g) = cntL i l
  | [], i => by simp
  | x :: xs, i => by simp [hg x i, cntL_map_eq g hg xs i]

theorem edgeCollapse_le (c : Nat) (adj : Bool) (t t' : T) (h : edgeCollapse c adj t = .ok t') (i : Nat) :
    cnt i t' ≤ cnt i t := by
  unfold edgeCollapse at h
  split at h
  · injection h with h; subst h; exact Nat.le_refl _
  · split at h
    · injection h with h; subst h; exact Nat.le_refl _
    · split at h
      · cases h
      · injection h with h; subst h
        apply splice_le
        intro x k
        unfold collapseKids
        rw [cntL_map_eq]
        · rw [cnt_eq k x]; omega
        · intro y k'
          split
          · simp
          · rfl

mutual
theorem leaves_le : ∀ (t : T) (i : Nat), cntL i t.leaves ≤ cnt i t
  | .node j x l s [], i => by simp [T.leaves]
  | .node j x l s (c :: cs), i => by
      have := leavesL_le (c :: cs) i
      simp only [T.leaves, cnt_node]; omega
theorem leavesL_le : ∀ (cs : List T) (i : Nat), cntL i (T.leavesL cs) ≤ cntL i cs
  | [], i => by simp [T.leavesL]
  | c :: cs, i => by
      have := leaves_le c i; have := leavesL_le cs i
      simp [T.leavesL]; omega
end

theorem leaves_le_cs (t : T) (h : t.cs.isEmpty = false) (i : Nat) : cntL i t.leaves ≤ cntL i t.cs := by
  cases t with
  | node j x l s cs =>
    cases cs with
    | nil => simp [T.cs] at h
    | cons c cs => simp only [T.leaves, T.cs]; exact leavesL_le _ i

theorem collapseClade_le (c : Nat) (t : T) (i : Nat) : cnt i (collapseClade c t) ≤ cnt i t := by
  unfold collapseClade
  apply modify_le
  intro x k
  split
  · exact Nat.le_refl _
  · rename_i h
    have := leaves_le_cs x (by simpa using h) k
    rw [cnt_withCs, cnt_eq k x]; omega

theorem insertMove_le (p idx c : Nat) (t : T) (i : Nat) : cnt i (insertMove p idx c t) ≤ cnt i t := by
  unfold insertMove
  apply modify_le
  intro x k
  split
  · rename_i cur sub _ hfind
    split
    · exact Nat.le_refl _
    · have := find_filter_cnt c x.cs sub hfind k
      rw [cnt_withCs, cntL_insertAt, cnt_eq k x]; omega
  · exact Nat.le_refl _

theorem reseedAt_le (target : Nat) (a b : Bool) (s : St) (i : Nat) : cnt i (reseedAt target a b s).t ≤ cnt i s.t := by
  unfold reseedAt
  exact Nat.le_trans (encodeStruct_le _ _ _ i) (reseedCore_le target b s.t i)

theorem rerootAtNode_le (target : Nat) (ub a b : Bool) (s : St) (i : Nat) :
    cnt i (rerootAtNode target ub a b s).t ≤ cnt i s.t := by
  unfold rerootAtNode
  have h1 := reseedAt_le target false a s i
  split
  · exact Nat.le_trans (encodeStruct_le _ _ _ i) h1
  · exact h1

theorem moveFront_le (og : Nat) (t : T) (i : Nat) : cnt i (moveFront og t) ≤ cnt i t := by
  unfold moveFront
  split
  · rename_i sub hfind
    have := find_filter_cnt og _ sub hfind i
    rw [cnt_withCs, cnt_eq i t]; simp; omega
  · exact Nat.le_refl _

theorem toOutgroup_le (og : Nat) (sp : Bool) (s : St) (i : Nat) : cnt i (toOutgroup og sp s).t ≤ cnt i s.t := by
  unfold toOutgroup
  split
  · exact Nat.le_refl _
  · rename_i p _
    have h2 : cnt i (moveFront og (reseedCore p false s.t)) ≤ cnt i s.t :=
      Nat.le_trans (moveFront_le og _ i) (reseedCore_le p false s.t i)
    simp only
    generalize moveFront og (reseedCore p false s.t) = t2 at h2 ⊢
    have h3 : ∀ s3 : St, cnt i s3.t ≤ cnt i t2 →
        cnt i (if sp = true then { s3 with t := sup s3.t } else s3).t ≤ cnt i s.t := by
      intro s3 h; split
      · exact Nat.le_trans (sup_le _ i) (by omega)
      · omega
    apply h3
    split
    · split
      · exact collapseBasalSt_le _ _ i
      · exact Nat.le_refl _
    · exact Nat.le_refl _

theorem loop_le (recursive : Bool) (keep : T → Bool) : ∀ (f : Nat) (t t' : T),
    filterLeaves.loop recursive keep f t = .ok t' → ∀ i, cnt i t' ≤ cnt i t
  | 0, t, t', h, i => by simp [filterLeaves.loop] at h; subst h; exact Nat.le_refl _
  | f + 1, t, t', h, i => by
      simp only [filterLeaves.loop] at h
      split at h
      · split at h
        · injection h with h; subst h; exact Nat.le_refl _
        · cases h
      · split at h
        · injection h with h; subst h; exact dropLeaves_le keep t i
        · exact Nat.le_trans (loop_le recursive keep f _ t' h i) (dropLeaves_le keep t i)

theorem pruneUp_le : ∀ (f c : Nat) (t : T) (i : Nat), cnt i (pruneUp f c t) ≤ cnt i t
  | 0, c, t, i => by
      simp only [pruneUp]; exact splice_le c (fun _ => []) (by intro y k; simp) t i
  | f + 1, c, t, i => by
      have h1 := splice_le c (fun _ => []) (by intro y k; simp) t i
      simp only [pruneUp]
      split
      · exact Nat.le_refl _
      · split
        · split
          · exact Nat.le_trans (pruneUp_le f _ _ i) h1
          · exact h1
        · exact h1

theorem pruneNoTaxa_le (r ub sp : Bool) (s : St) (i : Nat) : cnt i (pruneNoTaxa r ub sp s).t ≤ cnt i s.t := by
  unfold pruneNoTaxa
  apply Nat.le_trans (finish_le _ _ _ i)
  simp only
  split
  · exact dropLeavesFix_le _ _ _ i
  · exact dropLeaves_le _ _ i

end DendroModel.C03.Aux

namespace DendroModel.C03.Aux
open DendroModel DendroModel.C03

/-! ### leaf taxa under unifurcation suppression -/
def ltx (t : T) : List Nat := t.leaves.filterMap T.taxon
def ltxL (l : List T) : List Nat := (T.leavesL l).filterMap T.taxon

theorem ltx_node_cons (i x l s c cs) : ltx (.node i x l s (c :: cs)) = ltxL (c :: cs) := by
  simp [ltx, ltxL, T.leaves]
theorem ltxL_cons (c : T) (cs : List T) : ltxL (c :: cs) = ltx c ++ ltxL cs := by
  simp [ltx, ltxL, T.leavesL, List.filterMap_append]
theorem ltx_withLen (t : T) (l) : ltx (t.withLen l) = ltx t := by
  cases t with
  | node i x l' s cs => cases cs <;> simp [ltx, T.withLen, T.leaves, T.taxon, List.filterMap_cons]

theorem supL_length : ∀ cs : List T, (supL cs).length = cs.length
  | [] => rfl
  | c :: cs => by simp [supL, supL_length cs]

mutual
theorem sup_ltx : ∀ t : T, ltx (sup t) = ltx t
  | .node i x l s [] => by simp [sup, supL]
  | .node i x l s (c :: cs) => by
      have h := supL_ltx (c :: cs)
      have hl := supL_length (c :: cs)
      simp only [sup]
      split
      · rename_i c' hc
        rw [hc] at h
        rw [ltx_withLen, ltx_node_cons, ← h, ltxL_cons]; simp [ltxL, T.leavesL]
      · rename_i cs' hne
        match hs : supL (c :: cs) with
        | [] => rw [hs] at hl; simp at hl
        | d :: ds => rw [ltx_node_cons, ltx_node_cons, ← h, hs]
theorem supL_ltx : ∀ cs : List T, ltxL (supL cs) = ltxL cs
  | [] => by simp [supL]
  | c :: cs => by simp only [supL, ltxL_cons, sup_ltx c, supL_ltx cs]
end

end DendroModel.C03.Aux

namespace DendroModel.C03.Aux
open DendroModel DendroModel.C03

theorem sizeL_append (a b : List T) : T.sizeL (a ++ b) = T.sizeL a + T.sizeL b := by
  induction a with
  | nil => simp [T.sizeL]
  | cons x xs ih => simp [T.sizeL, ih]; omega
theorem size_pos (t : T) : 0 < t.size := by cases t; simp [T.size]; omega
theorem size_eq (t : T) : t.size = 1 + T.sizeL t.cs := by cases t; simp [T.size, T.cs]
theorem size_withLen (t : T) (l) : (t.withLen l).size = t.size := by cases t; simp [T.withLen, T.size]
theorem size_withCs (t : T) (cs) : (t.withCs cs).size = 1 + T.sizeL cs := by cases t; simp [T.withCs, T.size]

theorem polyStep_size (t t' : T) (h : polyStep t = some t') : t'.size < t.size := by
  unfold polyStep at h
  split at h
  · rename_i l hcs
    split at h
    · injection h with h; subst h
      rw [size_withCs, size_eq t, hcs, T.sizeL, size_eq l]; simp [T.sizeL]
    · cases h
  · rename_i l r hcs
    split at h
    · injection h with h; subst h
      rw [size_withCs, size_eq t, hcs]; simp [T.sizeL, size_withLen, size_eq r]
    · split at h
      · injection h with h; subst h
        rw [size_withCs, size_eq t, hcs]; simp [T.sizeL, size_withLen, size_eq l]; omega
      · cases h
  · cases h

theorem polytomize_fix : ∀ (f : Nat) (t : T), t.size ≤ f → polyStep (polytomize f t) = none
  | 0, t, h => by have := size_pos t; omega
  | f + 1, t, h => by
      simp only [polytomize]
      split
      · rename_i t' ht
        have := polyStep_size t t' ht
        exact polytomize_fix f t' (by omega)
      · rename_i ht; exact ht

mutual
theorem dropLeaves_size (keep : T → Bool) : ∀ t : T, (dropLeaves keep t).size ≤ t.size
  | .node i x l s cs => by
      have := dropLeavesL_size keep cs
      simp [dropLeaves, T.size]; omega
theorem dropLeavesL_size (keep : T → Bool) : ∀ cs : List T, T.sizeL (dropLeavesL keep cs) ≤ T.sizeL cs
  | [] => by simp [dropLeavesL]
  | c :: cs => by
      have h1 := dropLeaves_size keep c; have h2 := dropLeavesL_size keep cs
      simp only [dropLeavesL]
      split
      · split <;> simp [sizeL_append, T.sizeL] <;> omega
      · simp [sizeL_append, T.sizeL]; omega
end

theorem dropLeavesFix_fix (keep : T → Bool) : ∀ (f : Nat) (t : T), t.size ≤ f →
    (dropLeaves keep (dropLeavesFix keep f t)).size = (dropLeavesFix keep f t).size
  | 0, t, h => by have := size_pos t; omega
  | f + 1, t, h => by
      simp only [dropLeavesFix]
      split
      · rename_i he; exact beq_iff_eq.mp he
      · rename_i he
        have hle := dropLeaves_size keep t
        have hne : (dropLeaves keep t).size ≠ t.size := by intro e; exact he (by simp [e])
        exact dropLeavesFix_fix keep f _ (by omega)

end DendroModel.C03.Aux

namespace DendroModel.C03.Aux
open DendroModel DendroModel.C03 DendroModel.C03.Leaves

/-! ### leaf retention under the operations that need "ids are unique" -/

mutual
theorem find_id (c : Nat) : ∀ (t n : T), T.find? c t = some n → n.id = c
  | .node j x l s cs, n, hf => by
      simp only [T.find?] at hf
      split at hf
      · rename_i e; injection hf with hf; subst hf; exact (beq_iff_eq.mp e).symm
      · exact findL_id c cs n hf
theorem findL_id (c : Nat) : ∀ (cs : List T) (n : T), T.findL? c cs = some n → n.id = c
  | [], n, hf => by simp [T.findL?] at hf
  | x :: xs, n, hf => by
      simp only [T.findL?] at hf
      split at hf
      · rename_i r hr; injection hf with hf; subst hf; exact find_id c x _ hr
      · exact findL_id c xs n hf
end

mutual
theorem targetInternal_of_cnt_zero (k : Nat) : ∀ t : T, cnt k t = 0 → TargetInternal k t
  | .node j x l s cs, h => by
      simp at h
      simp only [TargetInternal]
      exact ⟨fun e => by omega, targetInternalL_of_cnt_zero k cs h.1⟩
theorem targetInternalL_of_cnt_zero (k : Nat) : ∀ cs : List T, cntL k cs = 0 → TargetInternalL k cs
  | [], _ => by simp [TargetInternalL]
  | c :: cs, h => by
      simp at h
      simp only [TargetInternalL]
      exact ⟨targetInternal_of_cnt_zero k c h.1, targetInternalL_of_cnt_zero k cs h.2⟩
end

/- a leaf that counts for `p` exists, so not every node named `p.1` is internal -/
mutual
theorem leaf_not_internal (p : Nat × Nat) : ∀ t : T, 1 ≤ lc p t → TargetInternal p.1 t → False
  | .node j x l s [], h, hi => by
      simp only [TargetInternal] at hi
      exact hi.1 (lc_leaf_pos p j x l s h).2 rfl
  | .node j x l s (c :: cs), h, hi => by
      simp only [TargetInternal] at hi
      rw [lc_node_cons, ← lcL_cons] at h
      exact leafL_not_internal p (c :: cs) h hi.2
theorem leafL_not_internal (p : Nat × Nat) : ∀ cs : List T, 1 ≤ lcL p cs → TargetInternalL p.1 cs → False
  | [], h, _ => by simp at h
  | c :: cs, h, hi => by
      simp only [TargetInternalL] at hi
      rw [lcL_cons] at h
      by_cases h1 : 1 ≤ lc p c
      · exact leaf_not_internal p c h1 hi.1
      · exact leafL_not_internal p cs (by omega) hi.2
end

mutual
theorem parentOf_pos (c : Nat) : ∀ (t : T) (q : Nat), parentOf c t = some q → 1 ≤ cnt q t
  | .node j x l s cs, q, h => by
      simp only [parentOf] at h
      split at h
      · injection h with h; subst h; simp
      · have := parentOfL_pos c cs q h; simp; omega
theorem parentOfL_pos (c : Nat) : ∀ (cs : List T) (q : Nat), parentOfL c cs = some q → 1 ≤ cntL q cs
  | [], q, h => by simp [parentOfL] at h
  | x :: xs, q, h => by
      simp only [parentOfL] at h
      split at h
      · rename_i r hr; injection h with h; subst h; have := parentOf_pos c x _ hr; simp; omega
      · have := parentOfL_pos c xs q h; simp; omega
end

/- with unique ids, the node that `parentOf` names has children, and it is the only node of that name -/
mutual
theorem parentOf_internal (c : Nat) : ∀ (t : T) (q : Nat), cnt q t ≤ 1 → parentOf c t = some q → TargetInternal q t
  | .node j x l s cs, q, h1, h => by
      simp only [parentOf] at h
      simp only [TargetInternal]
      split at h
      · rename_i hany
        injection h with h; subst h
        have hz : cntL j cs = 0 := by simp at h1; omega
        refine ⟨fun _ => ?_, targetInternalL_of_cnt_zero j cs hz⟩
        intro e; subst e; simp at hany
      · have hp := parentOfL_pos c cs q h
        have hjq : ¬ j = q := by intro e; subst e; simp at h1; omega
        refine ⟨fun e => absurd e hjq, parentOfL_internal c cs q (by simp [hjq] at h1; exact h1) h⟩
theorem parentOfL_internal (c : Nat) : ∀ (cs : List T) (q : Nat), cntL q cs ≤ 1 → parentOfL c cs = some q →
    TargetInternalL q cs
  | [], q, _, h => by simp [parentOfL] at h
  | x :: xs, q, h1, h => by
      simp only [parentOfL] at h
      simp at h1
      simp only [TargetInternalL]
      split at h
      · rename_i r hr; injection h with h; subst h
        have := parentOf_pos c x _ hr
        exact ⟨parentOf_internal c x _ (by omega) hr, targetInternalL_of_cnt_zero _ xs (by omega)⟩
      · rename_i hnone
        have hp := parentOfL_pos c xs q h
        exact ⟨targetInternal_of_cnt_zero q x (by omega), parentOfL_internal c xs q (by omega) h⟩
end

/- with unique ids, if the node found under the name `k` has children then every node named `k` has -/
mutual
theorem find_targetInternal (k : Nat) : ∀ (t n : T), cnt k t ≤ 1 → T.find? k t = some n → n.cs ≠ [] → TargetInternal k t
  | .node j x l s cs, n, h1, hf, hn => by
      simp only [T.find?] at hf
      simp only [TargetInternal]
      split at hf
      · rename_i e
        injection hf with hf; subst hf
        have hjk : j = k := (beq_iff_eq.mp e).symm
        have hz : cntL k cs = 0 := by simp [hjk] at h1; omega
        exact ⟨fun _ => by simpa [T.cs] using hn, targetInternalL_of_cnt_zero k cs hz⟩
      · rename_i e
        have hjk : ¬ j = k := by intro h; subst h; simp at e
        exact ⟨fun h => absurd h hjk, findL_targetInternal k cs n (by simp [hjk] at h1; exact h1) hf hn⟩
theorem findL_targetInternal (k : Nat) : ∀ (cs : List T) (n : T), cntL k cs ≤ 1 → T.findL? k cs = some n → n.cs ≠ [] →
    TargetInternalL k cs
  | [], n, _, hf, _ => by simp [T.findL?] at hf
  | x :: xs, n, h1, hf, hn => by
      simp only [T.findL?] at hf
      simp at h1
      simp only [TargetInternalL]
      split at hf
      · rename_i r hr; injection hf with hf; subst hf
        have := find_pos k x _ hr
        exact ⟨find_targetInternal k x _ (by omega) hr hn, targetInternalL_of_cnt_zero k xs (by omega)⟩
      · rename_i hnone
        exact ⟨targetInternal_of_cnt_zero k x (find_none_cnt k x hnone), findL_targetInternal k xs n (by omega) hf hn⟩
end

/- replacing the unique node `c` (= `sub`) by `f sub`: every leaf of the tree is a leaf of the result or was in `sub`;
what `f sub` brings is there -/
mutual
theorem splice_exact_lc (p) (c : Nat) (f : T → List T) : ∀ (t sub : T), t.id ≠ c → T.find? c t = some sub → cnt c t ≤ 1 →
    lc p t + lcL p (f sub) ≤ lc p (splice c f t) + lc p sub
  | .node j x l s cs, sub, hne, hf, h1 => by
      simp only [T.id] at hne
      have hcj : (c == j) = false := by simp; omega
      simp only [T.find?, hcj] at hf
      have h1' : cntL c cs ≤ 1 := by simp [hne] at h1; exact h1
      have h := spliceL_exact_lc p c f cs sub hf h1'
      have hne' : cs ≠ [] := by intro e; subst e; simp [T.findL?] at hf
      have := lc_ge p j x l s (spliceL c f cs)
      rw [lc_eq_cs p (.node j x l s cs) (by simpa [T.cs] using hne')]
      simp only [splice, T.cs]; omega
theorem spliceL_exact_lc (p) (c : Nat) (f : T → List T) : ∀ (cs : List T) (sub : T), T.findL? c cs = some sub →
    cntL c cs ≤ 1 → lcL p cs + lcL p (f sub) ≤ lcL p (spliceL c f cs) + lc p sub
  | [], sub, hf, _ => by simp [T.findL?] at hf
  | x :: xs, sub, hf, h1 => by
      simp only [T.findL?] at hf
      simp only [spliceL]
      simp at h1
      by_cases hx : x.id = c
      · have hfx : T.find? c x = some x := by
          cases x with
          | node j a b d e => simp only [T.id] at hx; simp [T.find?, hx]
        rw [hfx] at hf; injection hf with hf; subst hf
        simp [hx]; omega
      · have hb : (x.id == c) = false := by simp [hx]
        simp only [hb]
        split at hf
        · rename_i r hr
          injection hf with hf; subst hf
          have hp := find_pos c x r hr
          have := splice_exact_lc p c f x r hx hr (by omega)
          rw [spliceL_notin c f xs (by omega)]
          simp; omega
        · rename_i hnone
          have := spliceL_exact_lc p c f xs sub hf (by omega)
          rw [splice_notin c f x (find_none_cnt c x hnone)]
          simp; omega
end

theorem wf_cnt {t : T} (h : WF t) (i : Nat) : cnt i t ≤ 1 := (wf_iff t).mp h i

theorem splice_id (c : Nat) (f : T → List T) (t : T) : (splice c f t).id = t.id := by
  cases t; simp [splice, T.id]

theorem lcL_map_eq (p) (g : T → T) (hg : ∀ x, lc p (g x) = lc p x) : ∀ l : List T, lcL p (l.map g) = lcL p l
  | [] => by simp
  | x :: xs => by simp [hg x, lcL_map_eq p g hg xs]

theorem removeChild_lc (p) (q c : Nat) (sp : Bool) (t t' : T) (hw : WF t)
    (hk : ∀ sub, T.find? c t = some sub → lc p sub = 0) (h : removeChild q c sp t = .ok t') : lc p t ≤ lc p t' := by
  unfold removeChild at h
  split at h
  · cases h
  · rename_i hpar
    have hq : parentOf c t = some q := by simpa using hpar
    simp only at h
    -- the plain removal
    have h1 : lc p t ≤ lc p (splice c (fun _ => []) t) := by
      cases hf : T.find? c t with
      | none =>
        have := find_none_cnt c t hf
        rw [splice_notin c _ t this]; exact Nat.le_refl _
      | some sub =>
        by_cases hid : t.id = c
        · -- `c` names the root: the subtree found is the whole tree, none of whose leaves is `p`
          have hroot : T.find? c t = some t := by
            cases t with
            | node j x l s cs => simp only [T.id] at hid; simp [T.find?, hid]
          rw [hk t hroot]; exact Nat.zero_le _
        · have := splice_exact_lc p c (fun _ => []) t sub hid hf (wf_cnt hw c)
          have := hk sub hf
          simp at *; omega
    have hle := splice_le c (fun _ => []) (by intro y k; simp) t
    split at h
    · injection h with h; subst h; exact h1
    · split at h
      · rename_i hp
        split at h
        · rename_i child hfind
          injection h with h; subst h
          cases hf : T.find? q (splice c (fun _ => []) t) with
          | none => simp [hf] at hfind
          | some n =>
            simp [hf] at hfind
            have hid : (splice c (fun _ => []) t).id ≠ q := by
              rw [splice_id]; intro e; simp [e] at hp
            have hc1 : cnt q (splice c (fun _ => []) t) ≤ 1 := Nat.le_trans (hle q) (wf_cnt hw q)
            have := splice_exact_lc p q (fun n => [child.withLen (tryAdd child.len n.len)]) _ n hid hf hc1
            have hn : lc p n = lc p child := by rw [lc_eq_cs p n (by rw [hfind]; simp), hfind]; simp
            simp at this; omega
        · injection h with h; subst h; exact h1
      · split at h
        · rename_i a b hcs
          have h0 : lc p (splice c (fun _ => []) t) = lc p a + lc p b := by
            rw [lc_eq_cs p _ (by rw [hcs]; simp), hcs]; simp
          split at h
          · rename_i ha
            injection h with h; subst h
            have := lc_withCs_ge p (splice c (fun _ => []) t) (a.cs ++ [b.withLen (tryAdd b.len a.len)])
            rw [lcL_append] at this
            rw [lc_eq_cs p a (isLeaf_false_ne a ha)] at h0
            simp at this; omega
          · split at h
            · rename_i hb
              injection h with h; subst h
              rw [lc_withCs_cons, lc_withLen]
              rw [lc_eq_cs p b (isLeaf_false_ne b hb)] at h0; omega
            · injection h with h; subst h; exact h1
        · injection h with h; subst h; exact h1

end DendroModel.C03.Aux

namespace DendroModel.C03.Aux
open DendroModel DendroModel.C03 DendroModel.C03.Leaves

theorem edgeCollapse_lc (p) (c : Nat) (adj : Bool) (t t' : T) (hw : WF t) (h : edgeCollapse c adj t = .ok t') :
    lc p t ≤ lc p t' := by
  unfold edgeCollapse at h
  split at h
  · injection h with h; subst h; exact Nat.le_refl _
  · rename_i hroot
    split at h
    · injection h with h; subst h; exact Nat.le_refl _
    · rename_i n hf
      split at h
      · cases h
      · rename_i hne
        injection h with h; subst h
        have hid : t.id ≠ c := by intro e; simp [e] at hroot
        have hn : n.cs ≠ [] := by intro e; simp [e] at hne
        have := splice_exact_lc p c (collapseKids adj) t n hid hf (wf_cnt hw c)
        have hkids : lcL p (collapseKids adj n) = lcL p n.cs := by
          unfold collapseKids
          apply lcL_map_eq
          intro y
          split
          · simp
          · rfl
        rw [hkids, lc_eq_cs p n hn] at this; omega

theorem pruneUp_lc (p) : ∀ (f c : Nat) (t : T), WF t → (∀ sub, T.find? c t = some sub → lc p sub = 0) →
    lc p t ≤ lc p (pruneUp f c t)
  | 0, c, t, hw, hk => by
      simp only [pruneUp]
      cases hf : T.find? c t with
      | none => rw [splice_notin c _ t (find_none_cnt c t hf)]; exact Nat.le_refl _
      | some sub =>
        by_cases hid : t.id = c
        · have hroot : T.find? c t = some t := by
            cases t with
            | node j x l s cs => simp only [T.id] at hid; simp [T.find?, hid]
          rw [hk t hroot]; exact Nat.zero_le _
        · have := splice_exact_lc p c (fun _ => []) t sub hid hf (wf_cnt hw c)
          have := hk sub hf
          simp at *; omega
  | f + 1, c, t, hw, hk => by
      have h0 := pruneUp_lc p 0 c t hw hk
      simp only [pruneUp] at h0
      simp only [pruneUp]
      split
      · exact Nat.le_refl _
      · rename_i q hq
        split
        · rename_i n hn
          split
          · rename_i hcond
            by_cases hz : lc p t = 0
            · rw [hz]; exact Nat.zero_le _
            · -- `p` is a leaf of `t`, `q` is internal in `t`: different nodes
              have hqi := parentOf_internal c t q (wf_cnt hw q) hq
              have hpq : p.1 ≠ q := by
                intro e
                exact leaf_not_internal p t (by omega) (e ▸ hqi)
              have hw1 : WF (splice c (fun _ => []) t) :=
                wf_of_le hw (splice_le c (fun _ => []) (by intro y k; simp) t)
              refine Nat.le_trans h0 (pruneUp_lc p f q _ hw1 ?_)
              intro sub hsub
              rw [hn] at hsub; injection hsub with hsub; subst hsub
              have hnid := find_id q _ n hn
              have hnc : n.cs = [] := by
                simp only [Bool.and_eq_true] at hcond
                simpa using hcond.1
              cases n with
              | node j y l' s' ds =>
                simp only [T.cs] at hnc; subst hnc
                simp only [T.id] at hnid
                apply Nat.eq_zero_of_not_pos; intro hpos
                have := (lc_leaf_pos p j y l' s' hpos).2
                omega
          · exact h0
        · exact h0

/-! attaching under a node other than the leaf in question -/
mutual
theorem modify_lc (p) (q : Nat) (f : T → T) (hf : ∀ x : T, x.id = q → lc p x ≤ lc p (f x)) :
    ∀ t : T, lc p t ≤ lc p (modify q f t)
  | .node j x l s cs => by
      simp only [modify]
      split
      · rename_i e; exact hf _ (by simpa [T.id] using e)
      · cases cs with
        | nil => simp [modifyL]
        | cons c cs =>
          have := modifyL_lc p q f hf (c :: cs)
          exact lc_ge' p j x l s _ _ this (by simp)
theorem modifyL_lc (p) (q : Nat) (f : T → T) (hf : ∀ x : T, x.id = q → lc p x ≤ lc p (f x)) :
    ∀ cs : List T, lcL p cs ≤ lcL p (modifyL q f cs)
  | [] => by simp [modifyL]
  | c :: cs => by
      have := modify_lc p q f hf c; have := modifyL_lc p q f hf cs
      simp [modifyL]; omega
end

/-- a node that is not the leaf `p` keeps its `p`-leaves when it gets more children -/
theorem lc_le_withCs (p : Nat × Nat) (x : T) (cs' : List T) (hx : x.id ≠ p.1) (h : lcL p x.cs ≤ lcL p cs') :
    lc p x ≤ lc p (x.withCs cs') := by
  cases x with
  | node j y l s cs =>
    cases cs with
    | nil =>
      have : lc p (.node j y l s []) = 0 := by
        apply Nat.eq_zero_of_not_pos; intro hpos
        exact hx (lc_leaf_pos p j y l s hpos).2
      rw [this]; exact Nat.zero_le _
    | cons c cs =>
      have := lc_ge p j y l s cs'
      simp only [T.withCs, T.cs] at h ⊢
      rw [lc_node_cons, ← lcL_cons]; omega

theorem lcL_insertAt (p) (idx : Nat) (x : T) (l : List T) : lcL p (insertAt idx x l) = lc p x + lcL p l := by
  have h : lcL p (l.take idx ++ l.drop idx) = lcL p l := by rw [List.take_append_drop]
  unfold insertAt
  rw [lcL_append] at h; rw [lcL_append, lcL_cons]; omega

theorem addChild_lc (p : Nat × Nat) (q : Nat) (sub t : T) (hq : p.1 ≠ q) : lc p t ≤ lc p (addChild q sub t) := by
  unfold addChild
  apply modify_lc
  intro x hx
  exact lc_le_withCs p x _ (by omega) (by simp)

theorem insertChild_lc (p : Nat × Nat) (q idx : Nat) (sub t : T) (hq : p.1 ≠ q) :
    lc p t ≤ lc p (insertChild q idx sub t) := by
  unfold insertChild
  apply modify_lc
  intro x hx
  exact lc_le_withCs p x _ (by omega) (by rw [lcL_insertAt]; omega)

/-! re-attaching: the leaves of the attached subtree are there again -/
mutual
theorem modify_lc_add (p) (q : Nat) (f : T → T) (K : Nat) (hf : ∀ x : T, x.id = q → lc p x + K ≤ lc p (f x)) :
    ∀ t : T, 1 ≤ cnt q t → lc p t + K ≤ lc p (modify q f t)
  | .node j x l s cs, h1 => by
      simp only [modify]
      split
      · rename_i e; exact hf _ (by simpa [T.id] using e)
      · rename_i e
        have hjq : ¬ j = q := by simpa using e
        have hc : 1 ≤ cntL q cs := by simp [hjq] at h1; exact h1
        have hne : cs ≠ [] := by intro e'; subst e'; simp at hc
        have := modifyL_lc_add p q f K hf cs hc
        have h2 := lc_ge p j x l s (modifyL q f cs)
        rw [lc_eq_cs p (.node j x l s cs) (by simpa [T.cs] using hne)]
        simp only [T.cs]; omega
theorem modifyL_lc_add (p) (q : Nat) (f : T → T) (K : Nat) (hf : ∀ x : T, x.id = q → lc p x + K ≤ lc p (f x)) :
    ∀ cs : List T, 1 ≤ cntL q cs → lcL p cs + K ≤ lcL p (modifyL q f cs)
  | [], h1 => by simp at h1
  | c :: cs, h1 => by
      simp at h1
      have hmono := modifyL_lc p q f (fun x hx => Nat.le_trans (Nat.le_add_right _ K) (hf x hx)) cs
      have hmono1 := modify_lc p q f (fun x hx => Nat.le_trans (Nat.le_add_right _ K) (hf x hx)) c
      by_cases hc : 1 ≤ cnt q c
      · have := modify_lc_add p q f K hf c hc
        simp [modifyL]; omega
      · have := modifyL_lc_add p q f K hf cs (by omega)
        simp [modifyL]; omega
end

theorem addChild_lc_add (p : Nat × Nat) (q : Nat) (w t : T) (hq : p.1 ≠ q) (h1 : 1 ≤ cnt q t) :
    lc p t + lc p w ≤ lc p (addChild q w t) := by
  unfold addChild
  apply modify_lc_add p q _ (lc p w) _ t h1
  intro x hx
  cases x with
  | node j y l s cs =>
    simp only [T.id] at hx
    cases cs with
    | nil =>
      have : lc p (.node j y l s []) = 0 := by
        apply Nat.eq_zero_of_not_pos; intro hpos
        have := (lc_leaf_pos p j y l s hpos).2; omega
      simp [T.withCs, T.cs, this]
    | cons c cs => simp [T.withCs, T.cs]; omega

mutual
theorem containsId_cnt (q : Nat) : ∀ t : T, containsId q t = true → 1 ≤ cnt q t
  | .node j x l s cs, h => by
      simp only [containsId, Bool.or_eq_true] at h
      rcases h with h | h
      · have : j = q := by simpa using h
        simp [this]
      · have := containsIdL_cnt q cs h; simp; omega
theorem containsIdL_cnt (q : Nat) : ∀ cs : List T, containsIdL q cs = true → 1 ≤ cntL q cs
  | [], h => by simp [containsIdL] at h
  | c :: cs, h => by
      simp only [containsIdL, Bool.or_eq_true] at h
      rcases h with h | h
      · have := containsId_cnt q c h; simp; omega
      · have := containsIdL_cnt q cs h; simp; omega
end

mutual
theorem cnt_containsId (q : Nat) : ∀ t : T, containsId q t = false → cnt q t = 0
  | .node j x l s cs, h => by
      simp only [containsId, Bool.or_eq_false_iff] at h
      have hj : ¬ j = q := by simpa using h.1
      simp [hj, cntL_containsId q cs h.2]
theorem cntL_containsId (q : Nat) : ∀ cs : List T, containsIdL q cs = false → cntL q cs = 0
  | [], _ => by simp
  | c :: cs, h => by
      simp only [containsIdL, Bool.or_eq_false_iff] at h
      simp [cnt_containsId q c h.1, cntL_containsId q cs h.2]
end

/-- remove the subtree at `c` and hang `w` (which carries the leaves of that subtree) under `q`, a node outside it -/
theorem regraft_lc (p : Nat × Nat) {t sub w : T} {c q : Nat} (hw : WF t) (hne : t.id ≠ c) (hf : T.find? c t = some sub)
    (hq : p.1 ≠ q) (hqt : 1 ≤ cnt q t) (hqs : cnt q sub = 0) (hws : lc p sub ≤ lc p w) :
    lc p t ≤ lc p (addChild q w (splice c (fun _ => []) t)) := by
  have h1 := splice_exact_lc p c (fun _ => []) t sub hne hf (wf_cnt hw c)
  have h2 := splice_exact c (fun _ => []) t sub hne hf (wf_cnt hw c) q
  have h3 := addChild_lc_add p q w (splice c (fun _ => []) t) hq (by simp at h2; omega)
  simp at h1; omega

end DendroModel.C03.Aux

namespace DendroModel.C03.Aux
open DendroModel DendroModel.C03 DendroModel.C03.Leaves

theorem filter_ne_of_cnt_zero (og : Nat) : ∀ l : List T, cntL og l = 0 → l.filter (fun x => x.id != og) = l
  | [], _ => rfl
  | y :: ys, h => by
      simp at h
      have hy : ¬ y.id = og := by
        intro e; have := cnt_eq og y; simp [e] at this; omega
      simp [List.filter_cons, hy, filter_ne_of_cnt_zero og ys h.2]

theorem find_filter_lc (p) (og : Nat) : ∀ (l : List T) (sub : T), l.find? (fun x => x.id == og) = some sub → cntL og l ≤ 1 →
    lcL p l ≤ lc p sub + lcL p (l.filter (fun x => x.id != og))
  | [], sub, h, _ => by simp at h
  | x :: xs, sub, h, h1 => by
      simp at h1
      by_cases hx : x.id = og
      · simp [hx] at h; subst h
        have hc : 1 ≤ cnt og x := by have := cnt_eq og x; simp [hx] at this; omega
        rw [List.filter_cons]; simp [hx]
        rw [filter_ne_of_cnt_zero og xs (by omega)]; omega
      · have hb : (x.id == og) = false := by simp [hx]
        simp only [List.find?_cons, hb] at h
        have := find_filter_lc p og xs sub h (by omega)
        simp [List.filter_cons, hx]; omega

theorem moveFront_lc (p) (og : Nat) (t : T) (h1 : cnt og t ≤ 1) : lc p t ≤ lc p (moveFront og t) := by
  unfold moveFront
  split
  · rename_i sub hfind
    have hne : t.cs ≠ [] := by intro e; rw [e] at hfind; simp at hfind
    have hc : cntL og t.cs ≤ 1 := by have := cnt_eq og t; omega
    have := find_filter_lc p og t.cs sub hfind hc
    rw [lc_withCs_cons, lc_eq_cs p t hne]; exact this
  · exact Nat.le_refl _

/-! `modify` where the function is only well behaved on nodes in which `c` is unique -/
mutual
theorem modify_lc' (p) (q c : Nat) (f : T → T) (hf : ∀ x : T, x.id = q → cnt c x ≤ 1 → lc p x ≤ lc p (f x)) :
    ∀ t : T, cnt c t ≤ 1 → lc p t ≤ lc p (modify q f t)
  | .node j x l s cs, h1 => by
      simp only [modify]
      split
      · rename_i e; exact hf _ (by simpa [T.id] using e) h1
      · cases cs with
        | nil => simp [modifyL]
        | cons d ds =>
          have hc : cntL c (d :: ds) ≤ 1 := by rw [cnt_node] at h1; omega
          have := modifyL_lc' p q c f hf (d :: ds) hc
          exact lc_ge' p j x l s _ _ this (by simp)
theorem modifyL_lc' (p) (q c : Nat) (f : T → T) (hf : ∀ x : T, x.id = q → cnt c x ≤ 1 → lc p x ≤ lc p (f x)) :
    ∀ cs : List T, cntL c cs ≤ 1 → lcL p cs ≤ lcL p (modifyL q f cs)
  | [], _ => by simp [modifyL]
  | d :: ds, h1 => by
      simp at h1
      have := modify_lc' p q c f hf d (by omega); have := modifyL_lc' p q c f hf ds (by omega)
      simp [modifyL]; omega
end

theorem insertMove_lc (p) (q idx c : Nat) (t : T) (hw : WF t) : lc p t ≤ lc p (insertMove q idx c t) := by
  unfold insertMove
  apply modify_lc' p q c _ _ t (wf_cnt hw c)
  intro x _ hx1
  split
  · rename_i cur sub _ hfind
    split
    · exact Nat.le_refl _
    · have hne : x.cs ≠ [] := by intro e; rw [e] at hfind; simp at hfind
      have hc : cntL c x.cs ≤ 1 := by have := cnt_eq c x; omega
      have h := find_filter_lc p c x.cs sub hfind hc
      have := lc_withCs_ge p x (insertAt idx sub (x.cs.filter (fun y => y.id != c)))
      rw [lcL_insertAt] at this
      rw [lc_eq_cs p x hne]; omega
  · exact Nat.le_refl _

/-- `reseedCore` keeps the leaves when the target is the seed itself or an internal node -/
theorem reseedCore_lc' (p) (target : Nat) (b : Bool) (t : T) (hi : t.id = target ∨ TargetInternal target t) :
    lc p t ≤ lc p (reseedCore target b t) := by
  rcases hi with hi | hi
  · unfold reseedCore; simp [hi]
  · exact reseedCore_lc p target b t hi

theorem toOutgroup_lc (p) (og : Nat) (sp : Bool) (s : St) (hw : WF s.t) : lc p s.t ≤ lc p (toOutgroup og sp s).t := by
  unfold toOutgroup
  split
  · exact Nat.le_refl _
  · rename_i q hq
    have hqi := parentOf_internal og s.t q (wf_cnt hw q) hq
    have h1 := reseedCore_lc p q false s.t hqi
    have hcnt : cnt og (reseedCore q false s.t) ≤ 1 := Nat.le_trans (reseedCore_le q false s.t og) (wf_cnt hw og)
    have h2 : lc p s.t ≤ lc p (moveFront og (reseedCore q false s.t)) :=
      Nat.le_trans h1 (moveFront_lc p og _ hcnt)
    simp only
    generalize moveFront og (reseedCore q false s.t) = t2 at h2 ⊢
    have h3 : ∀ s3 : St, lc p t2 ≤ lc p s3.t →
        lc p s.t ≤ lc p (if sp = true then { s3 with t := sup s3.t } else s3).t := by
      intro s3 h; split
      · simp only; rw [sup_lc]; omega
      · omega
    apply h3
    split
    · split
      · exact collapseBasalSt_lc p true ⟨t2, s.rooted⟩
      · exact Nat.le_refl _
    · exact Nat.le_refl _

/-! collapse_clade: the leaves below become the children -/
mutual
theorem leaves_leaves : ∀ t : T, T.leavesL t.leaves = t.leaves
  | .node i x l s [] => by simp [T.leaves, T.leavesL]
  | .node i x l s (c :: cs) => by simp only [T.leaves]; exact leavesL_leaves (c :: cs)
theorem leavesL_leaves : ∀ cs : List T, T.leavesL (T.leavesL cs) = T.leavesL cs
  | [] => by simp [T.leavesL]
  | c :: cs => by
      simp only [T.leavesL]
      rw [leavesL_append, leaves_leaves c, leavesL_leaves cs]
theorem leavesL_append : ∀ a b : List T, T.leavesL (a ++ b) = T.leavesL a ++ T.leavesL b
  | [], b => by simp [T.leavesL]
  | x :: xs, b => by simp [T.leavesL, leavesL_append xs b]
end

theorem lcL_leaves (p) (t : T) : lcL p t.leaves = lc p t := by
  simp only [lcL, lc, lpairsL, lpairs, leaves_leaves]

theorem collapseClade_lc (p) (c : Nat) (t : T) : lc p t ≤ lc p (collapseClade c t) := by
  unfold collapseClade
  apply modify_lc
  intro x _
  split
  · exact Nat.le_refl _
  · have := lc_withCs_ge p x x.leaves
    rw [lcL_leaves] at this; exact this

/-! resolve_polytomies -/
theorem joinLoop_lc (p) (limit : Nat) : ∀ (f : Nat) (cs : List T) (k : Nat), lcL p cs ≤ lcL p (joinLoop limit f cs k).1
  | 0, cs, k => by simp [joinLoop]
  | f + 1, cs, k => by
      simp only [joinLoop]
      split
      · split
        · rename_i c1 c2 rest _
          have := joinLoop_lc p limit f (rest ++ [.node k none (some Frac.zero) none [c1, c2]]) (k + 1)
          simp at this ⊢; omega
        · exact Nat.le_refl _
      · exact Nat.le_refl _

theorem joinLoop_nil (limit : Nat) : ∀ (f : Nat) (cs : List T) (k : Nat), cs ≠ [] → (joinLoop limit f cs k).1 ≠ []
  | 0, cs, k, h => by simpa [joinLoop] using h
  | f + 1, cs, k, h => by
      simp only [joinLoop]
      split
      · split
        · exact joinLoop_nil limit f _ _ (by simp)
        · exact h
      · exact h

mutual
theorem rp_lc (p) (limit : Nat) : ∀ (t : T) (k : Nat), lc p t ≤ lc p (rp limit t k).1
  | .node i x l s [], k => by simp [rp, rpL, joinLoop]
  | .node i x l s (c :: cs), k => by
      have h1 := rpL_lc p limit (c :: cs) k
      have h2 := joinLoop_lc p limit (rpL limit (c :: cs) k).1.length (rpL limit (c :: cs) k).1 (rpL limit (c :: cs) k).2
      simp only [rp]
      exact lc_ge' p i x l s _ _ (Nat.le_trans h1 h2) (by simp)
theorem rpL_lc (p) (limit : Nat) : ∀ (cs : List T) (k : Nat), lcL p cs ≤ lcL p (rpL limit cs k).1
  | [], k => by simp [rpL]
  | c :: cs, k => by
      have := rp_lc p limit c k; have := rpL_lc p limit cs (rp limit c k).2
      simp [rpL]; omega
end

end DendroModel.C03.Aux

namespace DendroModel.C03.Aux
open DendroModel DendroModel.C03 DendroModel.C03.Leaves

theorem any_id_cnt (c : Nat) : ∀ cs : List T, cs.any (fun x => x.id == c) = true → 1 ≤ cntL c cs
  | [], h => by simp at h
  | y :: ys, h => by
      simp only [List.any_cons, Bool.or_eq_true] at h
      rcases h with h | h
      · have : y.id = c := by simpa using h
        have := cnt_eq c y; simp [*] at this; simp; omega
      · have := any_id_cnt c ys h; simp; omega

mutual
theorem parentOf_c_pos (c : Nat) : ∀ (t : T) (q : Nat), parentOf c t = some q → 1 ≤ cntL c t.cs
  | .node j x l s cs, q, h => by
      simp only [parentOf] at h
      simp only [T.cs]
      split at h
      · rename_i hany; exact any_id_cnt c cs hany
      · exact parentOfL_c_pos c cs q h
theorem parentOfL_c_pos (c : Nat) : ∀ (cs : List T) (q : Nat), parentOfL c cs = some q → 1 ≤ cntL c cs
  | [], q, h => by simp [parentOfL] at h
  | x :: xs, q, h => by
      simp only [parentOfL] at h
      split at h
      · rename_i r hr
        have := parentOf_c_pos c x r hr
        have := cnt_eq c x
        simp; omega
      · have := parentOfL_c_pos c xs q h; simp; omega
end

/- with unique ids the parent of `c` is not inside the subtree of `c` -/
mutual
theorem parent_not_in_sub (c : Nat) : ∀ (t : T) (q : Nat) (sub : T), t.id ≠ c → cnt c t ≤ 1 → cnt q t ≤ 1 →
    parentOf c t = some q → T.find? c t = some sub → cnt q sub = 0
  | .node j x l s cs, q, sub, hne, hc1, hq1, hp, hf => by
      simp only [T.id] at hne
      have hcj : (c == j) = false := by simp; omega
      simp only [T.find?, hcj] at hf
      simp only [parentOf] at hp
      have hc1' : cntL c cs ≤ 1 := by simp [hne] at hc1; exact hc1
      split at hp
      · injection hp with hp; subst hp
        have := findL_le c cs sub hf j
        simp at hq1; omega
      · rename_i hany
        have hno : ∀ y ∈ cs, y.id ≠ c := by
          intro y hy e
          apply hany
          exact List.any_eq_true.mpr ⟨y, hy, by simp [e]⟩
        have hq1' : cntL q cs ≤ 1 := by rw [cnt_node] at hq1; omega
        exact parentL_not_in_sub c cs q sub hno hc1' hq1' hp hf
theorem parentL_not_in_sub (c : Nat) : ∀ (cs : List T) (q : Nat) (sub : T), (∀ y ∈ cs, y.id ≠ c) → cntL c cs ≤ 1 →
    cntL q cs ≤ 1 → parentOfL c cs = some q → T.findL? c cs = some sub → cnt q sub = 0
  | [], q, sub, _, _, _, hp, _ => by simp [parentOfL] at hp
  | x :: xs, q, sub, hno, hc1, hq1, hp, hf => by
      simp only [parentOfL] at hp
      simp only [T.findL?] at hf
      simp at hc1 hq1
      have hxid : x.id ≠ c := hno x (by simp)
      split at hp
      · rename_i r hr
        injection hp with hp; subst hp
        have hcx : 1 ≤ cnt c x := by
          have := parentOf_c_pos c x r hr; have := cnt_eq c x; omega
        split at hf
        · rename_i sub' hsub'
          injection hf with hf; subst hf
          exact parent_not_in_sub c x r _ hxid (by omega) (by omega) hr hsub'
        · rename_i hnone
          have := find_none_cnt c x hnone; omega
      · have hcxs := parentOfL_c_pos c xs q hp
        split at hf
        · rename_i sub' hsub'
          have := find_pos c x sub' hsub'; omega
        · exact parentL_not_in_sub c xs q sub (fun y hy => hno y (by simp [hy])) (by omega) (by omega) hp hf
end

theorem modifyL_ne_nil (q : Nat) (f : T → T) : ∀ cs : List T, cs ≠ [] → modifyL q f cs ≠ []
  | [], h => absurd rfl h
  | c :: cs, _ => by simp [modifyL]

mutual
theorem modify_ti (k q : Nat) (f : T → T) (hf : ∀ x : T, TargetInternal k x → TargetInternal k (f x)) :
    ∀ t : T, TargetInternal k t → TargetInternal k (modify q f t)
  | .node j x l s cs, h => by
      simp only [modify]
      split
      · exact hf _ h
      · simp only [TargetInternal] at h ⊢
        exact ⟨fun e => modifyL_ne_nil q f cs (h.1 e), modifyL_ti k q f hf cs h.2⟩
theorem modifyL_ti (k q : Nat) (f : T → T) (hf : ∀ x : T, TargetInternal k x → TargetInternal k (f x)) :
    ∀ cs : List T, TargetInternalL k cs → TargetInternalL k (modifyL q f cs)
  | [], _ => by simp [modifyL, TargetInternalL]
  | c :: cs, h => by
      simp only [TargetInternalL] at h
      simp only [modifyL, TargetInternalL]
      exact ⟨modify_ti k q f hf c h.1, modifyL_ti k q f hf cs h.2⟩
end

theorem tiL_append (k : Nat) : ∀ a b : List T, TargetInternalL k a → TargetInternalL k b → TargetInternalL k (a ++ b)
  | [], b, _, hb => hb
  | x :: xs, b, ha, hb => by
      simp only [TargetInternalL] at ha
      simp only [List.cons_append, TargetInternalL]
      exact ⟨ha.1, tiL_append k xs b ha.2 hb⟩

theorem rerootAtEdge_lc (p : Nat × Nat) (head : Nat) (l1 l2 : Option Frac) (ub sp : Bool) (s : St) (hw : WF s.t)
    (hne : s.t.id ≠ head) : lc p s.t ≤ lc p (rerootAtEdge head (maxId s.t + 1) l1 l2 ub sp s).t := by
  unfold rerootAtEdge
  split
  · rename_i tail sub hq hf
    have hfresh : ∀ i, maxId s.t < i → cnt i s.t = 0 := fun i hi => cnt_fresh s.t i hi
    have hsub : ∀ i, cnt i sub ≤ cnt i s.t := find_le head s.t sub hf
    have hrm : ∀ i, cnt i (splice head (fun _ => []) s.t) ≤ cnt i s.t :=
      splice_le head (fun _ => []) (by intro y k; simp) s.t
    -- the re-seeding target is the new node, which has a child and whose name is fresh
    have hti : TargetInternal (maxId s.t + 1)
        (addChild tail (.node (maxId s.t + 1) none l1 none [sub.withLen l2]) (splice head (fun _ => []) s.t)) := by
      unfold addChild
      apply modify_ti
      · intro x hx
        cases x with
        | node j y l' s' cs =>
          simp only [TargetInternal] at hx
          simp only [T.withCs, T.cs, TargetInternal]
          refine ⟨fun _ => by simp, tiL_append _ _ _ hx.2 ?_⟩
          simp only [TargetInternalL, TargetInternal, and_true]
          refine ⟨fun _ => by simp, ?_⟩
          apply targetInternal_of_cnt_zero
          rw [cnt_withLen]
          have := hsub (maxId s.t + 1); have := hfresh (maxId s.t + 1) (by omega); omega
      · apply targetInternal_of_cnt_zero
        have := hrm (maxId s.t + 1); have := hfresh (maxId s.t + 1) (by omega); omega
    refine Nat.le_trans ?_ (rerootAtNode_lc p _ ub sp true ⟨_, s.rooted⟩ hti)
    by_cases hz : lc p s.t = 0
    · rw [hz]; exact Nat.zero_le _
    · have hqi := parentOf_internal head s.t tail (wf_cnt hw tail) hq
      have hpq : p.1 ≠ tail := by
        intro e; exact leaf_not_internal p s.t (by omega) (e ▸ hqi)
      apply regraft_lc p hw hne hf hpq (parentOf_pos head s.t tail hq)
        (parent_not_in_sub head s.t tail sub hne (wf_cnt hw head) (wf_cnt hw tail) hq hf)
      simp
  · exact Nat.le_refl _

end DendroModel.C03.Aux

namespace DendroModel.C03.Aux
open DendroModel DendroModel.C03

theorem pick_set_perm : ∀ (l : List Nat) (j : Nat) (b : Nat) (hj : j < l.length), (l[j] :: l.set j b).Perm (b :: l)
  | y :: ys, 0, b, _ => by simp; exact List.Perm.swap _ _ _
  | y :: ys, j + 1, b, hj => by
      have hj' : j < ys.length := by simpa using hj
      have ih := pick_set_perm ys j b hj'
      simp only [List.getElem_cons_succ, List.set_cons_succ]
      exact ((List.Perm.swap y (ys[j]) (ys.set j b)).trans (ih.cons y)).trans (List.Perm.swap b y ys)

/-- one draw of `shuffle_taxa`: the picked element together with the remaining pool is the pool -/
theorem draw_step_perm (pool : List Nat) (hne : pool ≠ []) (j : Nat) (hj : j < pool.length) :
    (pool[j]! :: (pool.set j pool.getLast!).dropLast).Perm pool := by
  have hlast : pool.getLast! = pool.getLast hne := by
    cases pool with
    | nil => exact absurd rfl hne
    | cons a as => simp [List.getLast!]
  rw [getElem!_pos pool j hj, hlast]
  have hbe : pool.getLast hne = pool[pool.length - 1]'(by have := List.length_pos_iff.mpr hne; omega) :=
    List.getLast_eq_getElem hne
  generalize pool.getLast hne = b at hbe ⊢
  have h1 := pick_set_perm pool j b hj
  have hne' : pool.set j b ≠ [] := by simpa using hne
  have hsplit := List.dropLast_concat_getLast hne'
  have hgl : (pool.set j b).getLast hne' = b := by
    rw [List.getLast_eq_getElem]
    by_cases e : j = pool.length - 1
    · simp [e]
    · simp only [List.length_set]
      rw [List.getElem_set_ne (by omega)]; exact hbe.symm
  rw [hgl] at hsplit
  rw [← hsplit] at h1
  have h2 : (pool[j] :: b :: (pool.set j b).dropLast).Perm (b :: pool) :=
    ((List.perm_append_singleton _ _).symm.cons _).trans h1
  exact ((List.Perm.swap _ _ _).trans h2).cons_inv

theorem drawTaxa_perm : ∀ (rs pool : List Nat), rs.length = pool.length → (drawTaxa rs pool).Perm pool
  | [], pool, h => by
      have : pool = [] := List.length_eq_zero_iff.mp h.symm
      subst this; simp [drawTaxa]
  | r :: rs, [], h => by simp at h
  | r :: rs, x :: pool, h => by
      simp only [drawTaxa]
      have hne : (x :: pool) ≠ [] := by simp
      have hj : r % (x :: pool).length < (x :: pool).length := Nat.mod_lt _ (by simp)
      have hstep := draw_step_perm (x :: pool) hne _ hj
      have hlen : rs.length = (((x :: pool).set (r % (x :: pool).length) (x :: pool).getLast!).dropLast).length := by
        simp at h ⊢; omega
      exact ((drawTaxa_perm rs _ hlen).cons _).trans hstep

def tl (t : T) : List Nat := t.leaves.filterMap T.taxon
def tlL (l : List T) : List Nat := (T.leavesL l).filterMap T.taxon

theorem tlL_cons (c : T) (cs : List T) : tlL (c :: cs) = tl c ++ tlL cs := by
  simp [tl, tlL, T.leavesL, List.filterMap_append]
theorem tl_node_cons (i x l s c cs) : tl (.node i x l s (c :: cs)) = tlL (c :: cs) := by
  simp [tl, tlL, T.leaves]

mutual
theorem assignTaxa_spec : ∀ (t : T) (new : List Nat), (tl t).length ≤ new.length →
    tl (assignTaxa t new).1 = new.take (tl t).length ∧ (assignTaxa t new).2 = new.drop (tl t).length
  | .node i x l s [], new, h => by
      cases x with
      | none => simp [assignTaxa, tl, T.leaves, T.taxon, List.filterMap_cons]
      | some k =>
        cases new with
        | nil => simp [tl, T.leaves, T.taxon, List.filterMap_cons] at h
        | cons y rest => simp [assignTaxa, tl, T.leaves, T.taxon, List.filterMap_cons]
  | .node i x l s (c :: cs), new, h => by
      rw [tl_node_cons] at h ⊢
      have := assignTaxaL_spec (c :: cs) new h
      simp only [assignTaxa]
      cases hr : (assignTaxaL (c :: cs) new).1 with
      | nil => simp [assignTaxaL] at hr
      | cons d ds => rw [tl_node_cons, ← hr]; exact this
theorem assignTaxaL_spec : ∀ (cs : List T) (new : List Nat), (tlL cs).length ≤ new.length →
    tlL (assignTaxaL cs new).1 = new.take (tlL cs).length ∧ (assignTaxaL cs new).2 = new.drop (tlL cs).length
  | [], new, _ => by simp [assignTaxaL, tlL, T.leavesL]
  | c :: cs, new, h => by
      rw [tlL_cons, List.length_append] at h
      have h1 := assignTaxa_spec c new (by omega)
      have h2 := assignTaxaL_spec cs (assignTaxa c new).2 (by rw [h1.2, List.length_drop]; omega)
      simp only [assignTaxaL]
      rw [tlL_cons, tlL_cons, List.length_append, h1.1, h2.1, h2.2, h1.2, List.drop_drop, List.take_add]
      exact ⟨rfl, by rw [Nat.add_comm]⟩
end

end DendroModel.C03.Aux


namespace DendroModel.C03.AuxP
open DendroModel DendroModel.C03 DendroModel.C03.Aux

/-- number of nodes of `t` that are node `p.1` AND carry taxon `p.2` (at any position, leaf or not) -/
def pc (p : Nat × Nat) (t : T) : Nat := ((T.nodes t).map (fun n => (n.id, n.taxon))).count (p.1, some p.2)
def pcL (p : Nat × Nat) (l : List T) : Nat := ((T.nodesL l).map (fun n => (n.id, n.taxon))).count (p.1, some p.2)

@[simp] theorem pc_node (i : Nat × Nat) (j : Nat) (x l s cs) :
    pc i (.node j x l s cs) = pcL i cs + (if j = i.1 ∧ x = some i.2 then 1 else 0) := by
  simp only [pc, pcL, T.nodes, List.map_cons, List.count_cons, T.id, T.taxon]
  congr 1
  by_cases h : j = i.1 ∧ x = some i.2
  · simp [h]
  · simp only [h, if_false]
    have : ((j, x) == (i.1, some i.2)) = false := by
      simp only [beq_eq_false_iff_ne, ne_eq, Prod.mk.injEq]; exact h
    simp [this]
@[simp] theorem pcL_nil (i : Nat × Nat) : pcL i [] = 0 := by simp [pcL, T.nodesL]
@[simp] theorem pcL_cons (i : Nat × Nat) (c : T) (cs : List T) : pcL i (c :: cs) = pc i c + pcL i cs := by
  simp [pc, pcL, T.nodesL, List.count_append]
@[simp] theorem pcL_append (i : Nat × Nat) (a b : List T) : pcL i (a ++ b) = pcL i a + pcL i b := by
  induction a with
  | nil => simp
  | cons x xs ih => simp [ih]; omega
theorem pc_eq (i : Nat × Nat) (t : T) : pc i t = pcL i t.cs + (if t.id = i.1 ∧ t.taxon = some i.2 then 1 else 0) := by
  cases t; simp only [T.cs, T.id, T.taxon, pc_node]; rfl
@[simp] theorem pc_withLen (i : Nat × Nat) (t : T) (l) : pc i (t.withLen l) = pc i t := by
  cases t; simp [T.withLen]
@[simp] theorem taxon_withLen (t : T) (l) : (t.withLen l).taxon = t.taxon := by cases t; rfl
@[simp] theorem pc_withCs (i : Nat × Nat) (t : T) (cs) :
    pc i (t.withCs cs) = pcL i cs + (if t.id = i.1 ∧ t.taxon = some i.2 then 1 else 0) := by
  cases t; simp only [T.withCs, T.id, T.taxon, pc_node]; rfl

/-! ### splice / modify -/
mutual
theorem splice_le (c : Nat) (f : T → List T) (hf : ∀ x i, pcL i (f x) ≤ pc i x) :
    ∀ (t : T) (i : Nat × Nat), pc i (splice c f t) ≤ pc i t
  | .node j x l s cs, i => by
      have := spliceL_le c f hf cs i
      simp [splice]; omega
theorem spliceL_le (c : Nat) (f : T → List T) (hf : ∀ x i, pcL i (f x) ≤ pc i x) :
    ∀ (cs : List T) (i : Nat × Nat), pcL i (spliceL c f cs) ≤ pcL i cs
  | [], i => by simp [spliceL]
  | x :: xs, i => by
      simp only [spliceL]
      split
      · have := hf x i; simp; omega
      · have := splice_le c f hf x i; have := spliceL_le c f hf xs i; simp; omega
end

mutual
theorem modify_le (p : Nat) (f : T → T) (hf : ∀ x i, pc i (f x) ≤ pc i x) :
    ∀ (t : T) (i : Nat × Nat), pc i (modify p f t) ≤ pc i t
  | .node j x l s cs, i => by
      simp only [modify]
      split
      · exact hf _ i
      · have := modifyL_le p f hf cs i; simp; omega
theorem modifyL_le (p : Nat) (f : T → T) (hf : ∀ x i, pc i (f x) ≤ pc i x) :
    ∀ (cs : List T) (i : Nat × Nat), pcL i (modifyL p f cs) ≤ pcL i cs
  | [], i => by simp [modifyL]
  | x :: xs, i => by
      have := modify_le p f hf x i; have := modifyL_le p f hf xs i
      simp [modifyL]; omega
end

/- `f` may add up to `k i` occurrences of `i` at each node named `p` -/
mutual
theorem modify_add (p : Nat) (f : T → T) (k : Nat × Nat → Nat) (hf : ∀ x i, pc i (f x) ≤ pc i x + k i) :
    ∀ (t : T) (i : Nat × Nat), pc i (modify p f t) ≤ pc i t + cnt p t * k i
  | .node j x l s cs, i => by
      simp only [modify]
      split
      · rename_i h
        have hj : j = p := by simpa using h
        have := hf (.node j x l s cs) i
        have h1 : 1 ≤ cnt p (.node j x l s cs) := by simp [hj]
        have : k i ≤ cnt p (.node j x l s cs) * k i := Nat.le_mul_of_pos_left _ h1
        omega
      · rename_i h
        have hj : ¬ j = p := by simpa using h
        have := modifyL_add p f k hf cs i
        simp [hj]; omega
theorem modifyL_add (p : Nat) (f : T → T) (k : Nat × Nat → Nat) (hf : ∀ x i, pc i (f x) ≤ pc i x + k i) :
    ∀ (cs : List T) (i : Nat × Nat), pcL i (modifyL p f cs) ≤ pcL i cs + cntL p cs * k i
  | [], i => by simp [modifyL]
  | x :: xs, i => by
      have := modify_add p f k hf x i; have := modifyL_add p f k hf xs i
      simp [modifyL, Nat.add_mul]; omega
end


theorem pcL_ite_le (i : Nat × Nat) (b : Bool) (x : T) : pcL i (if b then [] else [x]) ≤ pc i x := by
  cases b <;> simp

/-! ### clean-up steps never duplicate a node -/
mutual
theorem sup_le : ∀ (t : T) (i : Nat × Nat), pc i (sup t) ≤ pc i t
  | .node j x l s cs, i => by
      have h := supL_le cs i
      simp only [sup]
      split
      · rename_i c hc
        rw [hc] at h; simp at h ⊢; omega
      · simp; omega
theorem supL_le : ∀ (cs : List T) (i : Nat × Nat), pcL i (supL cs) ≤ pcL i cs
  | [], i => by simp [supL]
  | c :: cs, i => by
      have := sup_le c i; have := supL_le cs i
      simp [supL]; omega
end

theorem collapseBasal_le (t t' : T) (h : collapseBasal t = some t') (i : Nat × Nat) : pc i t' ≤ pc i t := by
  unfold collapseBasal at h
  split at h
  · rename_i a b hcs
    have ha := pc_eq i a; have hb := pc_eq i b
    rw [pc_eq i t, hcs]
    split at h
    · injection h with h; subst h
      simp; omega
    · split at h
      · injection h with h; subst h
        simp; omega
      · cases h
  · cases h

theorem collapseBasalSt_le (su : Bool) (s : St) (i : Nat × Nat) : pc i (collapseBasalSt su s).t ≤ pc i s.t := by
  unfold collapseBasalSt
  split
  · rename_i t' h; exact collapseBasal_le _ _ h i
  · exact Nat.le_refl _

theorem encodeStruct_le (a b : Bool) (s : St) (i : Nat × Nat) : pc i (encodeStruct a b s).t ≤ pc i s.t := by
  unfold encodeStruct
  have h1 := collapseBasalSt_le true s i
  split
  · split
    · exact Nat.le_trans (sup_le _ i) h1
    · exact h1
  · split
    · exact sup_le _ i
    · exact Nat.le_refl _

theorem finish_le (a b : Bool) (s : St) (i : Nat × Nat) : pc i (finish a b s).t ≤ pc i s.t := by
  unfold finish
  have h1 := sup_le s.t i
  split
  · split
    · exact Nat.le_trans (encodeStruct_le _ _ _ i) h1
    · exact h1
  · split
    · exact encodeStruct_le _ _ _ i
    · exact Nat.le_refl _

theorem polyStep_le (t t' : T) (h : polyStep t = some t') (i : Nat × Nat) : pc i t' ≤ pc i t := by
  unfold polyStep at h
  split at h
  · rename_i l hcs
    have hl := pc_eq i l
    split at h
    · injection h with h; subst h
      rw [pc_eq i t, hcs]; simp; omega
    · cases h
  · rename_i l r hcs
    have hl := pc_eq i l; have hr := pc_eq i r
    split at h
    · injection h with h; subst h
      rw [pc_eq i t, hcs]; simp; omega
    · split at h
      · injection h with h; subst h
        rw [pc_eq i t, hcs]; simp; omega
      · cases h
  · cases h

theorem polytomize_le : ∀ (f : Nat) (t : T) (i : Nat × Nat), pc i (polytomize f t) ≤ pc i t
  | 0, t, i => by simp [polytomize]
  | f + 1, t, i => by
      simp only [polytomize]
      split
      · rename_i t' h
        exact Nat.le_trans (polytomize_le f t' i) (polyStep_le _ _ h i)
      · exact Nat.le_refl _

mutual
theorem cu_le (thr : Frac) : ∀ (t : T) (i : Nat × Nat), pc i (cu thr t) ≤ pc i t
  | .node j x l s cs, i => by
      have := cuL_le thr cs i
      simp [cu]; omega
theorem cuL_le (thr : Frac) : ∀ (cs : List T) (i : Nat × Nat), pcL i (cuL thr cs) ≤ pcL i cs
  | [], i => by simp [cuL]
  | c :: cs, i => by
      have h1 := cu_le thr c i; have h2 := cuL_le thr cs i
      simp only [cuL]
      split
      · rw [pc_eq i (cu thr c)] at h1; simp; omega
      · simp; omega
end

mutual
theorem dropLeaves_le (keep : T → Bool) : ∀ (t : T) (i : Nat × Nat), pc i (dropLeaves keep t) ≤ pc i t
  | .node j x l s cs, i => by
      have := dropLeavesL_le keep cs i
      simp [dropLeaves]; omega
theorem dropLeavesL_le (keep : T → Bool) : ∀ (cs : List T) (i : Nat × Nat), pcL i (dropLeavesL keep cs) ≤ pcL i cs
  | [], i => by simp [dropLeavesL]
  | c :: cs, i => by
      have h1 := dropLeaves_le keep c i; have h2 := dropLeavesL_le keep cs i
      simp only [dropLeavesL]
      split
      · split <;> simp <;> omega
      · simp; omega
end

theorem dropLeavesFix_le (keep : T → Bool) : ∀ (f : Nat) (t : T) (i : Nat × Nat), pc i (dropLeavesFix keep f t) ≤ pc i t
  | 0, t, i => by simp [dropLeavesFix]
  | f + 1, t, i => by
      simp only [dropLeavesFix]
      split
      · exact Nat.le_refl _
      · exact Nat.le_trans (dropLeavesFix_le keep f _ i) (dropLeaves_le keep t i)

mutual
theorem pt_le (bad : Nat → Bool) : ∀ (t : T) (i : Nat × Nat), pc i (pt bad t) ≤ pc i t
  | .node j x l s cs, i => by
      have := ptL_le bad cs i
      simp [pt]; omega
theorem ptL_le (bad : Nat → Bool) : ∀ (cs : List T) (i : Nat × Nat), pcL i (ptL bad cs) ≤ pcL i cs
  | [], i => by simp [ptL]
  | c :: cs, i => by
      have h1 := pt_le bad c i; have h2 := ptL_le bad cs i
      simp only [ptL]
      generalize ptDrop bad c (pt bad c) = b
      have := pcL_ite_le i b (pt bad c)
      rw [pcL_append, pcL_cons]; omega
end

/-! ### re-seeding is a rearrangement -/
mutual
theorem reseedGo_cnt (target : Nat) (rl : Option Frac) :
    ∀ (t : T) (acc : List T) (r : T), reseedGo target rl acc t = some r → ∀ i, pc i r = pc i t + pcL i acc
  | .node j x l s cs, acc, r, h, i => by
      simp only [reseedGo] at h
      split at h
      · injection h with h; subst h; simp; omega
      · have := reseedGoL_cnt target rl j x s cs acc [] r h i
        simp at this ⊢; omega
theorem reseedGoL_cnt (target : Nat) (rl : Option Frac) (j : Nat) (x : Option Nat) (s : Option String) :
    ∀ (post acc pre : List T) (r : T), reseedGoL target rl j x s acc pre post = some r →
      ∀ i, pc i r = pcL i pre + pcL i post + pcL i acc + (if j = i.1 ∧ x = some i.2 then 1 else 0)
  | [], acc, pre, r, h, i => by simp [reseedGoL] at h
  | c :: post, acc, pre, r, h, i => by
      simp only [reseedGoL] at h
      split at h
      · rename_i r' hr
        injection h with h; subst h
        have := reseedGo_cnt target rl c _ _ hr i
        simp at this ⊢; omega
      · have := reseedGoL_cnt target rl j x s post acc (pre ++ [c]) r h i
        simp at this ⊢; omega
end

theorem reseedCore_le (target : Nat) (b : Bool) (t : T) (i : Nat × Nat) : pc i (reseedCore target b t) ≤ pc i t := by
  unfold reseedCore
  split
  · exact Nat.le_refl _
  · split
    · exact Nat.le_refl _
    · split
      · exact Nat.le_refl _
      · rename_i t1 h1
        have h := reseedGo_cnt target t.len t [] t1 h1 i
        simp at h
        split
        · split
          · rename_i c hc
            have hc' := pc_eq i c
            rw [pc_eq i t1, hc] at h; simp at h ⊢; omega
          · omega
        · omega

/-! ### sorting and rotating are permutations -/
theorem insertBy_cnt (le : T → T → Bool) (x : T) : ∀ (l : List T) (i : Nat × Nat), pcL i (insertBy le x l) = pc i x + pcL i l
  | [], i => by simp [insertBy]
  | y :: ys, i => by
      simp only [insertBy]
      split
      · simp
      · have := insertBy_cnt le x ys i; simp; omega

theorem sortBy_cnt (le : T → T → Bool) : ∀ (l : List T) (i : Nat × Nat), pcL i (sortBy le l) = pcL i l
  | [], i => by simp [sortBy]
  | y :: ys, i => by
      have := sortBy_cnt le ys i
      simp only [sortBy, List.foldr_cons] at this ⊢
      rw [insertBy_cnt]; simp; omega

mutual
theorem sortAll_cnt (le : T → T → Bool) : ∀ (t : T) (i : Nat × Nat), pc i (sortAll le t) = pc i t
  | .node j x l s cs, i => by
      have := sortAllL_cnt le cs i
      simp [sortAll, sortBy_cnt]; omega
theorem sortAllL_cnt (le : T → T → Bool) : ∀ (cs : List T) (i : Nat × Nat), pcL i (sortAllL le cs) = pcL i cs
  | [], i => by simp [sortAllL]
  | c :: cs, i => by
      have := sortAll_cnt le c i; have := sortAllL_cnt le cs i
      simp [sortAllL]; omega
end

theorem pcL_reverse (i : Nat × Nat) (l : List T) : pcL i l.reverse = pcL i l := by
  induction l with
  | nil => simp
  | cons x xs ih => simp [ih]; omega

theorem pcL_drop_take (i : Nat × Nat) (n : Nat) (l : List T) : pcL i (l.drop n ++ l.take n) = pcL i l := by
  have h : pcL i (l.take n ++ l.drop n) = pcL i l := by rw [List.take_append_drop]
  rw [pcL_append] at h ⊢; omega

mutual
theorem rotate_cnt (m : Nat) : ∀ (t : T) (i : Nat × Nat), pc i (rotate m t) = pc i t
  | .node j x l s cs, i => by
      have := rotateL_cnt m cs i
      simp only [rotate]
      split
      · simp [pcL_reverse]; omega
      · split
        · simp only [pc_node, pcL_drop_take]; omega
        · simp; omega
theorem rotateL_cnt (m : Nat) : ∀ (cs : List T) (i : Nat × Nat), pcL i (rotateL m cs) = pcL i cs
  | [], i => by simp [rotateL]
  | c :: cs, i => by
      have := rotate_cnt m c i; have := rotateL_cnt m cs i
      simp [rotateL]; omega
end


theorem pcL_insertAt (i : Nat × Nat) (idx : Nat) (x : T) (l : List T) : pcL i (insertAt idx x l) = pc i x + pcL i l := by
  have h : pcL i (l.take idx ++ l.drop idx) = pcL i l := by rw [List.take_append_drop]
  unfold insertAt
  rw [pcL_append] at h; rw [pcL_append, pcL_cons]; omega

theorem addChild_cnt (p : Nat) (sub t : T) (i : Nat × Nat) : pc i (addChild p sub t) ≤ pc i t + cnt p t * pc i sub := by
  unfold addChild
  apply modify_add p _ (fun i => pc i sub)
  intro x i
  rw [pc_withCs, pcL_append, pc_eq i x]; simp; omega

theorem insertChild_cnt (p idx : Nat) (sub t : T) (i : Nat × Nat) :
    pc i (insertChild p idx sub t) ≤ pc i t + cnt p t * pc i sub := by
  unfold insertChild
  apply modify_add p _ (fun i => pc i sub)
  intro x i
  rw [pc_withCs, pcL_insertAt, pc_eq i x]; omega


/-! ### detaching and re-attaching -/
mutual
theorem splice_remove (c : Nat) : ∀ (t sub : T), t.id ≠ c → T.find? c t = some sub →
    ∀ i, pc i (splice c (fun _ => []) t) + pc i sub ≤ pc i t
  | .node j x l s cs, sub, hne, hf, i => by
      simp only [T.id] at hne
      have hcj : (c == j) = false := by simp; omega
      simp only [T.find?, hcj] at hf
      have := spliceL_remove c cs sub hf i
      simp [splice]; omega
theorem spliceL_remove (c : Nat) : ∀ (cs : List T) (sub : T), T.findL? c cs = some sub →
    ∀ i, pcL i (spliceL c (fun _ => []) cs) + pc i sub ≤ pcL i cs
  | [], sub, hf, i => by simp [T.findL?] at hf
  | x :: xs, sub, hf, i => by
      simp only [T.findL?] at hf
      simp only [spliceL]
      by_cases hx : x.id = c
      · have hfx : T.find? c x = some x := by
          cases x with
          | node j a b d e => simp only [T.id] at hx; simp [T.find?, hx]
        rw [hfx] at hf; injection hf with hf; subst hf
        simp [hx]; omega
      · have hb : (x.id == c) = false := by simp [hx]
        simp only [hb]
        split at hf
        · rename_i r hr
          injection hf with hf; subst hf
          have := splice_remove c x r hx hr i
          have := spliceL_le c (fun _ => []) (by intro y k; simp) xs i
          simp; omega
        · have := spliceL_remove c xs sub hf i
          have := splice_le c (fun _ => []) (by intro y k; simp) x i
          simp; omega
end


theorem pcL_filter_le (p : T → Bool) : ∀ (l : List T) (i : Nat × Nat), pcL i (l.filter p) ≤ pcL i l
  | [], i => by simp
  | y :: ys, i => by
      have := pcL_filter_le p ys i
      simp only [List.filter_cons]
      split <;> simp <;> omega

theorem find_filter_cnt (og : Nat) : ∀ (l : List T) (sub : T), l.find? (fun x => x.id == og) = some sub →
    ∀ i, pc i sub + pcL i (l.filter (fun x => x.id != og)) ≤ pcL i l
  | [], sub, h, i => by simp at h
  | x :: xs, sub, h, i => by
      have hsub := pcL_filter_le (fun x => x.id != og) xs
      by_cases hx : x.id = og
      · simp [List.find?_cons, hx] at h; subst h
        have := hsub i
        simp [List.filter_cons, hx]; omega
      · have hb : (x.id == og) = false := by simp [hx]
        simp only [List.find?_cons, hb] at h
        have := find_filter_cnt og xs sub h i
        simp [List.filter_cons, hx]; omega


mutual
theorem find_le (c : Nat) : ∀ (t sub : T), T.find? c t = some sub → ∀ i, pc i sub ≤ pc i t
  | .node j x l s cs, sub, hf, i => by
      simp only [T.find?] at hf
      split at hf
      · injection hf with hf; subst hf; exact Nat.le_refl _
      · have := findL_le c cs sub hf i; simp; omega
theorem findL_le (c : Nat) : ∀ (cs : List T) (sub : T), T.findL? c cs = some sub → ∀ i, pc i sub ≤ pcL i cs
  | [], sub, hf, i => by simp [T.findL?] at hf
  | x :: xs, sub, hf, i => by
      simp only [T.findL?] at hf
      split at hf
      · rename_i r hr; injection hf with hf; subst hf
        have := find_le c x _ hr i; simp; omega
      · have := findL_le c xs sub hf i; simp; omega
end

mutual
theorem splice_exact (c : Nat) (f : T → List T) : ∀ (t sub : T), t.id ≠ c → T.find? c t = some sub → cnt c t ≤ 1 →
    ∀ i, pc i (splice c f t) + pc i sub = pc i t + pcL i (f sub)
  | .node j x l s cs, sub, hne, hf, h1, i => by
      simp only [T.id] at hne
      have hcj : (c == j) = false := by simp; omega
      simp only [T.find?, hcj] at hf
      have h1' : cntL c cs ≤ 1 := by simp [hne] at h1; exact h1
      have := spliceL_exact c f cs sub hf h1' i
      simp [splice]; omega
theorem spliceL_exact (c : Nat) (f : T → List T) : ∀ (cs : List T) (sub : T), T.findL? c cs = some sub → cntL c cs ≤ 1 →
    ∀ i, pcL i (spliceL c f cs) + pc i sub = pcL i cs + pcL i (f sub)
  | [], sub, hf, _, i => by simp [T.findL?] at hf
  | x :: xs, sub, hf, h1, i => by
      simp only [T.findL?] at hf
      simp only [spliceL]
      simp at h1
      by_cases hx : x.id = c
      · have hfx : T.find? c x = some x := by
          cases x with
          | node j a b d e => simp only [T.id] at hx; simp [T.find?, hx]
        rw [hfx] at hf; injection hf with hf; subst hf
        simp [hx]; omega
      · have hb : (x.id == c) = false := by simp [hx]
        simp only [hb]
        split at hf
        · rename_i r hr
          injection hf with hf; subst hf
          have hp := find_pos c x r hr
          have := splice_exact c f x r hx hr (by omega) i
          rw [spliceL_notin c f xs (by omega)]
          simp; omega
        · rename_i hnone
          have := spliceL_exact c f xs sub hf (by omega) i
          have hx0 : cnt c x = 0 := by
            -- `find?` fails on `x`, so `c` does not occur in it
            exact find_none_cnt c x hnone
          rw [splice_notin c f x hx0]
          simp; omega
end

/-! ### per-operation bounds -/
theorem removeChild_le (p c : Nat) (sp : Bool) (t t' : T) (hw : WF t) (h : removeChild p c sp t = .ok t') (i : Nat × Nat) :
    pc i t' ≤ pc i t := by
  have hle := splice_le c (fun _ => []) (by intro y k; simp) t
  unfold removeChild at h
  split at h
  · cases h
  · simp only at h
    split at h
    · injection h with h; subst h; exact hle i
    · split at h
      · rename_i hp
        split at h
        · rename_i child hfind
          injection h with h; subst h
          -- the node `p` of `t1` has exactly the child `child`
          cases hf : T.find? p (splice c (fun _ => []) t) with
          | none => simp [hf] at hfind
          | some n =>
            simp [hf] at hfind
            have hid : (splice c (fun _ => []) t).id ≠ p := by
              cases t with
              | node j a b d e => simp [splice, T.id] at hp ⊢; omega
            have h1 : cnt p (splice c (fun _ => []) t) ≤ 1 := Nat.le_trans (Aux.splice_le c (fun _ => []) (by intro y k; simp) t p) ((wf_iff t).mp hw p)
            have := splice_exact p (fun n => [child.withLen (tryAdd child.len n.len)]) _ n hid hf h1 i
            have hn := pc_eq i n
            rw [hfind] at hn
            simp at this hn; have := hle i; omega
        · injection h with h; subst h; exact hle i
      · split at h
        · rename_i a b hcs
          have h0 := pc_eq i (splice c (fun _ => []) t)
          rw [hcs] at h0
          have ha := pc_eq i a; have hb := pc_eq i b
          split at h
          · injection h with h; subst h; have := hle i; simp at h0 ⊢; omega
          · split at h
            · injection h with h; subst h; have := hle i; simp at h0 ⊢; omega
            · injection h with h; subst h; exact hle i
        · injection h with h; subst h; exact hle i

theorem pcL_map_eq (g : T → T) (hg : ∀ x i, pc i (g x) = pc i x) : ∀ (l : List T) (i : Nat × Nat), pcL i (l.map g) = pcL i l
  | [], i => by simp
  | x :: xs, i => by simp [hg x i, pcL_map_eq g hg xs i]

theorem edgeCollapse_le (c : Nat) (adj : Bool) (t t' : T) (h : edgeCollapse c adj t = .ok t') (i : Nat × Nat) :
    pc i t' ≤ pc i t := by
  unfold edgeCollapse at h
  split at h
  · injection h with h; subst h; exact Nat.le_refl _
  · split at h
    · injection h with h; subst h; exact Nat.le_refl _
    · split at h
      · cases h
      · injection h with h; subst h
        apply splice_le
        intro x k
        unfold collapseKids
        rw [pcL_map_eq]
        · rw [pc_eq k x]; omega
        · intro y k'
          split
          · simp
          · rfl

mutual
theorem leaves_le : ∀ (t : T) (i : Nat × Nat), pcL i t.leaves ≤ pc i t
  | .node j x l s [], i => by simp [T.leaves]
  | .node j x l s (c :: cs), i => by
      have := leavesL_le (c :: cs) i
      simp only [T.leaves, pc_node]; omega
theorem leavesL_le : ∀ (cs : List T) (i : Nat × Nat), pcL i (T.leavesL cs) ≤ pcL i cs
  | [], i => by simp [T.leavesL]
  | c :: cs, i => by
      have := leaves_le c i; have := leavesL_le cs i
      simp [T.leavesL]; omega
end

theorem leaves_le_cs (t : T) (h : t.cs.isEmpty = false) (i : Nat × Nat) : pcL i t.leaves ≤ pcL i t.cs := by
  cases t with
  | node j x l s cs =>
    cases cs with
    | nil => simp [T.cs] at h
    | cons c cs => simp only [T.leaves, T.cs]; exact leavesL_le _ i

theorem collapseClade_le (c : Nat) (t : T) (i : Nat × Nat) : pc i (collapseClade c t) ≤ pc i t := by
  unfold collapseClade
  apply modify_le
  intro x k
  split
  · exact Nat.le_refl _
  · rename_i h
    have := leaves_le_cs x (by simpa using h) k
    rw [pc_withCs, pc_eq k x]; omega

theorem insertMove_le (p idx c : Nat) (t : T) (i : Nat × Nat) : pc i (insertMove p idx c t) ≤ pc i t := by
  unfold insertMove
  apply modify_le
  intro x k
  split
  · rename_i cur sub _ hfind
    split
    · exact Nat.le_refl _
    · have := find_filter_cnt c x.cs sub hfind k
      rw [pc_withCs, pcL_insertAt, pc_eq k x]; omega
  · exact Nat.le_refl _

theorem reseedAt_le (target : Nat) (a b : Bool) (s : St) (i : Nat × Nat) : pc i (reseedAt target a b s).t ≤ pc i s.t := by
  unfold reseedAt
  exact Nat.le_trans (encodeStruct_le _ _ _ i) (reseedCore_le target b s.t i)

theorem rerootAtNode_le (target : Nat) (ub a b : Bool) (s : St) (i : Nat × Nat) :
    pc i (rerootAtNode target ub a b s).t ≤ pc i s.t := by
  unfold rerootAtNode
  have h1 := reseedAt_le target false a s i
  split
  · exact Nat.le_trans (encodeStruct_le _ _ _ i) h1
  · exact h1

theorem moveFront_le (og : Nat) (t : T) (i : Nat × Nat) : pc i (moveFront og t) ≤ pc i t := by
  unfold moveFront
  split
  · rename_i sub hfind
    have := find_filter_cnt og _ sub hfind i
    rw [pc_withCs, pc_eq i t]; simp; omega
  · exact Nat.le_refl _

theorem toOutgroup_le (og : Nat) (sp : Bool) (s : St) (i : Nat × Nat) : pc i (toOutgroup og sp s).t ≤ pc i s.t := by
  unfold toOutgroup
  split
  · exact Nat.le_refl _
  · rename_i p _
    have h2 : pc i (moveFront og (reseedCore p false s.t)) ≤ pc i s.t :=
      Nat.le_trans (moveFront_le og _ i) (reseedCore_le p false s.t i)
    simp only
    generalize moveFront og (reseedCore p false s.t) = t2 at h2 ⊢
    have h3 : ∀ s3 : St, pc i s3.t ≤ pc i t2 →
        pc i (if sp = true then { s3 with t := sup s3.t } else s3).t ≤ pc i s.t := by
      intro s3 h; split
      · exact Nat.le_trans (sup_le _ i) (by omega)
      · omega
    apply h3
    split
    · split
      · exact collapseBasalSt_le _ _ i
      · exact Nat.le_refl _
    · exact Nat.le_refl _

theorem loop_le (recursive : Bool) (keep : T → Bool) : ∀ (f : Nat) (t t' : T),
    filterLeaves.loop recursive keep f t = .ok t' → ∀ i, pc i t' ≤ pc i t
  | 0, t, t', h, i => by simp [filterLeaves.loop] at h; subst h; exact Nat.le_refl _
  | f + 1, t, t', h, i => by
      simp only [filterLeaves.loop] at h
      split at h
      · split at h
        · injection h with h; subst h; exact Nat.le_refl _
        · cases h
      · split at h
        · injection h with h; subst h; exact dropLeaves_le keep t i
        · exact Nat.le_trans (loop_le recursive keep f _ t' h i) (dropLeaves_le keep t i)

theorem pruneUp_le : ∀ (f c : Nat) (t : T) (i : Nat × Nat), pc i (pruneUp f c t) ≤ pc i t
  | 0, c, t, i => by
      simp only [pruneUp]; exact splice_le c (fun _ => []) (by intro y k; simp) t i
  | f + 1, c, t, i => by
      have h1 := splice_le c (fun _ => []) (by intro y k; simp) t i
      simp only [pruneUp]
      split
      · exact Nat.le_refl _
      · split
        · split
          · exact Nat.le_trans (pruneUp_le f _ _ i) h1
          · exact h1
        · exact h1

theorem pruneNoTaxa_le (r ub sp : Bool) (s : St) (i : Nat × Nat) : pc i (pruneNoTaxa r ub sp s).t ≤ pc i s.t := by
  unfold pruneNoTaxa
  apply Nat.le_trans (finish_le _ _ _ i)
  simp only
  split
  · exact dropLeavesFix_le _ _ _ i
  · exact dropLeaves_le _ _ i

/-! ### fresh nodes, resolve, regraft -/
mutual
theorem pc_le_cnt (i : Nat × Nat) : ∀ t : T, pc i t ≤ cnt i.1 t
  | .node j x l s cs => by
      have := pcL_le_cntL i cs
      simp only [pc_node, cnt_node]
      split <;> split <;> first | omega | (rename_i h1 h2; exact absurd h1.1 h2)
theorem pcL_le_cntL (i : Nat × Nat) : ∀ cs : List T, pcL i cs ≤ cntL i.1 cs
  | [] => by simp
  | c :: cs => by have := pc_le_cnt i c; have := pcL_le_cntL i cs; simp; omega
end

theorem pc_fresh (t : T) (i : Nat × Nat) (h : maxId t < i.1) : pc i t = 0 := by
  have := pc_le_cnt i t; have := cnt_fresh t i.1 h; omega

theorem pc_shift_lt (k : Nat) (t : T) (i : Nat × Nat) (h : i.1 < k) : pc i (shiftIds k t) = 0 := by
  have := pc_le_cnt i (shiftIds k t)
  rw [cnt_shift] at this
  have hk : ¬ k ≤ i.1 := by omega
  simp [hk] at this; exact this

theorem joinLoop_pc (limit : Nat) : ∀ (f : Nat) (cs : List T) (k : Nat) (i : Nat × Nat),
    pcL i (joinLoop limit f cs k).1 ≤ pcL i cs
  | 0, cs, k, i => by simp [joinLoop]
  | f + 1, cs, k, i => by
      simp only [joinLoop]
      split
      · split
        · rename_i c1 c2 rest _
          have := joinLoop_pc limit f (rest ++ [.node k none (some Frac.zero) none [c1, c2]]) (k + 1) i
          simp at this ⊢; omega
        · exact Nat.le_refl _
      · exact Nat.le_refl _

mutual
theorem rp_pc (limit : Nat) : ∀ (t : T) (k : Nat) (i : Nat × Nat), pc i (rp limit t k).1 ≤ pc i t
  | .node j x l s cs, k, i => by
      have h1 := rpL_pc limit cs k i
      have h2 := joinLoop_pc limit (rpL limit cs k).1.length (rpL limit cs k).1 (rpL limit cs k).2 i
      simp only [rp, pc_node]; omega
theorem rpL_pc (limit : Nat) : ∀ (cs : List T) (k : Nat) (i : Nat × Nat), pcL i (rpL limit cs k).1 ≤ pcL i cs
  | [], k, i => by simp [rpL]
  | c :: cs, k, i => by
      have := rp_pc limit c k i; have := rpL_pc limit cs (rp limit c k).2 i
      simp [rpL]; omega
end

/-- remove the subtree at `c`, hang `w` under `q`: no (id, taxon) pair appears that was not there, except what `w` adds
beyond `sub` -/
theorem regraft_pc {t sub w : T} {c q : Nat} (h : WF t) (hne : t.id ≠ c) (hf : T.find? c t = some sub)
    (i : Nat × Nat) (hw : pc i w ≤ pc i sub) : pc i (addChild q w (splice c (fun _ => []) t)) ≤ pc i t := by
  have hrm := splice_remove c t sub hne hf i
  have hle := Aux.splice_le c (fun _ => []) (by intro y k; simp) t q
  have h1 := addChild_cnt q w (splice c (fun _ => []) t) i
  have hq : cnt q (splice c (fun _ => []) t) ≤ 1 := Nat.le_trans hle ((wf_iff t).mp h q)
  have h4 : cnt q (splice c (fun _ => []) t) * pc i w ≤ 1 * pc i w := Nat.mul_le_mul_right _ hq
  omega

/-! ### when no internal node carries a taxon, the taxon-bearing nodes are exactly the taxon-bearing leaves -/
mutual
/-- no node that has children carries a taxon -/
def InnerUntaxed : T → Prop
  | .node _ x _ _ cs => (cs ≠ [] → x = none) ∧ InnerUntaxedL cs
def InnerUntaxedL : List T → Prop
  | [] => True
  | c :: cs => InnerUntaxed c ∧ InnerUntaxedL cs
end

open Leaves in
mutual
theorem lc_le_pc (i : Nat × Nat) : ∀ t : T, lc i t ≤ pc i t
  | .node j x l s [] => by
      by_cases h : 1 ≤ lc i (.node j x l s [])
      · obtain ⟨hx, hj⟩ := lc_leaf_pos i j x l s h
        subst hx; subst hj
        have hle : lc i (.node i.1 (some i.2) l s []) ≤ 1 := by
          have h1 : (lpairs (.node i.1 (some i.2) l s [])).length ≤ 1 := by
            simp only [lpairs, T.leaves]
            exact Nat.le_trans (List.length_filterMap_le _ _) (by simp)
          exact Nat.le_trans List.count_le_length h1
        simp; omega
      · simp; omega
  | .node j x l s (c :: cs) => by
      have := lcL_le_pcL i (c :: cs)
      rw [lc_node_cons, ← lcL_cons, pc_node]; omega
theorem lcL_le_pcL (i : Nat × Nat) : ∀ cs : List T, lcL i cs ≤ pcL i cs
  | [] => by simp
  | c :: cs => by have := lc_le_pc i c; have := lcL_le_pcL i cs; simp; omega
end

open Leaves in
mutual
theorem pc_le_lc (i : Nat × Nat) : ∀ t : T, InnerUntaxed t → pc i t ≤ lc i t
  | .node j x l s [], _ => by
      simp only [pc_node, pcL_nil, Nat.zero_add]
      split
      · rename_i h
        simp [lc, lpairs, T.leaves, pairOf, T.taxon, T.id, h.1, h.2, List.filterMap_cons]
      · exact Nat.zero_le _
  | .node j x l s (c :: cs), h => by
      simp only [InnerUntaxed] at h
      have hx := h.1 (by simp)
      have := pcL_le_lcL i (c :: cs) h.2
      rw [lc_node_cons, ← lcL_cons, pc_node]; simp [hx]; simpa using this
theorem pcL_le_lcL (i : Nat × Nat) : ∀ cs : List T, InnerUntaxedL cs → pcL i cs ≤ lcL i cs
  | [], _ => by simp
  | c :: cs, h => by
      simp only [InnerUntaxedL] at h
      have := pc_le_lc i c h.1; have := pcL_le_lcL i cs h.2; simp; omega
end


end DendroModel.C03.AuxP


namespace DendroModel.C03.AuxR
open DendroModel DendroModel.C03 DendroModel.C03.Aux DendroModel.C03.HeapAux

theorem idsL_append : ∀ a b : List T, idsL (a ++ b) = idsL a ++ idsL b
  | [], b => by simp [idsL]
  | x :: xs, b => by simp [idsL, idsL_append xs b]

theorem reprL_split (h : Heap) (q : Option Nat) : ∀ a b : List T, ReprL h q (a ++ b) → ReprL h q a ∧ ReprL h q b
  | [], b, hr => ⟨by simp [ReprL], hr⟩
  | x :: xs, b, hr => by
      simp only [List.cons_append, ReprL] at hr
      have := reprL_split h q xs b hr.2
      simp only [ReprL]
      exact ⟨⟨hr.1, this.1⟩, this.2⟩

theorem map_id_mem_idsL : ∀ (cs : List T) (j : Nat), j ∈ cs.map T.id → j ∈ idsL cs := map_id_sub_idsL

/-- the heap after `Edge.invert` on the edge from the parentless node `i` down to its child `j` -/
def rotHeap (h : Heap) (i j : Nat) : Heap :=
  { par := fun y => if y = i then some j else if y = j then none else h.par y
    ch := fun y => if y = j then h.ch j ++ [i] else if y = i then (h.ch i).erase j else h.ch y }

theorem edgeInvert_root (h : Heap) (i j : Nat) (hij : i ≠ j) (hpj : h.par j = some i) (hpi : h.par i = none)
    (hmem : j ∈ h.ch i) (hni : i ∉ h.ch j) : Heap.edgeInvert h j = some (rotHeap h i j) := by
  have hc : (h.ch i).contains j = true := by simpa using hmem
  simp only [Heap.edgeInvert, hpj, hpi, Heap.removeChild, hc, if_true]
  have hji : j ≠ i := fun e => hij e.symm
  congr 1
  simp only [Heap.addChild, Heap.setPar, Heap.setCh, rotHeap]
  have hc2 : (if j = i then (h.ch i).erase j else h.ch j) = h.ch j := by simp [hji]
  simp only [hji, if_false, if_true]
  have : (h.ch j).contains i = false := by simpa using hni
  simp only [this]
  congr 1


theorem erase_mid (a b : List Nat) (j : Nat) (h : j ∉ a) : (a ++ j :: b).erase j = a ++ b := by
  rw [List.erase_append_right _ h]; simp

/-- one `Edge.invert` at the root: the child `c` becomes the root and the old root, minus `c`, its last child -/
theorem rot (h : Heap) (i : Nat) (x : Option Nat) (l : Option Frac) (s : Option String) (pre post : List T) (c : T)
    (hr : Repr h none (.node i x l s (pre ++ c :: post)))
    (hnd : (ids (.node i x l s (pre ++ c :: post))).Nodup) (l1 l2 : Option Frac) :
    Heap.edgeInvert h c.id = some (rotHeap h i c.id) ∧
    Repr (rotHeap h i c.id) none (.node c.id c.taxon l1 c.label (c.cs ++ [.node i x l2 s (pre ++ post)])) := by
  cases c with
  | node j xj lj sj ds =>
  simp only [T.id, T.taxon, T.label, T.cs]
  simp only [Repr] at hr
  obtain ⟨hpi, hchi, hrl⟩ := hr
  have hsp := reprL_split h (some i) pre (.node j xj lj sj ds :: post) hrl
  have hrc : Repr h (some i) (.node j xj lj sj ds) := by have := hsp.2; simp only [ReprL] at this; exact this.1
  have hrpost : ReprL h (some i) post := by have := hsp.2; simp only [ReprL] at this; exact this.2
  simp only [Repr] at hrc
  obtain ⟨hpj, hchj, hrds⟩ := hrc
  -- distinctness facts
  simp only [ids, idsL_append, idsL] at hnd
  have hnd2 := (List.nodup_cons.mp hnd).2
  have hi_all := (List.nodup_cons.mp hnd).1
  have hi_pre : i ∉ idsL pre := fun hm => hi_all (by simp [hm])
  have hi_j : i ≠ j := fun e => hi_all (by simp [e])
  have hi_ds : i ∉ idsL ds := fun hm => hi_all (by simp [hm])
  have hi_post : i ∉ idsL post := fun hm => hi_all (by simp [hm])
  have hnd_pre := (List.nodup_append.mp hnd2).1
  have hnd_rest := (List.nodup_append.mp hnd2).2.1
  have hdis1 : ∀ a ∈ idsL pre, ∀ b ∈ (j :: idsL ds) ++ idsL post, a ≠ b := (List.nodup_append.mp hnd2).2.2
  have hnd_c := (List.nodup_append.mp hnd_rest).1
  have hdis2 : ∀ a ∈ j :: idsL ds, ∀ b ∈ idsL post, a ≠ b := (List.nodup_append.mp hnd_rest).2.2
  have hj_ds : j ∉ idsL ds := (List.nodup_cons.mp hnd_c).1
  have hij : i ≠ j := hi_j
  have hj_pre : j ∉ idsL pre := fun hm => hdis1 j hm j (by simp) rfl
  have hj_post : j ∉ idsL post := fun hm => hdis2 j (by simp) j hm rfl
  have hmem : j ∈ h.ch i := by rw [hchi]; simp [T.id]
  have hni : i ∉ h.ch j := by
    rw [hchj]; intro hm; exact hi_ds (map_id_mem_idsL ds i hm)
  refine ⟨edgeInvert_root h i j hij hpj hpi hmem hni, ?_⟩
  have hji : j ≠ i := fun e => hij e.symm
  simp only [Repr]
  refine ⟨by simp [rotHeap, hji], ?_, ?_⟩
  · simp [rotHeap, hchj, T.id]
  · apply reprL_append
    · apply agreeL h _ (some j) ds _ hrds
      intro y hy
      have hyi : y ≠ i := fun e => hi_ds (e ▸ hy)
      have hyj : y ≠ j := fun e => hj_ds (e ▸ hy)
      simp [rotHeap, hyi, hyj]
    · simp only [ReprL, Repr, and_true]
      refine ⟨by simp [rotHeap], ?_, ?_⟩
      · have hjp : j ∉ pre.map T.id := fun hm => hj_pre (map_id_mem_idsL pre j hm)
        simp only [rotHeap, hij, if_false, if_true, hchi, List.map_append, List.map_cons, T.id]
        exact erase_mid _ _ j hjp
      · apply reprL_append
        · apply agreeL h _ (some i) pre _ hsp.1
          intro y hy
          have hyi : y ≠ i := fun e => hi_pre (e ▸ hy)
          have hyj : y ≠ j := fun e => hj_pre (e ▸ hy)
          simp [rotHeap, hyi, hyj]
        · apply agreeL h _ (some i) post _ hrpost
          intro y hy
          have hyi : y ≠ i := fun e => hi_post (e ▸ hy)
          have hyj : y ≠ j := fun e => hj_post (e ▸ hy)
          simp [rotHeap, hyi, hyj]


/-! ### the path from the seed down to the target, and the chain of inversions along it -/
mutual
/-- ids of the nodes strictly below the root of `t` on the way to `target` (topmost first); `none` if `target` is not in `t` -/
def pathTo (target : Nat) : T → Option (List Nat)
  | .node i _ _ _ cs => if i == target then some [] else pathToL target cs
def pathToL (target : Nat) : List T → Option (List Nat)
  | [] => none
  | c :: cs => match pathTo target c with
    | some π => some (c.id :: π)
    | none => pathToL target cs
end

/-- `Edge.invert` along a list of edge heads, as `reseed_at` does it -/
def chain (h : Heap) (π : List Nat) : Option Heap :=
  π.foldl (fun hh e => hh.bind fun x => x.edgeInvert e) (some h)

theorem chain_cons (h h1 : Heap) (e : Nat) (π : List Nat) (he : Heap.edgeInvert h e = some h1) :
    chain h (e :: π) = chain h1 π := by
  simp [chain, he]

mutual
theorem go_isSome (target : Nat) (rl : Option Frac) : ∀ (t : T) (acc : List T),
    (reseedGo target rl acc t).isSome = (pathTo target t).isSome
  | .node i x l s cs, acc => by
      simp only [reseedGo, pathTo]
      split
      · rfl
      · exact goL_isSome target rl i x s cs acc []
theorem goL_isSome (target : Nat) (rl : Option Frac) (i : Nat) (x : Option Nat) (s : Option String) :
    ∀ (post acc pre : List T), (reseedGoL target rl i x s acc pre post).isSome = (pathToL target post).isSome
  | [], acc, pre => by simp [reseedGoL, pathToL]
  | c :: post, acc, pre => by
      have h1 := go_isSome target rl c [.node i x c.len s (pre ++ post ++ acc)]
      simp only [reseedGoL, pathToL]
      cases hg : reseedGo target rl [.node i x c.len s (pre ++ post ++ acc)] c with
      | some r =>
        rw [hg] at h1
        cases hp : pathTo target c with
        | some π => simp
        | none => rw [hp] at h1; simp at h1
      | none =>
        rw [hg] at h1
        cases hp : pathTo target c with
        | some π => rw [hp] at h1; simp at h1
        | none => simp only; exact goL_isSome target rl i x s post acc (pre ++ [c])
end

theorem rot_nodup (i : Nat) (x l s) (pre post : List T) (c : T) (l1 l2)
    (h : (ids (.node i x l s (pre ++ c :: post))).Nodup) :
    (ids (.node c.id c.taxon l1 c.label (c.cs ++ [.node i x l2 s (pre ++ post)]))).Nodup := by
  have h' : WF (.node i x l s (pre ++ c :: post)) := h
  show WF _
  rw [wf_iff] at h' ⊢
  intro a
  have := h' a
  have hc := cnt_eq a c
  simp at this ⊢; omega

mutual
theorem chainB (target : Nat) (rl : Option Frac) : ∀ (t : T) (acc : List T) (h : Heap) (π : List Nat) (r : T),
    Repr h none (t.withCs (t.cs ++ acc)) → (ids (t.withCs (t.cs ++ acc))).Nodup → pathTo target t = some π →
    reseedGo target rl acc t = some r → ∃ h', chain h π = some h' ∧ Repr h' none r
  | .node i x l s cs, acc, h, π, r, hr, hnd, hp, hg => by
      simp only [T.withCs, T.cs] at hr hnd
      simp only [pathTo] at hp
      simp only [reseedGo] at hg
      split at hg
      · rename_i e
        simp only [e, if_true] at hp
        injection hp with hp; subst hp
        injection hg with hg; subst hg
        exact ⟨h, rfl, by simp only [Repr] at hr ⊢; exact hr⟩
      · rename_i e
        simp only [e] at hp
        exact chainBL target rl i x l s cs acc [] h π r (by simpa using hr) (by simpa using hnd) hp hg
theorem chainBL (target : Nat) (rl : Option Frac) (i : Nat) (x : Option Nat) (l : Option Frac) (s : Option String) :
    ∀ (post acc pre : List T) (h : Heap) (π : List Nat) (r : T),
    Repr h none (.node i x l s (pre ++ post ++ acc)) → (ids (.node i x l s (pre ++ post ++ acc))).Nodup →
    pathToL target post = some π → reseedGoL target rl i x s acc pre post = some r →
    ∃ h', chain h π = some h' ∧ Repr h' none r
  | [], acc, pre, h, π, r, _, _, hp, _ => by simp [pathToL] at hp
  | c :: post, acc, pre, h, π, r, hr, hnd, hp, hg => by
      have his := go_isSome target rl c [.node i x c.len s (pre ++ post ++ acc)]
      simp only [pathToL] at hp
      simp only [reseedGoL] at hg
      have hassoc : pre ++ (c :: post) ++ acc = pre ++ c :: (post ++ acc) := by simp
      cases hgo : reseedGo target rl [.node i x c.len s (pre ++ post ++ acc)] c with
      | some r' =>
        rw [hgo] at hg his
        injection hg with hg; subst hg
        cases hpc : pathTo target c with
        | none => rw [hpc] at his; simp at his
        | some π' =>
          rw [hpc] at hp
          injection hp with hp; subst hp
          rw [hassoc] at hr hnd
          have hrot := rot h i x l s pre (post ++ acc) c hr hnd c.len c.len
          have hnd' := rot_nodup i x l s pre (post ++ acc) c c.len c.len hnd
          have hr1 : Repr (rotHeap h i c.id) none (c.withCs (c.cs ++ [.node i x c.len s (pre ++ post ++ acc)])) := by
            have := hrot.2
            cases c with
            | node j a b d e =>
              simp only [T.withCs, T.cs, T.id, T.taxon, T.label, T.len] at this ⊢
              rw [List.append_assoc]; simp only [Repr] at this ⊢; exact this
          have hnd1 : (ids (c.withCs (c.cs ++ [.node i x c.len s (pre ++ post ++ acc)]))).Nodup := by
            cases c with
            | node j a b d e =>
              simp only [T.withCs, T.cs, T.id, T.taxon, T.label, T.len] at hnd' ⊢
              rw [List.append_assoc]; exact hnd'
          obtain ⟨h', hc, hrep⟩ := chainB target rl c _ _ π' _ hr1 hnd1 hpc hgo
          exact ⟨h', by rw [chain_cons h _ c.id π' hrot.1]; exact hc, hrep⟩
      | none =>
        rw [hgo] at hg his
        cases hpc : pathTo target c with
        | some π' => rw [hpc] at his; simp at his
        | none =>
          rw [hpc] at hp
          simp only at hp hg
          have hassoc2 : pre ++ [c] ++ post ++ acc = pre ++ (c :: post) ++ acc := by simp
          exact chainBL target rl i x l s post acc (pre ++ [c]) h π r (by rw [hassoc2]; exact hr)
            (by rw [hassoc2]; exact hnd) hp hg
end


/-! ### the list of edges `reseed_at` collects by walking up the parent pointers is that path -/
theorem path_step (h : Heap) (k cur p : Nat) (acc : List Nat) (hp : h.par cur = some p) :
    Heap.reseedChain.path h (k + 1) cur acc = Heap.reseedChain.path h k p (cur :: acc) := by
  simp [Heap.reseedChain.path, hp]

theorem path_top (h : Heap) (k cur : Nat) (acc : List Nat) (hp : h.par cur = none) :
    Heap.reseedChain.path h k cur acc = acc := by
  cases k <;> simp [Heap.reseedChain.path, hp]

mutual
theorem path_up (h : Heap) (target : Nat) : ∀ (t : T) (q : Option Nat) (π : List Nat), Repr h q t →
    pathTo target t = some π → ∀ (k : Nat) (acc : List Nat),
      Heap.reseedChain.path h (k + π.length) target acc = Heap.reseedChain.path h k t.id (π ++ acc)
  | .node i x l s cs, q, π, hr, hp, k, acc => by
      simp only [pathTo] at hp
      simp only [Repr] at hr
      split at hp
      · rename_i e
        injection hp with hp; subst hp
        have : i = target := beq_iff_eq.mp e
        simp [T.id, this]
      · exact pathL_up h target i cs π hr.2.2 hp k acc
theorem pathL_up (h : Heap) (target : Nat) (i : Nat) : ∀ (cs : List T) (π : List Nat), ReprL h (some i) cs →
    pathToL target cs = some π → ∀ (k : Nat) (acc : List Nat),
      Heap.reseedChain.path h (k + π.length) target acc = Heap.reseedChain.path h k i (π ++ acc)
  | [], π, _, hp, _, _ => by simp [pathToL] at hp
  | c :: cs, π, hr, hp, k, acc => by
      simp only [ReprL] at hr
      simp only [pathToL] at hp
      split at hp
      · rename_i π' hpc
        injection hp with hp; subst hp
        have h1 := path_up h target c (some i) π' hr.1 hpc (k + 1) acc
        have hpar : h.par c.id = some i := by
          cases c with
          | node j a b d e => have := hr.1; simp only [Repr] at this; exact this.1
        rw [path_step h k c.id i _ hpar] at h1
        simp only [List.length_cons, List.cons_append]
        rw [← h1]; congr 1; omega
      · exact pathL_up h target i cs π hr.2 hp k acc
end

mutual
theorem pathTo_len (target : Nat) : ∀ (t : T) (π : List Nat), pathTo target t = some π → π.length < t.size
  | .node i x l s cs, π, hp => by
      simp only [pathTo] at hp
      split at hp
      · injection hp with hp; subst hp; simp [T.size]; omega
      · have := pathToL_len target cs π hp; simp [T.size]; omega
theorem pathToL_len (target : Nat) : ∀ (cs : List T) (π : List Nat), pathToL target cs = some π → π.length ≤ T.sizeL cs
  | [], π, hp => by simp [pathToL] at hp
  | c :: cs, π, hp => by
      simp only [pathToL] at hp
      split at hp
      · rename_i π' hpc
        injection hp with hp; subst hp
        have := pathTo_len target c π' hpc; simp [T.sizeL]; omega
      · have := pathToL_len target cs π hp; simp [T.sizeL]; omega
end

mutual
theorem pathTo_none_cnt (target : Nat) : ∀ t : T, pathTo target t = none → cnt target t = 0
  | .node i x l s cs, hp => by
      simp only [pathTo] at hp
      split at hp
      · cases hp
      · rename_i e
        have : ¬ i = target := by simpa using e
        simp [this, pathToL_none_cnt target cs hp]
theorem pathToL_none_cnt (target : Nat) : ∀ cs : List T, pathToL target cs = none → cntL target cs = 0
  | [], _ => by simp
  | c :: cs, hp => by
      simp only [pathToL] at hp
      split at hp
      · cases hp
      · rename_i hpc; simp [pathTo_none_cnt target c hpc, pathToL_none_cnt target cs hp]
end

mutual
theorem reseedGo_id (target : Nat) (rl : Option Frac) : ∀ (t : T) (acc : List T) (r : T),
    reseedGo target rl acc t = some r → r.id = target
  | .node i x l s cs, acc, r, h => by
      simp only [reseedGo] at h
      split at h
      · rename_i e; injection h with h; subst h; exact beq_iff_eq.mp e
      · exact reseedGoL_id target rl i x s cs acc [] r h
theorem reseedGoL_id (target : Nat) (rl : Option Frac) (i : Nat) (x : Option Nat) (s : Option String) :
    ∀ (post acc pre : List T) (r : T), reseedGoL target rl i x s acc pre post = some r → r.id = target
  | [], acc, pre, r, h => by simp [reseedGoL] at h
  | c :: post, acc, pre, r, h => by
      simp only [reseedGoL] at h
      split at h
      · rename_i r' hr; injection h with h; subst h; exact reseedGo_id target rl c _ _ hr
      · exact reseedGoL_id target rl i x s post acc (pre ++ [c]) r h
end

end DendroModel.C03.AuxR


namespace DendroModel.C03.Aux
open DendroModel DendroModel.C03

mutual
theorem dropLeaves_eq_of_size (keep : T → Bool) : ∀ t : T, (dropLeaves keep t).size = t.size → dropLeaves keep t = t
  | .node i x l s cs, h => by
      simp only [dropLeaves, T.size] at h
      simp only [dropLeaves]
      rw [dropLeavesL_eq_of_size keep cs (by omega)]
theorem dropLeavesL_eq_of_size (keep : T → Bool) : ∀ cs : List T, T.sizeL (dropLeavesL keep cs) = T.sizeL cs →
    dropLeavesL keep cs = cs
  | [], _ => by simp [dropLeavesL]
  | c :: cs, h => by
      have h1 := dropLeaves_size keep c; have h2 := dropLeavesL_size keep cs
      have hp := size_pos c
      simp only [dropLeavesL] at h ⊢
      split at h
      · split at h
        · simp [sizeL_append, T.sizeL] at h
          rename_i hc hk
          have hc' : c.cs = [] := by simpa using hc
          simp [hk, hc', dropLeavesL_eq_of_size keep cs (by omega)]
        · simp [sizeL_append, T.sizeL] at h; omega
      · rename_i hne
        simp [sizeL_append, T.sizeL] at h
        simp [hne, dropLeaves_eq_of_size keep c (by omega), dropLeavesL_eq_of_size keep cs (by omega)]
end

theorem loop_fix (keep : T → Bool) : ∀ (f : Nat) (t r : T), t.size ≤ f → filterLeaves.loop true keep f t = .ok r →
    dropLeaves keep r = r
  | 0, t, r, h, _ => by have := size_pos t; omega
  | f + 1, t, r, h, hl => by
      simp only [filterLeaves.loop] at hl
      split at hl
      · rename_i hleaf
        split at hl
        · injection hl with hl; subst hl
          cases t with
          | node i x l s cs =>
            have : cs = [] := by simpa [T.cs] using hleaf
            subst this; simp [dropLeaves, dropLeavesL]
        · cases hl
      · split at hl
        · rename_i hc
          injection hl with hl; subst hl
          have hs : (dropLeaves keep t).size = t.size := by simpa using hc
          rw [dropLeaves_eq_of_size keep t hs]; exact dropLeaves_eq_of_size keep t hs
        · rename_i hc
          have hle := dropLeaves_size keep t
          have hne : (dropLeaves keep t).size ≠ t.size := by intro e; apply hc; simp [e]
          exact loop_fix keep f _ r (by omega) hl

/-! `pruneUp`: more fuel than the size of the tree changes nothing -/
mutual
theorem splice_size_le (c : Nat) : ∀ t : T, (splice c (fun _ => []) t).size ≤ t.size
  | .node i x l s cs => by have := spliceL_size_le c cs; simp [splice, T.size]; omega
theorem spliceL_size_le (c : Nat) : ∀ cs : List T, T.sizeL (spliceL c (fun _ => []) cs) ≤ T.sizeL cs
  | [] => by simp [spliceL]
  | x :: xs => by
      have := splice_size_le c x; have := spliceL_size_le c xs
      simp only [spliceL]
      split <;> simp [T.sizeL] <;> omega
end

theorem any_spliceL_size (c : Nat) : ∀ cs : List T, cs.any (fun x => x.id == c) = true →
    T.sizeL (spliceL c (fun _ => []) cs) < T.sizeL cs
  | [], h => by simp at h
  | x :: xs, h => by
      have hp := size_pos x
      simp only [spliceL]
      split
      · simp [T.sizeL]; omega
      · rename_i hx
        have hx' : (x.id == c) = false := by simpa using hx
        simp only [List.any_cons, hx', Bool.false_or] at h
        have := any_spliceL_size c xs h
        have hle := splice_size_le c x
        simp [T.sizeL]; omega

mutual
theorem splice_size_lt (c : Nat) : ∀ (t : T) (q : Nat), parentOf c t = some q → (splice c (fun _ => []) t).size < t.size
  | .node i x l s cs, q, h => by
      simp only [parentOf] at h
      simp only [splice, T.size]
      split at h
      · rename_i hany; have := any_spliceL_size c cs hany; omega
      · have := spliceL_size_lt c cs q h; omega
theorem spliceL_size_lt (c : Nat) : ∀ (cs : List T) (q : Nat), parentOfL c cs = some q →
    T.sizeL (spliceL c (fun _ => []) cs) < T.sizeL cs
  | [], q, h => by simp [parentOfL] at h
  | x :: xs, q, h => by
      have hp := size_pos x
      simp only [parentOfL] at h
      simp only [spliceL]
      split
      · simp [T.sizeL]; omega
      · split at h
        · rename_i r hr
          have := splice_size_lt c x r hr; have := spliceL_size_le c xs
          simp [T.sizeL]; omega
        · have := spliceL_size_lt c xs q h; have := splice_size_le c x
          simp [T.sizeL]; omega
end

theorem pruneUp_fuel : ∀ (f g c : Nat) (t : T), t.size ≤ f → t.size ≤ g → pruneUp f c t = pruneUp g c t
  | 0, g, c, t, h, _ => by have := size_pos t; omega
  | f + 1, 0, c, t, _, h => by have := size_pos t; omega
  | f + 1, g + 1, c, t, hf, hg => by
      simp only [pruneUp]
      split
      · rfl
      · rename_i q hq
        have hlt := splice_size_lt c t q hq
        split
        · split
          · exact pruneUp_fuel f g q _ (by omega) (by omega)
          · rfl
        · rfl

end DendroModel.C03.Aux


namespace DendroModel.C03.Aux
open DendroModel DendroModel.C03 DendroModel.C03.Leaves

/-! ### resolve_polytomies under a scripted rng (`Op.resolveRng`)

`pickAt` / `sampleS` only split a list; `attachStep` is a wrap at the polytomy node or a regraft inside it, for which
"ids are unique" is needed (`addChild` acts on every node of that name), so the loop and the recursion carry the
invariant: the current node and the children still to attach share no id, and the ids from `k` on are unused. -/

theorem pickAt_split : ∀ (j : Nat) (pool : List T) (x : T) (rest : List T), pickAt j pool = some (x, rest) →
    ∃ a b, pool = a ++ x :: b ∧ rest = a ++ b
  | _, [], x, rest, h => by simp [pickAt] at h
  | 0, y :: ys, x, rest, h => by
      simp only [pickAt, Option.some.injEq, Prod.mk.injEq] at h
      exact ⟨[], ys, by simp [h.1], by simp [h.2]⟩
  | j + 1, y :: ys, x, rest, h => by
      simp only [pickAt] at h
      split at h
      · rename_i r hr
        simp only [Option.some.injEq, Prod.mk.injEq] at h
        obtain ⟨a, b, h1, h2⟩ := pickAt_split j ys r.1 r.2 hr
        exact ⟨y :: a, b, by rw [h1, ← h.1]; rfl, by rw [← h.2, h2]; rfl⟩
      · cases h

/-- for every additive measure of child lists (`cntL i`, `lcL p`, `pcL p`): the drawn children together with the
remaining ones are the children -/
theorem sampleS_add (μ : List T → Nat) (hμ : ∀ a b, μ (a ++ b) = μ a + μ b) : ∀ (m : Nat) (pool : List T) (sc : List Nat),
    μ (sampleS m pool sc).1 + μ (sampleS m pool sc).2.1 = μ pool := by
  have h0 : μ [] = 0 := by have := hμ [] []; simp at this; omega
  intro m
  induction m with
  | zero => intro pool sc; simp [sampleS, h0]
  | succ m ih =>
    intro pool sc
    simp only [sampleS]
    split
    · simp [h0]
    · rename_i x rest hp
      obtain ⟨a, b, h1, h2⟩ := pickAt_split _ _ _ _ hp
      have := ih rest sc.tail
      have e1 := hμ [x] (sampleS m rest sc.tail).1
      have e2 := hμ a (x :: b); have e3 := hμ [x] b; have e4 := hμ a b
      simp only [List.singleton_append] at e1 e3
      subst h1 h2
      simp only; omega

/-- `sample(pool, m)` takes at most `m` elements out of the pool -/
theorem sampleS_length : ∀ (m : Nat) (pool : List T) (sc : List Nat),
    pool.length ≤ (sampleS m pool sc).2.1.length + m
  | 0, pool, sc => by simp [sampleS]
  | m + 1, pool, sc => by
      simp only [sampleS]
      split
      · simp only; omega
      · rename_i x rest hp
        obtain ⟨a, b, h1, h2⟩ := pickAt_split _ _ _ _ hp
        have := sampleS_length m rest sc.tail
        subst h1 h2
        simp only [List.length_append, List.length_cons] at this ⊢; omega

theorem add_reverse (μ : List T → Nat) (hμ : ∀ a b, μ (a ++ b) = μ a + μ b) : ∀ l : List T, μ l.reverse = μ l
  | [] => rfl
  | x :: xs => by
      have := add_reverse μ hμ xs
      have e1 := hμ xs.reverse [x]; have e2 := hμ [x] xs
      simp only [List.singleton_append] at e2
      rw [List.reverse_cons]; omega

theorem addChild_cs_ne (q : Nat) (w t : T) (h : 1 ≤ cnt q t) : (addChild q w t).cs ≠ [] := by
  cases t with
  | node j x l s cs =>
    simp only [addChild, modify]
    split
    · simp [T.withCs, T.cs]
    · rename_i e
      have hj : ¬ j = q := by simpa using e
      have hc : cs ≠ [] := by intro e'; subst e'; simp [hj] at h
      simpa [T.cs] using modifyL_ne_nil q _ cs hc

/-- the parent of `sib` survives the removal of `sib` -/
theorem parent_stays {n sub : T} {sib q : Nat} (hw : ∀ j, cnt j n ≤ 1) (hne : n.id ≠ sib)
    (hq : parentOf sib n = some q) (hf : T.find? sib n = some sub) : 1 ≤ cnt q (splice sib (fun _ => []) n) := by
  have h1 := splice_exact sib (fun _ => []) n sub hne hf (hw sib) q
  have h2 := parent_not_in_sub sib n q sub hne (hw sib) (hw q) hq hf
  have h3 := parentOf_pos sib n q hq
  simp at h1; omega

theorem attachStep_cnt (n nc : T) (sib k : Nat) (hw : ∀ j, cnt j n ≤ 1) (i : Nat) :
    cnt i (attachStep n sib k nc) ≤ cnt i n + cnt i nc + (if k = i then 1 else 0) := by
  have hroot : cnt i (n.withCs [.node k none (some Frac.zero) none n.cs, nc]) ≤
      cnt i n + cnt i nc + (if k = i then 1 else 0) := by
    rw [cnt_withCs, cnt_eq i n]; simp; omega
  unfold attachStep
  split
  · exact hroot
  · rename_i hsib
    have hne : n.id ≠ sib := by intro e; apply hsib; simp [e]
    split
    · rename_i q sub hq hf
      have h1 := addChild_cnt q (.node k none (some Frac.zero) none [sub, nc]) (splice sib (fun _ => []) n) i
      have hrm := splice_remove sib n sub hne hf i
      have hle := splice_le sib (fun _ => []) (by intro y k; simp) n q
      have hq1 : cnt q (splice sib (fun _ => []) n) ≤ 1 := Nat.le_trans hle (hw q)
      have hcw : cnt i (T.node k none (some Frac.zero) none [sub, nc]) = cnt i sub + cnt i nc + (if k = i then 1 else 0) := by
        simp
      have h4 := Nat.mul_le_mul_right (cnt i (T.node k none (some Frac.zero) none [sub, nc])) hq1
      rw [hcw] at h1 h4; omega
    · exact hroot

theorem attachStep_cs_ne (n nc : T) (sib k : Nat) (hw : ∀ j, cnt j n ≤ 1) : (attachStep n sib k nc).cs ≠ [] := by
  unfold attachStep
  split
  · simp
  · rename_i hsib
    have hne : n.id ≠ sib := by intro e; apply hsib; simp [e]
    split
    · rename_i q sub hq hf
      exact addChild_cs_ne q _ _ (parent_stays hw hne hq hf)
    · simp

/-- invariant of the attachment loop, one round on -/
theorem attachStep_inv (n nc : T) (todo : List T) (sib k : Nat)
    (hw : ∀ i, cnt i n + cntL i (nc :: todo) ≤ 1) (hf : ∀ i, k ≤ i → cnt i n + cntL i (nc :: todo) = 0) :
    (∀ i, cnt i (attachStep n sib k nc) + cntL i todo ≤ 1) ∧
    (∀ i, k + 1 ≤ i → cnt i (attachStep n sib k nc) + cntL i todo = 0) := by
  have hs := attachStep_cnt n nc sib k (fun j => by have := hw j; omega)
  constructor
  · intro i
    have h1 := hs i; have h2 := hw i; have h3 := hf i
    rw [cntL_cons] at h2 h3
    by_cases hk : k = i
    · subst hk; have := h3 (by omega); simp at h1; omega
    · simp [hk] at h1; omega
  · intro i hi
    have h1 := hs i; have h3 := hf i (by omega)
    rw [cntL_cons] at h3
    have hk : ¬ k = i := by omega
    simp [hk] at h1; omega

theorem attachLoop_cnt : ∀ (todo : List T) (n : T) (pts : List Nat) (k : Nat) (sc : List Nat),
    (∀ i, cnt i n + cntL i todo ≤ 1) → (∀ i, k ≤ i → cnt i n + cntL i todo = 0) →
    k ≤ (attachLoop n todo pts k sc).2.1 ∧
    ∀ i, cnt i (attachLoop n todo pts k sc).1 ≤ cnt i n + cntL i todo + ind k (attachLoop n todo pts k sc).2.1 i
  | [], n, pts, k, sc, _, _ => by simp [attachLoop, ind_self]
  | nc :: todo, n, pts, k, sc, hw, hf => by
      simp only [attachLoop]
      generalize pts.getD (sc.headD 0 % pts.length) n.id = sib
      have hinv := attachStep_inv n nc todo sib k hw hf
      have ih := attachLoop_cnt todo (attachStep n sib k nc) (pts ++ [k, nc.id]) (k + 1) sc.tail hinv.1 hinv.2
      refine ⟨by omega, ?_⟩
      intro i
      have h1 := ih.2 i
      have h2 := attachStep_cnt n nc sib k (fun j => by have := hw j; omega) i
      have h3 := ind_add k (k + 1) _ i (by omega) ih.1
      rw [ind_succ] at h3
      rw [cntL_cons]; omega

theorem attachStep_lc (p : Nat × Nat) (n nc : T) (sib k : Nat) (hw : ∀ j, cnt j n + cnt j nc ≤ 1) (hcs : n.cs ≠ []) :
    lc p n + lc p nc ≤ lc p (attachStep n sib k nc) := by
  have hroot : lc p n + lc p nc ≤ lc p (n.withCs [.node k none (some Frac.zero) none n.cs, nc]) := by
    rw [lc_withCs_cons, lc_eq_cs p n hcs, lc_eq_cs p (.node k none (some Frac.zero) none n.cs) (by simpa [T.cs] using hcs)]
    simp [T.cs]
  have hwn : ∀ j, cnt j n ≤ 1 := fun j => by have := hw j; omega
  unfold attachStep
  split
  · exact hroot
  · rename_i hsib
    have hne : n.id ≠ sib := by intro e; apply hsib; simp [e]
    split
    · rename_i q sub hq hf
      by_cases hpq : p.1 = q
      · -- the parent of `sib` is an internal node of `n` and does not occur in `nc`: it is not a leaf of either
        have hqi := parentOf_internal sib n q (hwn q) hq
        have hz : lc p n = 0 := by
          apply Nat.eq_zero_of_not_pos; intro hpos
          exact leaf_not_internal p n (by omega) (hpq ▸ hqi)
        have hz2 : lc p nc = 0 := by
          have h1 := AuxP.lc_le_pc p nc; have h2 := AuxP.pc_le_cnt p nc
          have h3 := parentOf_pos sib n q hq; have h4 := hw q
          rw [hpq] at h2; omega
        omega
      · have h1 := splice_exact_lc p sib (fun _ => []) n sub hne hf (hwn sib)
        have h3 := addChild_lc_add p q (.node k none (some Frac.zero) none [sub, nc]) (splice sib (fun _ => []) n) hpq
          (parent_stays hwn hne hq hf)
        simp at h1 h3; omega
    · exact hroot

theorem attachLoop_lc (p : Nat × Nat) : ∀ (todo : List T) (n : T) (pts : List Nat) (k : Nat) (sc : List Nat),
    (∀ i, cnt i n + cntL i todo ≤ 1) → (∀ i, k ≤ i → cnt i n + cntL i todo = 0) → n.cs ≠ [] →
    lc p n + lcL p todo ≤ lc p (attachLoop n todo pts k sc).1
  | [], n, pts, k, sc, _, _, _ => by simp [attachLoop]
  | nc :: todo, n, pts, k, sc, hw, hf, hcs => by
      simp only [attachLoop]
      generalize pts.getD (sc.headD 0 % pts.length) n.id = sib
      have hinv := attachStep_inv n nc todo sib k hw hf
      have hwn : ∀ j, cnt j n ≤ 1 := fun j => by have := hw j; omega
      have ih := attachLoop_lc p todo (attachStep n sib k nc) (pts ++ [k, nc.id]) (k + 1) sc.tail hinv.1 hinv.2
        (attachStep_cs_ne n nc sib k hwn)
      have h2 := attachStep_lc p n nc sib k (fun j => by have := hw j; rw [cntL_cons] at this; omega) hcs
      rw [lcL_cons]; omega

end DendroModel.C03.Aux

namespace DendroModel.C03.Aux
open DendroModel DendroModel.C03 DendroModel.C03.Leaves

theorem ind_ge (k k' i : Nat) (h : k' ≤ i) : ind k k' i = 0 := by
  unfold ind; split
  · omega
  · rfl

theorem rprL_length (limit : Nat) : ∀ (cs : List T) (k : Nat) (sc : List Nat), (rprL limit cs k sc).1.length = cs.length
  | [], k, sc => by simp [rprL]
  | c :: cs, k, sc => by simp [rprL, rprL_length limit cs]

/-- what the attachment loop of a polytomy node starts from: the node with the children that were not drawn, and the
drawn children — together the node with its (already resolved) children -/
theorem rpr_pre (j : Nat) (x : Option Nat) (l : Option Frac) (s : Option String) (cs cs' : List T) (k k1 m : Nat)
    (sc1 : List Nat) (hw : ∀ i, cnt i (.node j x l s cs) ≤ 1) (hf : ∀ i, k ≤ i → cnt i (.node j x l s cs) = 0)
    (hb : ∀ i, cntL i cs' ≤ cntL i cs + ind k k1 i) :
    (∀ i, cnt i (.node j x l s (sampleS m cs' sc1).2.1) + cntL i (sampleS m cs' sc1).1.reverse ≤
      cnt i (.node j x l s cs) + ind k k1 i) ∧
    (∀ i, cnt i (.node j x l s (sampleS m cs' sc1).2.1) + cntL i (sampleS m cs' sc1).1.reverse ≤ 1) ∧
    (∀ i, k1 ≤ i → k ≤ k1 → cnt i (.node j x l s (sampleS m cs' sc1).2.1) + cntL i (sampleS m cs' sc1).1.reverse = 0) := by
  have h1 : ∀ i, cnt i (.node j x l s (sampleS m cs' sc1).2.1) + cntL i (sampleS m cs' sc1).1.reverse ≤
      cnt i (.node j x l s cs) + ind k k1 i := by
    intro i
    have hs := sampleS_add (cntL i) (cntL_append i) m cs' sc1
    have := hb i
    rw [cntL_reverse]; simp only [cnt_node]; omega
  refine ⟨h1, ?_, ?_⟩
  · intro i
    have a := h1 i; have b := hw i; have c := ind_le_one k k1 i; have d := ind_pos k k1 i
    by_cases h0 : ind k k1 i = 0
    · omega
    · have := hf i (d (by omega)); omega
  · intro i hi hk
    have a := h1 i; have b := hf i (by omega); have c := ind_ge k k1 i hi
    omega

mutual
theorem rpr_cnt (limit : Nat) : ∀ (t : T) (k : Nat) (sc : List Nat), (∀ i, cnt i t ≤ 1) → (∀ i, k ≤ i → cnt i t = 0) →
    k ≤ (rpr limit t k sc).2.1 ∧ ∀ i, cnt i (rpr limit t k sc).1 ≤ cnt i t + ind k (rpr limit t k sc).2.1 i
  | .node j x l s cs, k, sc, hw, hf => by
      have hwL : ∀ i, cntL i cs ≤ 1 := fun i => by have := hw i; rw [cnt_node] at this; omega
      have hfL : ∀ i, k ≤ i → cntL i cs = 0 := fun i hi => by have := hf i hi; rw [cnt_node] at this; omega
      have h1 := rprL_cnt limit cs k sc hwL hfL
      simp only [rpr]
      generalize rprL limit cs k sc = R at h1 ⊢
      split
      · have hp := rpr_pre j x l s cs R.1 k R.2.1 (R.1.length - limit) R.2.2 hw hf h1.2
        generalize sampleS (R.1.length - limit) R.1 R.2.2 = S at hp ⊢
        have h2 := attachLoop_cnt S.1.reverse (.node j x l s S.2.1) (S.2.1.map T.id ++ [j]) R.2.1 S.2.2 hp.2.1
          (fun i hi => hp.2.2 i hi h1.1)
        refine ⟨by omega, ?_⟩
        intro i
        have a := hp.1 i; have b := h2.2 i; have c := ind_add k _ _ i h1.1 h2.1
        omega
      · refine ⟨h1.1, ?_⟩
        intro i; have := h1.2 i; simp only [cnt_node]; omega
theorem rprL_cnt (limit : Nat) : ∀ (cs : List T) (k : Nat) (sc : List Nat), (∀ i, cntL i cs ≤ 1) →
    (∀ i, k ≤ i → cntL i cs = 0) →
    k ≤ (rprL limit cs k sc).2.1 ∧ ∀ i, cntL i (rprL limit cs k sc).1 ≤ cntL i cs + ind k (rprL limit cs k sc).2.1 i
  | [], k, sc, _, _ => by simp [rprL, ind_self]
  | c :: cs, k, sc, hw, hf => by
      have h1 := rpr_cnt limit c k sc (fun i => by have := hw i; rw [cntL_cons] at this; omega)
        (fun i hi => by have := hf i hi; rw [cntL_cons] at this; omega)
      have h2 := rprL_cnt limit cs (rpr limit c k sc).2.1 (rpr limit c k sc).2.2
        (fun i => by have := hw i; rw [cntL_cons] at this; omega)
        (fun i hi => by have := hf i (by omega); rw [cntL_cons] at this; omega)
      simp only [rprL]
      refine ⟨by omega, ?_⟩
      intro i
      have a := h1.2 i; have b := h2.2 i
      have c := ind_add k _ _ i h1.1 h2.1
      simp only [cntL_cons]; omega
end

mutual
theorem rpr_lc (p : Nat × Nat) (limit : Nat) (hl : 1 ≤ limit) : ∀ (t : T) (k : Nat) (sc : List Nat), (∀ i, cnt i t ≤ 1) →
    (∀ i, k ≤ i → cnt i t = 0) → lc p t ≤ lc p (rpr limit t k sc).1
  | .node j x l s cs, k, sc, hw, hf => by
      have hwL : ∀ i, cntL i cs ≤ 1 := fun i => by have := hw i; rw [cnt_node] at this; omega
      have hfL : ∀ i, k ≤ i → cntL i cs = 0 := fun i hi => by have := hf i hi; rw [cnt_node] at this; omega
      have h1 := rprL_cnt limit cs k sc hwL hfL
      have h0 := rprL_lc p limit hl cs k sc hwL hfL
      have hlen := rprL_length limit cs k sc
      simp only [rpr]
      generalize rprL limit cs k sc = R at h1 h0 hlen ⊢
      split
      · rename_i hgt
        have hp := rpr_pre j x l s cs R.1 k R.2.1 (R.1.length - limit) R.2.2 hw hf h1.2
        have hadd := sampleS_add (lcL p) (lcL_append p) (R.1.length - limit) R.1 R.2.2
        have hsl := sampleS_length (R.1.length - limit) R.1 R.2.2
        generalize sampleS (R.1.length - limit) R.1 R.2.2 = S at hp hadd hsl ⊢
        have hne : S.2.1 ≠ [] := by intro e; rw [e] at hsl; simp at hsl; omega
        have hcs : cs ≠ [] := by intro e; subst e; rw [List.length_nil] at hlen; omega
        have h2 := attachLoop_lc p S.1.reverse (.node j x l s S.2.1) (S.2.1.map T.id ++ [j]) R.2.1 S.2.2 hp.2.1
          (fun i hi => hp.2.2 i hi h1.1) (by simpa [T.cs] using hne)
        rw [lcL_reverse, lc_eq_cs p (.node j x l s S.2.1) (by simpa [T.cs] using hne)] at h2
        rw [lc_eq_cs p (.node j x l s cs) (by simpa [T.cs] using hcs)]
        simp only [T.cs] at h2 ⊢; omega
      · by_cases hcs : cs = []
        · subst hcs
          have : R.1 = [] := List.eq_nil_of_length_eq_zero (by simpa using hlen)
          rw [this]; exact Nat.le_refl _
        · exact lc_ge' p j x l s cs R.1 h0 hcs
theorem rprL_lc (p : Nat × Nat) (limit : Nat) (hl : 1 ≤ limit) : ∀ (cs : List T) (k : Nat) (sc : List Nat),
    (∀ i, cntL i cs ≤ 1) → (∀ i, k ≤ i → cntL i cs = 0) → lcL p cs ≤ lcL p (rprL limit cs k sc).1
  | [], k, sc, _, _ => by simp [rprL]
  | c :: cs, k, sc, hw, hf => by
      have hwc : ∀ i, cnt i c ≤ 1 := fun i => by have := hw i; rw [cntL_cons] at this; omega
      have hfc : ∀ i, k ≤ i → cnt i c = 0 := fun i hi => by have := hf i hi; rw [cntL_cons] at this; omega
      have hk := (rpr_cnt limit c k sc hwc hfc).1
      have h1 := rpr_lc p limit hl c k sc hwc hfc
      have h2 := rprL_lc p limit hl cs (rpr limit c k sc).2.1 (rpr limit c k sc).2.2
        (fun i => by have := hw i; rw [cntL_cons] at this; omega)
        (fun i hi => by have := hf i (by omega); rw [cntL_cons] at this; omega)
      simp only [rprL, lcL_cons]; omega
end

end DendroModel.C03.Aux

namespace DendroModel.C03.AuxP
open DendroModel DendroModel.C03 DendroModel.C03.Aux

theorem attachStep_pc (i : Nat × Nat) (n nc : T) (sib k : Nat) (hw : ∀ j, cnt j n ≤ 1) :
    pc i (attachStep n sib k nc) ≤ pc i n + pc i nc := by
  have hroot : pc i (n.withCs [.node k none (some Frac.zero) none n.cs, nc]) ≤ pc i n + pc i nc := by
    rw [pc_withCs, pc_eq i n]; simp; omega
  unfold attachStep
  split
  · exact hroot
  · rename_i hsib
    have hne : n.id ≠ sib := by intro e; apply hsib; simp [e]
    split
    · rename_i q sub hq hf
      have h1 := addChild_cnt q (.node k none (some Frac.zero) none [sub, nc]) (splice sib (fun _ => []) n) i
      have hrm := splice_remove sib n sub hne hf i
      have hle := Aux.splice_le sib (fun _ => []) (by intro y k; simp) n q
      have hq1 : cnt q (splice sib (fun _ => []) n) ≤ 1 := Nat.le_trans hle (hw q)
      have hcw : pc i (T.node k none (some Frac.zero) none [sub, nc]) = pc i sub + pc i nc := by simp
      have h4 := Nat.mul_le_mul_right (pc i (T.node k none (some Frac.zero) none [sub, nc])) hq1
      rw [hcw] at h1 h4; omega
    · exact hroot

theorem attachLoop_pc (i : Nat × Nat) : ∀ (todo : List T) (n : T) (pts : List Nat) (k : Nat) (sc : List Nat),
    (∀ j, cnt j n + cntL j todo ≤ 1) → (∀ j, k ≤ j → cnt j n + cntL j todo = 0) →
    pc i (attachLoop n todo pts k sc).1 ≤ pc i n + pcL i todo
  | [], n, pts, k, sc, _, _ => by simp [attachLoop]
  | nc :: todo, n, pts, k, sc, hw, hf => by
      simp only [attachLoop]
      generalize pts.getD (sc.headD 0 % pts.length) n.id = sib
      have hinv := attachStep_inv n nc todo sib k hw hf
      have ih := attachLoop_pc i todo (attachStep n sib k nc) (pts ++ [k, nc.id]) (k + 1) sc.tail hinv.1 hinv.2
      have h2 := attachStep_pc i n nc sib k (fun j => by have := hw j; omega)
      rw [pcL_cons]; omega

mutual
theorem rpr_pc (p : Nat × Nat) (limit : Nat) : ∀ (t : T) (k : Nat) (sc : List Nat), (∀ i, cnt i t ≤ 1) →
    (∀ i, k ≤ i → cnt i t = 0) → pc p (rpr limit t k sc).1 ≤ pc p t
  | .node j x l s cs, k, sc, hw, hf => by
      have hwL : ∀ i, cntL i cs ≤ 1 := fun i => by have := hw i; rw [cnt_node] at this; omega
      have hfL : ∀ i, k ≤ i → cntL i cs = 0 := fun i hi => by have := hf i hi; rw [cnt_node] at this; omega
      have h1 := rprL_cnt limit cs k sc hwL hfL
      have h0 := rprL_pc p limit cs k sc hwL hfL
      simp only [rpr]
      generalize rprL limit cs k sc = R at h1 h0 ⊢
      split
      · have hp := rpr_pre j x l s cs R.1 k R.2.1 (R.1.length - limit) R.2.2 hw hf h1.2
        have hadd := sampleS_add (pcL p) (pcL_append p) (R.1.length - limit) R.1 R.2.2
        generalize sampleS (R.1.length - limit) R.1 R.2.2 = S at hp hadd ⊢
        have h2 := attachLoop_pc p S.1.reverse (.node j x l s S.2.1) (S.2.1.map T.id ++ [j]) R.2.1 S.2.2 hp.2.1
          (fun i hi => hp.2.2 i hi h1.1)
        rw [pcL_reverse] at h2
        simp only [pc_node] at h2 ⊢; omega
      · simp only [pc_node]; omega
theorem rprL_pc (p : Nat × Nat) (limit : Nat) : ∀ (cs : List T) (k : Nat) (sc : List Nat), (∀ i, cntL i cs ≤ 1) →
    (∀ i, k ≤ i → cntL i cs = 0) → pcL p (rprL limit cs k sc).1 ≤ pcL p cs
  | [], k, sc, _, _ => by simp [rprL]
  | c :: cs, k, sc, hw, hf => by
      have hwc : ∀ i, cnt i c ≤ 1 := fun i => by have := hw i; rw [cntL_cons] at this; omega
      have hfc : ∀ i, k ≤ i → cnt i c = 0 := fun i hi => by have := hf i hi; rw [cntL_cons] at this; omega
      have hk := (rpr_cnt limit c k sc hwc hfc).1
      have h1 := rpr_pc p limit c k sc hwc hfc
      have h2 := rprL_pc p limit cs (rpr limit c k sc).2.1 (rpr limit c k sc).2.2
        (fun i => by have := hw i; rw [cntL_cons] at this; omega)
        (fun i hi => by have := hf i (by omega); rw [cntL_cons] at this; omega)
      simp only [rprL, pcL_cons]; omega
end

end DendroModel.C03.AuxP


namespace DendroModel.C03
open DendroModel DendroModel.C03.Aux DendroModel.C03.AuxR

/-- subtrees handed to `add_child` / `insert_child` are themselves free of shared nodes
(their ids are renamed apart from the tree's by `step`) -/
def Op.SubWF : Op → Prop
  | .addSub _ sub => WF sub
  | .insertSub _ _ sub => WF sub
  | _ => True

/-- **Clause (a), tree level, one operation.**  Whatever operation of the alphabet is applied to a tree without
shared nodes, with whatever target ids, flags, lengths and taxa, the resulting tree has no shared node either
(nodes created by the operation included).  Together with the tree being an inductive rose tree (single root,
every other node in exactly one child list, no cycles) this is "still a single arborescence". -/
theorem step_wf (s s' : St) (op : Op) (h : WF s.t) (hop : op.SubWF) (hs : step s op = .ok s') : WF s'.t := by
  have fresh : ∀ i, maxId s.t < i → cnt i s.t = 0 := fun i hi => cnt_fresh s.t i hi
  cases op with
  | removeChild p c sp =>
    simp only [step] at hs
    split at hs
    · cases hs
    · split at hs
      · rename_i t' ht
        injection hs with hs; subst hs
        exact wf_of_le h (removeChild_le p c sp s.t t' h ht)
      · cases hs
  | newChild p x l =>
    simp only [step] at hs
    split at hs
    · cases hs
    · injection hs with hs; subst hs
      refine wf_attach h (wf_leafNode _ x l) ?_ (addChild_cnt p _ s.t)
      intro i hi; rw [cnt_leafNode] at hi
      split at hi
      · rename_i e; subst e; exact fresh _ (by omega)
      · omega
  | insertNewChild p idx x l =>
    simp only [step] at hs
    split at hs
    · cases hs
    · injection hs with hs; subst hs
      refine wf_attach h (wf_leafNode _ x l) ?_ (insertChild_cnt p idx _ s.t)
      intro i hi; rw [cnt_leafNode] at hi
      split at hi
      · rename_i e; subst e; exact fresh _ (by omega)
      · omega
  | addSub p sub =>
    simp only [step] at hs
    split at hs
    · cases hs
    · injection hs with hs; subst hs
      refine wf_attach h (wf_shift _ sub hop) ?_ (addChild_cnt p _ s.t)
      intro i hi; rw [cnt_shift] at hi
      split at hi
      · exact fresh _ (by omega)
      · omega
  | insertSub p idx sub =>
    simp only [step] at hs
    split at hs
    · cases hs
    · injection hs with hs; subst hs
      refine wf_attach h (wf_shift _ sub hop) ?_ (insertChild_cnt p idx _ s.t)
      intro i hi; rw [cnt_shift] at hi
      split at hi
      · exact fresh _ (by omega)
      · omega
  | insertMove p idx c =>
    simp only [step] at hs
    split at hs
    · cases hs
    · injection hs with hs; subst hs
      exact wf_of_le h (insertMove_le p idx c s.t)
  | setParent c q =>
    simp only [step] at hs
    split at hs
    · cases hs
    · rename_i sub hf
      split at hs
      · cases hs
      · rename_i hg
        injection hs with hs; subst hs
        have hne : s.t.id ≠ c := by
          intro e; apply hg; simp [e]
        simp only [setParent, hf]
        exact regraft_wf h hne hf (wf_of_le h (fun i => by have := splice_remove c s.t sub hne hf i; omega))
          (fun i => Or.inl (Nat.le_refl _))
  | edgeCollapse c adj =>
    simp only [step] at hs
    split at hs
    · cases hs
    · split at hs
      · rename_i t' ht
        injection hs with hs; subst hs
        exact wf_of_le h (edgeCollapse_le c adj s.t t' ht)
      · cases hs
  | collapseClade c =>
    simp only [step] at hs
    split at hs
    · cases hs
    · injection hs with hs; subst hs
      exact wf_of_le h (collapseClade_le c s.t)
  | reseedAt target a b =>
    simp only [step] at hs
    split at hs
    · cases hs
    · injection hs with hs; subst hs
      exact wf_of_le h (reseedAt_le target a b s)
  | rerootAtNode target ub a b =>
    simp only [step] at hs
    split at hs
    · cases hs
    · injection hs with hs; subst hs
      exact wf_of_le h (rerootAtNode_le target ub a b s)
  | rerootAtEdge head l1 l2 ub sp =>
    simp only [step] at hs
    split at hs
    · cases hs
    · rename_i hg
      injection hs with hs; subst hs
      have hne : s.t.id ≠ head := by
        intro e; apply hg; simp [e]
      unfold rerootAtEdge
      split
      · rename_i tail sub _ hf
        refine wf_of_le ?_ (rerootAtNode_le _ ub sp true _)
        have hsub : ∀ i, cnt i sub ≤ cnt i s.t := fun i => by
          have := splice_remove head s.t sub hne hf i; omega
        have hfr : cnt (maxId s.t + 1) sub = 0 := by
          have := hsub (maxId s.t + 1); have := fresh (maxId s.t + 1) (by omega); omega
        have hcw : ∀ i, cnt i (T.node (maxId s.t + 1) none l1 none [sub.withLen l2]) =
            cnt i sub + (if maxId s.t + 1 = i then 1 else 0) := by
          intro i; simp
        have hwf := (wf_iff s.t).mp h
        apply regraft_wf h hne hf
        · rw [wf_iff]; intro i; rw [hcw]
          split
          · rename_i e; subst e; omega
          · have := hsub i; have := hwf i; omega
        · intro i; rw [hcw]
          split
          · rename_i e; subst e; right; exact ⟨fresh _ (by omega), by omega⟩
          · left; omega
      · exact h
  | toOutgroup og sp =>
    simp only [step] at hs
    split at hs
    · cases hs
    · injection hs with hs; subst hs
      exact wf_of_le h (toOutgroup_le og sp s)
  | suppressUnif =>
    simp only [step] at hs
    injection hs with hs; subst hs
    exact wf_of_le h (sup_le s.t)
  | collapseBasal su =>
    simp only [step] at hs
    injection hs with hs; subst hs
    exact wf_of_le h (collapseBasalSt_le su s)
  | polytomize su =>
    simp only [step] at hs
    injection hs with hs; subst hs
    exact wf_of_le h (polytomize_le _ s.t)
  | collapseUnweighted thr ub =>
    simp only [step] at hs
    injection hs with hs; subst hs
    split
    · exact wf_of_le h (fun i => Nat.le_trans (encodeStruct_le _ _ _ i) (cu_le thr s.t i))
    · exact wf_of_le h (cu_le thr s.t)
  | resolve limit ub =>
    simp only [step] at hs
    split at hs
    · cases hs
    · injection hs with hs; subst hs
      have hr := (rp_cnt limit s.t (maxId s.t + 1)).2
      have hw : WF (rp limit s.t (maxId s.t + 1)).1 := by
        rw [wf_iff]; intro i
        have h1 := hr i; have h2 := (wf_iff s.t).mp h i
        have h3 := ind_le_one (maxId s.t + 1) (rp limit s.t (maxId s.t + 1)).2 i
        have hpos := ind_pos (maxId s.t + 1) (rp limit s.t (maxId s.t + 1)).2 i
        generalize ind (maxId s.t + 1) (rp limit s.t (maxId s.t + 1)).2 i = d at h1 h3 hpos
        by_cases h0 : d = 0
        · omega
        · have := hpos (by omega)
          have := fresh i (by omega); omega
      split
      · exact wf_of_le hw (encodeStruct_le _ _ _)
      · exact hw
  | resolveRng limit ub script =>
    simp only [step] at hs
    split at hs
    · cases hs
    · injection hs with hs; subst hs
      have hr := (rpr_cnt limit s.t (maxId s.t + 1) script ((wf_iff s.t).mp h) (fun i hi => fresh i (by omega))).2
      have hw : WF (rpr limit s.t (maxId s.t + 1) script).1 := by
        rw [wf_iff]; intro i
        have h1 := hr i; have h2 := (wf_iff s.t).mp h i
        have h3 := ind_le_one (maxId s.t + 1) (rpr limit s.t (maxId s.t + 1) script).2.1 i
        have hpos := ind_pos (maxId s.t + 1) (rpr limit s.t (maxId s.t + 1) script).2.1 i
        generalize ind (maxId s.t + 1) (rpr limit s.t (maxId s.t + 1) script).2.1 i = d at h1 h3 hpos
        by_cases h0 : d = 0
        · omega
        · have := hpos (by omega)
          have := fresh i (by omega); omega
      split
      · exact wf_of_le hw (encodeStruct_le _ _ _)
      · exact hw
  | pruneSubtree c ub sp =>
    simp only [step] at hs
    split at hs
    · cases hs
    · unfold pruneSubtree at hs
      split at hs
      · cases hs
      · injection hs with hs; subst hs
        exact wf_of_le h (fun i => Nat.le_trans (finish_le _ _ _ i) (pruneUp_le _ c s.t i))
  | filterLeaves keep r ub sp =>
    simp only [step] at hs
    unfold filterLeaves at hs
    simp only at hs
    split at hs
    · cases hs
    · rename_i t1 ht
      injection hs with hs; subst hs
      exact wf_of_le h (fun i => Nat.le_trans (finish_le _ _ _ i) (loop_le _ _ _ _ _ ht i))
  | pruneNoTaxa r ub sp =>
    simp only [step] at hs
    injection hs with hs; subst hs
    exact wf_of_le h (pruneNoTaxa_le r ub sp s)
  | pruneTaxa bits ub sp =>
    simp only [step] at hs
    injection hs with hs; subst hs
    exact wf_of_le h (fun i => Nat.le_trans (pruneNoTaxa_le _ _ _ _ i) (pt_le _ s.t i))
  | retainTaxa bits ub sp =>
    simp only [step] at hs
    injection hs with hs; subst hs
    exact wf_of_le h (fun i => Nat.le_trans (pruneNoTaxa_le _ _ _ _ i) (pt_le _ s.t i))
  | ladderize asc =>
    simp only [step] at hs
    injection hs with hs; subst hs
    exact wf_of_le h (fun i => Nat.le_of_eq (sortAll_cnt _ s.t i))
  | reorder =>
    simp only [step] at hs
    injection hs with hs; subst hs
    exact wf_of_le h (fun i => Nat.le_of_eq (sortAll_cnt _ s.t i))
  | rotate mode =>
    simp only [step] at hs
    injection hs with hs; subst hs
    exact wf_of_le h (fun i => Nat.le_of_eq (rotate_cnt mode s.t i))
  | shuffleTaxa rs =>
    simp only [step] at hs
    injection hs with hs; subst hs
    exact wf_of_le h (fun i => Nat.le_of_eq (assignTaxa_cnt s.t _ i))
  | encode a b =>
    simp only [step] at hs
    injection hs with hs; subst hs
    exact wf_of_le h (encodeStruct_le a b s)
  | setSeed n =>
    simp only [step] at hs
    split at hs
    · cases hs
    · rename_i sub hf
      injection hs with hs; subst hs
      exact wf_of_le h (find_le n s.t sub hf)
  | reorient k mode =>
    simp only [step] at hs
    split at hs
    · cases hs
    · injection hs with hs; subst hs
      refine wf_of_le h (fun i => ?_)
      rw [rotate_cnt]
      split
      · exact toOutgroup_le _ _ s i
      · exact reseedAt_le _ _ _ s i

/-- **Clause (a), tree level, every history.**  For every finite sequence of operations (any length, any
targets and flags; an operation that raises its documented error leaves the state as it was) started from a tree
without shared nodes, the final tree has no shared node. -/
theorem history_wf : ∀ (ops : List Op) (s : St), WF s.t → (∀ op ∈ ops, op.SubWF) → WF (run ops s).t
  | [], s, h, _ => h
  | op :: ops, s, h, hall => by
      simp only [run]
      have hop := hall op (by simp)
      have hrest : ∀ o ∈ ops, o.SubWF := fun o ho => hall o (by simp [ho])
      split
      · rename_i s' hs
        exact history_wf ops s' (step_wf s s' op h hop hs) hrest
      · exact history_wf ops s h hrest


/-- **Clause (b) for `suppress_unifurcations`** (and for the suppression pass of `encode_bipartitions`): the
taxa on the leaves, read left to right, are exactly the same before and after — nothing is lost, nothing appears. -/
theorem suppress_keeps_leaf_taxa (t : T) : (sup t).leaves.filterMap T.taxon = t.leaves.filterMap T.taxon :=
  Aux.sup_ltx t

/-! ## heap layer: the pointer book-keeping refines the tree operations -/

/-- The heap the driver builds from a tree without shared nodes *represents* that tree: every node's parent
pointer and child list are those of the tree, the root has no parent (this is clause (a) read on pointers). -/
theorem ofTree_repr (t : T) (h : WF t) : Repr (Heap.ofTree none Heap.empty t) none t :=
  HeapAux.ofTree_repr_aux t none Heap.empty h

/-- `Node.remove_child` at pointer level, as written (`node._parent_node = None; children.remove(node)`), on a heap that
represents `t`, removing a non-root node `c` from the node `p` it names as its parent: it does not raise, and the
resulting heap represents exactly the tree-level result — all other parent pointers and child lists are untouched. -/
theorem removeChild_repr (h : Heap) (t : T) (p c : Nat) (hr : Repr h none t) (hw : WF t)
    (hc : c ∈ ids t) (hne : c ≠ t.id) (hp : h.par c = some p) :
    ∃ h', Heap.removeChild h p c = some h' ∧ Repr h' none (splice c (fun _ => []) t) ∧ h'.par c = none := by
  refine ⟨HeapAux.rmHeap h p c, ?_, ?_, ?_⟩
  · exact HeapAux.removeChild_eq h p c (HeapAux.child_listed h c p none t hr hc hne hp)
  · exact HeapAux.spliceNil_repr h p c none t hr hw hc hne hp
  · simp [HeapAux.rmHeap]

/-- frame property of the pointer-level removal: a represented subtree that mentions neither the removed node nor its
parent is still represented, unchanged (so e.g. the detached subtree's interior keeps its shape) -/
theorem removeChild_frame (h : Heap) (p c : Nat) (q : Option Nat) (u : T) (hc : c ∉ ids u) (hp : p ∉ ids u)
    (hr : Repr h q u) (hl : c ∈ h.ch p) : ∃ h', Heap.removeChild h p c = some h' ∧ Repr h' q u :=
  ⟨HeapAux.rmHeap h p c, HeapAux.removeChild_eq h p c hl, HeapAux.frame h p c q u hc hp hr⟩

/-- end to end for `remove_child`: from a well-formed tree, the pointer routine run on the tree's heap yields a heap
that represents what the tree-level model (`removeChild … false`, the function the driver runs) returns -/
theorem removeChild_refines (t t' : T) (p c : Nat) (hw : WF t) (hc : c ∈ ids t) (hne : c ≠ t.id)
    (hp : (Heap.ofTree none Heap.empty t).par c = some p) (ht : removeChild p c false t = .ok t') :
    ∃ h', Heap.removeChild (Heap.ofTree none Heap.empty t) p c = some h' ∧ Repr h' none t' ∧ WF t' ∧
      h'.par c = none := by
  have hst : t' = splice c (fun _ => []) t := by
    unfold removeChild at ht
    split at ht
    · cases ht
    · simp at ht; exact ht.symm
  obtain ⟨h', h1, h2, h3⟩ := removeChild_repr _ t p c (ofTree_repr t hw) hw hc hne hp
  refine ⟨h', h1, hst ▸ h2, ?_, h3⟩
  exact Aux.wf_of_le hw (Aux.removeChild_le p c false t t' hw ht)


/-- `Node.add_child(node)` at pointer level (`node._parent_node = self; append if absent`) with a fresh, childless
`node = k` (what `new_child` does), on a heap that represents `t`: the resulting heap represents the tree-level
`addChild` — `k` is the last child of `p`, its parent pointer is `p`, every other pointer and child list is untouched -/
theorem addChild_repr (h : Heap) (t : T) (p k : Nat) (x : Option Nat) (l : Option Frac) (hr : Repr h none t)
    (hw : WF t) (hk : k ∉ ids t) (hpk : p ≠ k) (hch : h.ch k = []) (hnot : k ∉ h.ch p) :
    Repr (Heap.addChild h p k) none (addChild p (leafNode k x l) t) := by
  have hc : (h.ch p).contains k = false := by simpa using hnot
  have hkp : k ≠ p := fun e => hpk e.symm
  unfold addChild
  apply HeapAux.attach_repr h (Heap.addChild h p k) p k (leafNode k x l) (fun cs => cs ++ [leafNode k x l])
    ⟨rfl, rfl⟩ _ _ _ _ _ none t hr hw hk
  · simp [Heap.addChild, hnot, Heap.setPar, Heap.setCh, hkp, hch]
  · intro y hy; simp [Heap.addChild, hnot, Heap.setPar, Heap.setCh, hy]
  · intro y hy _; simp [Heap.addChild, hnot, Heap.setPar, Heap.setCh, hy]
  · intro cs hcs
    have e : (Heap.addChild h p k).ch p = h.ch p ++ [k] := by simp [Heap.addChild, hnot, Heap.setPar, Heap.setCh]
    rw [e, hcs]; simp [leafNode, T.id]
  · intro hh q cs h1 h2
    exact HeapAux.reprL_append hh q cs _ h1 (by simp only [ReprL]; exact ⟨h2, trivial⟩)

/-- `Node.insert_child(index, node)` at pointer level with a fresh, childless `node = k` (what `insert_new_child`
does): the resulting heap represents the tree-level `insertChild` — `k` sits at position `index` among `p`'s children -/
theorem insertChild_repr (h : Heap) (t : T) (p idx k : Nat) (x : Option Nat) (l : Option Frac) (hr : Repr h none t)
    (hw : WF t) (hk : k ∉ ids t) (hpk : p ≠ k) (hch : h.ch k = []) (hnot : k ∉ h.ch p) :
    Repr (Heap.insertChild h p idx k) none (insertChild p idx (leafNode k x l) t) := by
  have hc : (h.ch p).idxOf? k = none := by
    rw [List.idxOf?_eq_none_iff]; exact hnot
  have hkp : k ≠ p := fun e => hpk e.symm
  unfold insertChild
  apply HeapAux.attach_repr h (Heap.insertChild h p idx k) p k (leafNode k x l) (fun cs => insertAt idx (leafNode k x l) cs)
    ⟨rfl, rfl⟩ _ _ _ _ _ none t hr hw hk
  · simp [Heap.insertChild, hc, Heap.setPar, Heap.setCh, hkp, hch]
  · intro y hy; simp [Heap.insertChild, hc, Heap.setPar, Heap.setCh, hy]
  · intro y hy _; simp [Heap.insertChild, hc, Heap.setPar, Heap.setCh, hy]
  · intro cs hcs
    have e : (Heap.insertChild h p idx k).ch p = Heap.insertAtN idx k (h.ch p) := by
      simp [Heap.insertChild, hc, Heap.setPar, Heap.setCh]
    rw [e, hcs]; simp [Heap.insertAtN, insertAt, leafNode, T.id, List.map_take, List.map_drop]
  · intro hh q cs h1 h2
    have := HeapAux.reprL_take hh q idx cs h1
    unfold insertAt
    exact HeapAux.reprL_append hh q _ _ this.1 (by simp only [ReprL]; exact ⟨h2, this.2⟩)

/-- end to end for `add_child` / `insert_child` of a new node: from a well-formed tree, the pointer routines run on the
tree's own heap (`ofTree`) yield heaps that represent what the tree-level model returns — the side conditions of
`addChild_repr` / `insertChild_repr` on the heap are consequences of `k` being new (`ofTree_fresh`) -/
theorem addChild_refines (t : T) (p idx k : Nat) (x : Option Nat) (l : Option Frac) (hw : WF t) (hk : k ∉ ids t)
    (hpk : p ≠ k) :
    Repr (Heap.addChild (Heap.ofTree none Heap.empty t) p k) none (addChild p (leafNode k x l) t) ∧
    Repr (Heap.insertChild (Heap.ofTree none Heap.empty t) p idx k) none (insertChild p idx (leafNode k x l) t) := by
  have hf := HeapAux.ofTree_fresh t hw k hk
  exact ⟨addChild_repr _ t p k x l (ofTree_repr t hw) hw hk hpk hf.1 (hf.2 p),
         insertChild_repr _ t p idx k x l (ofTree_repr t hw) hw hk hpk hf.1 (hf.2 p)⟩

/-- ((A,B),(C,D)) -/
def exTreeH : T :=
  .node 0 none none none
    [.node 1 none none none [.node 2 (some 0) none none [], .node 3 (some 1) none none []],
     .node 4 none none none [.node 5 (some 2) none none [], .node 6 (some 3) none none []]]

/-- non-vacuity of the two attachment theorems: node 7 is fresh for `exTree`, the heap built from it satisfies every
hypothesis, and the pointer routine really adds the child -/
example : 7 ∉ ids exTreeH ∧ (Heap.ofTree none Heap.empty exTreeH).ch 7 = [] ∧ 7 ∉ (Heap.ofTree none Heap.empty exTreeH).ch 4 ∧
    (Heap.addChild (Heap.ofTree none Heap.empty exTreeH) 4 7).ch 4 = [5, 6, 7] ∧
    (Heap.insertChild (Heap.ofTree none Heap.empty exTreeH) 4 1 7).ch 4 = [5, 7, 6] := by decide

/-! ## non-vacuity -/

/-- ((A,B),(C,D)) -/
def exTree : T :=
  .node 0 none none none
    [.node 1 none none none [.node 2 (some 0) none none [], .node 3 (some 1) none none []],
     .node 4 none none none [.node 5 (some 2) none none [], .node 6 (some 3) none none []]]

example : WF exTree := by unfold WF; decide
example : Repr (Heap.ofTree none Heap.empty exTree) none exTree := ofTree_repr exTree (by unfold WF; decide)
/-- the hypotheses of `removeChild_repr` are satisfiable, and the operation really changes the tree -/
example : (Heap.ofTree none Heap.empty exTree).par 4 = some 0 ∧ 4 ∈ ids exTree ∧ 4 ≠ exTree.id ∧
    (splice 4 (fun _ => []) exTree).size = 4 := by decide
/-- a history with a documented error in the middle: the erroring step leaves the state, the others act -/
example : (run [.toOutgroup 4 true, .edgeCollapse 2 false, .resolve 2 false]
    { t := exTree, rooted := some false }).t.size = 7 := by decide
example : (step { t := exTree, rooted := none } (.edgeCollapse 2 false)).toOption.isNone = true := by decide


/-! ## clause (b) in identity form: which leaves an operation keeps -/

/-- `op.Keeps t p`: the operation is used inside its documented domain on `t` and was NOT asked to remove the
taxon-bearing leaf `p = (node id, taxon)`.  `False` for the operations `step_keeps_leaves_partial` does not cover. -/
def Op.Keeps (t : T) (p : Nat × Nat) : Op → Prop
  | .suppressUnif | .collapseBasal _ | .polytomize _ | .collapseUnweighted _ _ | .encode _ _ => True
  | .ladderize _ | .reorder | .rotate _ | .pruneNoTaxa _ _ _ => True
  | .reseedAt target _ _ => Leaves.TargetInternal target t          -- "takes an internal node"
  | .rerootAtNode target _ _ _ => Leaves.TargetInternal target t
  | .pruneTaxa bits _ _ => bits.contains p.2 = false                -- its taxon is not among those to prune
  | .retainTaxa bits _ _ => bits.contains p.2 = true                -- its taxon is among those to retain
  | .filterLeaves keep _ _ _ => keep.contains p.1 = true            -- the filter accepts the node
  | _ => False

/-- **Clause (b), identity form, PARTIAL.**  For the operations listed in `Op.Keeps` (unifurcation suppression,
basal collapse / deroot, root polytomy, unweighted-edge collapse, encode/update_bipartitions, ladderize, reorder,
rotate, reseed_at / reroot_at_node on internal nodes, prune_leaves_without_taxa, prune_taxa, retain_taxa,
filter_leaf_nodes) with any flags: a taxon-bearing leaf the operation was not asked to remove is, afterwards, still
a leaf of the tree — the same node carrying the same taxon (`lc p` counts the leaves that are node `p.1` with taxon
`p.2`).  So these operations lose no leaf and change no leaf's taxon; in particular the multiset of leaf taxa can
shrink only by what was asked.
MISSING (hence `_partial`): remove_child, prune_subtree, the add/insert-child family, insert-move, parent setter,
Edge.collapse, collapse_clade, reroot_at_edge, to_outgroup_position, resolve_polytomies, randomly_reorient (all need
the uniqueness-of-ids argument threaded through `splice`/`modify`), and shuffle_taxa (needs: `drawTaxa` is a
permutation).  Those are judged by the oracle on the implementation after every step. -/
theorem step_keeps_leaves_partial (s s' : St) (op : Op) (p : Nat × Nat) (hk : op.Keeps s.t p)
    (hs : step s op = .ok s') : Leaves.lc p s.t ≤ Leaves.lc p s'.t := by
  cases op <;> simp only [Op.Keeps] at hk
  case suppressUnif =>
    simp only [step] at hs; injection hs with hs; subst hs
    simp only; rw [Leaves.sup_lc]; exact Nat.le_refl _
  case collapseBasal su =>
    simp only [step] at hs; injection hs with hs; subst hs
    exact Leaves.collapseBasalSt_lc p su s
  case polytomize su =>
    simp only [step] at hs; injection hs with hs; subst hs
    exact Leaves.polytomize_lc p _ s.t
  case collapseUnweighted thr ub =>
    simp only [step] at hs; injection hs with hs; subst hs
    split
    · exact Nat.le_trans (Leaves.cu_lc p thr s.t) (Leaves.encodeStruct_lc p true true ⟨cu thr s.t, s.rooted⟩)
    · exact Leaves.cu_lc p thr s.t
  case encode a b =>
    simp only [step] at hs; injection hs with hs; subst hs
    exact Leaves.encodeStruct_lc p a b s
  case ladderize asc =>
    simp only [step] at hs; injection hs with hs; subst hs
    simp only [ladderize]; rw [Leaves.sortAll_lc]; exact Nat.le_refl _
  case reorder =>
    simp only [step] at hs; injection hs with hs; subst hs
    simp only [reorder]; rw [Leaves.sortAll_lc]; exact Nat.le_refl _
  case rotate m =>
    simp only [step] at hs; injection hs with hs; subst hs
    simp only; rw [Leaves.rotate_lc]; exact Nat.le_refl _
  case pruneNoTaxa r ub sp =>
    simp only [step] at hs; injection hs with hs; subst hs
    exact Leaves.pruneNoTaxa_lc p r ub sp s
  case reseedAt target a b =>
    simp only [step] at hs
    split at hs
    · cases hs
    · injection hs with hs; subst hs; exact Leaves.reseedAt_lc p target a b s hk
  case rerootAtNode target ub a b =>
    simp only [step] at hs
    split at hs
    · cases hs
    · injection hs with hs; subst hs; exact Leaves.rerootAtNode_lc p target ub a b s hk
  case pruneTaxa bits ub sp =>
    simp only [step] at hs; injection hs with hs; subst hs
    unfold pruneTaxa
    exact Nat.le_trans (Leaves.pt_lc p _ (by simpa using hk) s.t) (Leaves.pruneNoTaxa_lc p true ub sp ⟨pt _ s.t, s.rooted⟩)
  case retainTaxa bits ub sp =>
    simp only [step] at hs; injection hs with hs; subst hs
    unfold pruneTaxa
    exact Nat.le_trans (Leaves.pt_lc p _ (by simp only [hk]; rfl) s.t) (Leaves.pruneNoTaxa_lc p true ub sp ⟨pt _ s.t, s.rooted⟩)
  case filterLeaves keep r ub sp =>
    simp only [step] at hs
    unfold filterLeaves at hs
    simp only at hs
    split at hs
    · cases hs
    · rename_i t1 ht
      injection hs with hs; subst hs
      refine Nat.le_trans (Leaves.loop_lc p r _ ?_ _ _ _ ht) (Leaves.finish_lc p sp ub ⟨t1, s.rooted⟩)
      intro x hx hpos
      cases x with
      | node j y l' s'' ds =>
        simp only [T.cs] at hx; subst hx
        have := (Leaves.lc_leaf_pos p j y l' s'' hpos).2
        simp only [T.id, this]; exact hk
  all_goals exact absurd hk (by simp)

/-- non-vacuity: pruning taxon 2 from ((A,B),(C,D)) keeps leaf 3 (taxon 1) — hypothesis and conclusion are both
non-trivial (`lc` is 1 before and after), and the pruned leaf 5 really goes (`lc` drops from 1 to 0) -/
example : (Op.pruneTaxa [2] false true).Keeps exTree (3, 1) := by simp [Op.Keeps]
example : Leaves.lc (3, 1) exTree = 1 ∧ Leaves.lc (5, 2) exTree = 1 ∧
    ((step { t := exTree, rooted := none } (.pruneTaxa [2] false true)).toOption.map
      (fun s' => (Leaves.lc (3, 1) s'.t, Leaves.lc (5, 2) s'.t))) = some (1, 0) := by decide
example : Leaves.TargetInternal 4 exTree ∧ ¬ Leaves.TargetInternal 5 exTree := by
  simp [Leaves.TargetInternal, Leaves.TargetInternalL, exTree]



/-! ## clause (b), identity form, for EVERY operation -/

/-- `op.KeepsAll t p`: the operation is used inside its documented domain on `t` and was NOT asked to remove the
taxon-bearing leaf `p = (node id, taxon)`, nor to turn that very leaf into an internal node by hanging something
under it.  For the 14 operations of `Op.Keeps` it is `Op.Keeps`. -/
def Op.KeepsAll (t : T) (p : Nat × Nat) : Op → Prop
  | .removeChild _ c _ => ∀ sub, T.find? c t = some sub → Leaves.lc p sub = 0     -- `p` is not in the removed subtree
  | .pruneSubtree c _ _ => ∀ sub, T.find? c t = some sub → Leaves.lc p sub = 0
  | .newChild q _ _ | .insertNewChild q _ _ _ | .addSub q _ | .insertSub q _ _ => p.1 ≠ q   -- nothing is hung under `p`
  | .setParent _ q => p.1 ≠ q
  | .insertMove _ _ _ | .edgeCollapse _ _ | .collapseClade _ | .rerootAtEdge _ _ _ _ _ | .toOutgroup _ _ => True
  | .resolve _ _ | .resolveRng _ _ _ | .reorient _ _ => True
  | .setSeed n => n = t.id ∨ Leaves.lc p (splice n (fun _ => []) t) = 0          -- `p` is not in what is left behind
  | .shuffleTaxa _ => False                      -- taxa move between leaves on purpose: `shuffle_keeps_leaf_taxa`
  | op => op.Keeps t p

/-- **Clause (b), identity form, every operation.**  On a tree without shared nodes, whichever operation of the
alphabet completes (any targets, flags, lengths): a taxon-bearing leaf that the operation was not asked to remove
(and under which it was not asked to hang a child) is still a leaf of the tree afterwards — the same node carrying
the same taxon.  Nothing is lost and no leaf's taxon changes; the multiset of leaf taxa can shrink only by what
was asked.  (`shuffle_taxa`, which moves taxa between leaves on purpose, has its own theorem.) -/
theorem step_keeps_leaves (s s' : St) (op : Op) (p : Nat × Nat) (hw : WF s.t) (hk : op.KeepsAll s.t p)
    (hs : step s op = .ok s') : Leaves.lc p s.t ≤ Leaves.lc p s'.t := by
  cases op <;> simp only [Op.KeepsAll] at hk
  case removeChild q c sp =>
    simp only [step] at hs
    split at hs
    · cases hs
    · split at hs
      · rename_i t' ht
        injection hs with hs; subst hs
        exact removeChild_lc p q c sp s.t t' hw hk ht
      · cases hs
  case pruneSubtree c ub sp =>
    simp only [step] at hs
    split at hs
    · cases hs
    · unfold pruneSubtree at hs
      split at hs
      · cases hs
      · injection hs with hs; subst hs
        exact Nat.le_trans (pruneUp_lc p _ c s.t hw hk) (Leaves.finish_lc p sp ub ⟨_, s.rooted⟩)
  case newChild q x l =>
    simp only [step] at hs
    split at hs
    · cases hs
    · injection hs with hs; subst hs; exact addChild_lc p q _ s.t hk
  case insertNewChild q idx x l =>
    simp only [step] at hs
    split at hs
    · cases hs
    · injection hs with hs; subst hs; exact insertChild_lc p q idx _ s.t hk
  case addSub q sub =>
    simp only [step] at hs
    split at hs
    · cases hs
    · injection hs with hs; subst hs; exact addChild_lc p q _ s.t hk
  case insertSub q idx sub =>
    simp only [step] at hs
    split at hs
    · cases hs
    · injection hs with hs; subst hs; exact insertChild_lc p q idx _ s.t hk
  case insertMove q idx c =>
    simp only [step] at hs
    split at hs
    · cases hs
    · injection hs with hs; subst hs; exact insertMove_lc p q idx c s.t hw
  case setParent c q =>
    simp only [step] at hs
    split at hs
    · cases hs
    · rename_i sub hf
      split at hs
      · cases hs
      · rename_i hg
        injection hs with hs; subst hs
        have hne : s.t.id ≠ c := by intro e; apply hg; simp [e]
        have hqs : containsId q sub = false := by
          cases h : containsId q sub with
          | false => rfl
          | true => exfalso; apply hg; simp [h]
        have hqt : containsId q s.t = true := by
          cases h : containsId q s.t with
          | true => rfl
          | false => exfalso; apply hg; simp [h]
        simp only [setParent, hf]
        exact regraft_lc p hw hne hf hk (containsId_cnt q s.t hqt) (cnt_containsId q sub hqs) (Nat.le_refl _)
  case edgeCollapse c adj =>
    simp only [step] at hs
    split at hs
    · cases hs
    · split at hs
      · rename_i t' ht
        injection hs with hs; subst hs
        exact edgeCollapse_lc p c adj s.t t' hw ht
      · cases hs
  case collapseClade c =>
    simp only [step] at hs
    split at hs
    · cases hs
    · injection hs with hs; subst hs; exact collapseClade_lc p c s.t
  case rerootAtEdge head l1 l2 ub sp =>
    simp only [step] at hs
    split at hs
    · cases hs
    · rename_i hg
      injection hs with hs; subst hs
      have hne : s.t.id ≠ head := by intro e; apply hg; simp [e]
      exact rerootAtEdge_lc p head l1 l2 ub sp s hw hne
  case toOutgroup og sp =>
    simp only [step] at hs
    split at hs
    · cases hs
    · injection hs with hs; subst hs; exact toOutgroup_lc p og sp s hw
  case resolve limit ub =>
    simp only [step] at hs
    split at hs
    · cases hs
    · injection hs with hs; subst hs
      have h1 := (rp_lc p limit s.t (maxId s.t + 1))
      split
      · exact Nat.le_trans h1 (Leaves.encodeStruct_lc p true true ⟨_, s.rooted⟩)
      · exact h1
  case resolveRng limit ub script =>
    simp only [step] at hs
    split at hs
    · cases hs
    · rename_i hlim
      injection hs with hs; subst hs
      have h1 := rpr_lc p limit (by omega) s.t (maxId s.t + 1) script (fun i => wf_cnt hw i)
        (fun i hi => cnt_fresh s.t i (by omega))
      split
      · exact Nat.le_trans h1 (Leaves.encodeStruct_lc p true true ⟨_, s.rooted⟩)
      · exact h1
  case reorient k mode =>
    simp only [step] at hs
    split at hs
    · cases hs
    · rename_i n hn
      injection hs with hs; subst hs
      simp only
      rw [Leaves.rotate_lc]
      split
      · exact toOutgroup_lc p k true s hw
      · rename_i hcond
        -- the drawn node is the seed or an internal node
        have hi : s.t.id = k ∨ Leaves.TargetInternal k s.t := by
          by_cases hroot : s.t.id = k
          · exact Or.inl hroot
          · right
            have hne : n.cs ≠ [] := by
              intro e
              apply hcond
              have : (k != s.t.id) = true := by simp; omega
              simp [e, this]
            exact find_targetInternal k s.t n (wf_cnt hw k) hn hne
        unfold reseedAt
        exact Nat.le_trans (reseedCore_lc' p k true s.t hi)
          (Leaves.encodeStruct_lc p true true ⟨reseedCore k true s.t, s.rooted⟩)
  case setSeed n =>
    simp only [step] at hs
    split at hs
    · cases hs
    · rename_i sub hf
      injection hs with hs; subst hs
      rcases hk with hk | hk
      · have hroot : T.find? n s.t = some s.t := by
          cases hst : s.t with
          | node j x l s' cs => rw [hst] at hk; simp only [T.id] at hk; simp [T.find?, hk]
        rw [hroot] at hf; injection hf with hf; subst hf; exact Nat.le_refl _
      · by_cases hid : s.t.id = n
        · have hroot : T.find? n s.t = some s.t := by
            cases hst : s.t with
            | node j x l s' cs => rw [hst] at hid; simp only [T.id] at hid; simp [T.find?, hid]
          rw [hroot] at hf; injection hf with hf; subst hf; exact Nat.le_refl _
        · have := splice_exact_lc p n (fun _ => []) s.t sub hid hf (wf_cnt hw n)
          show Leaves.lc p s.t ≤ Leaves.lc p sub
          simp at this; omega
  all_goals exact step_keeps_leaves_partial s s' _ p hk hs

/-- non-vacuity: moving clade 4 under leaf… no: under node 1 (`setParent 4 1`) keeps leaf 5 a leaf with its taxon;
removing clade 4 is allowed to lose it (the hypothesis then fails) -/
example : (Op.setParent 4 1).KeepsAll exTree (5, 2) ∧ ¬ (Op.removeChild 0 4 false).KeepsAll exTree (5, 2) := by
  constructor
  · simp [Op.KeepsAll]
  · simp only [Op.KeepsAll]; intro h
    have := h (.node 4 none none none [.node 5 (some 2) none none [], .node 6 (some 3) none none []]) (by rfl)
    revert this; decide
example : ((step { t := exTree, rooted := none } (.setParent 4 1)).toOption.map
    (fun s' => Leaves.lc (5, 2) s'.t)) = some 1 := by decide

/-- (A,B,C,D,E) -/
def exStar : T :=
  .node 0 none none none [.node 1 (some 0) none none [], .node 2 (some 1) none none [], .node 3 (some 2) none none [],
    .node 4 (some 3) none none [], .node 5 (some 4) none none []]

/-- non-vacuity for `resolve_polytomies(limit=2, rng=<scripted>)`: the script `[1, 3, 0]` draws B, E, A out of the star
(C, D stay); A is joined at the node itself (`next_sib is node`: the new node 6 takes over C, D), E at the kept child C
(new node 7 = (C,E), appended last under 6), B at the new node 6 (new node 8 = (6,B), appended last under the node):
result (A,(((D,(C,E)),B))) — pre-order ids and parent of every node; every leaf is still a leaf with its taxon -/
example : ((step { t := exStar, rooted := none } (.resolveRng 2 false [1, 3, 0, 2, 0, 3])).toOption.map
    (fun s' => (ids s'.t, (ids s'.t).map (fun i => parentOf i s'.t), [1, 2, 3, 4, 5].map (fun i => Leaves.lc (i, i - 1) s'.t)))) =
    some ([0, 1, 8, 6, 4, 7, 3, 5, 2], [none, some 0, some 0, some 8, some 6, some 6, some 7, some 7, some 8],
      [1, 1, 1, 1, 1]) := by decide
/-- `limit < 2` is refused; with `limit = 3` two children are drawn and the script may run dry (missing values are 0) -/
example : (step { t := exStar, rooted := none } (.resolveRng 1 false [])).toOption.isNone = true ∧
    ((step { t := exStar, rooted := none } (.resolveRng 3 false [4, 7])).toOption.map (fun s' => ids s'.t)) =
      some [0, 2, 3, 6, 4, 7, 1, 5] := by decide

/-- **Clause (b) for `shuffle_taxa`**: whatever the random draws, the taxa on the leaves afterwards are a
permutation of the taxa on the leaves before (`drawTaxa` is a permutation and `assignTaxa` hands every drawn taxon
to exactly one taxon-bearing leaf) — the multiset of leaf taxa is kept. -/
theorem shuffle_keeps_leaf_taxa (rs : List Nat) (t : T) :
    ((shuffleTaxa rs t).leaves.filterMap T.taxon).Perm (t.leaves.filterMap T.taxon) := by
  unfold shuffleTaxa
  simp only
  have hlen : ((List.range (t.leaves.filterMap T.taxon).length).map (fun k => rs.getD k 0)).length =
      (t.leaves.filterMap T.taxon).length := by simp
  have hp := drawTaxa_perm _ _ hlen
  have hspec := assignTaxa_spec t _ (by show (tl t).length ≤ _; rw [hp.length_eq]; exact Nat.le_refl _)
  show (tl _).Perm (tl t)
  rw [hspec.1]
  have : (tl t).length = (drawTaxa ((List.range (t.leaves.filterMap T.taxon).length).map (fun k => rs.getD k 0))
      (t.leaves.filterMap T.taxon)).length := hp.length_eq.symm
  rw [this, List.take_length]; exact hp

/-- non-vacuity: a shuffle that really moves taxa -/
example : ((shuffleTaxa [0, 0, 0, 0] exTree).leaves.filterMap T.taxon) = [0, 3, 2, 1] := by decide

/-- along a history: every step that completes satisfies `KeepsAll` for `p` on the state it is applied to -/
def KeepsAllAlong (p : Nat × Nat) : List Op → St → Prop
  | [], _ => True
  | op :: ops, s => match step s op with
    | .ok s' => op.KeepsAll s.t p ∧ KeepsAllAlong p ops s'
    | .error _ => KeepsAllAlong p ops s

/-- **Clause (b), identity form, every history.**  Through any finite history over the whole alphabet (shuffle_taxa
excepted), with raising operations in between, started from a tree without shared nodes: a taxon-bearing leaf that no
step was asked to remove (or to hang a child under) is a leaf of the final tree, same node, same taxon. -/
theorem history_keeps_leaves (p : Nat × Nat) : ∀ (ops : List Op) (s : St), WF s.t → (∀ op ∈ ops, op.SubWF) →
    KeepsAllAlong p ops s → Leaves.lc p s.t ≤ Leaves.lc p (run ops s).t
  | [], s, _, _, _ => Nat.le_refl _
  | op :: ops, s, hw, hall, hk => by
      simp only [run]
      simp only [KeepsAllAlong] at hk
      have hop := hall op (by simp)
      have hrest : ∀ o ∈ ops, o.SubWF := fun o ho => hall o (by simp [ho])
      split
      · rename_i s' hs
        rw [hs] at hk
        exact Nat.le_trans (step_keeps_leaves s s' op p hw hk.1 hs)
          (history_keeps_leaves p ops s' (step_wf s s' op hw hop hs) hrest hk.2)
      · rename_i e hs
        rw [hs] at hk
        exact history_keeps_leaves p ops s hw hrest hk

example : KeepsAllAlong (3, 1) [.suppressUnif, .collapseClade 4, .pruneTaxa [2] false true, .ladderize true]
    { t := exTree, rooted := some false } := by
  simp [KeepsAllAlong, step, Op.KeepsAll, Op.Keeps, exTree, containsId, containsIdL, sup, supL]


/-- along a history: every step that completes is one that keeps `p` (judged on the state it is applied to) -/
def KeepsAlong (p : Nat × Nat) : List Op → St → Prop
  | [], _ => True
  | op :: ops, s => match step s op with
    | .ok s' => op.Keeps s.t p ∧ KeepsAlong p ops s'
    | .error _ => KeepsAlong p ops s

/-- **Clause (b), identity form, over whole histories (PARTIAL in the same sense as `step_keeps_leaves_partial`).**
Through any finite history of covered operations none of which was asked to remove the leaf `p`, with operations
that raise in between, `p` stays a leaf of the tree, same node, same taxon. -/
theorem history_keeps_leaves_partial (p : Nat × Nat) : ∀ (ops : List Op) (s : St), KeepsAlong p ops s →
    Leaves.lc p s.t ≤ Leaves.lc p (run ops s).t
  | [], s, _ => Nat.le_refl _
  | op :: ops, s, hk => by
      simp only [run]
      simp only [KeepsAlong] at hk
      split
      · rename_i s' hs
        rw [hs] at hk
        exact Nat.le_trans (step_keeps_leaves_partial s s' op p hk.1 hs) (history_keeps_leaves_partial p ops s' hk.2)
      · rename_i e hs
        rw [hs] at hk
        exact history_keeps_leaves_partial p ops s hk

example : KeepsAlong (3, 1) [.suppressUnif, .pruneTaxa [2] false true, .ladderize true]
    { t := exTree, rooted := some false } := by
  simp [KeepsAlong, step, Op.Keeps]

/-! ## the fuel of the bounded loops suffices -/

/-- `polytomize_root`: with fuel = size of the tree the recursion of `_convert_node_to_root_polytomy` has run to its
end — no further round applies to the result (so the model's bounded loop is the unbounded one) -/
theorem polytomize_fixpoint (t : T) : polyStep (polytomize t.size t) = none :=
  Aux.polytomize_fix t.size t (Nat.le_refl _)

/-- `prune_leaves_without_taxa(recursive=True)` / the pruning loops: with fuel = size of the tree the repeated leaf
removal has reached its fixpoint — another pass removes nothing -/
theorem dropLeavesFix_fixpoint (keep : T → Bool) (t : T) :
    (dropLeaves keep (dropLeavesFix keep t.size t)).size = (dropLeavesFix keep t.size t).size :=
  Aux.dropLeavesFix_fix keep t.size t (Nat.le_refl _)

/-- **No taxon appears from nowhere.**  For every operation except `shuffle_taxa` (which moves taxa on purpose), on a
tree without shared nodes: every node of the result that existed before (id ≤ `maxId`) and carries a taxon carried that
same taxon before — `pc p` counts the nodes that are node `p.1` with taxon `p.2`, at any position. -/
theorem step_no_new_node_taxon (s s' : St) (op : Op) (p : Nat × Nat) (hw : WF s.t)
    (hsh : ∀ rs, op ≠ .shuffleTaxa rs) (hs : step s op = .ok s') (hp : p.1 ≤ maxId s.t) :
    AuxP.pc p s'.t ≤ AuxP.pc p s.t := by
  have hleaf : ∀ x l, AuxP.pc p (leafNode (maxId s.t + 1) x l) = 0 := by
    intro x l
    have := AuxP.pc_le_cnt p (leafNode (maxId s.t + 1) x l)
    rw [cnt_leafNode] at this
    have hne : ¬ maxId s.t + 1 = p.1 := by omega
    simp [hne] at this; exact this
  cases op with
  | removeChild q c sp =>
    simp only [step] at hs
    split at hs
    · cases hs
    · split at hs
      · rename_i t' ht
        injection hs with hs; subst hs
        exact AuxP.removeChild_le q c sp s.t t' hw ht p
      · cases hs
  | newChild q x l =>
    simp only [step] at hs
    split at hs
    · cases hs
    · injection hs with hs; subst hs
      have := AuxP.addChild_cnt q (leafNode (maxId s.t + 1) x l) s.t p
      rw [hleaf] at this; simpa using this
  | insertNewChild q idx x l =>
    simp only [step] at hs
    split at hs
    · cases hs
    · injection hs with hs; subst hs
      have := AuxP.insertChild_cnt q idx (leafNode (maxId s.t + 1) x l) s.t p
      rw [hleaf] at this; simpa using this
  | addSub q sub =>
    simp only [step] at hs
    split at hs
    · cases hs
    · injection hs with hs; subst hs
      have := AuxP.addChild_cnt q (shiftIds (maxId s.t + 1) sub) s.t p
      rw [AuxP.pc_shift_lt _ _ _ (by omega)] at this; simpa using this
  | insertSub q idx sub =>
    simp only [step] at hs
    split at hs
    · cases hs
    · injection hs with hs; subst hs
      have := AuxP.insertChild_cnt q idx (shiftIds (maxId s.t + 1) sub) s.t p
      rw [AuxP.pc_shift_lt _ _ _ (by omega)] at this; simpa using this
  | insertMove q idx c =>
    simp only [step] at hs
    split at hs
    · cases hs
    · injection hs with hs; subst hs; exact AuxP.insertMove_le q idx c s.t p
  | setParent c q =>
    simp only [step] at hs
    split at hs
    · cases hs
    · rename_i sub hf
      split at hs
      · cases hs
      · rename_i hg
        injection hs with hs; subst hs
        have hne : s.t.id ≠ c := by intro e; apply hg; simp [e]
        simp only [setParent, hf]
        exact AuxP.regraft_pc hw hne hf p (Nat.le_refl _)
  | edgeCollapse c adj =>
    simp only [step] at hs
    split at hs
    · cases hs
    · split at hs
      · rename_i t' ht
        injection hs with hs; subst hs
        exact AuxP.edgeCollapse_le c adj s.t t' ht p
      · cases hs
  | collapseClade c =>
    simp only [step] at hs
    split at hs
    · cases hs
    · injection hs with hs; subst hs; exact AuxP.collapseClade_le c s.t p
  | reseedAt target a b =>
    simp only [step] at hs
    split at hs
    · cases hs
    · injection hs with hs; subst hs; exact AuxP.reseedAt_le target a b s p
  | rerootAtNode target ub a b =>
    simp only [step] at hs
    split at hs
    · cases hs
    · injection hs with hs; subst hs; exact AuxP.rerootAtNode_le target ub a b s p
  | rerootAtEdge head l1 l2 ub sp =>
    simp only [step] at hs
    split at hs
    · cases hs
    · rename_i hg
      injection hs with hs; subst hs
      have hne : s.t.id ≠ head := by intro e; apply hg; simp [e]
      unfold rerootAtEdge
      split
      · rename_i tail sub _ hf
        refine Nat.le_trans (AuxP.rerootAtNode_le _ ub sp true _ p) ?_
        apply AuxP.regraft_pc hw hne hf p
        simp
      · exact Nat.le_refl _
  | toOutgroup og sp =>
    simp only [step] at hs
    split at hs
    · cases hs
    · injection hs with hs; subst hs; exact AuxP.toOutgroup_le og sp s p
  | suppressUnif =>
    simp only [step] at hs
    injection hs with hs; subst hs; exact AuxP.sup_le s.t p
  | collapseBasal su =>
    simp only [step] at hs
    injection hs with hs; subst hs; exact AuxP.collapseBasalSt_le su s p
  | polytomize su =>
    simp only [step] at hs
    injection hs with hs; subst hs; exact AuxP.polytomize_le _ s.t p
  | collapseUnweighted thr ub =>
    simp only [step] at hs
    injection hs with hs; subst hs
    split
    · exact Nat.le_trans (AuxP.encodeStruct_le _ _ _ p) (AuxP.cu_le thr s.t p)
    · exact AuxP.cu_le thr s.t p
  | resolve limit ub =>
    simp only [step] at hs
    split at hs
    · cases hs
    · injection hs with hs; subst hs
      have h1 := AuxP.rp_pc limit s.t (maxId s.t + 1) p
      split
      · exact Nat.le_trans (AuxP.encodeStruct_le _ _ _ p) h1
      · exact h1
  | resolveRng limit ub script =>
    simp only [step] at hs
    split at hs
    · cases hs
    · injection hs with hs; subst hs
      have h1 := AuxP.rpr_pc p limit s.t (maxId s.t + 1) script (fun i => wf_cnt hw i)
        (fun i hi => cnt_fresh s.t i (by omega))
      split
      · exact Nat.le_trans (AuxP.encodeStruct_le _ _ _ p) h1
      · exact h1
  | pruneSubtree c ub sp =>
    simp only [step] at hs
    split at hs
    · cases hs
    · unfold pruneSubtree at hs
      split at hs
      · cases hs
      · injection hs with hs; subst hs
        exact Nat.le_trans (AuxP.finish_le _ _ _ p) (AuxP.pruneUp_le _ c s.t p)
  | filterLeaves keep r ub sp =>
    simp only [step] at hs
    unfold filterLeaves at hs
    simp only at hs
    split at hs
    · cases hs
    · rename_i t1 ht
      injection hs with hs; subst hs
      exact Nat.le_trans (AuxP.finish_le _ _ _ p) (AuxP.loop_le _ _ _ _ _ ht p)
  | pruneNoTaxa r ub sp =>
    simp only [step] at hs
    injection hs with hs; subst hs; exact AuxP.pruneNoTaxa_le r ub sp s p
  | pruneTaxa bits ub sp =>
    simp only [step] at hs
    injection hs with hs; subst hs
    exact Nat.le_trans (AuxP.pruneNoTaxa_le _ _ _ _ p) (AuxP.pt_le _ s.t p)
  | retainTaxa bits ub sp =>
    simp only [step] at hs
    injection hs with hs; subst hs
    exact Nat.le_trans (AuxP.pruneNoTaxa_le _ _ _ _ p) (AuxP.pt_le _ s.t p)
  | ladderize asc =>
    simp only [step] at hs
    injection hs with hs; subst hs; exact Nat.le_of_eq (AuxP.sortAll_cnt _ s.t p)
  | reorder =>
    simp only [step] at hs
    injection hs with hs; subst hs; exact Nat.le_of_eq (AuxP.sortAll_cnt _ s.t p)
  | rotate mode =>
    simp only [step] at hs
    injection hs with hs; subst hs; exact Nat.le_of_eq (AuxP.rotate_cnt mode s.t p)
  | shuffleTaxa rs => exact absurd rfl (hsh rs)
  | encode a b =>
    simp only [step] at hs
    injection hs with hs; subst hs; exact AuxP.encodeStruct_le a b s p
  | setSeed n =>
    simp only [step] at hs
    split at hs
    · cases hs
    · rename_i sub hf
      injection hs with hs; subst hs; exact AuxP.find_le n s.t sub hf p
  | reorient k mode =>
    simp only [step] at hs
    split at hs
    · cases hs
    · injection hs with hs; subst hs
      simp only
      rw [AuxP.rotate_cnt]
      split
      · exact AuxP.toOutgroup_le _ _ s p
      · exact AuxP.reseedAt_le _ _ _ s p

/-- **Clause (b), converse direction (no GAIN), under the explicit scope "no internal node carries a taxon".**  On a tree
without shared nodes in which only leaves carry taxa, for every operation except `shuffle_taxa`: no taxon-bearing leaf
appears that was not a taxon-bearing leaf before (same node, same taxon), except on nodes the operation itself created
(`new_child` / `insert_new_child` with a taxon, re-attached subtrees: ids above `maxId`).  With `step_keeps_leaves`
(nothing lost unless asked) this is "the multiset of leaf taxa changes only by the taxa the operation was asked to
remove" — or to add.  WITHOUT the scope hypothesis the statement is false (a taxon-bearing internal node whose children
are all removed becomes a taxon-bearing leaf, in the model and in the library alike); see the report / harness note. -/
theorem step_no_new_leaf (s s' : St) (op : Op) (p : Nat × Nat) (hw : WF s.t) (hin : AuxP.InnerUntaxed s.t)
    (hsh : ∀ rs, op ≠ .shuffleTaxa rs) (hs : step s op = .ok s') :
    Leaves.lc p s'.t ≤ Leaves.lc p s.t ∨ maxId s.t < p.1 := by
  by_cases hp : p.1 ≤ maxId s.t
  · left
    exact Nat.le_trans (AuxP.lc_le_pc p s'.t)
      (Nat.le_trans (step_no_new_node_taxon s s' op p hw hsh hs hp) (AuxP.pc_le_lc p s.t hin))
  · right; omega


/-- non-vacuity: `exTree` is in scope (only leaves carry taxa) … -/
example : AuxP.InnerUntaxed exTree := by simp [AuxP.InnerUntaxed, AuxP.InnerUntaxedL, exTree]
/-- … and the scope hypothesis is what makes the theorem true: a unary seed that carries taxon 7 becomes a taxon-bearing
leaf when the tree is re-seeded at its child (the conclusion fails, the hypothesis too) -/
def exInnerTaxon : T :=
  .node 0 (some 7) none none [.node 1 none none none [.node 2 (some 1) none none [], .node 3 (some 2) none none []]]
example : ¬ AuxP.InnerUntaxed exInnerTaxon := by simp [AuxP.InnerUntaxed, exInnerTaxon]
example : Leaves.lc (0, 7) exInnerTaxon = 0 ∧
    ((step { t := exInnerTaxon, rooted := some true } (.reseedAt 1 false false)).toOption.map
      (fun s' => Leaves.lc (0, 7) s'.t)) = some 1 := by decide
/-- a gain the theorem allows: `new_child` with a taxon creates a taxon-bearing leaf on a fresh id -/
example : ((step { t := exTree, rooted := none } (.newChild 4 (some 9) none)).toOption.map
    (fun s' => (Leaves.lc (7, 9) s'.t, decide (maxId exTree < 7)))) = some (1, true) := by decide


/-- **The edge-inversion chain of `reseed_at` at pointer level.**  On the heap of any tree without shared nodes, for
any target node of the tree: the routine as written — collect the edges by walking up the parent pointers, `Edge.invert`
them from the seed downwards, clear the new seed's parent — does not fail, and the resulting pointer structure
represents exactly the tree-level result of `reseed_at` before its clean-up (`reseedCore target false`): the target is
the parentless root, every node's parent pointer and child list are those of that tree. -/
theorem reseedChain_refines (t : T) (target : Nat) (hw : WF t) (ht : target ∈ ids t) :
    ∃ h', Heap.reseedChain (Heap.ofTree none Heap.empty t) (t.size + 2) target = some h' ∧
      Repr h' none (reseedCore target false t) := by
  have hrep := ofTree_repr t hw
  generalize Heap.ofTree none Heap.empty t = h at hrep
  have hcnt : 1 ≤ cnt target t := by
    have : cnt target t ≠ 0 := by
      intro e; exact (List.count_eq_zero.mp e) ht
    omega
  -- the path exists
  cases hp : pathTo target t with
  | none => have := pathTo_none_cnt target t hp; omega
  | some π =>
    have hlen := pathTo_len target t π hp
    -- what the upward walk collects
    have hpath : Heap.reseedChain.path h (t.size + 2) target [] = π := by
      have hk : t.size + 2 = (t.size + 2 - π.length) + π.length := by omega
      rw [hk, path_up h target t none π hrep hp]
      have hroot : h.par t.id = none := by
        cases t with
        | node i x l s cs => simp only [Repr] at hrep; exact hrep.1
      rw [path_top h _ t.id _ hroot]; simp
    -- the tree-level result
    have hsome : (reseedGo target t.len [] t).isSome = true := by rw [go_isSome, hp]; rfl
    cases hgo : reseedGo target t.len [] t with
    | none => rw [hgo] at hsome; simp at hsome
    | some r =>
      have hr0 : Repr h none (t.withCs (t.cs ++ [])) := by cases t; simpa [T.withCs, T.cs] using hrep
      have hnd0 : (ids (t.withCs (t.cs ++ []))).Nodup := by
        have hw' : (ids t).Nodup := hw
        cases t; simpa [T.withCs, T.cs] using hw'
      obtain ⟨h', hc, hrr⟩ := chainB target t.len t [] h π r hr0 hnd0 hp hgo
      have hrid := reseedGo_id target t.len t [] r hgo
      have hpar : h'.par target = none := by
        cases r with
        | node i x l s cs => simp only [T.id] at hrid; subst hrid; simp only [Repr] at hrr; exact hrr.1
      have hset : Repr (h'.setPar target none) none r := by
        apply HeapAux.agree h' _ none r _ hrr
        intro y _
        by_cases e : y = target
        · subst e; simp [Heap.setPar, hpar]
        · simp [Heap.setPar, e]
      refine ⟨h'.setPar target none, ?_, ?_⟩
      · simp only [Heap.reseedChain, hpath]
        have : List.foldl (fun hh e => hh.bind fun x => x.edgeInvert e) (some h) π = some h' := hc
        rw [this]; rfl
      · -- `reseedCore target false t` is `r` (or `t` itself when the target is the seed, and then `r` is `t` up to lengths)
        unfold reseedCore
        split
        · rename_i e
          cases t with
          | node i x l s cs =>
            have hit : i = target := by simpa [T.id] using e
            subst hit
            simp only [reseedGo, beq_self_eq_true, if_true, List.append_nil] at hgo
            injection hgo with hgo; subst hgo
            simp only [Repr] at hset ⊢; exact hset
        · cases hf : T.find? target t with
          | none => have := find_none_cnt target t hf; omega
          | some n => simp [hgo]; exact hset


/-- the same for `reseed_at(…, collapse_unrooted_basal_bifurcation=False, suppress_unifurcations=False)` as a whole.
PARTIAL: with the clean-up flags switched on, `reseed_at` goes on with `collapse_basal_bifurcation` / `suppress_unifurcations`,
whose pointer-level versions (sequences of `remove_child` / `insert_child` of EXISTING nodes) are not in the heap model;
the tree-level effect of the clean-up is covered by `step_wf` / `step_keeps_leaves` and the per-step correspondence. -/
theorem reseedAt_refines_partial (s : St) (target : Nat) (hw : WF s.t) (ht : target ∈ ids s.t) :
    ∃ h', Heap.reseedChain (Heap.ofTree none Heap.empty s.t) (s.t.size + 2) target = some h' ∧
      Repr h' none (reseedAt target false false s).t := by
  have := reseedChain_refines s.t target hw ht
  simpa [reseedAt, encodeStruct] using this

/-- non-vacuity: re-seeding ((A,B),(C,D)) at leaf C — two inversions; afterwards C (5) is the parentless root with the
single child 4, which lists D (6) and then the old seed 0 -/
example : 5 ∈ ids exTree ∧ (Heap.reseedChain (Heap.ofTree none Heap.empty exTree) (exTree.size + 2) 5).map
    (fun h => (h.par 5, h.ch 5, h.par 4, h.ch 4, h.par 0, h.ch 0)) = some (none, [4], some 5, [6, 0], some 4, [1]) :=
  ⟨by decide, by rfl⟩


/-- `filter_leaf_nodes(recursive=True)`: with the fuel the model gives the loop (size of the tree + 1) it has run to its
end — another pass over the result removes nothing, i.e. every leaf left (other than the seed) is accepted by the filter -/
theorem filterLoop_fixpoint (keep : T → Bool) (t r : T) (h : filterLeaves.loop true keep (t.size + 1) t = .ok r) :
    dropLeaves keep r = r :=
  loop_fix keep (t.size + 1) t r (by omega) h

/-- `prune_subtree`'s climb over emptied ancestors: the fuel the model gives it (size of the tree) suffices — any larger
amount of fuel yields the same tree, so the bounded recursion is the unbounded `while` loop -/
theorem pruneUp_fuel_suffices (c extra : Nat) (t : T) : pruneUp (t.size + extra) c t = pruneUp t.size c t :=
  pruneUp_fuel _ _ c t (by omega) (Nat.le_refl _)


/-- non-vacuity: a filter that rejects A, B and (once it is a leaf) their parent 1 needs three passes on `exTree`; the
loop with the model's fuel reaches the fixpoint; and the climb of `prune_subtree` really climbs (removing leaf 2 of
((A)x,(C,D)) also removes the emptied x) -/
example : (filterLeaves.loop true (fun c => [0, 4, 5, 6].contains c.id) (exTree.size + 1) exTree).toOption.map T.size
    = some 4 := by decide
example : (pruneUp 5 2 (.node 0 none none none [.node 1 none none none [.node 2 (some 0) none none []],
    .node 4 none none none [.node 5 (some 2) none none [], .node 6 (some 3) none none []]])).size = 4 := by decide


/-- `Node.add_child(node)` at pointer level where `node` is the root of a DETACHED SUBTREE `w` (a subtree removed
earlier, as in `addsub`): the heap represents the tree `t` and, separately, the parentless `w`; the two share no node;
`p` is not inside `w`.  Then the resulting heap represents the tree-level `addChild p w t`: `w` hangs as the last child
of `p`, its interior untouched. -/
theorem addChild_subtree_repr (h : Heap) (t w : T) (p : Nat) (hr : Repr h none t) (hrw : Repr h none w) (hw : WF t)
    (hww : WF w) (hdis : ∀ y ∈ ids w, y ∉ ids t) (hpw : p ∉ ids w) (hnot : w.id ∉ h.ch p) :
    Repr (Heap.addChild h p w.id) none (addChild p w t) := by
  cases w with
  | node k x l s cs =>
  simp only [T.id] at hnot ⊢
  have hww' : (ids (T.node k x l s cs)).Nodup := hww
  simp only [ids, List.nodup_cons] at hww'
  simp only [ids, List.mem_cons, not_or] at hpw
  have hk : k ∉ ids t := hdis k (by simp [ids])
  have hkp : k ≠ p := fun e => hpw.1 e.symm
  have hpar : ∀ y, y ≠ k → (Heap.addChild h p k).par y = h.par y := by
    intro y hy; simp [Heap.addChild, hnot, Heap.setPar, Heap.setCh, hy]
  have hch : ∀ y, y ≠ p → (Heap.addChild h p k).ch y = h.ch y := by
    intro y hy; simp [Heap.addChild, hnot, Heap.setPar, Heap.setCh, hy]
  have hw' : Repr (Heap.addChild h p k) (some p) (.node k x l s cs) := by
    simp only [Repr] at hrw ⊢
    refine ⟨by simp [Heap.addChild, hnot, Heap.setPar, Heap.setCh], by rw [hch k hkp]; exact hrw.2.1, ?_⟩
    apply HeapAux.agreeL h _ (some k) cs _ hrw.2.2
    intro y hy
    have hyk : y ≠ k := fun e => hww'.1 (e ▸ hy)
    have hyp : y ≠ p := fun e => hpw.2 (e ▸ hy)
    exact ⟨hpar y hyk, hch y hyp⟩
  unfold addChild
  exact HeapAux.attachSub_repr h _ p k (.node k x l s cs) (fun cs' => cs' ++ [.node k x l s cs]) rfl hw'
    (fun y hy => hpar y hy) (fun y hy _ => hch y hy)
    (by intro cs' hcs
        have e : (Heap.addChild h p k).ch p = h.ch p ++ [k] := by simp [Heap.addChild, hnot, Heap.setPar, Heap.setCh]
        rw [e, hcs]; simp [T.id])
    (by intro hh q cs' h1 h2
        exact HeapAux.reprL_append hh q cs' _ h1 (by simp only [ReprL]; exact ⟨h2, trivial⟩))
    none t hr hw hk


/-- non-vacuity of `addChild_subtree_repr`: one heap holding the tree (0 (1)) and, detached, the subtree (4 (5) (6)) -/
example : let t : T := .node 0 none none none [.node 1 (some 0) none none []]
    let w : T := .node 4 none none none [.node 5 (some 2) none none [], .node 6 (some 3) none none []]
    let h := Heap.ofTree none (Heap.ofTree none Heap.empty t) w
    Repr h none t ∧ Repr h none w ∧ WF t ∧ WF w ∧ (∀ y ∈ ids w, y ∉ ids t) ∧ 1 ∉ ids w ∧ w.id ∉ h.ch 1 ∧
      (Heap.addChild h 1 w.id).ch 1 = [4] := by
  intro t w h
  have hwt : WF t := by unfold WF; decide
  have hww : WF w := by unfold WF; decide
  refine ⟨?_, HeapAux.ofTree_repr_aux w none _ hww, hwt, hww, by decide, by decide, by decide, by decide⟩
  apply HeapAux.agree (Heap.ofTree none Heap.empty t) h none t _ (ofTree_repr t hwt)
  intro y hy
  exact HeapAux.ofTree_outside w none _ y (by revert hy; revert y; decide)

end DendroModel.C03


/-! # heap refinement of the remaining pointer primitives (setter, Edge.collapse, Edge.invert, remove_child suppress branch) -/
namespace DendroModel.C03.AuxH
open DendroModel DendroModel.C03 DendroModel.C03.Aux DendroModel.C03.HeapAux DendroModel.C03.AuxR

/-! ### generic local surgery: `splice c f` against a heap that changed only around `c` -/

mutual
theorem spliceF_notin (c : Nat) (f : T → List T) : ∀ t : T, c ∉ ids t → splice c f t = t
  | .node i tx ln lb cs, h => by
      simp only [ids, List.mem_cons, not_or] at h
      simp [splice, spliceFL_notin c f cs h.2]
theorem spliceFL_notin (c : Nat) (f : T → List T) : ∀ cs : List T, c ∉ idsL cs → spliceL c f cs = cs
  | [], _ => by simp [spliceL]
  | x :: xs, h => by
      simp only [idsL, List.mem_append, not_or] at h
      have hx : x.id ≠ c := fun e => h.1 (e ▸ id_mem_ids x)
      have hb : (x.id == c) = false := by simp [hx]
      simp only [spliceL, hb]
      rw [spliceF_notin c f x h.1, spliceFL_notin c f xs h.2]; rfl
end

/-- the first sibling whose subtree contains `c` -/
theorem mem_idsL_split (c : Nat) : ∀ cs : List T, c ∈ idsL cs →
    ∃ pre x post, cs = pre ++ x :: post ∧ c ∈ ids x ∧ c ∉ idsL pre
  | [], h => by simp [idsL] at h
  | y :: ys, h => by
      by_cases hy : c ∈ ids y
      · exact ⟨[], y, ys, rfl, hy, by simp [idsL]⟩
      · simp only [idsL, List.mem_append] at h
        rcases h with h | h
        · exact absurd h hy
        · obtain ⟨pre, x, post, e, hx, hpre⟩ := mem_idsL_split c ys h
          refine ⟨y :: pre, x, post, by rw [e]; rfl, hx, ?_⟩
          simp only [idsL, List.mem_append, not_or]; exact ⟨hy, hpre⟩

theorem spliceL_decomp (c : Nat) (f : T → List T) (x : T) (post : List T) (hpost : c ∉ idsL post) :
    ∀ pre : List T, c ∉ idsL pre →
    spliceL c f (pre ++ x :: post) = pre ++ (if x.id == c then f x else [splice c f x]) ++ post
  | [], _ => by
      by_cases hb : (x.id == c) = true
      · simp [spliceL, hb]
      · simp [spliceL, hb, spliceFL_notin c f post hpost]
  | y :: ys, h => by
      simp only [idsL, List.mem_append, not_or] at h
      have hy : y.id ≠ c := fun e => h.1 (e ▸ id_mem_ids y)
      have hb : (y.id == c) = false := by simp [hy]
      simp only [List.cons_append, spliceL, hb]
      rw [spliceF_notin c f y h.1, spliceL_decomp c f x post hpost ys h.2]; rfl

theorem size_le_sizeL : ∀ (cs : List T) (x : T), x ∈ cs → x.size ≤ T.sizeL cs
  | [], _, h => by simp at h
  | y :: ys, x, h => by
      simp only [List.mem_cons] at h
      simp only [T.sizeL]
      rcases h with rfl | h
      · omega
      · have := size_le_sizeL ys x h; omega

theorem ids_sub_idsL : ∀ (cs : List T) (x : T), x ∈ cs → ∀ y ∈ ids x, y ∈ idsL cs
  | [], _, h, _, _ => by simp at h
  | z :: zs, x, h, y, hy => by
      simp only [List.mem_cons] at h
      simp only [idsL, List.mem_append]
      rcases h with rfl | h
      · exact Or.inl hy
      · exact Or.inr (ids_sub_idsL zs x h y hy)

/-- what a heap `h'` must satisfy to be "`h` after the children list of `p` was rewritten around its child `c`" -/
structure LocalOK (h h' : Heap) (p c : Nat) (f : T → List T) : Prop where
  far : ∀ x, x ≠ p → x ≠ c → x ∉ h.ch c → h'.par x = h.par x ∧ h'.ch x = h.ch x
  parP : p ≠ c → p ∉ h.ch c → h'.par p = h.par p
  loc : ∀ (pre post : List T) (n : T), n.id = c → ReprL h (some p) (pre ++ n :: post) →
        (p :: idsL (pre ++ n :: post)).Nodup → h.ch p = (pre ++ n :: post).map T.id →
        h'.ch p = (pre ++ f n ++ post).map T.id ∧ ReprL h' (some p) (f n)

theorem repr_root_par (h : Heap) (q : Option Nat) : ∀ t : T, Repr h q t → h.par t.id = q
  | .node _ _ _ _ _, hr => by simp only [Repr] at hr; exact hr.1

theorem repr_root_ch (h : Heap) (q : Option Nat) : ∀ t : T, Repr h q t → h.ch t.id = t.cs.map T.id
  | .node _ _ _ _ _, hr => by simp only [Repr] at hr; exact hr.2.1

theorem spliceG_repr (h h' : Heap) (p c : Nat) (f : T → List T) (ok : LocalOK h h' p c f) (hp : h.par c = some p) :
    ∀ (n : Nat) (q : Option Nat) (t : T), t.size ≤ n → Repr h q t → (ids t).Nodup → c ∈ ids t → c ≠ t.id →
      Repr h' q (splice c f t) := by
  intro n
  induction n with
  | zero => intro q t hs; cases t; simp [T.size] at hs
  | succ n ih =>
    intro q t hs hr hnd hc hne
    cases t with
    | node i tx ln lb cs =>
    simp only [T.size] at hs
    simp only [ids, List.nodup_cons] at hnd
    simp only [ids, List.mem_cons] at hc
    simp only [T.id] at hne
    have hcL : c ∈ idsL cs := by rcases hc with rfl | hc; exact absurd rfl hne; exact hc
    obtain ⟨pre, x, post, e, hcx, hcpre⟩ := mem_idsL_split c cs hcL
    subst e
    simp only [Repr] at hr
    obtain ⟨hpi, hchi, hrl⟩ := hr
    have hsp := reprL_split h (some i) pre (x :: post) hrl
    have hrx : Repr h (some i) x := by have := hsp.2; simp only [ReprL] at this; exact this.1
    have hrpost : ReprL h (some i) post := by have := hsp.2; simp only [ReprL] at this; exact this.2
    have hnd2 := hnd.2
    simp only [idsL_append, idsL] at hnd2
    have hi_all := hnd.1
    simp only [idsL_append, idsL, List.mem_append, not_or] at hi_all
    have hdis1 : ∀ a ∈ idsL pre, ∀ b ∈ ids x ++ idsL post, a ≠ b := (List.nodup_append.mp hnd2).2.2
    have hnd_rest := (List.nodup_append.mp hnd2).2.1
    have hndx := (List.nodup_append.mp hnd_rest).1
    have hdis2 : ∀ a ∈ ids x, ∀ b ∈ idsL post, a ≠ b := (List.nodup_append.mp hnd_rest).2.2
    have hcpost : c ∉ idsL post := fun hm => hdis2 c hcx c hm rfl
    have hic : i ≠ c := fun e => hi_all.2.1 (e ▸ hcx)
    -- the children of `c` live inside `x`
    have hchc : ∀ y ∈ h.ch c, y ∈ ids x := fun y hy => ch_sub_ids h (some i) x hrx c hcx y hy
    have hi_chc : i ∉ h.ch c := fun hm => hi_all.2.1 (hchc i hm)
    simp only [splice, Repr]
    rw [spliceL_decomp c f x post hcpost pre hcpre]
    by_cases hxc : x.id = c
    · -- `c` is this child: `p = i`
      have hpi' : p = i := by
        have := repr_root_par h (some i) x hrx
        rw [hxc, hp] at this; exact Option.some.inj this
      subst hpi'
      have hb : (x.id == c) = true := by simp [hxc]
      simp only [hb, if_true]
      have hndall : (p :: idsL (pre ++ x :: post)).Nodup := List.nodup_cons.mpr hnd
      obtain ⟨hch', hrf⟩ := ok.loc pre post x hxc hrl hndall hchi
      refine ⟨by rw [ok.parP hic hi_chc]; exact hpi, hch', ?_⟩
      apply reprL_append
      · apply reprL_append
        · apply agreeL h h' (some p) pre _ hsp.1
          intro y hy
          have hyp : y ≠ p := fun e => hi_all.1 (e ▸ hy)
          have hyc : y ≠ c := fun e => hcpre (e ▸ hy)
          have hych : y ∉ h.ch c := fun hm => hdis1 y hy y (List.mem_append_left _ (hchc y hm)) rfl
          exact ok.far y hyp hyc hych
        · exact hrf
      · apply agreeL h h' (some p) post _ hrpost
        intro y hy
        have hyp : y ≠ p := fun e => hi_all.2.2 (e ▸ hy)
        have hyc : y ≠ c := fun e => hcpost (e ▸ hy)
        have hych : y ∉ h.ch c := fun hm => hdis2 y (hchc y hm) y hy rfl
        exact ok.far y hyp hyc hych
    · -- `c` strictly inside `x`
      have hb : (x.id == c) = false := by simp [hxc]
      simp only [hb, Bool.false_eq_true, if_false]
      have hcne : c ≠ x.id := fun e => hxc e.symm
      have hpx : p ∈ ids x := parent_in h c p (some i) x hrx hcx hcne hp
      have hip : i ≠ p := fun e => hi_all.2.1 (e ▸ hpx)
      have hxs : x.size ≤ n := by
        have := size_le_sizeL (pre ++ x :: post) x (by simp); omega
      have hrx' := ih (some i) x hxs hrx hndx hcx hcne
      have hfi := ok.far i hip hic hi_chc
      refine ⟨by rw [hfi.1]; exact hpi, ?_, ?_⟩
      · rw [hfi.2, hchi]; simp [splice_id]
      · apply reprL_append
        · apply reprL_append
          · apply agreeL h h' (some i) pre _ hsp.1
            intro y hy
            have hyp : y ≠ p := fun e => hdis1 y hy y (List.mem_append_left _ (e ▸ hpx)) rfl
            have hyc : y ≠ c := fun e => hcpre (e ▸ hy)
            have hych : y ∉ h.ch c := fun hm => hdis1 y hy y (List.mem_append_left _ (hchc y hm)) rfl
            exact ok.far y hyp hyc hych
          · simp only [ReprL, and_true]; exact hrx'
        · apply agreeL h h' (some i) post _ hrpost
          intro y hy
          have hyp : y ≠ p := fun e => hdis2 y (e ▸ hpx) y hy rfl
          have hyc : y ≠ c := fun e => hcpost (e ▸ hy)
          have hych : y ∉ h.ch c := fun hm => hdis2 y (hchc y hm) y hy rfl
          exact ok.far y hyp hyc hych

/-! ### the subtree found at `c` is represented where it hangs -/

theorem mem_iff_cnt (c : Nat) (t : T) : c ∈ ids t ↔ 1 ≤ cnt c t := by
  simp [cnt, List.one_le_count_iff]

theorem find_self (c : Nat) : ∀ x : T, x.id = c → T.find? c x = some x
  | .node j a b d e, hx => by simp only [T.id] at hx; simp [T.find?, hx]

mutual
theorem find_sub (h : Heap) (c : Nat) : ∀ (q : Option Nat) (t sub : T), Repr h q t → (ids t).Nodup →
    T.find? c t = some sub → c ≠ t.id →
    ∃ p, h.par c = some p ∧ Repr h (some p) sub ∧ p ∉ ids sub ∧ p ∈ ids t ∧ (ids sub).Nodup
  | q, .node i tx ln lb cs, sub, hr, hnd, hf, hne => by
      simp only [T.id] at hne
      have hci : (c == i) = false := by simp [hne]
      simp only [T.find?, hci] at hf
      simp only [ids, List.nodup_cons] at hnd
      simp only [Repr] at hr
      obtain ⟨p, h1, h2, h3, h4, h5⟩ := findL_sub h c i cs sub hr.2.2 hnd.1 hnd.2 hf
      refine ⟨p, h1, h2, h3, ?_, h5⟩
      simp only [ids, List.mem_cons]
      rcases h4 with e | h4
      · exact Or.inl e
      · exact Or.inr h4
theorem findL_sub (h : Heap) (c : Nat) : ∀ (i : Nat) (cs : List T) (sub : T), ReprL h (some i) cs →
    i ∉ idsL cs → (idsL cs).Nodup → T.findL? c cs = some sub →
    ∃ p, h.par c = some p ∧ Repr h (some p) sub ∧ p ∉ ids sub ∧ (p = i ∨ p ∈ idsL cs) ∧ (ids sub).Nodup
  | _, [], _, _, _, _, hf => by simp [T.findL?] at hf
  | i, x :: xs, sub, hr, hi, hnd, hf => by
      simp only [idsL, List.mem_append, not_or] at hi
      simp only [idsL] at hnd
      have hndx := (List.nodup_append.mp hnd).1
      have hndxs := (List.nodup_append.mp hnd).2.1
      simp only [ReprL] at hr
      simp only [T.findL?] at hf
      by_cases hx : x.id = c
      · rw [find_self c x hx] at hf
        injection hf with hf; subst hf
        have hpar := repr_root_par h (some i) x hr.1
        rw [hx] at hpar
        exact ⟨i, hpar, hr.1, hi.1, Or.inl rfl, hndx⟩
      · split at hf
        · rename_i r hfr
          injection hf with hf; subst hf
          obtain ⟨p, h1, h2, h3, h4, h5⟩ := find_sub h c (some i) x r hr.1 hndx hfr (fun e => hx e.symm)
          exact ⟨p, h1, h2, h3, Or.inr (by simp only [idsL, List.mem_append]; exact Or.inl h4), h5⟩
        · obtain ⟨p, h1, h2, h3, h4, h5⟩ := findL_sub h c i xs sub hr.2 hi.2 hndxs hf
          refine ⟨p, h1, h2, h3, ?_, h5⟩
          rcases h4 with e | h4
          · exact Or.inl e
          · exact Or.inr (by simp only [idsL, List.mem_append]; exact Or.inr h4)
end

/-- after `remove_child`, the removed subtree is represented on its own, parentless -/
theorem detached_repr (h : Heap) (p c : Nat) (sub : T) (hs : Repr h (some p) sub) (hid : sub.id = c)
    (hp : p ∉ ids sub) (hnd : (ids sub).Nodup) : Repr (rmHeap h p c) none sub := by
  cases sub with
  | node j tx ln lb cs =>
  simp only [T.id] at hid; subst hid
  simp only [ids, List.mem_cons, not_or] at hp
  simp only [ids, List.nodup_cons] at hnd
  simp only [Repr] at hs ⊢
  refine ⟨by simp [rmHeap], ?_, frameL h p j (some j) cs hnd.1 hp.2 hs.2.2⟩
  have : j ≠ p := fun e => hp.1 e.symm
  simp [rmHeap, this, hs.2.1]

end DendroModel.C03.AuxH

namespace DendroModel.C03.AuxH
open DendroModel DendroModel.C03 DendroModel.C03.Aux DendroModel.C03.HeapAux DendroModel.C03.AuxR

/-- the managed setter is "remove from the old parent, then `add_child` under the new one" -/
theorem setParent_eq (h : Heap) (c p q : Nat) (hp : h.par c = some p) :
    Heap.setParent h c (some q) = Heap.addChild (rmHeap h p c) q c := by
  have e1 : (fun y => if y = c then some q else if y = c then none else h.par y) =
      (fun y => if y = c then some q else h.par y) := by
    funext y; by_cases hy : y = c <;> simp [hy]
  simp only [Heap.setParent, hp, Heap.addChild, rmHeap, Heap.setPar, Heap.setCh, e1]

theorem setParent_repr_aux (h : Heap) (t sub : T) (c q : Nat) (hr : Repr h none t) (hw : WF t)
    (hf : T.find? c t = some sub) (hne : c ≠ t.id) (hq : q ∈ ids t) (hqs : q ∉ ids sub) :
    Repr (Heap.setParent h c (some q)) none (setParent c q t) := by
  obtain ⟨p, hp, hsub, hps, _, hnds⟩ := find_sub h c none t sub hr hw hf hne
  have hc : c ∈ ids t := (mem_iff_cnt c t).2 (find_pos c t sub hf)
  have hr1 : Repr (rmHeap h p c) none (splice c (fun _ => []) t) := spliceNil_repr h p c none t hr hw hc hne hp
  have hid : sub.id = c := find_id c t sub hf
  have hrs : Repr (rmHeap h p c) none sub := detached_repr h p c sub hsub hid hps hnds
  have hex := Aux.splice_exact c (fun _ => []) t sub (fun e => hne e.symm) hf (wf_cnt hw c)
  have hw1 : WF (splice c (fun _ => []) t) := wf_of_le hw (fun i => by have := hex i; simp at this; omega)
  have hdis : ∀ y ∈ ids sub, y ∉ ids (splice c (fun _ => []) t) := by
    intro y hy hy1
    have h1 := (mem_iff_cnt y sub).1 hy
    have h2 := (mem_iff_cnt y _).1 hy1
    have := hex y; have := wf_cnt hw y; simp at *; omega
  have hq1 : q ∈ ids (splice c (fun _ => []) t) := by
    rw [mem_iff_cnt] at hq ⊢
    have h0 : cnt q sub = 0 := by
      cases hh : cnt q sub with
      | zero => rfl
      | succ k => exact absurd ((mem_iff_cnt q sub).2 (by omega)) hqs
    have := hex q; simp at this; omega
  have hnot : sub.id ∉ (rmHeap h p c).ch q := by
    intro hm
    have := ch_sub_ids _ none _ hr1 q hq1 sub.id hm
    exact hdis sub.id (id_mem_ids sub) this
  have hmain := addChild_subtree_repr (rmHeap h p c) (splice c (fun _ => []) t) sub q hr1 hrs hw1 hnds hdis hqs hnot
  rw [setParent_eq h c p q hp]
  simp only [setParent, hf]
  rw [hid] at hmain
  exact hmain

end DendroModel.C03.AuxH

namespace DendroModel.C03.AuxH
open DendroModel DendroModel.C03 DendroModel.C03.Aux DendroModel.C03.HeapAux DendroModel.C03.AuxR

/-! ### `Edge.collapse` -/

/-- the insertion loop of `Edge.collapse`: `for child in children: parent.insert_child(pos, child); pos += 1` -/
def foldIns (p : Nat) (ks : List Nat) (h : Heap) (pos : Nat) : Heap :=
  (ks.foldl (fun (acc : Heap × Nat) c => (Heap.insertChild acc.1 p acc.2 c, acc.2 + 1)) (h, pos)).1

theorem foldIns_nil (p : Nat) (h : Heap) (pos : Nat) : foldIns p [] h pos = h := rfl
theorem foldIns_cons (p k : Nat) (ks : List Nat) (h : Heap) (pos : Nat) :
    foldIns p (k :: ks) h pos = foldIns p ks (Heap.insertChild h p pos k) (pos + 1) := rfl

theorem insertChild_absent (h : Heap) (p k : Nat) (X Y : List Nat) (hch : h.ch p = X ++ Y) (hk : k ∉ X ∧ k ∉ Y) :
    (Heap.insertChild h p X.length k).ch p = (X ++ [k]) ++ Y ∧
    (∀ y, y ≠ p → (Heap.insertChild h p X.length k).ch y = h.ch y) ∧
    (Heap.insertChild h p X.length k).par k = some p ∧
    (∀ y, y ≠ k → (Heap.insertChild h p X.length k).par y = h.par y) := by
  have hc : (h.ch p).idxOf? k = none := by
    rw [List.idxOf?_eq_none_iff, hch]; simp [hk.1, hk.2]
  have hc' : List.idxOf? k (X ++ Y) = none := hch ▸ hc
  refine ⟨?_, ?_, ?_, ?_⟩
  · simp [Heap.insertChild, hch, hc', Heap.setPar, Heap.setCh, Heap.insertAtN]
  · intro y hy; simp [Heap.insertChild, hc, Heap.setPar, Heap.setCh, hy]
  · simp [Heap.insertChild, hc, Heap.setPar, Heap.setCh]
  · intro y hy; simp [Heap.insertChild, hc, Heap.setPar, Heap.setCh, hy]

theorem foldIns_spec (p : Nat) : ∀ (ks : List Nat) (h : Heap) (X Y : List Nat), h.ch p = X ++ Y →
    (∀ k ∈ ks, k ∉ X ∧ k ∉ Y) → ks.Nodup →
    (foldIns p ks h X.length).ch p = X ++ ks ++ Y ∧
    (∀ y, y ≠ p → (foldIns p ks h X.length).ch y = h.ch y) ∧
    (∀ k ∈ ks, (foldIns p ks h X.length).par k = some p) ∧
    (∀ y, y ∉ ks → (foldIns p ks h X.length).par y = h.par y)
  | [], h, X, Y, hch, _, _ => by simp [foldIns_nil, hch]
  | k :: ks, h, X, Y, hch, hk, hnd => by
      have hk0 := hk k (by simp)
      obtain ⟨a1, a2, a3, a4⟩ := insertChild_absent h p k X Y hch hk0
      have hnd' := List.nodup_cons.mp hnd
      have hks : ∀ k' ∈ ks, k' ∉ X ++ [k] ∧ k' ∉ Y := by
        intro k' hk'
        have := hk k' (by simp [hk'])
        have hne : k' ≠ k := fun e => hnd'.1 (e ▸ hk')
        simp [this.1, this.2, hne]
      have ih := foldIns_spec p ks (Heap.insertChild h p X.length k) (X ++ [k]) Y a1 hks hnd'.2
      have hlen : (X ++ [k]).length = X.length + 1 := by simp
      rw [hlen] at ih
      rw [foldIns_cons]
      obtain ⟨b1, b2, b3, b4⟩ := ih
      refine ⟨by rw [b1]; simp, fun y hy => by rw [b2 y hy, a2 y hy], ?_, ?_⟩
      · intro k' hk'
        simp only [List.mem_cons] at hk'
        rcases hk' with rfl | hk'
        · rw [b4 k' hnd'.1]; exact a3
        · exact b3 k' hk'
      · intro y hy
        simp only [List.mem_cons, not_or] at hy
        rw [b4 y hy.2, a4 y hy.1]

theorem idxOf_mid (c : Nat) (B : List Nat) : ∀ A : List Nat, c ∉ A → (A ++ c :: B).idxOf? c = some A.length
  | [], _ => by simp [List.idxOf?_cons]
  | a :: A, h => by
      simp only [List.mem_cons, not_or] at h
      have hne : a ≠ c := fun e => h.1 e.symm
      simp [List.idxOf?_cons, hne, idxOf_mid c B A h.2]

theorem map_id_sublist : ∀ cs : List T, (cs.map T.id).Sublist (idsL cs)
  | [] => by simp [idsL]
  | x :: xs => by
      cases x with
      | node i a b d e =>
        simp only [List.map_cons, T.id, idsL, ids, List.cons_append]
        exact List.Sublist.cons_cons _ ((map_id_sublist xs).trans (List.sublist_append_right _ _))

theorem kid_ne_desc : ∀ (cs : List T), (idsL cs).Nodup → ∀ (ch : T) (x k : Nat), ch ∈ cs → x ∈ idsL ch.cs →
    k ∈ cs.map T.id → x ≠ k
  | [], _, _, _, _, hch, _, _ => by simp at hch
  | z :: zs, hnd, ch, x, k, hch, hx, hk => by
      simp only [idsL] at hnd
      have hndz := (List.nodup_append.mp hnd).1
      have hndzs := (List.nodup_append.mp hnd).2.1
      have hdis : ∀ a ∈ ids z, ∀ b ∈ idsL zs, a ≠ b := (List.nodup_append.mp hnd).2.2
      simp only [List.mem_cons] at hch
      simp only [List.map_cons, List.mem_cons] at hk
      have hxch : x ∈ ids ch := by cases ch; simp only [T.cs] at hx; simp [ids, hx]
      rcases hch with rfl | hch
      · rcases hk with rfl | hk
        · cases ch with
          | node i a b d e =>
            simp only [T.cs] at hx
            simp only [ids, List.nodup_cons] at hndz
            simp only [T.id]
            intro e1; exact hndz.1 (e1 ▸ hx)
        · exact hdis x hxch k (map_id_sub_idsL zs k hk)
      · have hx' : x ∈ idsL zs := ids_sub_idsL zs ch hch x hxch
        rcases hk with rfl | hk
        · exact fun e1 => hdis z.id (id_mem_ids z) x hx' e1.symm
        · exact kid_ne_desc zs hndzs ch x k hch hx hk

/-- a represented subtree stays represented (under a possibly new parent) when only its root's parent pointer changed -/
theorem repr_reparent (h h' : Heap) (q q' : Option Nat) : ∀ u : T, Repr h q u →
    (∀ x ∈ idsL u.cs, h'.par x = h.par x ∧ h'.ch x = h.ch x) → h'.par u.id = q' → h'.ch u.id = h.ch u.id →
    Repr h' q' u
  | .node j a b d e, hr, hag, hp, hc => by
      simp only [T.id, T.cs] at hag hp hc
      simp only [Repr] at hr ⊢
      exact ⟨hp, by rw [hc]; exact hr.2.1, agreeL h h' (some j) e hag hr.2.2⟩

theorem withLen_repr (h : Heap) (q : Option Nat) (l : Option Frac) : ∀ u : T, Repr h q u → Repr h q (u.withLen l)
  | .node j a b d e, hr => by simp only [T.withLen, Repr] at hr ⊢; exact hr

/-- the children handed over by `Edge.collapse` (with whatever new lengths `g` gives them) are represented under `p` -/
theorem kids_repr (h h' : Heap) (p : Nat) (g : T → Option Frac) (all : List T)
    (hpar : ∀ k ∈ all.map T.id, h'.par k = some p)
    (hch : ∀ k ∈ all.map T.id, h'.ch k = h.ch k)
    (hdeep : ∀ ch ∈ all, ∀ x ∈ idsL ch.cs, h'.par x = h.par x ∧ h'.ch x = h.ch x) (c : Nat) :
    ∀ cs : List T, (∀ ch ∈ cs, ch ∈ all) → ReprL h (some c) cs →
      ReprL h' (some p) (cs.map (fun ch => ch.withLen (g ch)))
  | [], _, _ => by simp [ReprL]
  | x :: xs, hsub, hr => by
      simp only [ReprL] at hr
      simp only [List.map_cons, ReprL]
      have hx : x ∈ all := hsub x (by simp)
      have hxid : x.id ∈ all.map T.id := List.mem_map.mpr ⟨x, hx, rfl⟩
      refine ⟨withLen_repr h' (some p) _ x ?_, kids_repr h h' p g all hpar hch hdeep c xs
        (fun ch hc => hsub ch (by simp [hc])) hr.2⟩
      exact repr_reparent h h' (some c) (some p) x hr.1 (hdeep x hx) (hpar _ hxid) (hch _ hxid)

theorem collapseKids_eq (adjust : Bool) (n : T) :
    collapseKids adjust n = n.cs.map (fun ch => ch.withLen (if adjust then addLen ch.len n.len else ch.len)) := by
  unfold collapseKids
  apply List.map_congr_left
  intro ch _
  cases adjust
  · cases ch; rfl
  · rfl

theorem map_id_withLen (g : T → Option Frac) (cs : List T) : (cs.map (fun ch => ch.withLen (g ch))).map T.id = cs.map T.id := by
  simp [List.map_map, Function.comp_def]

/-- the heap `Edge.collapse` produces -/
def colHeap (h : Heap) (p c : Nat) : Heap :=
  foldIns p (h.ch c) (rmHeap h p c) (((h.ch p).idxOf? c).getD 0)

theorem edgeCollapse_eq (h : Heap) (p c : Nat) (hp : h.par c = some p) (hne : (h.ch c).isEmpty = false)
    (hl : c ∈ h.ch p) : Heap.edgeCollapse h c = some (colHeap h p c) := by
  simp only [Heap.edgeCollapse, hp, hne, removeChild_eq h p c hl]
  rfl

theorem insertChild_far (h : Heap) (p idx k : Nat) :
    (∀ y, y ≠ p → (Heap.insertChild h p idx k).ch y = h.ch y) ∧
    (∀ y, y ≠ k → (Heap.insertChild h p idx k).par y = h.par y) := by
  unfold Heap.insertChild
  cases (h.ch p).idxOf? k with
  | none => exact ⟨fun y hy => by simp [Heap.setPar, Heap.setCh, hy], fun y hy => by simp [Heap.setPar, Heap.setCh, hy]⟩
  | some cur =>
    by_cases e : (cur == idx) = true
    · exact ⟨fun y _ => by simp [e, Heap.setPar], fun y hy => by simp [e, Heap.setPar, hy]⟩
    · exact ⟨fun y hy => by simp [e, Heap.setPar, Heap.setCh, hy], fun y hy => by simp [e, Heap.setPar, Heap.setCh, hy]⟩

theorem foldIns_far (p : Nat) : ∀ (ks : List Nat) (h : Heap) (pos : Nat),
    (∀ y, y ≠ p → (foldIns p ks h pos).ch y = h.ch y) ∧ (∀ y, y ∉ ks → (foldIns p ks h pos).par y = h.par y)
  | [], h, pos => by simp [foldIns_nil]
  | k :: ks, h, pos => by
      have ih := foldIns_far p ks (Heap.insertChild h p pos k) (pos + 1)
      have hf := insertChild_far h p pos k
      rw [foldIns_cons]
      refine ⟨fun y hy => by rw [ih.1 y hy, hf.1 y hy], ?_⟩
      intro y hy
      simp only [List.mem_cons, not_or] at hy
      rw [ih.2 y hy.2, hf.2 y hy.1]

theorem colHeap_ok (h : Heap) (p c : Nat) (adj : Bool) : LocalOK h (colHeap h p c) p c (collapseKids adj) where
  far := by
    intro x hxp hxc hxk
    have hf := foldIns_far p (h.ch c) (rmHeap h p c) (((h.ch p).idxOf? c).getD 0)
    unfold colHeap
    rw [hf.1 x hxp, hf.2 x hxk]
    simp [rmHeap, hxp, hxc]
  parP := by
    intro hpc hpk
    have hf := foldIns_far p (h.ch c) (rmHeap h p c) (((h.ch p).idxOf? c).getD 0)
    unfold colHeap
    rw [hf.2 p hpk]
    simp [rmHeap, hpc]
  loc := by
    intro pre post n hn hrl hnd hch
    have hsp := reprL_split h (some p) pre (n :: post) hrl
    have hrn : Repr h (some p) n := by have := hsp.2; simp only [ReprL] at this; exact this.1
    -- distinctness
    have hnd' := List.nodup_cons.mp hnd
    have hp_all := hnd'.1
    have hnd2 := hnd'.2
    simp only [idsL_append, idsL] at hnd2 hp_all
    simp only [List.mem_append, not_or] at hp_all
    have hdis1 : ∀ a ∈ idsL pre, ∀ b ∈ ids n ++ idsL post, a ≠ b := (List.nodup_append.mp hnd2).2.2
    have hnd_rest := (List.nodup_append.mp hnd2).2.1
    have hndn := (List.nodup_append.mp hnd_rest).1
    have hdis2 : ∀ a ∈ ids n, ∀ b ∈ idsL post, a ≠ b := (List.nodup_append.mp hnd_rest).2.2
    have hcn : c ∈ ids n := hn ▸ id_mem_ids n
    have hc_pre : c ∉ pre.map T.id := fun hm => hdis1 c (map_id_sub_idsL pre c hm) c (List.mem_append_left _ hcn) rfl
    have hchc : h.ch c = n.cs.map T.id := by rw [← hn]; exact repr_root_ch h (some p) n hrn
    have hkn : ∀ k ∈ n.cs.map T.id, k ∈ ids n := by
      intro k hk; cases n with
      | node j a b d e => simp only [T.cs] at hk; simp [ids, map_id_sub_idsL e k hk]
    have hndL : (idsL n.cs).Nodup := by
      cases n with
      | node j a b d e => simp only [ids, List.nodup_cons] at hndn; exact hndn.2
    -- the child list of `p`
    have hch' : h.ch p = pre.map T.id ++ c :: post.map T.id := by rw [hch]; simp [hn]
    have hpos : ((h.ch p).idxOf? c).getD 0 = (pre.map T.id).length := by rw [hch', idxOf_mid c _ _ hc_pre]; rfl
    have hrm : (rmHeap h p c).ch p = pre.map T.id ++ post.map T.id := by
      simp only [rmHeap, if_true]; rw [hch', erase_mid _ _ c hc_pre]
    have hks : ∀ k ∈ h.ch c, k ∉ pre.map T.id ∧ k ∉ post.map T.id := by
      intro k hk; rw [hchc] at hk
      exact ⟨fun hm => hdis1 k (map_id_sub_idsL pre k hm) k (List.mem_append_left _ (hkn k hk)) rfl,
             fun hm => hdis2 k (hkn k hk) k (map_id_sub_idsL post k hm) rfl⟩
    have hksnd : (h.ch c).Nodup := by rw [hchc]; exact (map_id_sublist n.cs).nodup hndL
    obtain ⟨s1, s2, s3, s4⟩ := foldIns_spec p (h.ch c) (rmHeap h p c) _ _ hrm hks hksnd
    unfold colHeap
    rw [hpos]
    refine ⟨?_, ?_⟩
    · rw [s1, hchc, collapseKids_eq]; simp
    · rw [collapseKids_eq]
      have hp_n : p ∉ ids n := hp_all.2.1
      apply kids_repr h _ p _ n.cs _ _ _ c n.cs (fun _ hc => hc)
      · cases n with
        | node j a b d e => simp only [Repr] at hrn; simp only [T.id] at hn; subst hn; exact hrn.2.2
      · intro k hk; exact s3 k (hchc ▸ hk)
      · intro k hk
        have hkp : k ≠ p := fun e => hp_n (e ▸ hkn k hk)
        rw [s2 k hkp]; simp [rmHeap, hkp]
      · intro ch hch0 x hx
        have hxn : x ∈ ids n := by
          cases n with
          | node j a b d e =>
            simp only [T.cs] at hch0
            have : x ∈ ids ch := by cases ch; simp only [T.cs] at hx; simp [ids, hx]
            simp [ids, ids_sub_idsL e ch hch0 x this]
        have hxp : x ≠ p := fun e => hp_n (e ▸ hxn)
        have hxk : x ∉ h.ch c := by
          rw [hchc]; intro hm; exact kid_ne_desc n.cs hndL ch x x hch0 hx hm rfl
        have hxc : x ≠ c := by
          intro e
          cases n with
          | node j a b d e' =>
            simp only [T.id] at hn; subst hn
            simp only [T.cs] at hch0
            have : x ∈ idsL e' := by
              have : x ∈ ids ch := by cases ch; simp only [T.cs] at hx; simp [ids, hx]
              exact ids_sub_idsL e' ch hch0 x this
            simp only [ids, List.nodup_cons] at hndn
            exact hndn.1 (e ▸ this)
        rw [s2 x hxp, s4 x hxk]
        simp [rmHeap, hxp, hxc]

end DendroModel.C03.AuxH

namespace DendroModel.C03.AuxH
open DendroModel DendroModel.C03 DendroModel.C03.Aux DendroModel.C03.HeapAux DendroModel.C03.AuxR

theorem root_notin_kids (n : T) (hnd : (ids n).Nodup) : n.id ∉ n.cs.map T.id := by
  cases n with
  | node j a b d e =>
    simp only [ids, List.nodup_cons] at hnd
    simp only [T.id, T.cs]
    exact fun hm => hnd.1 (map_id_sub_idsL e j hm)

theorem edgeCollapse_repr_aux (h : Heap) (t n : T) (c : Nat) (adj : Bool) (hr : Repr h none t) (hw : WF t)
    (hf : T.find? c t = some n) (hne : c ≠ t.id) (hk : n.cs.isEmpty = false) :
    ∃ h', Heap.edgeCollapse h c = some h' ∧ Repr h' none (splice c (collapseKids adj) t) ∧ h'.par c = none := by
  obtain ⟨p, hp, hsub, _, _, hnds⟩ := find_sub h c none t n hr hw hf hne
  have hc : c ∈ ids t := (mem_iff_cnt c t).2 (find_pos c t n hf)
  have hid : n.id = c := find_id c t n hf
  have hchc : h.ch c = n.cs.map T.id := by rw [← hid]; exact repr_root_ch h (some p) n hsub
  have hl : c ∈ h.ch p := child_listed h c p none t hr hc hne hp
  have hne' : (h.ch c).isEmpty = false := by
    rw [hchc]; cases hcs : n.cs with
    | nil => rw [hcs] at hk; simp at hk
    | cons a b => simp
  refine ⟨colHeap h p c, edgeCollapse_eq h p c hp hne' hl, ?_, ?_⟩
  · exact spliceG_repr h _ p c _ (colHeap_ok h p c adj) hp t.size none t (Nat.le_refl _) hr hw hc hne
  · have hf2 := foldIns_far p (h.ch c) (rmHeap h p c) (((h.ch p).idxOf? c).getD 0)
    have hck : c ∉ h.ch c := by rw [hchc, ← hid]; exact root_notin_kids n hnds
    unfold colHeap
    rw [hf2.2 c hck]; simp [rmHeap]

end DendroModel.C03.AuxH

namespace DendroModel.C03.AuxH
open DendroModel DendroModel.C03 DendroModel.C03.Aux DendroModel.C03.HeapAux DendroModel.C03.AuxR

theorem addChild_far (h : Heap) (s n : Nat) :
    (∀ y, y ≠ n → (Heap.addChild h s n).par y = h.par y) ∧ (Heap.addChild h s n).par n = some s ∧
    (∀ y, y ≠ s → (Heap.addChild h s n).ch y = h.ch y) := by
  unfold Heap.addChild
  by_cases e : (h.ch s).contains n = true
  · simp only [e, if_true]
    exact ⟨fun y hy => by simp [Heap.setPar, hy], by simp [Heap.setPar], fun y _ => by simp [Heap.setPar]⟩
  · simp only [e]
    exact ⟨fun y hy => by simp [Heap.setPar, Heap.setCh, hy], by simp [Heap.setPar, Heap.setCh],
      fun y hy => by simp [Heap.setPar, Heap.setCh, hy]⟩

/-- `Edge.invert` away from the seed: the grandparent now lists the old head, whose parent pointer was cleared -/
theorem edgeInvert_inner (h : Heap) (head tail g : Nat) (hpt : h.par head = some tail) (hpg : h.par tail = some g)
    (hg : tail ∈ h.ch g) (hl : head ∈ h.ch tail) (hgt : g ≠ tail) (hgh : g ≠ head) (hht : head ≠ tail) :
    ∃ h', Heap.edgeInvert h head = some h' ∧ h'.par head = none ∧ head ∈ h'.ch g ∧ h'.par tail = some head := by
  have hc : (h.ch g).contains tail = true := by simpa using hg
  have htg : tail ≠ g := fun e => hgt e.symm
  have e0 : Heap.edgeInvert h head =
      match Heap.removeChild (h.setCh g ((h.ch g).map fun x => if x = tail then head else x)) tail head with
      | none => none
      | some h1 => some (Heap.addChild h1 head tail) := by
    simp only [Heap.edgeInvert, hpt, hpg, hc, if_true]; rfl
  have hl0 : head ∈ (h.setCh g ((h.ch g).map fun x => if x = tail then head else x)).ch tail := by
    simp [Heap.setCh, htg, hl]
  have hmem : head ∈ (h.ch g).map (fun x => if x = tail then head else x) :=
    List.mem_map.mpr ⟨tail, hg, by simp⟩
  rw [e0, removeChild_eq _ tail head hl0]
  refine ⟨_, rfl, ?_, ?_, ?_⟩
  · rw [(addChild_far _ head tail).1 head hht]; simp [rmHeap]
  · rw [(addChild_far _ head tail).2.2 g hgh]; simp [rmHeap, hgt, Heap.setCh, hmem]
  · exact (addChild_far _ head tail).2.1

end DendroModel.C03.AuxH

namespace DendroModel.C03.AuxH
open DendroModel DendroModel.C03 DendroModel.C03.Aux DendroModel.C03.HeapAux DendroModel.C03.AuxR

/-! ### the `suppress_unifurcations=True` tail of `remove_child`, `self` not the seed -/

/-- what replaces a node left with one child: that child, its length increased by the node's (inside a bare `try`) -/
def liftOnly (n : T) : List T :=
  match n.cs with
  | [ch] => [ch.withLen (tryAdd ch.len n.len)]
  | _ => [n]

mutual
theorem splice_congr (c : Nat) (f f' : T → List T) : ∀ t : T, (∀ x, T.find? c t = some x → f x = f' x) → cnt c t ≤ 1 →
    t.id ≠ c → splice c f t = splice c f' t
  | .node j a b d e, hff, h1, hne => by
      simp only [T.id] at hne
      have hcj : (c == j) = false := by simp; omega
      simp only [splice]
      rw [spliceL_congr c f f' e (fun x hx => hff x (by simp only [T.find?, hcj]; exact hx)) (by simp [hne] at h1; exact h1)]
theorem spliceL_congr (c : Nat) (f f' : T → List T) : ∀ cs : List T, (∀ x, T.findL? c cs = some x → f x = f' x) →
    cntL c cs ≤ 1 → spliceL c f cs = spliceL c f' cs
  | [], _, _ => by simp [spliceL]
  | x :: xs, hff, h1 => by
      simp at h1
      simp only [spliceL]
      by_cases hx : x.id = c
      · have hb : (x.id == c) = true := by simp [hx]
        simp only [hb, if_true]
        rw [hff x (by simp only [T.findL?, find_self c x hx])]
      · have hb : (x.id == c) = false := by simp [hx]
        simp only [hb, Bool.false_eq_true, if_false]
        cases hfx : T.find? c x with
        | some r =>
          have hp := find_pos c x r hfx
          rw [Aux.spliceL_notin c f xs (by omega), Aux.spliceL_notin c f' xs (by omega)]
          rw [splice_congr c f f' x (fun y hy => hff y (by simp only [T.findL?, hy])) (by omega) hx]
        | none =>
          have h0 := find_none_cnt c x hfx
          rw [Aux.splice_notin c f x h0, Aux.splice_notin c f' x h0]
          rw [spliceL_congr c f f' xs (fun y hy => hff y (by simp only [T.findL?, hfx]; exact hy)) (by omega)]
end

def supHeap (h1 : Heap) (g p k : Nat) : Heap :=
  (rmHeap (Heap.insertChild h1 g (((h1.ch g).idxOf? p).getD 0) k) g p).setCh p []

theorem supHeap_par (h1 : Heap) (g p k x : Nat) :
    (supHeap h1 g p k).par x = if x = p then none else (Heap.insertChild h1 g (((h1.ch g).idxOf? p).getD 0) k).par x := by
  simp [supHeap, rmHeap, Heap.setCh]

theorem supHeap_ch (h1 : Heap) (g p k x : Nat) :
    (supHeap h1 g p k).ch x = if x = p then [] else if x = g then
      ((Heap.insertChild h1 g (((h1.ch g).idxOf? p).getD 0) k).ch g).erase p
      else (Heap.insertChild h1 g (((h1.ch g).idxOf? p).getD 0) k).ch x := by
  simp [supHeap, rmHeap, Heap.setCh]

theorem supHeap_ok (h1 : Heap) (g p k : Nat) (hk : h1.ch p = [k]) : LocalOK h1 (supHeap h1 g p k) g p liftOnly where
  far := by
    intro x hxg hxp hxk
    have hxk' : x ≠ k := by rw [hk] at hxk; simpa using hxk
    have hf := insertChild_far h1 g (((h1.ch g).idxOf? p).getD 0) k
    rw [supHeap_par, supHeap_ch]
    simp only [hxp, hxg, if_false]
    exact ⟨hf.2 x hxk', hf.1 x hxg⟩
  parP := by
    intro hgp hgk
    have hgk' : g ≠ k := by rw [hk] at hgk; simpa using hgk
    have hf := insertChild_far h1 g (((h1.ch g).idxOf? p).getD 0) k
    rw [supHeap_par]
    simp only [hgp, if_false]
    exact hf.2 g hgk'
  loc := by
    intro pre post n hn hrl hnd hch
    have hsp := reprL_split h1 (some g) pre (n :: post) hrl
    have hrn : Repr h1 (some g) n := by have := hsp.2; simp only [ReprL] at this; exact this.1
    have hnd' := List.nodup_cons.mp hnd
    have hg_all := hnd'.1
    have hnd2 := hnd'.2
    simp only [idsL_append, idsL] at hnd2 hg_all
    simp only [List.mem_append, not_or] at hg_all
    have hdis1 : ∀ a ∈ idsL pre, ∀ b ∈ ids n ++ idsL post, a ≠ b := (List.nodup_append.mp hnd2).2.2
    have hnd_rest := (List.nodup_append.mp hnd2).2.1
    have hndn := (List.nodup_append.mp hnd_rest).1
    have hdis2 : ∀ a ∈ ids n, ∀ b ∈ idsL post, a ≠ b := (List.nodup_append.mp hnd_rest).2.2
    have hpn : p ∈ ids n := hn ▸ id_mem_ids n
    have hgp : g ≠ p := fun e => hg_all.2.1 (e ▸ hpn)
    have hp_pre : p ∉ pre.map T.id := fun hm => hdis1 p (map_id_sub_idsL pre p hm) p (List.mem_append_left _ hpn) rfl
    have hchp : h1.ch p = n.cs.map T.id := by rw [← hn]; exact repr_root_ch h1 (some g) n hrn
    -- `n` has exactly one child, `ch`, whose id is `k`
    cases n with
    | node j a b d e =>
    simp only [T.id] at hn; subst hn
    simp only [T.cs] at hchp
    rw [hk] at hchp
    match e, hchp with
    | [ch], hchp =>
    have hkid : ch.id = k := by simpa using hchp.symm
    simp only [Repr, ReprL, and_true] at hrn
    have hrch : Repr h1 (some j) ch := hrn.2.2
    simp only [ids, idsL, List.append_nil, List.nodup_cons] at hndn
    have hkn : k ∈ ids (T.node j a b d [ch]) := by simp [ids, idsL, ← hkid, id_mem_ids ch]
    have hkj : k ≠ j := fun e1 => hndn.1 (e1 ▸ hkid ▸ id_mem_ids ch)
    have hkg : k ≠ g := fun e1 => hg_all.2.1 (e1 ▸ hkn)
    have hch' : h1.ch g = pre.map T.id ++ j :: post.map T.id := by rw [hch]; simp [T.id]
    have hpos : ((h1.ch g).idxOf? j).getD 0 = (pre.map T.id).length := by rw [hch', idxOf_mid j _ _ hp_pre]; rfl
    have hkXY : k ∉ pre.map T.id ∧ k ∉ j :: post.map T.id := by
      refine ⟨fun hm => hdis1 k (map_id_sub_idsL pre k hm) k (List.mem_append_left _ hkn) rfl, ?_⟩
      simp only [List.mem_cons, not_or]
      exact ⟨hkj, fun hm => hdis2 k hkn k (map_id_sub_idsL post k hm) rfl⟩
    obtain ⟨a1, a2, a3, a4⟩ := insertChild_absent h1 g k (pre.map T.id) (j :: post.map T.id) hch' hkXY
    rw [← hpos] at a1 a2 a3 a4
    have hjk : j ∉ pre.map T.id ++ [k] := by
      simp only [List.mem_append, List.mem_singleton, not_or]; exact ⟨hp_pre, fun e1 => hkj e1.symm⟩
    refine ⟨?_, ?_⟩
    · rw [supHeap_ch]
      simp only [hgp, if_false, if_true, a1]
      rw [erase_mid _ _ j hjk]
      simp [liftOnly, T.cs, hkid]
    · simp only [liftOnly, T.cs, ReprL, and_true]
      apply withLen_repr
      apply repr_reparent h1 _ (some j) (some g) ch hrch
      · intro x hx
        have hxch : x ∈ ids ch := by cases ch; simp only [T.cs] at hx; simp [ids, hx]
        have hxk : x ≠ k := by
          intro e1
          cases ch with
          | node i2 a2' b2 d2 e2 =>
            simp only [T.id] at hkid; subst hkid
            simp only [T.cs] at hx
            have := hndn.2; simp only [ids, List.nodup_cons] at this
            exact this.1 (e1 ▸ hx)
        have hxj : x ≠ j := fun e1 => hndn.1 (e1 ▸ hxch)
        have hxg : x ≠ g := fun e1 => hg_all.2.1 (by rw [← e1]; simp [ids, idsL, hxch])
        rw [supHeap_par, supHeap_ch]
        simp only [hxj, hxg, if_false]
        exact ⟨a4 x hxk, a2 x hxg⟩
      · rw [supHeap_par, hkid]; simp only [hkj, if_false]; exact a3
      · rw [supHeap_ch, hkid]; simp only [hkj, hkg, if_false]; exact a2 k hkg

end DendroModel.C03.AuxH

namespace DendroModel.C03.AuxH
open DendroModel DendroModel.C03 DendroModel.C03.Aux DendroModel.C03.HeapAux DendroModel.C03.AuxR

theorem reprL_mem_par (h : Heap) (i : Nat) : ∀ (cs : List T) (x : T), ReprL h (some i) cs → x ∈ cs → h.par x.id = some i
  | [], _, _, hx => by simp at hx
  | y :: ys, x, hr, hx => by
      simp only [ReprL] at hr
      simp only [List.mem_cons] at hx
      rcases hx with rfl | hx
      · exact repr_root_par h (some i) x hr.1
      · exact reprL_mem_par h i ys x hr.2 hx

mutual
/-- the tree-level `parentOf` reads the parent pointer -/
theorem parentOf_repr (h : Heap) (c p : Nat) : ∀ (q : Option Nat) (t : T), Repr h q t → (ids t).Nodup →
    parentOf c t = some p → h.par c = some p ∧ c ∈ ids t ∧ c ≠ t.id
  | q, .node i a b d cs, hr, hnd, hpo => by
      simp only [ids, List.nodup_cons] at hnd
      simp only [Repr] at hr
      simp only [parentOf] at hpo
      split at hpo
      · rename_i hany
        injection hpo with hpo; subst hpo
        obtain ⟨x, hx, hxc⟩ := List.any_eq_true.mp hany
        have hxc' : x.id = c := by simpa using hxc
        have hcL : c ∈ idsL cs := hxc' ▸ ids_sub_idsL cs x hx x.id (id_mem_ids x)
        refine ⟨hxc' ▸ reprL_mem_par h i cs x hr.2.2 hx, by simp [ids, hcL], ?_⟩
        simp only [T.id]; exact fun e => hnd.1 (e ▸ hcL)
      · obtain ⟨h1, h2⟩ := parentOfL_repr h c p i cs hr.2.2 hnd.2 hpo
        refine ⟨h1, by simp [ids, h2], ?_⟩
        simp only [T.id]; exact fun e => hnd.1 (e ▸ h2)
theorem parentOfL_repr (h : Heap) (c p : Nat) : ∀ (i : Nat) (cs : List T), ReprL h (some i) cs → (idsL cs).Nodup →
    parentOfL c cs = some p → h.par c = some p ∧ c ∈ idsL cs
  | _, [], _, _, hpo => by simp [parentOfL] at hpo
  | i, x :: xs, hr, hnd, hpo => by
      simp only [ReprL] at hr
      simp only [idsL] at hnd
      simp only [parentOfL] at hpo
      split at hpo
      · rename_i p' hp'
        injection hpo with hpo; subst hpo
        have := parentOf_repr h c p' (some i) x hr.1 (List.nodup_append.mp hnd).1 hp'
        exact ⟨this.1, by simp [idsL, this.2.1]⟩
      · have := parentOfL_repr h c p i xs hr.2 (List.nodup_append.mp hnd).2.1 hpo
        exact ⟨this.1, by simp [idsL, this.2]⟩
end

theorem find_exists (c : Nat) (t : T) (hc : c ∈ ids t) : ∃ sub, T.find? c t = some sub := by
  cases hf : T.find? c t with
  | some sub => exact ⟨sub, rfl⟩
  | none => have := find_none_cnt c t hf; have := (mem_iff_cnt c t).1 hc; omega

theorem insertChild_mem (h : Heap) (g idx k p : Nat) (hp : p ∈ h.ch g) (hpk : p ≠ k) :
    p ∈ (Heap.insertChild h g idx k).ch g := by
  unfold Heap.insertChild
  cases (h.ch g).idxOf? k with
  | none =>
    simp only [Heap.setPar, Heap.setCh, if_true, Heap.insertAtN]
    have := List.take_append_drop idx (h.ch g)
    rw [← this] at hp
    simp only [List.mem_append, List.mem_cons] at hp ⊢
    rcases hp with hp | hp
    · exact Or.inl hp
    · exact Or.inr (Or.inr hp)
  | some cur =>
    by_cases e : (cur == idx) = true
    · simp [e, Heap.setPar, hp]
    · have hpe : p ∈ (h.ch g).erase k := (List.mem_erase_of_ne hpk).mpr hp
      have e' : (cur == idx) = false := by simpa using e
      simp only [e', Bool.false_eq_true, if_false, Heap.setPar, Heap.setCh, if_true, Heap.insertAtN]
      have := List.take_append_drop idx ((h.ch g).erase k)
      rw [← this] at hpe
      simp only [List.mem_append, List.mem_cons] at hpe ⊢
      rcases hpe with hpe | hpe
      · exact Or.inl hpe
      · exact Or.inr (Or.inr hpe)

/-- everything the removal of `c` from under `p` sets up for the suppress tail -/
theorem removal_facts (h : Heap) (t : T) (p c : Nat) (hr : Repr h none t) (hw : WF t) (hpo : parentOf c t = some p) :
    h.par c = some p ∧ c ∈ h.ch p ∧ Repr (rmHeap h p c) none (splice c (fun _ => []) t) ∧
    WF (splice c (fun _ => []) t) ∧ c ∉ ids (splice c (fun _ => []) t) ∧ p ∈ ids (splice c (fun _ => []) t) ∧ c ≠ p := by
  obtain ⟨hp, hc, hne⟩ := parentOf_repr h c p none t hr hw hpo
  obtain ⟨sub, hf⟩ := find_exists c t hc
  obtain ⟨p', hp', _, hps, hpt, _⟩ := find_sub h c none t sub hr hw hf hne
  have hpp : p' = p := by rw [hp] at hp'; exact (Option.some.inj hp').symm
  subst hpp
  have hex := Aux.splice_exact c (fun _ => []) t sub (fun e => hne e.symm) hf (wf_cnt hw c)
  have hcs : 1 ≤ cnt c sub := by
    have := find_id c t sub hf
    exact (mem_iff_cnt c sub).1 (this ▸ id_mem_ids sub)
  refine ⟨hp, child_listed h c p' none t hr hc hne hp, spliceNil_repr h p' c none t hr hw hc hne hp,
    wf_of_le hw (fun i => by have := hex i; simp at this; omega), ?_, ?_, ?_⟩
  · intro hm
    have := (mem_iff_cnt c _).1 hm
    have := hex c; have := wf_cnt hw c; simp at *; omega
  · rw [mem_iff_cnt]
    have h1 := (mem_iff_cnt p' t).1 hpt
    have h0 : cnt p' sub = 0 := by
      cases hh : cnt p' sub with
      | zero => rfl
      | succ k => exact absurd ((mem_iff_cnt p' sub).2 (by omega)) hps
    have := hex p'; simp at this; omega
  · intro e; subst e
    exact hps (by have := find_id c t sub hf; exact this ▸ id_mem_ids sub)

end DendroModel.C03.AuxH

namespace DendroModel.C03.AuxH
open DendroModel DendroModel.C03 DendroModel.C03.Aux DendroModel.C03.HeapAux DendroModel.C03.AuxR

theorem supTail_eq (h1 : Heap) (g p k : Nat) (hpg : h1.par p = some g) (hk : h1.ch p = [k]) (hl : p ∈ h1.ch g) (hpk : p ≠ k) :
    (match h1.par p with
      | some parent =>
        match h1.ch p with
        | [child] =>
          match Heap.removeChild (Heap.insertChild h1 parent (((h1.ch parent).idxOf? p).getD 0) child) parent p with
          | none => none
          | some h3 => some (h3.setCh p [])
        | _ => some h1
      | none => none) = some (supHeap h1 g p k) := by
  simp only [hpg, hk]
  rw [removeChild_eq _ g p (insertChild_mem h1 g _ k p hl hpk)]
  rfl

/-- `remove_child(node, suppress_unifurcations=True)` at pointer level when `self` is not the seed -/
theorem removeChildSuppress_nonroot (h : Heap) (t t' : T) (p c : Nat) (hr : Repr h none t) (hw : WF t)
    (hpo : parentOf c t = some p) (hpr : p ≠ t.id) (ht : removeChild p c true t = .ok t') :
    ∃ h', Heap.removeChildSuppress h p c = some h' ∧ Repr h' none t' ∧ h'.par c = none := by
  obtain ⟨hp, hl, hr1, hw1, hc1, hp1, hcp⟩ := removal_facts h t p c hr hw hpo
  obtain ⟨n1, hf1⟩ := find_exists p _ hp1
  have hpr1 : p ≠ (splice c (fun _ => []) t).id := by rw [Aux.splice_id]; exact hpr
  obtain ⟨g, hpg, hrn1, _, _, hndn1⟩ := find_sub _ p none _ n1 hr1 hw1 hf1 hpr1
  have hid1 : n1.id = p := find_id p _ n1 hf1
  have hchp : (rmHeap h p c).ch p = n1.cs.map T.id := by
    have := repr_root_ch _ (some g) n1 hrn1; rw [hid1] at this; exact this
  have hpo' : (parentOf c t != some p) = false := by simp [hpo]
  have hpr' : (p != t.id) = true := by simp [hpr]
  simp only [removeChild, hpo', Bool.false_eq_true, if_false, Bool.not_true, hpr', if_true, hf1, Option.map_some] at ht
  have e0 : Heap.removeChildSuppress h p c =
      (match (rmHeap h p c).par p with
      | some parent =>
        match (rmHeap h p c).ch p with
        | [child] =>
          match Heap.removeChild (Heap.insertChild (rmHeap h p c) parent ((((rmHeap h p c).ch parent).idxOf? p).getD 0) child) parent p with
          | none => none
          | some h3 => some (h3.setCh p [])
        | _ => some (rmHeap h p c)
      | none => none) := by
    simp only [Heap.removeChildSuppress, removeChild_eq h p c hl, hpg]
    rfl
  have hparc : (rmHeap h p c).par c = none := by simp [rmHeap]
  cases hcs : n1.cs with
  | nil =>
    rw [hcs] at ht hchp
    simp only at ht
    injection ht with ht; subst ht
    refine ⟨rmHeap h p c, ?_, hr1, hparc⟩
    rw [e0]; simp only [hpg, hchp, List.map_nil]
  | cons child rest =>
    cases rest with
    | cons c2 r2 =>
      rw [hcs] at ht hchp
      simp only at ht
      injection ht with ht; subst ht
      refine ⟨rmHeap h p c, ?_, hr1, hparc⟩
      rw [e0]; simp only [hpg, hchp, List.map_cons]
    | nil =>
      rw [hcs] at ht hchp
      simp only [List.map_cons, List.map_nil] at hchp
      simp only at ht
      injection ht with ht; subst ht
      have hl1 : p ∈ (rmHeap h p c).ch g := child_listed _ p g none _ hr1 hp1 hpr1 hpg
      have hkin : child.id ∈ ids (splice c (fun _ => []) t) :=
        ch_sub_ids _ none _ hr1 p hp1 child.id (by rw [hchp]; simp)
      have hpk : p ≠ child.id := by
        have := root_notin_kids n1 hndn1
        rw [hid1, hcs] at this
        simpa using this
      refine ⟨supHeap (rmHeap h p c) g p child.id, ?_, ?_, ?_⟩
      · rw [e0]; exact supTail_eq _ g p child.id hpg hchp hl1 hpk
      · rw [splice_congr p _ liftOnly _ ?_ (wf_cnt hw1 p) (fun e => hpr1 e.symm)]
        · exact spliceG_repr _ _ g p liftOnly (supHeap_ok _ g p child.id hchp) hpg _ none _ (Nat.le_refl _) hr1 hw1 hp1 hpr1
        · intro x hx
          rw [hf1] at hx; injection hx with hx; subst hx
          simp [liftOnly, hcs]
      · have hck : c ≠ child.id := fun e => hc1 (e ▸ hkin)
        rw [supHeap_par]
        simp only [hcp, if_false]
        rw [(insertChild_far _ g _ child.id).2 c hck]; exact hparc

end DendroModel.C03.AuxH

namespace DendroModel.C03.AuxH
open DendroModel DendroModel.C03 DendroModel.C03.Aux DendroModel.C03.HeapAux DendroModel.C03.AuxR

/-! ### dissolving a child of `p` into `p`'s child list, generically (`Edge.collapse`, the root case of `remove_child`) -/

theorem dissolve_ok (h h' : Heap) (p c : Nat) (g : T → T → Option Frac)
    (hfar_ch : ∀ y, y ≠ p → y ≠ c → h'.ch y = h.ch y)
    (hfar_par : ∀ y, y ∉ h.ch c → y ≠ c → h'.par y = h.par y)
    (hkpar : ∀ X Y, h.ch p = X ++ c :: Y → c ∉ X → (∀ k ∈ h.ch c, k ∉ X ∧ k ∉ Y) → (h.ch c).Nodup → ∀ k ∈ h.ch c, h'.par k = some p)
    (hchp : ∀ X Y, h.ch p = X ++ c :: Y → c ∉ X → (∀ k ∈ h.ch c, k ∉ X ∧ k ∉ Y) → (h.ch c).Nodup →
      h'.ch p = X ++ h.ch c ++ Y) :
    LocalOK h h' p c (fun n => n.cs.map (fun ch => ch.withLen (g n ch))) where
  far := fun x hxp hxc hxk => ⟨hfar_par x hxk hxc, hfar_ch x hxp hxc⟩
  parP := fun hpc hpk => hfar_par p hpk hpc
  loc := by
    intro pre post n hn hrl hnd hch
    have hsp := reprL_split h (some p) pre (n :: post) hrl
    have hrn : Repr h (some p) n := by have := hsp.2; simp only [ReprL] at this; exact this.1
    have hnd' := List.nodup_cons.mp hnd
    have hp_all := hnd'.1
    have hnd2 := hnd'.2
    simp only [idsL_append, idsL] at hnd2 hp_all
    simp only [List.mem_append, not_or] at hp_all
    have hdis1 : ∀ a ∈ idsL pre, ∀ b ∈ ids n ++ idsL post, a ≠ b := (List.nodup_append.mp hnd2).2.2
    have hnd_rest := (List.nodup_append.mp hnd2).2.1
    have hndn := (List.nodup_append.mp hnd_rest).1
    have hdis2 : ∀ a ∈ ids n, ∀ b ∈ idsL post, a ≠ b := (List.nodup_append.mp hnd_rest).2.2
    have hcn : c ∈ ids n := hn ▸ id_mem_ids n
    have hc_pre : c ∉ pre.map T.id := fun hm => hdis1 c (map_id_sub_idsL pre c hm) c (List.mem_append_left _ hcn) rfl
    have hchc : h.ch c = n.cs.map T.id := by rw [← hn]; exact repr_root_ch h (some p) n hrn
    have hkn : ∀ k ∈ n.cs.map T.id, k ∈ ids n := by
      intro k hk; cases n with
      | node j a b d e => simp only [T.cs] at hk; simp [ids, map_id_sub_idsL e k hk]
    have hndL : (idsL n.cs).Nodup := by
      cases n with
      | node j a b d e => simp only [ids, List.nodup_cons] at hndn; exact hndn.2
    have hch' : h.ch p = pre.map T.id ++ c :: post.map T.id := by rw [hch]; simp [hn]
    have hks : ∀ k ∈ h.ch c, k ∉ pre.map T.id ∧ k ∉ post.map T.id := by
      intro k hk; rw [hchc] at hk
      exact ⟨fun hm => hdis1 k (map_id_sub_idsL pre k hm) k (List.mem_append_left _ (hkn k hk)) rfl,
             fun hm => hdis2 k (hkn k hk) k (map_id_sub_idsL post k hm) rfl⟩
    have hksnd : (h.ch c).Nodup := by rw [hchc]; exact (map_id_sublist n.cs).nodup hndL
    have s1 := hchp _ _ hch' hc_pre hks hksnd
    have s3 := hkpar _ _ hch' hc_pre hks hksnd
    have hp_n : p ∉ ids n := hp_all.2.1
    refine ⟨?_, ?_⟩
    · rw [s1, hchc]; simp
    · apply kids_repr h _ p (g n) n.cs _ _ _ c n.cs (fun _ hc => hc)
      · cases n with
        | node j a b d e => simp only [Repr] at hrn; simp only [T.id] at hn; subst hn; exact hrn.2.2
      · intro k hk; exact s3 k (hchc ▸ hk)
      · intro k hk
        have hkp : k ≠ p := fun e => hp_n (e ▸ hkn k hk)
        have hkc : k ≠ c := by
          intro e
          have := root_notin_kids n hndn
          rw [hn] at this; exact this (e ▸ hk)
        exact hfar_ch k hkp hkc
      · intro ch hch0 x hx
        have hxn : x ∈ ids n := by
          cases n with
          | node j a b d e =>
            simp only [T.cs] at hch0
            have : x ∈ ids ch := by cases ch; simp only [T.cs] at hx; simp [ids, hx]
            simp [ids, ids_sub_idsL e ch hch0 x this]
        have hxp : x ≠ p := fun e => hp_n (e ▸ hxn)
        have hxk : x ∉ h.ch c := by
          rw [hchc]; intro hm; exact kid_ne_desc n.cs hndL ch x x hch0 hx hm rfl
        have hxc : x ≠ c := by
          intro e
          cases n with
          | node j a b d e' =>
            simp only [T.id] at hn; subst hn
            simp only [T.cs] at hch0
            have : x ∈ idsL e' := by
              have : x ∈ ids ch := by cases ch; simp only [T.cs] at hx; simp [ids, hx]
              exact ids_sub_idsL e' ch hch0 x this
            simp only [ids, List.nodup_cons] at hndn
            exact hndn.1 (e ▸ this)
        exact ⟨hfar_par x hxk hxc, hfar_ch x hxp hxc⟩

/-- the insertion loop of `remove_child`'s root case: `for c in reversed(tr_children): self.insert_child(pos, c)` -/
def foldFix (p pos : Nat) (L : List Nat) (h : Heap) : Heap := L.foldl (fun hh c => Heap.insertChild hh p pos c) h

theorem foldFix_far (p pos : Nat) : ∀ (L : List Nat) (h : Heap),
    (∀ y, y ≠ p → (foldFix p pos L h).ch y = h.ch y) ∧ (∀ y, y ∉ L → (foldFix p pos L h).par y = h.par y)
  | [], h => by simp [foldFix]
  | k :: L, h => by
      have ih := foldFix_far p pos L (Heap.insertChild h p pos k)
      have hf := insertChild_far h p pos k
      have e : foldFix p pos (k :: L) h = foldFix p pos L (Heap.insertChild h p pos k) := rfl
      rw [e]
      refine ⟨fun y hy => by rw [ih.1 y hy, hf.1 y hy], ?_⟩
      intro y hy
      simp only [List.mem_cons, not_or] at hy
      rw [ih.2 y hy.2, hf.2 y hy.1]

theorem foldFix_spec (p : Nat) (X : List Nat) : ∀ (L : List Nat) (h : Heap) (Y : List Nat), h.ch p = X ++ Y →
    (∀ k ∈ L, k ∉ X ∧ k ∉ Y) → L.Nodup →
    (foldFix p X.length L h).ch p = X ++ L.reverse ++ Y ∧ (∀ k ∈ L, (foldFix p X.length L h).par k = some p)
  | [], h, Y, hch, _, _ => by simp [foldFix, hch]
  | k :: L, h, Y, hch, hk, hnd => by
      have hk0 := hk k (by simp)
      obtain ⟨a1, _, a3, _⟩ := insertChild_absent h p k X Y hch hk0
      have hnd' := List.nodup_cons.mp hnd
      have a1' : (Heap.insertChild h p X.length k).ch p = X ++ (k :: Y) := by rw [a1]; simp
      have hks : ∀ k' ∈ L, k' ∉ X ∧ k' ∉ k :: Y := by
        intro k' hk'
        have := hk k' (by simp [hk'])
        have hne : k' ≠ k := fun e => hnd'.1 (e ▸ hk')
        simp [this.1, this.2, hne]
      have ih := foldFix_spec p X L (Heap.insertChild h p X.length k) (k :: Y) a1' hks hnd'.2
      have e : foldFix p X.length (k :: L) h = foldFix p X.length L (Heap.insertChild h p X.length k) := rfl
      rw [e]
      refine ⟨by rw [ih.1]; simp, ?_⟩
      intro k' hk'
      simp only [List.mem_cons] at hk'
      rcases hk' with rfl | hk'
      · rw [(foldFix_far p X.length L _).2 k' hnd'.1]; exact a3
      · exact ih.2 k' hk'

/-- the heap after the root case of `remove_child(…, suppress_unifurcations=True)` dissolved the child `r` of the seed `p` -/
def disHeap (h : Heap) (p r : Nat) : Heap :=
  (foldFix p (((h.ch p).idxOf? r).getD 0) (h.ch r).reverse (rmHeap h p r)).setCh r []

theorem disHeap_ok (h : Heap) (p r : Nat) (hpr : p ≠ r) :
    LocalOK h (disHeap h p r) p r (fun n => n.cs.map (fun ch => ch.withLen ((fun _ c => c.len) n ch))) := by
  have hf := foldFix_far p (((h.ch p).idxOf? r).getD 0) (h.ch r).reverse (rmHeap h p r)
  apply dissolve_ok h (disHeap h p r) p r (fun _ c => c.len)
  · intro y hyp hyr
    simp only [disHeap, Heap.setCh, hyr, if_false]
    rw [hf.1 y hyp]; simp [rmHeap, hyp]
  · intro y hyk hyr
    simp only [disHeap, Heap.setCh]
    rw [hf.2 y (by simpa using hyk)]; simp [rmHeap, hyr]
  · intro X Y hch hrX hks hnd k hk
    have hrm : (rmHeap h p r).ch p = X ++ Y := by simp only [rmHeap, if_true]; rw [hch, erase_mid _ _ r hrX]
    have hpos : ((h.ch p).idxOf? r).getD 0 = X.length := by rw [hch, idxOf_mid r _ _ hrX]; rfl
    have := foldFix_spec p X (h.ch r).reverse (rmHeap h p r) Y hrm (by simpa using hks) ((List.reverse_perm _).nodup_iff.mpr hnd)
    simp only [disHeap, Heap.setCh, hpos]
    exact this.2 k (by simpa using hk)
  · intro X Y hch hrX hks hnd
    have hrm : (rmHeap h p r).ch p = X ++ Y := by simp only [rmHeap, if_true]; rw [hch, erase_mid _ _ r hrX]
    have hpos : ((h.ch p).idxOf? r).getD 0 = X.length := by rw [hch, idxOf_mid r _ _ hrX]; rfl
    have := foldFix_spec p X (h.ch r).reverse (rmHeap h p r) Y hrm (by simpa using hks) ((List.reverse_perm _).nodup_iff.mpr hnd)
    simp only [disHeap, Heap.setCh, hpr, if_false, hpos]
    rw [this.1]; simp

end DendroModel.C03.AuxH

namespace DendroModel.C03.AuxH
open DendroModel DendroModel.C03 DendroModel.C03.Aux DendroModel.C03.HeapAux DendroModel.C03.AuxR

theorem map_withLen_self : ∀ cs : List T, cs.map (fun ch => ch.withLen ch.len) = cs
  | [] => rfl
  | x :: xs => by
      have : x.withLen x.len = x := by cases x; rfl
      simp only [List.map_cons, this, map_withLen_self xs]

theorem dissolve_root (h1 : Heap) (u : T) (p r : Nat) (hr : Repr h1 none u) (hw : WF u) (hid : u.id = p)
    (hrin : r ∈ u.cs.map T.id) :
    Repr (disHeap h1 p r) none (splice r (fun n => n.cs) u) ∧ h1.par r = some p ∧ p ≠ r := by
  cases u with
  | node j a b d e =>
  simp only [T.id] at hid; subst hid
  simp only [T.cs] at hrin
  have hw' : (ids (T.node j a b d e)).Nodup := hw
  simp only [ids, List.nodup_cons] at hw'
  have hrL : r ∈ idsL e := map_id_sub_idsL e r hrin
  have hjr : j ≠ r := fun e1 => hw'.1 (e1 ▸ hrL)
  obtain ⟨x, hx, hxr⟩ := List.mem_map.mp hrin
  have hpar : h1.par r = some j := by
    simp only [Repr] at hr
    exact hxr ▸ reprL_mem_par h1 j e x hr.2.2 hx
  have hf : (fun n : T => n.cs) = (fun n : T => n.cs.map (fun ch => ch.withLen ((fun _ c => c.len) n ch))) := by
    funext n; exact (map_withLen_self n.cs).symm
  refine ⟨?_, hpar, hjr⟩
  rw [hf]
  exact spliceG_repr h1 _ j r _ (disHeap_ok h1 j r hjr) hpar _ none _ (Nat.le_refl _) hr hw
    (by simp [ids, hrL]) (by simp only [T.id]; exact fun e1 => hjr e1.symm)

theorem ids_withLen (x : T) (l : Option Frac) : ids (x.withLen l) = ids x := by cases x; rfl

theorem disHeap_par_out (h1 : Heap) (p r c : Nat) (hcr : c ≠ r) (hck : c ∉ h1.ch r) :
    (disHeap h1 p r).par c = h1.par c := by
  have hf := foldFix_far p (((h1.ch p).idxOf? r).getD 0) (h1.ch r).reverse (rmHeap h1 p r)
  simp only [disHeap, Heap.setCh]
  rw [hf.2 c (by simpa using hck)]; simp [rmHeap, hcr]

theorem dissolve_eq (h1 : Heap) (p r : Nat) (L : List Nat) (hL : h1.ch p = L) (hl : r ∈ h1.ch p) (hpr : p ≠ r) :
    (match Heap.removeChild h1 p r with
      | none => none
      | some h2 => some (((h2.ch r).reverse.foldl (fun hh c => Heap.insertChild hh p ((L.idxOf? r).getD 0) c) h2).setCh r []))
      = some (disHeap h1 p r) := by
  subst hL
  rw [removeChild_eq h1 p r hl]
  have hrp : r ≠ p := fun e => hpr e.symm
  have : (rmHeap h1 p r).ch r = h1.ch r := by simp [rmHeap, hrp]
  simp only [this]
  rfl

end DendroModel.C03.AuxH

namespace DendroModel.C03.AuxH
open DendroModel DendroModel.C03 DendroModel.C03.Aux DendroModel.C03.HeapAux DendroModel.C03.AuxR

theorem repr_root_kids (h : Heap) (q : Option Nat) : ∀ t : T, Repr h q t → ReprL h (some t.id) t.cs
  | .node _ _ _ _ _, hr => by simp only [Repr] at hr; exact hr.2.2

/-- `remove_child(node, suppress_unifurcations=True)` at pointer level when `self` is the seed -/
theorem removeChildSuppress_root (h : Heap) (t t' : T) (p c : Nat) (hr : Repr h none t) (hw : WF t)
    (hpo : parentOf c t = some p) (hpr : p = t.id) (ht : removeChild p c true t = .ok t') :
    ∃ h', Heap.removeChildSuppress h p c = some h' ∧ Repr h' none t' ∧ h'.par c = none := by
  obtain ⟨hp, hl, hr1, hw1, hc1, hp1, hcp⟩ := removal_facts h t p c hr hw hpo
  have hid1 : (splice c (fun _ => []) t).id = p := by rw [Aux.splice_id]; exact hpr.symm
  have hpar1 : (rmHeap h p c).par p = none := by
    have := repr_root_par _ none _ hr1; rw [hid1] at this; exact this
  have hch1 : (rmHeap h p c).ch p = (splice c (fun _ => []) t).cs.map T.id := by
    have := repr_root_ch _ none _ hr1; rw [hid1] at this; exact this
  have hparc : (rmHeap h p c).par c = none := by simp [rmHeap]
  have hpo' : (parentOf c t != some p) = false := by simp [hpo]
  have hpr' : (p != t.id) = false := by simp [hpr]
  simp only [removeChild, hpo', Bool.false_eq_true, if_false, Bool.not_true, hpr'] at ht
  generalize hu : splice c (fun _ => []) t = u at *
  generalize hh1 : rmHeap h p c = h1 at *
  have e0 : Heap.removeChildSuppress h p c =
      (match h1.ch p with
        | [a, b] =>
          if !(h1.ch a).isEmpty then
            (match Heap.removeChild h1 p a with
              | none => none
              | some h2 => some (((h2.ch a).reverse.foldl (fun hh c => Heap.insertChild hh p (((h1.ch p).idxOf? a).getD 0) c) h2).setCh a []))
          else if !(h1.ch b).isEmpty then
            (match Heap.removeChild h1 p b with
              | none => none
              | some h2 => some (((h2.ch b).reverse.foldl (fun hh c => Heap.insertChild hh p (((h1.ch p).idxOf? b).getD 0) c) h2).setCh b []))
          else some h1
        | _ => some h1) := by
    simp only [Heap.removeChildSuppress, removeChild_eq h p c hl, hh1, hpar1]
    rfl
  have hkids := repr_root_kids h1 none u hr1
  rw [hid1] at hkids
  cases u with
  | node j x l s cs =>
  simp only [T.id] at hid1; subst hid1
  simp only [T.cs] at ht hch1 hkids
  match cs, ht, hch1, hkids with
  | [], ht, hch1, _ =>
    simp only at ht; injection ht with ht; subst ht
    exact ⟨h1, by rw [e0, hch1]; rfl, hr1, hparc⟩
  | [a], ht, hch1, _ =>
    simp only at ht; injection ht with ht; subst ht
    exact ⟨h1, by rw [e0, hch1]; rfl, hr1, hparc⟩
  | a :: b :: c3 :: r3, ht, hch1, _ =>
    simp only at ht; injection ht with ht; subst ht
    exact ⟨h1, by rw [e0, hch1]; rfl, hr1, hparc⟩
  | [a, b], ht, hch1, hkids =>
    simp only [List.map_cons, List.map_nil] at hch1
    simp only [ReprL, and_true] at hkids
    have hcha : h1.ch a.id = a.cs.map T.id := repr_root_ch h1 (some j) a hkids.1
    have hchb : h1.ch b.id = b.cs.map T.id := repr_root_ch h1 (some j) b hkids.2
    have hain : a.id ∈ ids (T.node j x l s [a, b]) := by simp [ids, idsL, id_mem_ids a]
    have hbin : b.id ∈ ids (T.node j x l s [a, b]) := by simp [ids, idsL, id_mem_ids b]
    have hca : c ≠ a.id := fun e => hc1 (e ▸ hain)
    have hcb : c ≠ b.id := fun e => hc1 (e ▸ hbin)
    have hcka : c ∉ h1.ch a.id := fun hm => hc1 (ch_sub_ids h1 none _ hr1 a.id hain c hm)
    have hckb : c ∉ h1.ch b.id := fun hm => hc1 (ch_sub_ids h1 none _ hr1 b.id hbin c hm)
    by_cases hal : a.isLeaf = true
    · by_cases hbl : b.isLeaf = true
      · -- both leaves: nothing to dissolve
        simp only [hal, hbl, Bool.not_true, Bool.false_eq_true, if_false] at ht
        injection ht with ht; subst ht
        have ea : (h1.ch a.id).isEmpty = true := by rw [hcha]; simpa [T.isLeaf] using hal
        have eb : (h1.ch b.id).isEmpty = true := by rw [hchb]; simpa [T.isLeaf] using hbl
        exact ⟨h1, by rw [e0, hch1]; simp only [ea, eb, Bool.not_true, Bool.false_eq_true, if_false], hr1, hparc⟩
      · -- `a` is a leaf, `b` is dissolved
        have hbl' : b.isLeaf = false := by simpa using hbl
        simp only [hal, hbl', Bool.not_true, Bool.not_false, Bool.false_eq_true, if_false, if_true] at ht
        injection ht with ht; subst ht
        have ea : (h1.ch a.id).isEmpty = true := by rw [hcha]; simpa [T.isLeaf] using hal
        have eb : (h1.ch b.id).isEmpty = false := by rw [hchb]; simpa [T.isLeaf] using hbl'
        have hacs : a.cs = [] := by simpa [T.isLeaf] using hal
        -- the tree with `a`'s length already adjusted is represented by the same heap
        have hr1' : Repr h1 none (T.node j x l s [a.withLen (tryAdd a.len b.len), b]) := by
          simp only [Repr, ReprL, and_true] at hr1 ⊢
          refine ⟨hr1.1, by rw [hr1.2.1]; simp, withLen_repr h1 (some j) _ a hr1.2.2.1, hr1.2.2.2⟩
        have hw1' : WF (T.node j x l s [a.withLen (tryAdd a.len b.len), b]) := by
          have : (ids (T.node j x l s [a, b])).Nodup := hw1
          show (ids _).Nodup
          simpa [ids, idsL, ids_withLen] using this
        obtain ⟨hd, hpb, hjb⟩ := dissolve_root h1 _ j b.id hr1' hw1' rfl (by simp [T.cs])
        have hab : a.id ≠ b.id := by
          have : (ids (T.node j x l s [a, b])).Nodup := hw1
          simp only [ids, idsL, List.append_nil, List.nodup_cons] at this
          exact fun e => (List.nodup_append.mp this.2).2.2 a.id (id_mem_ids a) b.id (id_mem_ids b) e
        have hsp : splice b.id (fun n => n.cs) (T.node j x l s [a.withLen (tryAdd a.len b.len), b]) =
            (T.node j x l s [a, b]).withCs (a.withLen (tryAdd a.len b.len) :: b.cs) := by
          have h1' : ((a.withLen (tryAdd a.len b.len)).id == b.id) = false := by simp [hab]
          have h2' : splice b.id (fun n => n.cs) (a.withLen (tryAdd a.len b.len)) = a.withLen (tryAdd a.len b.len) := by
            cases a with
            | node ia xa la sa ca => simp only [T.cs] at hacs; subst hacs; simp [T.withLen, splice, spliceL]
          simp [splice, spliceL, hab, h2', T.withCs]
        rw [hsp] at hd
        refine ⟨disHeap h1 j b.id, ?_, hd, ?_⟩
        · rw [e0, hch1]; simp only [ea, eb, Bool.not_true, Bool.not_false, Bool.false_eq_true, if_false, if_true]
          exact dissolve_eq h1 j b.id _ hch1 (by rw [hch1]; simp) hjb
        · rw [disHeap_par_out h1 j b.id c hcb hckb]; exact hparc
    · -- `a` is dissolved
      have hal' : a.isLeaf = false := by simpa using hal
      simp only [hal', Bool.not_false, if_true] at ht
      injection ht with ht; subst ht
      have ea : (h1.ch a.id).isEmpty = false := by rw [hcha]; simpa [T.isLeaf] using hal'
      have hr1' : Repr h1 none (T.node j x l s [a, b.withLen (tryAdd b.len a.len)]) := by
        simp only [Repr, ReprL, and_true] at hr1 ⊢
        refine ⟨hr1.1, by rw [hr1.2.1]; simp, hr1.2.2.1, withLen_repr h1 (some j) _ b hr1.2.2.2⟩
      have hw1' : WF (T.node j x l s [a, b.withLen (tryAdd b.len a.len)]) := by
        have : (ids (T.node j x l s [a, b])).Nodup := hw1
        show (ids _).Nodup
        simpa [ids, idsL, ids_withLen] using this
      obtain ⟨hd, hpa, hja⟩ := dissolve_root h1 _ j a.id hr1' hw1' rfl (by simp [T.cs])
      have hsp : splice a.id (fun n => n.cs) (T.node j x l s [a, b.withLen (tryAdd b.len a.len)]) =
          (T.node j x l s [a, b]).withCs (a.cs ++ [b.withLen (tryAdd b.len a.len)]) := by
        simp [splice, spliceL, T.withCs]
      rw [hsp] at hd
      refine ⟨disHeap h1 j a.id, ?_, hd, ?_⟩
      · rw [e0, hch1]; simp only [ea, Bool.not_false, if_true]
        exact dissolve_eq h1 j a.id _ hch1 (by rw [hch1]; simp) hja
      · rw [disHeap_par_out h1 j a.id c hca hcka]; exact hparc

end DendroModel.C03.AuxH

namespace DendroModel.C03
open DendroModel DendroModel.C03.Aux DendroModel.C03.HeapAux DendroModel.C03.AuxR DendroModel.C03.AuxH

/-! ## heap layer, continued: the remaining pointer primitives refine the tree operations `step` executes -/

/-- `Node.remove_child` at pointer level, both products: the heap afterwards represents the tree without the subtree at
`c` AND, separately, the removed subtree `sub` as a parentless arborescence of its own (what the harness judges as the
"detached structure"). -/
theorem removeChild_detached_repr (h : Heap) (t sub : T) (c : Nat) (hr : Repr h none t) (hw : WF t)
    (hf : T.find? c t = some sub) (hne : c ≠ t.id) :
    ∃ p h', h.par c = some p ∧ Heap.removeChild h p c = some h' ∧ Repr h' none (splice c (fun _ => []) t) ∧
      Repr h' none sub := by
  obtain ⟨p, hp, hsub, hps, _, hnds⟩ := find_sub h c none t sub hr hw hf hne
  have hc : c ∈ ids t := (mem_iff_cnt c t).2 (find_pos c t sub hf)
  exact ⟨p, rmHeap h p c, hp, removeChild_eq h p c (child_listed h c p none t hr hc hne hp),
    spliceNil_repr h p c none t hr hw hc hne hp, detached_repr h p c sub hsub (find_id c t sub hf) hps hnds⟩

/-- **The `parent_node` setter at pointer level** (`old._child_nodes.remove(self); self._parent_node = q; append if absent`),
on a heap that represents `t`: for a non-root node `c` whose subtree `sub` does not contain the new parent `q`, the
resulting heap represents the tree-level `setParent c q t` — `sub` hangs as the last child of `q`, interior untouched. -/
theorem setParent_repr (h : Heap) (t sub : T) (c q : Nat) (hr : Repr h none t) (hw : WF t)
    (hf : T.find? c t = some sub) (hne : c ≠ t.id) (hq : q ∈ ids t) (hqs : q ∉ ids sub) :
    Repr (Heap.setParent h c (some q)) none (setParent c q t) :=
  setParent_repr_aux h t sub c q hr hw hf hne hq hqs

/-- end to end for the setter: whenever `step` (the function the driver runs) accepts `node.parent_node = q`, the pointer
routine run on the tree's own heap represents the tree `step` returns -/
theorem setParent_refines (s s' : St) (c q : Nat) (hw : WF s.t) (hs : step s (.setParent c q) = .ok s') :
    Repr (Heap.setParent (Heap.ofTree none Heap.empty s.t) c (some q)) none s'.t := by
  simp only [step] at hs
  split at hs
  · cases hs
  · rename_i sub hf
    split at hs
    · cases hs
    · rename_i hg
      injection hs with hs; subst hs
      simp only [Bool.or_eq_true, not_or] at hg
      have g1 : c ≠ s.t.id := by intro e; exact hg.1.1 (by simp [e])
      have g2 : containsId q sub = false := by simpa using hg.1.2
      have g3 : containsId q s.t = true := by simpa using hg.2
      have hqs : q ∉ ids sub := fun hm => by
        have h0 := cnt_containsId q sub g2
        have := (mem_iff_cnt q sub).1 hm; omega
      have hq : q ∈ ids s.t := (mem_iff_cnt q s.t).2 (containsId_cnt q s.t g3)
      exact setParent_repr _ s.t sub c q (ofTree_repr s.t hw) hw hf g1 hq hqs

/-- **`Edge.collapse` at pointer level** (`parent.remove_child(head); for child in children: parent.insert_child(pos, child); pos += 1`)
on a heap that represents `t`, for the edge above an internal non-root node `c`: it does not raise, the resulting heap
represents the tree-level `splice c (collapseKids adjust)` — the children of `c` stand where `c` stood, in order, their
parent pointers re-aimed — and `c` is left parentless. -/
theorem edgeCollapse_repr (h : Heap) (t n : T) (c : Nat) (adj : Bool) (hr : Repr h none t) (hw : WF t)
    (hf : T.find? c t = some n) (hne : c ≠ t.id) (hk : n.cs.isEmpty = false) :
    ∃ h', Heap.edgeCollapse h c = some h' ∧ Repr h' none (splice c (collapseKids adj) t) ∧ h'.par c = none :=
  edgeCollapse_repr_aux h t n c adj hr hw hf hne hk

/-- end to end for `Edge.collapse`: whenever `step` completes, so does the pointer routine on the tree's own heap, and
its result represents the tree `step` returns (the seed's edge: nothing happens on either side) -/
theorem edgeCollapse_refines (s s' : St) (c : Nat) (adj : Bool) (hw : WF s.t) (hs : step s (.edgeCollapse c adj) = .ok s') :
    ∃ h', Heap.edgeCollapse (Heap.ofTree none Heap.empty s.t) c = some h' ∧ Repr h' none s'.t := by
  have hrep := ofTree_repr s.t hw
  simp only [step] at hs
  split at hs
  · cases hs
  · rename_i hcon
    have hcon' : containsId c s.t = true := by simpa using hcon
    split at hs
    · rename_i t' ht
      injection hs with hs; subst hs
      simp only [edgeCollapse] at ht
      split at ht
      · rename_i e
        injection ht with ht; subst ht
        have e' : c = s.t.id := by simpa using e
        have hpar := repr_root_par _ none s.t hrep
        exact ⟨_, by simp only [Heap.edgeCollapse, e', hpar], hrep⟩
      · rename_i e
        have hne : c ≠ s.t.id := by simpa using e
        split at ht
        · rename_i hf
          have := containsId_cnt c s.t hcon'
          have := find_none_cnt c s.t hf; omega
        · rename_i n hf
          split at ht
          · cases ht
          · rename_i hk
            injection ht with ht; subst ht
            obtain ⟨h', h1, h2, _⟩ := edgeCollapse_repr _ s.t n c adj hrep hw hf hne (by simpa using hk)
            exact ⟨h', h1, h2⟩
    · cases hs

/-- … and the documented error: where `step` answers `ValueError` (a terminal edge), the pointer routine raises too -/
theorem edgeCollapse_error_refines (s : St) (c : Nat) (adj : Bool) (hw : WF s.t)
    (hs : step s (.edgeCollapse c adj) = .error .valueError) :
    Heap.edgeCollapse (Heap.ofTree none Heap.empty s.t) c = none := by
  have hrep := ofTree_repr s.t hw
  simp only [step] at hs
  split at hs
  · cases hs
  · split at hs
    · cases hs
    · rename_i e ht
      simp only [edgeCollapse] at ht
      split at ht
      · cases ht
      · rename_i e1
        have hne : c ≠ s.t.id := by simpa using e1
        split at ht
        · cases ht
        · rename_i n hf
          split at ht
          · rename_i hk
            obtain ⟨p, hp, hsub, _, _, _⟩ := find_sub _ c none s.t n hrep hw hf hne
            have hid := find_id c s.t n hf
            have hch := repr_root_ch _ (some p) n hsub
            rw [hid] at hch
            have hk' : n.cs = [] := by simpa using hk
            simp only [Heap.edgeCollapse, hp, hch, hk', List.map_nil, List.isEmpty_nil, if_true]
          · cases ht

/-- **`Edge.invert` at pointer level, on an edge whose tail is the parentless seed** (every inversion of `reseed_at`'s chain
is of this kind): the head `c` becomes the parentless root and the old seed, minus `c`, its last child. -/
theorem edgeInvert_repr (h : Heap) (i : Nat) (x : Option Nat) (l : Option Frac) (s : Option String) (pre post : List T)
    (c : T) (hr : Repr h none (.node i x l s (pre ++ c :: post))) (hw : WF (.node i x l s (pre ++ c :: post)))
    (l1 l2 : Option Frac) :
    ∃ h', Heap.edgeInvert h c.id = some h' ∧
      Repr h' none (.node c.id c.taxon l1 c.label (c.cs ++ [.node i x l2 s (pre ++ post)])) :=
  ⟨_, (rot h i x l s pre post c hr hw l1 l2).1, (rot h i x l s pre post c hr hw l1 l2).2⟩

/-- … and why `Edge.invert` is safe only there: on an edge whose tail HAS a parent `g`, the routine as written leaves `g`
listing the old head among its children while the head's parent pointer is cleared — the result represents no tree
(`Edge.invert` is not among the operations of the property; `reseed_at` only ever inverts at the seed, `reseedChain_refines`). -/
theorem edgeInvert_inner_breaks (h : Heap) (head tail g : Nat) (hpt : h.par head = some tail) (hpg : h.par tail = some g)
    (hg : tail ∈ h.ch g) (hl : head ∈ h.ch tail) (hgt : g ≠ tail) (hgh : g ≠ head) (hht : head ≠ tail) :
    ∃ h', Heap.edgeInvert h head = some h' ∧ h'.par head = none ∧ head ∈ h'.ch g ∧
      ∀ (q : Option Nat) (t : T), Repr h' q t → g ∈ ids t → False := by
  obtain ⟨h', h1, h2, h3, _⟩ := edgeInvert_inner h head tail g hpt hpg hg hl hgt hgh hht
  refine ⟨h', h1, h2, h3, ?_⟩
  intro q t hr hgin
  -- a node listed among the children of a represented node has that node as its parent
  have : ∀ (n : Nat) (q : Option Nat) (t : T), t.size ≤ n → Repr h' q t → g ∈ ids t → False := by
    intro n
    induction n with
    | zero => intro q t hs; cases t; simp [T.size] at hs
    | succ n ih =>
      intro q t hs hr hgin
      cases t with
      | node j a b d e =>
      simp only [T.size] at hs
      simp only [Repr] at hr
      simp only [ids, List.mem_cons] at hgin
      rcases hgin with rfl | hgin
      · have hm : head ∈ e.map T.id := hr.2.1 ▸ h3
        obtain ⟨y, hy, hyid⟩ := List.mem_map.mp hm
        have := reprL_mem_par h' g e y hr.2.2 hy
        rw [hyid, h2] at this; cases this
      · obtain ⟨pre, y, post, rfl, hy, _⟩ := mem_idsL_split g e hgin
        have hry : Repr h' (some j) y := by
          have := (reprL_split h' (some j) pre (y :: post) hr.2.2).2
          simp only [ReprL] at this; exact this.1
        have hys : y.size ≤ n := by have := size_le_sizeL (pre ++ y :: post) y (by simp); omega
        exact ih (some j) y hys hry hy
  exact this t.size q t (Nat.le_refl _) hr hgin

/-- **The `suppress_unifurcations=True` branch of `Node.remove_child` at pointer level**, end to end: whenever the
tree-level `removeChild p c true` (what `step` runs) completes on a tree without shared nodes, the pointer routine as
written — plain removal; then, if `self` has a parent and is left with one child, `insert_child(pos, child)` /
`remove_child(self)` / `self._child_nodes = []`; if `self` is parentless and left with two children, the first internal
one is removed and its children re-inserted at its position in reversed order — run on the tree's own heap does not
raise, and its result represents exactly the tree the model returns; the removed node is parentless. -/
theorem removeChildSuppress_refines (t t' : T) (p c : Nat) (hw : WF t) (ht : removeChild p c true t = .ok t') :
    ∃ h', Heap.removeChildSuppress (Heap.ofTree none Heap.empty t) p c = some h' ∧ Repr h' none t' ∧ h'.par c = none := by
  have hpo : parentOf c t = some p := by
    unfold removeChild at ht
    split at ht
    · cases ht
    · rename_i e; simpa using e
  by_cases hpr : p = t.id
  · exact removeChildSuppress_root _ t t' p c (ofTree_repr t hw) hw hpo hpr ht
  · exact removeChildSuppress_nonroot _ t t' p c (ofTree_repr t hw) hw hpo hpr ht

/-- the same through `step`: the heap result represents the state `step` returns -/
theorem removeChildSuppress_step_refines (s s' : St) (p c : Nat) (hw : WF s.t)
    (hs : step s (.removeChild p c true) = .ok s') :
    ∃ h', Heap.removeChildSuppress (Heap.ofTree none Heap.empty s.t) p c = some h' ∧ Repr h' none s'.t ∧ h'.par c = none := by
  simp only [step] at hs
  split at hs
  · cases hs
  · split at hs
    · rename_i t' ht
      injection hs with hs; subst hs
      exact removeChildSuppress_refines s.t t' p c hw ht
    · cases hs

/-- non-vacuity of the new heap theorems on ((A,B),(C,D)) (`exTree`: 0 root, 1 = (A,B) with leaves 2, 3; 4 = (C,D) with leaves 5, 6):
the hypotheses hold and every pointer routine really restructures -/
example : WF exTree ∧ (T.find? 4 exTree).map (fun n => (n.id, n.cs.map T.id)) = some (4, [5, 6]) ∧
    ((step { t := exTree, rooted := none } (.setParent 4 1)).toOption.map (fun s' => s'.t.size)) = some 7 ∧
    (Heap.setParent (Heap.ofTree none Heap.empty exTree) 4 (some 1)).ch 1 = [2, 3, 4] ∧
    (Heap.setParent (Heap.ofTree none Heap.empty exTree) 4 (some 1)).ch 0 = [1] ∧
    (Heap.setParent (Heap.ofTree none Heap.empty exTree) 4 (some 1)).par 4 = some 1 := by
  refine ⟨by unfold WF; decide, by decide, by decide, by decide, by decide, by decide⟩
example : ((step { t := exTree, rooted := none } (.edgeCollapse 4 false)).toOption.map (fun s' => s'.t.size)) = some 6 ∧
    (Heap.edgeCollapse (Heap.ofTree none Heap.empty exTree) 4).map (fun h => (h.ch 0, h.par 5, h.par 6, h.par 4)) =
      some ([1, 5, 6], some 0, some 0, none) ∧
    (match step { t := exTree, rooted := none } (.edgeCollapse 5 false) with | .error .valueError => true | _ => false) = true ∧
    (Heap.edgeCollapse (Heap.ofTree none Heap.empty exTree) 5).isNone = true := by
  refine ⟨by decide, by decide, by decide, by decide⟩
/-- `remove_child(C, suppress_unifurcations=True)` on (C,D): D takes the place of the emptied node 4 (non-root case); and on
the seed of (A,B,(C,D)) removing A leaves (B,(C,D)), whose internal child is dissolved: (B,C,D) (root case) -/
example : ((removeChild 4 5 true exTree).toOption.map T.size) = some 5 ∧
    (Heap.removeChildSuppress (Heap.ofTree none Heap.empty exTree) 4 5).map (fun h => (h.ch 0, h.par 6, h.par 4, h.ch 4, h.par 5)) =
      some ([1, 6], some 0, none, [], none) := by
  refine ⟨by decide, by decide⟩
example : let t : T := .node 0 none none none [.node 1 (some 0) none none [], .node 2 (some 1) none none [],
      .node 4 none none none [.node 5 (some 2) none none [], .node 6 (some 3) none none []]]
    ((removeChild 0 1 true t).toOption.map (fun t' => t'.cs.map T.id)) = some [2, 5, 6] ∧
    (Heap.removeChildSuppress (Heap.ofTree none Heap.empty t) 0 1).map (fun h => (h.ch 0, h.par 5, h.par 6)) =
      some ([2, 5, 6], some 0, some 0) ∧
    (Heap.removeChildSuppress (Heap.ofTree none Heap.empty t) 0 1).map (fun h => (h.par 4, h.ch 4, h.par 1)) =
      some (none, [], none) := by
  intro t; refine ⟨by decide, by decide, by decide⟩
/-- `Edge.invert` below the seed of `exTree` on the edge above C (5): its tail 4 has the parent 0, which afterwards lists 5 -/
example : (Heap.edgeInvert (Heap.ofTree none Heap.empty exTree) 5).map (fun h => (h.par 5, h.ch 0, h.par 4)) =
    some (none, [1, 5], some 5) := by decide

end DendroModel.C03


namespace DendroModel.C03
open DendroModel DendroModel.C03.Aux DendroModel.C03.HeapAux DendroModel.C03.AuxR DendroModel.C03.AuxH

/-- **`Tree.collapse_basal_bifurcation` at pointer level** is one `Edge.collapse` (`to_del_edge.collapse()`), on the
second child of the seed if that has at least two children, else on the first: whenever the tree-level `collapseBasal`
(what `step` runs for `collapse_basal_bifurcation`, `deroot`, and inside `encode_bipartitions` / `reseed_at`) restructures a
tree without shared nodes, `Edge.collapse` on that child's edge, run on the tree's own heap, does not raise and its result
represents exactly the tree `collapseBasal` returns; the dissolved node ends parentless. -/
theorem collapseBasal_repr (h : Heap) (t t' : T) (hrep : Repr h none t) (hw : WF t) (hc : collapseBasal t = some t') :
    ∃ d h', d ∈ t.cs.map T.id ∧ Heap.edgeCollapse h d = some h' ∧ Repr h' none t' ∧ h'.par d = none := by
  cases t with
  | node j x l s cs =>
  match cs, hc, hw, hrep with
  | [], hc, _, _ => simp [collapseBasal, T.cs] at hc
  | [_], hc, _, _ => simp [collapseBasal, T.cs] at hc
  | _ :: _ :: _ :: _, hc, _, _ => simp [collapseBasal, T.cs] at hc
  | [a, b], hc, hw, hrep =>
    have hdef : collapseBasal (T.node j x l s [a, b]) =
        (if b.cs.length ≥ 2 then some ((T.node j x l s [a, b]).withCs (a.withLen (addLen a.len b.len) :: b.cs))
         else if a.cs.length ≥ 2 then some ((T.node j x l s [a, b]).withCs (a.cs ++ [b.withLen (addLen b.len a.len)]))
         else none) := rfl
    rw [hdef] at hc
    have hnd : (ids (T.node j x l s [a, b])).Nodup := hw
    simp only [ids, idsL, List.append_nil, List.nodup_cons, List.mem_append, not_or] at hnd
    have hdis : ∀ y ∈ ids a, ∀ z ∈ ids b, y ≠ z := (List.nodup_append.mp hnd.2).2.2
    have hja : j ≠ a.id := fun e => hnd.1.1 (e ▸ id_mem_ids a)
    have hjb : j ≠ b.id := fun e => hnd.1.2 (e ▸ id_mem_ids b)
    have hab : a.id ≠ b.id := hdis a.id (id_mem_ids a) b.id (id_mem_ids b)
    simp only [T.withCs] at hc
    split at hc
    · -- the second child is dissolved
      rename_i hb2
      injection hc with hc; subst hc
      have hr' : Repr h none (T.node j x l s [a.withLen (addLen a.len b.len), b]) := by
        simp only [Repr, ReprL, and_true] at hrep ⊢
        exact ⟨hrep.1, by rw [hrep.2.1]; simp, withLen_repr h (some j) _ a hrep.2.2.1, hrep.2.2.2⟩
      have hw' : WF (T.node j x l s [a.withLen (addLen a.len b.len), b]) := by
        show (ids _).Nodup
        have : (ids (T.node j x l s [a, b])).Nodup := hw
        simpa [ids, idsL, ids_withLen] using this
      have hbna : b.id ∉ ids (a.withLen (addLen a.len b.len)) := by
        rw [ids_withLen]; exact fun hm => hdis b.id hm b.id (id_mem_ids b) rfl
      have hfa : T.find? b.id (a.withLen (addLen a.len b.len)) = none := by
        cases hf : T.find? b.id (a.withLen (addLen a.len b.len)) with
        | none => rfl
        | some r => exact absurd ((mem_iff_cnt _ _).2 (find_pos _ _ r hf)) hbna
      have hf : T.find? b.id (T.node j x l s [a.withLen (addLen a.len b.len), b]) = some b := by
        have hbj : b.id ≠ j := fun e => hjb e.symm
        have e1 : (b.id == j) = false := by simp [hbj]
        simp only [T.find?, e1, T.findL?, hfa, find_self b.id b rfl, Bool.false_eq_true, if_false]
      have hk : b.cs.isEmpty = false := by
        cases hcs : b.cs with
        | nil => rw [hcs] at hb2; simp at hb2
        | cons _ _ => rfl
      obtain ⟨h', e1, e2, e3⟩ := edgeCollapse_repr h _ b b.id false hr' hw' hf (by simp only [T.id]; exact fun e => hjb e.symm) hk
      refine ⟨b.id, h', by simp [T.cs], e1, ?_, e3⟩
      have hsp : splice b.id (collapseKids false) (T.node j x l s [a.withLen (addLen a.len b.len), b]) =
          T.node j x l s (a.withLen (addLen a.len b.len) :: b.cs) := by
        have hck : collapseKids false b = b.cs := by simp [collapseKids]
        simp [splice, spliceL, hab, spliceF_notin _ _ _ hbna, hck]
      rw [hsp] at e2; exact e2
    · split at hc
      · -- the first child is dissolved
        rename_i ha2
        injection hc with hc; subst hc
        have hr' : Repr h none (T.node j x l s [a, b.withLen (addLen b.len a.len)]) := by
          simp only [Repr, ReprL, and_true] at hrep ⊢
          exact ⟨hrep.1, by rw [hrep.2.1]; simp, hrep.2.2.1, withLen_repr h (some j) _ b hrep.2.2.2⟩
        have hw' : WF (T.node j x l s [a, b.withLen (addLen b.len a.len)]) := by
          show (ids _).Nodup
          have : (ids (T.node j x l s [a, b])).Nodup := hw
          simpa [ids, idsL, ids_withLen] using this
        have hf : T.find? a.id (T.node j x l s [a, b.withLen (addLen b.len a.len)]) = some a := by
          have haj : a.id ≠ j := fun e => hja e.symm
          have e1 : (a.id == j) = false := by simp [haj]
          simp only [T.find?, e1, T.findL?, find_self a.id a rfl, Bool.false_eq_true, if_false]
        have hk : a.cs.isEmpty = false := by
          cases hcs : a.cs with
          | nil => rw [hcs] at ha2; simp at ha2
          | cons _ _ => rfl
        obtain ⟨h', e1, e2, e3⟩ := edgeCollapse_repr h _ a a.id false hr' hw' hf (by simp only [T.id]; exact fun e => hja e.symm) hk
        refine ⟨a.id, h', by simp [T.cs], e1, ?_, e3⟩
        have hsp : splice a.id (collapseKids false) (T.node j x l s [a, b.withLen (addLen b.len a.len)]) =
            T.node j x l s (a.cs ++ [b.withLen (addLen b.len a.len)]) := by
          have hck : collapseKids false a = a.cs := by simp [collapseKids]
          simp [splice, spliceL, hck]
        rw [hsp] at e2; exact e2
      · cases hc

/-- … in particular on the tree's own heap, and after the inversion chain of `reseed_at` (compose with `reseedChain_refines`:
the heap that chain leaves represents `reseedCore target false t`, so this theorem applies to it) -/
theorem collapseBasal_refines (t t' : T) (hw : WF t) (hc : collapseBasal t = some t') :
    ∃ d h', d ∈ t.cs.map T.id ∧ Heap.edgeCollapse (Heap.ofTree none Heap.empty t) d = some h' ∧ Repr h' none t' ∧
      h'.par d = none :=
  collapseBasal_repr _ t t' (ofTree_repr t hw) hw hc

/-- non-vacuity: ((A,B),(C,D)) — the second child (4) is dissolved, its children C, D move up behind (A,B) -/
example : (collapseBasal exTree).map (fun t' => t'.cs.map T.id) = some [1, 5, 6] ∧
    (Heap.edgeCollapse (Heap.ofTree none Heap.empty exTree) 4).map (fun h => (h.ch 0, h.par 4)) = some ([1, 5, 6], none) := by
  refine ⟨by decide, by decide⟩

end DendroModel.C03


/-! # heap refinement, third part: error of remove_child, what `Repr` means, insert_child of an existing child, reseed_at with the basal collapse -/

namespace DendroModel.C03.AuxH
open DendroModel DendroModel.C03 DendroModel.C03.Aux DendroModel.C03.HeapAux DendroModel.C03.AuxR

mutual
/-- in a represented heap, a node listed among the children of a node of the tree is where the tree-level `parentOf` finds it -/
theorem listed_parentOf (h : Heap) (c p : Nat) : ∀ (q : Option Nat) (t : T), Repr h q t → (ids t).Nodup → p ∈ ids t →
    c ∈ h.ch p → parentOf c t = some p
  | q, .node i a b d cs, hr, hnd, hp, hc => by
      simp only [ids, List.nodup_cons] at hnd
      simp only [Repr] at hr
      simp only [ids, List.mem_cons] at hp
      simp only [parentOf]
      rcases hp with rfl | hp
      · have : cs.any (fun x => x.id == c) = true := by
          rw [hr.2.1] at hc
          obtain ⟨x, hx, hxc⟩ := List.mem_map.mp hc
          exact List.any_eq_true.mpr ⟨x, hx, by simp [hxc]⟩
        simp [this]
      · have hcL : c ∈ idsL cs := chL_sub_ids h (some i) cs hr.2.2 p hp c hc
        have hpi : p ≠ i := fun e => hnd.1 (e ▸ hp)
        have hany : cs.any (fun x => x.id == c) = false := by
          cases hh : cs.any (fun x => x.id == c) with
          | false => rfl
          | true =>
            obtain ⟨x, hx, hxc⟩ := List.any_eq_true.mp hh
            have hxc' : x.id = c := by simpa using hxc
            have h1 := reprL_mem_par h i cs x hr.2.2 hx
            rw [hxc'] at h1
            have h2 := (listedL_par h c p i cs hr.2.2 hnd.2 hp hc)
            rw [h1] at h2; exact absurd (Option.some.inj h2).symm hpi
        simp only [hany, Bool.false_eq_true, if_false]
        exact listedL_parentOf h c p i cs hr.2.2 hnd.2 hp hc
theorem listedL_parentOf (h : Heap) (c p : Nat) : ∀ (i : Nat) (cs : List T), ReprL h (some i) cs → (idsL cs).Nodup →
    p ∈ idsL cs → c ∈ h.ch p → parentOfL c cs = some p
  | _, [], _, _, hp, _ => by simp [idsL] at hp
  | i, x :: xs, hr, hnd, hp, hc => by
      simp only [ReprL] at hr
      simp only [idsL] at hnd
      have hndx := (List.nodup_append.mp hnd).1
      have hndxs := (List.nodup_append.mp hnd).2.1
      have hdis : ∀ y ∈ ids x, ∀ z ∈ idsL xs, y ≠ z := (List.nodup_append.mp hnd).2.2
      simp only [idsL, List.mem_append] at hp
      simp only [parentOfL]
      rcases hp with hp | hp
      · rw [listed_parentOf h c p (some i) x hr.1 hndx hp hc]
      · have hcxs : c ∈ idsL xs := chL_sub_ids h (some i) xs hr.2 p hp c hc
        have hnone : parentOf c x = none := by
          cases hpo : parentOf c x with
          | none => rfl
          | some p' =>
            have := parentOf_repr h c p' (some i) x hr.1 hndx hpo
            exact absurd rfl (hdis c this.2.1 c hcxs)
        rw [hnone]
        exact listedL_parentOf h c p i xs hr.2 hndxs hp hc
/-- … and its parent pointer points back -/
theorem listedL_par (h : Heap) (c p : Nat) : ∀ (i : Nat) (cs : List T), ReprL h (some i) cs → (idsL cs).Nodup →
    p ∈ idsL cs → c ∈ h.ch p → h.par c = some p
  | _, [], _, _, hp, _ => by simp [idsL] at hp
  | i, x :: xs, hr, hnd, hp, hc => by
      simp only [ReprL] at hr
      simp only [idsL] at hnd
      simp only [idsL, List.mem_append] at hp
      rcases hp with hp | hp
      · cases x with
        | node j a b d e =>
          have hrx := hr.1
          simp only [Repr] at hrx
          have hndx := (List.nodup_append.mp hnd).1
          simp only [ids, List.nodup_cons] at hndx
          simp only [ids, List.mem_cons] at hp
          rcases hp with rfl | hp
          · rw [hrx.2.1] at hc
            obtain ⟨y, hy, hyc⟩ := List.mem_map.mp hc
            exact hyc ▸ reprL_mem_par h p e y hrx.2.2 hy
          · exact listedL_par h c p j e hrx.2.2 hndx.2 hp hc
      · exact listedL_par h c p i xs hr.2 (List.nodup_append.mp hnd).2.1 hp hc
end

end DendroModel.C03.AuxH

namespace DendroModel.C03
open DendroModel DendroModel.C03.Aux DendroModel.C03.HeapAux DendroModel.C03.AuxR DendroModel.C03.AuxH

/-- **The documented error of `Node.remove_child`, at pointer level.**  Whenever `step` answers `remove_child` with
`ValueError` (the node is not listed as a child of `self`; `self` is a node of the tree), the pointer routine as written,
with or without `suppress_unifurcations`, raises as well — before touching any pointer (`none` = no successor heap), which
is the "raises a documented error and leaves the tree well formed" half of the statement for this primitive. -/
theorem removeChild_error_refines (s : St) (p c : Nat) (sup : Bool) (hw : WF s.t)
    (hs : step s (.removeChild p c sup) = .error .valueError) :
    Heap.removeChild (Heap.ofTree none Heap.empty s.t) p c = none ∧
    Heap.removeChildSuppress (Heap.ofTree none Heap.empty s.t) p c = none := by
  have hrep := ofTree_repr s.t hw
  simp only [step] at hs
  split at hs
  · cases hs
  · rename_i hcon
    have hp : p ∈ ids s.t := (mem_iff_cnt p s.t).2 (containsId_cnt p s.t (by simpa using hcon))
    split at hs
    · cases hs
    · rename_i e he
      have hpo : parentOf c s.t ≠ some p := by
        intro hpo
        have hpo' : (parentOf c s.t != some p) = false := by simp [hpo]
        simp only [removeChild, hpo', Bool.false_eq_true, if_false] at he
        repeat (first | (split at he) | cases he)
      have hnl : c ∉ (Heap.ofTree none Heap.empty s.t).ch p :=
        fun hm => hpo (listed_parentOf _ c p none s.t hrep hw hp hm)
      have h1 : Heap.removeChild (Heap.ofTree none Heap.empty s.t) p c = none := by
        simp [Heap.removeChild, hnl]
      exact ⟨h1, by simp [Heap.removeChildSuppress, h1]⟩

/-- non-vacuity: B (3) is not a child of (C,D) (4) -/
example : (match step { t := exTree, rooted := none } (.removeChild 4 3 true) with | .error .valueError => true | _ => false) = true ∧
    (Heap.removeChild (Heap.ofTree none Heap.empty exTree) 4 3).isNone = true := by
  refine ⟨by decide, by decide⟩

end DendroModel.C03

namespace DendroModel.C03
open DendroModel DendroModel.C03.Aux DendroModel.C03.HeapAux DendroModel.C03.AuxR DendroModel.C03.AuxH

/-- **What `Repr` means, in the words of the statement.**  If a heap represents a tree without shared nodes then, read on
the pointers alone: the seed has no parent; every other node of the tree has a parent that is a node of the tree, is
listed exactly once among that parent's children and among no other node's children; every listed child's parent pointer
points back; and the child lists lead to nodes of the tree only (so a traversal from the seed visits exactly `ids t`).
This is clause (a) of the property; every `_repr` / `_refines` theorem above therefore says that the pointer routine leaves
an arborescence in exactly this sense. -/
theorem repr_is_arborescence (h : Heap) (t : T) (hr : Repr h none t) (hw : WF t) :
    h.par t.id = none ∧
    (∀ c ∈ ids t, c ≠ t.id → ∃ p ∈ ids t, h.par c = some p ∧ (h.ch p).count c = 1 ∧
        ∀ p' ∈ ids t, c ∈ h.ch p' → p' = p) ∧
    (∀ p ∈ ids t, ∀ k ∈ h.ch p, k ∈ ids t ∧ h.par k = some p) := by
  have hlisted : ∀ p ∈ ids t, ∀ k ∈ h.ch p, h.par k = some p := by
    intro p hp k hk
    exact (parentOf_repr h k p none t hr hw (listed_parentOf h k p none t hr hw hp hk)).1
  have hnodup : ∀ p ∈ ids t, (h.ch p).Nodup := by
    intro p hp
    obtain ⟨n, hf⟩ := find_exists p t hp
    have hid := find_id p t n hf
    by_cases hroot : p = t.id
    · have hn : n = t := by
        cases t with
        | node j a b d e =>
          simp only [T.id] at hroot; subst hroot
          simp [T.find?] at hf; exact hf.symm
      subst hn
      rw [← hid, repr_root_ch h none n hr]
      cases n with
      | node j a b d e =>
        have : (ids (T.node j a b d e)).Nodup := hw
        simp only [ids, List.nodup_cons] at this
        exact (map_id_sublist e).nodup this.2
    · obtain ⟨g, _, hrn, _, _, hndn⟩ := find_sub h p none t n hr hw hf hroot
      rw [← hid, repr_root_ch h (some g) n hrn]
      cases n with
      | node j a b d e =>
        simp only [ids, List.nodup_cons] at hndn
        exact (map_id_sublist e).nodup hndn.2
  refine ⟨repr_root_par h none t hr, ?_, fun p hp k hk => ⟨ch_sub_ids h none t hr p hp k hk, hlisted p hp k hk⟩⟩
  intro c hc hne
  obtain ⟨sub, hf⟩ := find_exists c t hc
  obtain ⟨p, hp, _, _, hpt, _⟩ := find_sub h c none t sub hr hw hf hne
  have hl : c ∈ h.ch p := child_listed h c p none t hr hc hne hp
  refine ⟨p, hpt, hp, ?_, ?_⟩
  · have h1 := List.nodup_iff_count.mp (hnodup p hpt) c
    have h2 : 0 < (h.ch p).count c := List.count_pos_iff.mpr hl
    omega
  · intro p' hp' hl'
    have := hlisted p' hp' c hl'
    rw [hp] at this; exact (Option.some.inj this).symm

/-- non-vacuity on ((A,B),(C,D)): the literal reading for node C (5) -/
example : (Heap.ofTree none Heap.empty exTree).par 0 = none ∧ (Heap.ofTree none Heap.empty exTree).par 5 = some 4 ∧
    ((Heap.ofTree none Heap.empty exTree).ch 4).count 5 = 1 ∧ ((Heap.ofTree none Heap.empty exTree).ch 0).count 5 = 0 := by decide

end DendroModel.C03

namespace DendroModel.C03.AuxH
open DendroModel DendroModel.C03 DendroModel.C03.Aux DendroModel.C03.HeapAux DendroModel.C03.AuxR

theorem reprL_mem (h : Heap) (q : Option Nat) : ∀ (l : List T) (y : T), ReprL h q l → y ∈ l → Repr h q y
  | [], _, _, hy => by simp at hy
  | x :: xs, y, hr, hy => by
      simp only [ReprL] at hr
      simp only [List.mem_cons] at hy
      rcases hy with rfl | hy
      · exact hr.1
      · exact reprL_mem h q xs y hr.2 hy

theorem reprL_of_mem (h : Heap) (q : Option Nat) : ∀ l : List T, (∀ y ∈ l, Repr h q y) → ReprL h q l
  | [], _ => by simp [ReprL]
  | x :: xs, hy => by
      simp only [ReprL]
      exact ⟨hy x (by simp), reprL_of_mem h q xs (fun y hm => hy y (by simp [hm]))⟩

/- re-arranging the children of `p` (a heap that differs from `h` in `ch p` only) -/
mutual
theorem rearrange_repr (h h' : Heap) (p : Nat) (g : T → List T)
    (hpar : ∀ x, h'.par x = h.par x) (hch : ∀ x, x ≠ p → h'.ch x = h.ch x)
    (hsub : ∀ n : T, ∀ y ∈ g n, y ∈ n.cs)
    (hloc : ∀ n : T, n.id = p → h.ch p = n.cs.map T.id → (n.cs.map T.id).Nodup → h'.ch p = (g n).map T.id) :
    ∀ (q : Option Nat) (t : T), Repr h q t → (ids t).Nodup → Repr h' q (modify p (fun n => n.withCs (g n)) t)
  | q, .node j x l s cs, hr, hnd => by
      simp only [ids, List.nodup_cons] at hnd
      simp only [Repr] at hr
      simp only [modify]
      split
      · rename_i e
        have hjp : j = p := by simpa using e
        subst hjp
        simp only [T.withCs, Repr]
        have hndm : (cs.map T.id).Nodup := (map_id_sublist cs).nodup hnd.2
        refine ⟨by rw [hpar]; exact hr.1, hloc (.node j x l s cs) rfl hr.2.1 hndm, ?_⟩
        apply reprL_of_mem
        intro y hy
        have hycs : y ∈ cs := hsub (.node j x l s cs) y hy
        apply agree h h' (some j) y _ (reprL_mem h (some j) cs y hr.2.2 hycs)
        intro z hz
        have hzj : z ≠ j := fun e1 => hnd.1 (e1 ▸ ids_sub_idsL cs y hycs z hz)
        exact ⟨hpar z, hch z hzj⟩
      · rename_i e
        have hjp : j ≠ p := by simpa using e
        simp only [Repr]
        refine ⟨by rw [hpar]; exact hr.1, ?_, rearrangeL_repr h h' p g hpar hch hsub hloc (some j) cs hr.2.2 hnd.2⟩
        rw [hch j hjp, hr.2.1, modifyL_map_id]; intro y; cases y; rfl
theorem rearrangeL_repr (h h' : Heap) (p : Nat) (g : T → List T)
    (hpar : ∀ x, h'.par x = h.par x) (hch : ∀ x, x ≠ p → h'.ch x = h.ch x)
    (hsub : ∀ n : T, ∀ y ∈ g n, y ∈ n.cs)
    (hloc : ∀ n : T, n.id = p → h.ch p = n.cs.map T.id → (n.cs.map T.id).Nodup → h'.ch p = (g n).map T.id) :
    ∀ (q : Option Nat) (cs : List T), ReprL h q cs → (idsL cs).Nodup → ReprL h' q (modifyL p (fun n => n.withCs (g n)) cs)
  | _, [], _, _ => by simp [modifyL, ReprL]
  | q, c :: cs, hr, hnd => by
      simp only [idsL] at hnd
      simp only [ReprL] at hr
      simp only [modifyL, ReprL]
      exact ⟨rearrange_repr h h' p g hpar hch hsub hloc q c hr.1 (List.nodup_append.mp hnd).1,
             rearrangeL_repr h h' p g hpar hch hsub hloc q cs hr.2 (List.nodup_append.mp hnd).2.1⟩
end

/-- the new child list `insert_child(index, node)` gives a node when `node` already is one of its children -/
def moveKids (idx c : Nat) (n : T) : List T :=
  match n.cs.findIdx? (fun x => x.id == c), n.cs.find? (fun x => x.id == c) with
  | some cur, some sub => if cur == idx then n.cs else insertAt idx sub (n.cs.filter (fun x => x.id != c))
  | _, _ => n.cs

theorem insertMove_eq (p idx c : Nat) (t : T) : insertMove p idx c t = modify p (fun n => n.withCs (moveKids idx c n)) t := by
  unfold insertMove
  congr 1
  funext n
  have hself : n.withCs n.cs = n := by cases n; rfl
  unfold moveKids
  cases n.cs.findIdx? (fun x => x.id == c) with
  | none => simp [hself]
  | some cur =>
    cases n.cs.find? (fun x => x.id == c) with
    | none => simp [hself]
    | some sub =>
      by_cases e : (cur == idx) = true
      · simp [e, hself]
      · simp [e]

theorem idxOf_map_id (c : Nat) : ∀ cs : List T, (cs.map T.id).idxOf? c = cs.findIdx? (fun x => x.id == c)
  | [] => by simp
  | x :: xs => by
      simp only [List.map_cons, List.idxOf?_cons, List.findIdx?_cons, idxOf_map_id c xs]

theorem erase_map_id (c : Nat) : ∀ cs : List T, (cs.map T.id).Nodup →
    (cs.map T.id).erase c = (cs.filter (fun x => x.id != c)).map T.id
  | [], _ => by simp
  | x :: xs, hnd => by
      simp only [List.map_cons, List.nodup_cons] at hnd
      by_cases hx : x.id = c
      · have hc : c ∉ xs.map T.id := hx ▸ hnd.1
        have hall : xs.filter (fun y => y.id != c) = xs := by
          apply List.filter_eq_self.mpr
          intro y hy
          have : y.id ≠ c := fun e => hc (List.mem_map.mpr ⟨y, hy, e⟩)
          simp [this]
        simp [hx, hall]
      · have hb : (x.id != c) = true := by simp [hx]
        simp only [List.map_cons, List.filter_cons, hb, if_true]
        rw [List.erase_cons_tail (by simpa using hx), erase_map_id c xs hnd.2]

end DendroModel.C03.AuxH

namespace DendroModel.C03
open DendroModel DendroModel.C03.Aux DendroModel.C03.HeapAux DendroModel.C03.AuxR DendroModel.C03.AuxH

/-- **`Node.insert_child(index, node)` at pointer level where `node` already is a child of `self`** (the "moved to the
specified position" case: `cur_index = children.index(node)`; nothing if it is there already, else `remove` + `insert`):
whenever `step` accepts the operation, the pointer routine run on the tree's own heap represents the tree `step` returns. -/
theorem insertMove_refines (s s' : St) (p idx c : Nat) (hw : WF s.t) (hs : step s (.insertMove p idx c) = .ok s') :
    Repr (Heap.insertChild (Heap.ofTree none Heap.empty s.t) p idx c) none s'.t := by
  have hrep := ofTree_repr s.t hw
  generalize Heap.ofTree none Heap.empty s.t = h at hrep
  simp only [step] at hs
  split at hs
  · cases hs
  · rename_i hpo0
    injection hs with hs; subst hs
    have hpo : parentOf c s.t = some p := by simpa using hpo0
    obtain ⟨hp, hc, hne⟩ := parentOf_repr h c p none s.t hrep hw hpo
    have hl : c ∈ h.ch p := child_listed h c p none s.t hrep hc hne hp
    have hfar := insertChild_far h p idx c
    show Repr _ none (insertMove p idx c s.t)
    rw [insertMove_eq]
    apply rearrange_repr h _ p (moveKids idx c) _ hfar.1 _ _ none s.t hrep hw
    · intro x
      by_cases hx : x = c
      · subst hx
        rw [hp]
        unfold Heap.insertChild
        cases (h.ch p).idxOf? x with
        | none => simp [Heap.setPar, Heap.setCh]
        | some cur => by_cases e : (cur == idx) = true <;> simp [e, Heap.setPar, Heap.setCh]
      · exact hfar.2 x hx
    · intro n y hy
      unfold moveKids at hy
      split at hy
      · rename_i cur sub hfi hfd
        split at hy
        · exact hy
        · simp only [insertAt, List.mem_append, List.mem_cons] at hy
          rcases hy with hy | rfl | hy
          · exact (List.mem_filter.mp (List.mem_of_mem_take hy)).1
          · exact List.mem_of_find?_eq_some hfd
          · exact (List.mem_filter.mp (List.mem_of_mem_drop hy)).1
      · exact hy
    · intro n hn hch hnd
      have hcm : c ∈ n.cs.map T.id := hch ▸ hl
      obtain ⟨x0, hx0, hx0c⟩ := List.mem_map.mp hcm
      have hidx : (h.ch p).idxOf? c = n.cs.findIdx? (fun x => x.id == c) := by rw [hch, idxOf_map_id]
      unfold moveKids
      cases hfi : n.cs.findIdx? (fun x => x.id == c) with
      | none =>
        have := (List.findIdx?_eq_none_iff.mp hfi) x0 hx0
        simp [hx0c] at this
      | some cur =>
        cases hfd : n.cs.find? (fun x => x.id == c) with
        | none =>
          have := (List.find?_eq_none.mp hfd) x0 hx0
          simp [hx0c] at this
        | some sub =>
          have hsc : sub.id = c := by have := List.find?_some hfd; simpa using this
          rw [hfi] at hidx
          by_cases e : (cur == idx) = true
          · simp only [Heap.insertChild, hidx, e, if_true, Heap.setPar]
            exact hch
          · have e' : (cur == idx) = false := by simpa using e
            simp only [Heap.insertChild, hidx, e', Bool.false_eq_true, if_false, Heap.setPar, Heap.setCh, if_true]
            rw [hch, erase_map_id c n.cs hnd]
            simp [Heap.insertAtN, insertAt, hsc, List.map_take, List.map_drop]

/-- non-vacuity: moving D (6) to the front of (C,D) -/
example : ((step { t := exTree, rooted := none } (.insertMove 4 0 6)).toOption.map
      (fun s' => (T.find? 4 s'.t).map (fun n => n.cs.map T.id))) = some (some [6, 5]) ∧
    (Heap.insertChild (Heap.ofTree none Heap.empty exTree) 4 0 6).ch 4 = [6, 5] := by
  refine ⟨by decide, by decide⟩

end DendroModel.C03

namespace DendroModel.C03
open DendroModel DendroModel.C03.Aux DendroModel.C03.HeapAux DendroModel.C03.AuxR DendroModel.C03.AuxH

/-- **`reseed_at(new_seed, collapse_unrooted_basal_bifurcation=<any>, suppress_unifurcations=False)` at pointer level**:
the inversion chain as written, followed — exactly when the model's guard (`gen_reseedCollapseGuard`: flag set, tree not
rooted, two children at the new seed) fires and `collapse_basal_bifurcation` finds a child to dissolve — by that one
`Edge.collapse`, represents the tree `step` returns for `reseedAt target collapse false`.
Still PARTIAL with respect to `suppress_unifurcations=True` (the pointer-level post-order suppression loop and the
leaf-target clean-up are not in the heap model). -/
theorem reseedAt_collapse_refines (s : St) (target : Nat) (collapse : Bool) (hw : WF s.t) (ht : target ∈ ids s.t) :
    ∃ h1, Heap.reseedChain (Heap.ofTree none Heap.empty s.t) (s.t.size + 2) target = some h1 ∧
      (Repr h1 none (reseedAt target collapse false s).t ∨
       ∃ d h2, Heap.edgeCollapse h1 d = some h2 ∧ Repr h2 none (reseedAt target collapse false s).t ∧ h2.par d = none) := by
  obtain ⟨h1, hc, hr⟩ := reseedChain_refines s.t target hw ht
  have hw1 : WF (reseedCore target false s.t) := wf_of_le hw (reseedCore_le target false s.t)
  refine ⟨h1, hc, ?_⟩
  have key : (reseedAt target collapse false s).t =
      (if (collapse && s.rooted != some true && (reseedCore target false s.t).cs.length == 2) = true then
        (match collapseBasal (reseedCore target false s.t) with
          | some t' => t'
          | none => reseedCore target false s.t)
       else reseedCore target false s.t) := by
    simp only [reseedAt, encodeStruct, Bool.false_eq_true, if_false, collapseBasalSt]
    split
    · cases hcb : collapseBasal (reseedCore target false s.t) <;> rfl
    · rfl
  rw [key]
  split
  · cases hcb : collapseBasal (reseedCore target false s.t) with
    | none => left; exact hr
    | some t' =>
      right
      obtain ⟨d, h2, _, e1, e2, e3⟩ := collapseBasal_repr h1 _ t' hr hw1 hcb
      exact ⟨d, h2, e1, e2, e3⟩
  · left; exact hr

/-- non-vacuity: re-seeding the unrooted (((C,D)x)y,E) at the unary node y (1): one inversion gives y[x, old seed[E]], a basal
bifurcation whose first child x = (C,D) is then dissolved by one `Edge.collapse` -/
example : let t : T := .node 0 none none none [.node 1 none none none [.node 2 none none none
        [.node 3 (some 0) none none [], .node 4 (some 1) none none []]], .node 5 (some 2) none none []]
    (reseedAt 1 true false { t := t, rooted := some false }).t.cs.map T.id = [3, 4, 0] ∧
    ((Heap.reseedChain (Heap.ofTree none Heap.empty t) (t.size + 2) 1).bind (fun h => Heap.edgeCollapse h 2)).map
      (fun h => (h.ch 1, h.par 3, h.par 2, h.ch 0)) = some ([3, 4, 0], some 1, none, [5]) := by
  intro t; refine ⟨by decide, by decide⟩

end DendroModel.C03


/-! # the error clause -/

namespace DendroModel.C03.Aux
open DendroModel DendroModel.C03

theorem filterLast_le (keepIds : List Nat) (recursive : Bool) : ∀ (f : Nat) (t : T) (i : Nat),
    cnt i (filterLast keepIds recursive f t) ≤ cnt i t
  | 0, t, i => by simp [filterLast]
  | f + 1, t, i => by
      simp only [filterLast]
      split
      · exact Nat.le_refl _
      · split
        · exact dropLeaves_le _ t i
        · exact Nat.le_trans (filterLast_le keepIds recursive f _ i) (dropLeaves_le _ t i)

/-- when the loop of `filter_leaf_nodes` raises, the tree it holds at that moment (`filterLast`) is the bare seed, and the
filter rejects it -/
theorem loop_err_last (keepIds : List Nat) (recursive : Bool) : ∀ (f : Nat) (t : T) (e : Err),
    filterLeaves.loop recursive (fun c => keepIds.contains c.id) f t = .error e →
    e = .seedDeletion ∧ (filterLast keepIds recursive f t).cs = [] ∧
      keepIds.contains (filterLast keepIds recursive f t).id = false
  | 0, t, e, h => by simp [filterLeaves.loop] at h
  | f + 1, t, e, h => by
      simp only [filterLeaves.loop] at h
      simp only [filterLast]
      split at h
      · rename_i hemp
        simp only [hemp, if_true]
        split at h
        · cases h
        · rename_i hk
          injection h with h
          exact ⟨h.symm, by simpa using hemp, by simpa using hk⟩
      · rename_i hemp
        simp only [hemp, Bool.false_eq_true, if_false]
        split at h
        · cases h
        · rename_i hc
          simp only [hc, Bool.false_eq_true, if_false]
          exact loop_err_last keepIds recursive f _ e h

end DendroModel.C03.Aux

namespace DendroModel.C03
open DendroModel DendroModel.C03.Aux

/-! ## the error clause: the state a raising operation leaves behind -/

/-- **"… raises a documented error and leaves the tree well formed."**  Whatever operation raises, on whatever tree without
shared nodes: the state it leaves behind (`errState`: the state as it was, or — `filter_leaf_nodes` — the tree its loop had
reached) has no shared node. -/
theorem errState_wf (s : St) (op : Op) (h : WF s.t) : WF (errState s op).t := by
  cases op <;> first
    | exact h
    | exact wf_of_le h (fun i => filterLast_le _ _ _ s.t i)

/-- every operation of the alphabet other than `filter_leaf_nodes` raises BEFORE ITS FIRST WRITE: the state it leaves is the
state it found (for the two pointer primitives that can raise this is proved on the heap as well: `removeChild_error_refines`,
`edgeCollapse_error_refines`; `prune_subtree` tests `node._parent_node is None` first) -/
theorem errState_unchanged (s : St) (op : Op) (hop : ∀ k r u sp, op ≠ .filterLeaves k r u sp) : errState s op = s := by
  cases op <;> first
    | rfl
    | exact absurd rfl (hop _ _ _ _)

/-- … and `filter_leaf_nodes`, the one operation that raises mid-way: the exception is `SeedNodeDeletionException`, and the
partially mutated tree it leaves is the bare seed (every other node was removed by the passes before), a leaf the filter
rejects — a one-node arborescence -/
theorem filterLeaves_error_state (s : St) (keep : List Nat) (r u sp : Bool) (e : Err)
    (hs : step s (.filterLeaves keep r u sp) = .error e) :
    e = .seedDeletion ∧ (errState s (.filterLeaves keep r u sp)).t.cs = [] ∧
      keep.contains (errState s (.filterLeaves keep r u sp)).t.id = false ∧
      (errState s (.filterLeaves keep r u sp)).rooted = s.rooted := by
  simp only [step, filterLeaves] at hs
  split at hs
  · rename_i e' he
    injection hs with hs; subst hs
    have := loop_err_last keep r (s.t.size + 1) s.t e' he
    exact ⟨this.1, this.2.1, this.2.2, rfl⟩
  · cases hs

/-- **Clause (a), tree level, every history — with the states raising operations really leave.**  `runE` continues a
history after a raise from `errState` (not from "the state as it was"): the final tree has no shared node. -/
theorem historyE_wf : ∀ (ops : List Op) (s : St), WF s.t → (∀ op ∈ ops, op.SubWF) → WF (runE ops s).t
  | [], s, h, _ => h
  | op :: ops, s, h, hall => by
      simp only [runE]
      have hop := hall op (by simp)
      have hrest : ∀ o ∈ ops, o.SubWF := fun o ho => hall o (by simp [ho])
      split
      · rename_i s' hs
        exact historyE_wf ops s' (step_wf s s' op h hop hs) hrest
      · exact historyE_wf ops _ (errState_wf s op h) hrest

/-- `run` and `runE` differ only through `filter_leaf_nodes` raising: on a history without that operation they agree -/
theorem runE_eq_run : ∀ (ops : List Op) (s : St), (∀ op ∈ ops, ∀ k r u sp, op ≠ .filterLeaves k r u sp) → runE ops s = run ops s
  | [], s, _ => rfl
  | op :: ops, s, hall => by
      have hrest : ∀ o ∈ ops, ∀ k r u sp, o ≠ .filterLeaves k r u sp := fun o ho => hall o (by simp [ho])
      simp only [runE, run]
      split
      · exact runE_eq_run ops _ hrest
      · rw [errState_unchanged s op (hall op (by simp))]; exact runE_eq_run ops s hrest

/-- non-vacuity: a filter that rejects every node of ((A,B),(C,D)) empties the tree in three passes and then raises on the
seed; the state left is the bare seed, and the history goes on from there (a new child can be hung under it) -/
example : (match step { t := exTree, rooted := none } (.filterLeaves [] true false true) with
      | .error .seedDeletion => true | _ => false) = true ∧
    (errState { t := exTree, rooted := none } (.filterLeaves [] true false true)).t.size = 1 ∧
    (runE [.filterLeaves [] true false true, .newChild 0 (some 5) none] { t := exTree, rooted := none }).t.size = 2 ∧
    (run [.filterLeaves [] true false true, .newChild 0 (some 5) none] { t := exTree, rooted := none }).t.size = 8 := by
  refine ⟨by decide, by decide, by decide, by decide⟩

end DendroModel.C03


/-! # clause (c) -/

namespace DendroModel.C03.Aux
open DendroModel DendroModel.C03

theorem addLen_eq (a b : Option Frac) : C03.addLen a b = DendroModel.addLen a b := by
  cases a <;> cases b <;> rfl

mutual
theorem sup_eq : ∀ t : T, C03.sup t = T.sup t
  | .node i x l s cs => by
      simp only [C03.sup, T.sup, supL_eq cs]
      split <;> simp_all [addLen_eq]
theorem supL_eq : ∀ cs : List T, C03.supL cs = T.supL cs
  | [] => rfl
  | c :: cs => by simp only [C03.supL, T.supL, sup_eq c, supL_eq cs]
end

theorem collapseBasal_eq (t : T) : (C03.collapseBasal t).getD t = T.collapseBasal t := by
  cases t with
  | node i x l s cs =>
    match cs with
    | [] => rfl
    | [_] => rfl
    | _ :: _ :: _ :: _ => rfl
    | [a, b] =>
      have hdef : C03.collapseBasal (T.node i x l s [a, b]) =
          (if b.cs.length ≥ 2 then some (T.node i x l s (a.withLen (C03.addLen a.len b.len) :: b.cs))
           else if a.cs.length ≥ 2 then some (T.node i x l s (a.cs ++ [b.withLen (C03.addLen b.len a.len)]))
           else none) := rfl
      have hdef2 : T.collapseBasal (T.node i x l s [a, b]) =
          (if b.cs.length ≥ 2 then T.node i x l s (a.withLen (DendroModel.addLen a.len b.len) :: b.cs)
           else if a.cs.length ≥ 2 then T.node i x l s (a.cs ++ [b.withLen (DendroModel.addLen b.len a.len)])
           else T.node i x l s [a, b]) := rfl
      rw [hdef, hdef2]
      by_cases h1 : b.cs.length ≥ 2
      · simp [h1, addLen_eq]
      · by_cases h2 : a.cs.length ≥ 2 <;> simp [h1, h2, addLen_eq]

end DendroModel.C03.Aux

namespace DendroModel.C03
open DendroModel DendroModel.C03.Aux

/-! ## clause (c): what an operation asked to update bipartitions leaves is what a fresh encoding produces -/

/-- the restructuring `step` performs for `encode_bipartitions` / `update_bipartitions` is, node for node, the tree C01's
model of `encode_bipartitions` encodes (`C01.encodeTree`; C01's theorems are about the masks of that tree) -/
theorem encodeStruct_is_C01 (a b : Bool) (s : St) : (encodeStruct a b s).t = C01.encodeTree s.rooted a b s.t := by
  have hcb := collapseBasal_eq s.t
  simp only [encodeStruct, C01.encodeTree, collapseBasalSt]
  by_cases hg : (b && s.rooted != some true && s.t.cs.length == 2) = true
  · simp only [hg, if_true]
    cases hc : C03.collapseBasal s.t with
    | none => rw [hc] at hcb; simp only [Option.getD] at hcb; rw [← hcb]; cases a <;> simp [sup_eq]
    | some t' => rw [hc] at hcb; simp only [Option.getD] at hcb; rw [← hcb]; cases a <;> simp [sup_eq]
  · simp only [hg]; cases a <;> simp [sup_eq]

/-- the rooting state after the restructuring is "rooted" exactly when it was before (a collapse happens only on a tree
that is not rooted, and marks it unrooted) -/
theorem encodeStruct_rooted (a b : Bool) (s : St) : ((encodeStruct a b s).rooted == some true) = (s.rooted == some true) := by
  simp only [encodeStruct, collapseBasalSt]
  by_cases hg : (b && s.rooted != some true && s.t.cs.length == 2) = true
  · have hr : (s.rooted == some true) = false := by
      cases hsr : s.rooted with
      | none => rfl
      | some v => cases v <;> simp_all
    simp only [hg, if_true]
    cases C03.collapseBasal s.t <;> cases a <;> simp [hr]
  · simp only [hg]; cases a <;> simp

/-- **Clause (c).**  The list of `(leafset, split)` masks `encode_bipartitions(suppress, collapse)` computes and stores
(C01's `encode`, on the state the call found) is exactly what a fresh encoding of the tree it leaves produces — a fresh
encoding that restructures nothing (`False, False`), i.e. the masks of the tree as it stands, which is what the harness's
from-scratch oracle compares the stored encoding with. -/
theorem encode_is_fresh (a b : Bool) (s : St) :
    C01.encode (encodeStruct a b s).rooted false false (encodeStruct a b s).t = C01.encode s.rooted a b s.t := by
  have h1 := encodeStruct_is_C01 a b s
  have h2 := encodeStruct_rooted a b s
  simp only [C01.encode]
  have e : C01.encodeTree (encodeStruct a b s).rooted false false (encodeStruct a b s).t = (encodeStruct a b s).t := by
    simp [C01.encodeTree]
  rw [e, h1, h2]

/-- the operations of the alphabet that end with that call when asked to update bipartitions -/
def Op.UpdatesBipartitions : Op → Prop
  | .encode _ _ => True
  | .reseedAt _ _ _ => True
  | .rerootAtNode _ ub _ _ => ub = true
  | .rerootAtEdge _ _ _ ub _ => ub = true
  | .collapseUnweighted _ ub => ub = true
  | .resolve _ ub => ub = true
  | .resolveRng _ ub _ => ub = true
  | .pruneSubtree _ ub _ => ub = true
  | .filterLeaves _ _ ub _ => ub = true
  | .pruneNoTaxa _ ub _ => ub = true
  | .pruneTaxa _ ub _ => ub = true
  | .retainTaxa _ ub _ => ub = true
  | _ => False

/-- … for every such operation, the state `step` returns IS the output of a final `encode_bipartitions(a, b)` on some state
`s1` (the operation's own restructuring done): so the encoding that call stores, `C01.encode s1.rooted a b s1.t`, equals the
fresh encoding of the returned tree (`encode_is_fresh`).  Not covered: `to_outgroup_position`, `suppress_unifurcations`,
`randomly_reorient`, whose `update_bipartitions` the model treats as structurally neutral (oracle only). -/
theorem step_update_is_fresh (s s' : St) (op : Op) (hub : op.UpdatesBipartitions) (hs : step s op = .ok s') :
    ∃ (s1 : St) (a b : Bool), s' = encodeStruct a b s1 ∧
      C01.encode s'.rooted false false s'.t = C01.encode s1.rooted a b s1.t := by
  have key : ∀ (s1 : St) (a b : Bool), s' = encodeStruct a b s1 →
      ∃ (s1 : St) (a b : Bool), s' = encodeStruct a b s1 ∧
        C01.encode s'.rooted false false s'.t = C01.encode s1.rooted a b s1.t :=
    fun s1 a b e => ⟨s1, a, b, e, by rw [e]; exact encode_is_fresh a b s1⟩
  cases op <;> simp only [Op.UpdatesBipartitions] at hub
  case encode a b => simp only [step] at hs; injection hs with hs; exact key s a b hs.symm
  case reseedAt target c sp =>
    simp only [step] at hs; split at hs
    · cases hs
    · injection hs with hs; exact key _ sp c hs.symm
  case rerootAtNode target ub sp c =>
    subst hub
    simp only [step] at hs; split at hs
    · cases hs
    · injection hs with hs; exact key _ sp c (by rw [← hs]; rfl)
  case rerootAtEdge head l1 l2 ub sp =>
    subst hub
    simp only [step] at hs; split at hs
    · cases hs
    · rename_i hne
      injection hs with hs
      simp only [Bool.or_eq_true, not_or] at hne
      cases hp : parentOf head s.t with
      | none => simp [hp] at hne
      | some tl =>
        cases hf : T.find? head s.t with
        | none =>
          have h0 := find_none_cnt head s.t hf
          have h1 := parentOf_c_pos head s.t tl hp
          have h2 := cnt_eq head s.t
          omega
        | some sub =>
          simp only [rerootAtEdge, hp, hf] at hs
          exact key _ sp true (by rw [← hs]; rfl)
  case collapseUnweighted thr ub =>
    subst hub; simp only [step] at hs; injection hs with hs; exact key _ true true (by rw [← hs]; rfl)
  case resolve lim ub =>
    subst hub; simp only [step] at hs; split at hs
    · cases hs
    · injection hs with hs; exact key _ true true (by rw [← hs]; rfl)
  case resolveRng lim ub sc =>
    subst hub; simp only [step] at hs; split at hs
    · cases hs
    · injection hs with hs; exact key _ true true (by rw [← hs]; rfl)
  case pruneSubtree c ub sp =>
    subst hub; simp only [step] at hs; split at hs
    · cases hs
    · simp only [pruneSubtree] at hs; split at hs
      · cases hs
      · injection hs with hs; exact key _ sp true (by rw [← hs]; rfl)
  case filterLeaves keep r ub sp =>
    subst hub; simp only [step, filterLeaves] at hs; split at hs
    · cases hs
    · injection hs with hs; exact key _ sp true (by rw [← hs]; rfl)
  case pruneNoTaxa r ub sp =>
    subst hub; simp only [step] at hs; injection hs with hs; exact key _ sp true (by rw [← hs]; rfl)
  case pruneTaxa bits ub sp =>
    subst hub; simp only [step] at hs; injection hs with hs
    exact key _ sp true (by rw [← hs]; rfl)
  case retainTaxa bits ub sp =>
    subst hub; simp only [step] at hs; injection hs with hs
    exact key _ sp true (by rw [← hs]; rfl)

/-- non-vacuity: on the unrooted ((A,B),(C,D)), `resolve_polytomies(update_bipartitions=True)` ends with an encoding call that
collapses the basal bifurcation; the leafset masks of the tree it leaves (A, B, C, D, {C,D}… as bit sets) are those of `C01.encode` -/
example : (Op.resolve 2 true).UpdatesBipartitions ∧
    ((step { t := exTree, rooted := some false } (.resolve 2 true)).toOption.map (fun s' => s'.t.cs.map T.id)) = some [1, 5, 6] ∧
    (C01.encode (some false) true true exTree).map Prod.fst = [1, 2, 3, 4, 8, 15] := by
  refine ⟨rfl, by decide, by decide⟩

end DendroModel.C03


/-! # the loop of suppress_unifurcations at pointer level; reseed_at in full -/

namespace DendroModel.C03.AuxH
open DendroModel DendroModel.C03 DendroModel.C03.Aux DendroModel.C03.HeapAux DendroModel.C03.AuxR

/-- what replaces a unary node in `suppress_unifurcations`: its child, the lengths merged with `None` as absent -/
def liftAdd (n : T) : List T :=
  match n.cs with
  | [ch] => [ch.withLen (addLen ch.len n.len)]
  | _ => [n]

/-- the heap one iteration of the loop leaves at a unary node `p` under `g` with child `k` -/
def ssHeap (h : Heap) (g p k : Nat) : Heap :=
  (Heap.insertChild (rmHeap h g p) g (((h.ch g).idxOf? p).getD 0) k).setPar p none

theorem ssHeap_par (h : Heap) (g p k x : Nat) :
    (ssHeap h g p k).par x = if x = p then none else (Heap.insertChild (rmHeap h g p) g (((h.ch g).idxOf? p).getD 0) k).par x := by
  simp [ssHeap, Heap.setPar]

theorem ssHeap_ch (h : Heap) (g p k x : Nat) :
    (ssHeap h g p k).ch x = (Heap.insertChild (rmHeap h g p) g (((h.ch g).idxOf? p).getD 0) k).ch x := by
  simp [ssHeap, Heap.setPar]

theorem ssHeap_ok (h : Heap) (g p k : Nat) (hk : h.ch p = [k]) (hgp0 : g ≠ p) : LocalOK h (ssHeap h g p k) g p liftAdd where
  far := by
    intro x hxg hxp hxk
    have hxk' : x ≠ k := by rw [hk] at hxk; simpa using hxk
    have hf := insertChild_far (rmHeap h g p) g (((h.ch g).idxOf? p).getD 0) k
    rw [ssHeap_par, ssHeap_ch]
    simp only [hxp, if_false]
    rw [hf.2 x hxk', hf.1 x hxg]
    simp [rmHeap, hxp, hxg]
  parP := by
    intro hgp hgk
    have hgk' : g ≠ k := by rw [hk] at hgk; simpa using hgk
    have hf := insertChild_far (rmHeap h g p) g (((h.ch g).idxOf? p).getD 0) k
    rw [ssHeap_par]
    simp only [hgp, if_false]
    rw [hf.2 g hgk']; simp [rmHeap, hgp]
  loc := by
    intro pre post n hn hrl hnd hch
    have hsp := reprL_split h (some g) pre (n :: post) hrl
    have hrn : Repr h (some g) n := by have := hsp.2; simp only [ReprL] at this; exact this.1
    have hnd' := List.nodup_cons.mp hnd
    have hg_all := hnd'.1
    have hnd2 := hnd'.2
    simp only [idsL_append, idsL] at hnd2 hg_all
    simp only [List.mem_append, not_or] at hg_all
    have hdis1 : ∀ a ∈ idsL pre, ∀ b ∈ ids n ++ idsL post, a ≠ b := (List.nodup_append.mp hnd2).2.2
    have hnd_rest := (List.nodup_append.mp hnd2).2.1
    have hndn := (List.nodup_append.mp hnd_rest).1
    have hdis2 : ∀ a ∈ ids n, ∀ b ∈ idsL post, a ≠ b := (List.nodup_append.mp hnd_rest).2.2
    have hpn : p ∈ ids n := hn ▸ id_mem_ids n
    have hp_pre : p ∉ pre.map T.id := fun hm => hdis1 p (map_id_sub_idsL pre p hm) p (List.mem_append_left _ hpn) rfl
    have hchp : h.ch p = n.cs.map T.id := by rw [← hn]; exact repr_root_ch h (some g) n hrn
    cases n with
    | node j a b d e =>
    simp only [T.id] at hn; subst hn
    simp only [T.cs] at hchp
    rw [hk] at hchp
    match e, hchp with
    | [ch], hchp =>
    have hkid : ch.id = k := by simpa using hchp.symm
    simp only [Repr, ReprL, and_true] at hrn
    have hrch : Repr h (some j) ch := hrn.2.2
    simp only [ids, idsL, List.append_nil, List.nodup_cons] at hndn
    have hkn : k ∈ ids (T.node j a b d [ch]) := by simp [ids, idsL, ← hkid, id_mem_ids ch]
    have hkj : k ≠ j := fun e1 => hndn.1 (e1 ▸ hkid ▸ id_mem_ids ch)
    have hkg : k ≠ g := fun e1 => hg_all.2.1 (e1 ▸ hkn)
    have hch' : h.ch g = pre.map T.id ++ j :: post.map T.id := by rw [hch]; simp [T.id]
    have hpos : ((h.ch g).idxOf? j).getD 0 = (pre.map T.id).length := by rw [hch', idxOf_mid j _ _ hp_pre]; rfl
    have hrm : (rmHeap h g j).ch g = pre.map T.id ++ post.map T.id := by
      simp only [rmHeap, if_true]; rw [hch', erase_mid _ _ j hp_pre]
    have hkXY : k ∉ pre.map T.id ∧ k ∉ post.map T.id :=
      ⟨fun hm => hdis1 k (map_id_sub_idsL pre k hm) k (List.mem_append_left _ hkn) rfl,
       fun hm => hdis2 k hkn k (map_id_sub_idsL post k hm) rfl⟩
    obtain ⟨a1, a2, a3, a4⟩ := insertChild_absent (rmHeap h g j) g k (pre.map T.id) (post.map T.id) hrm hkXY
    rw [← hpos] at a1 a2 a3 a4
    refine ⟨?_, ?_⟩
    · rw [ssHeap_ch, a1]
      simp [liftAdd, T.cs, hkid]
    · simp only [liftAdd, T.cs, ReprL, and_true]
      apply withLen_repr
      apply repr_reparent h _ (some j) (some g) ch hrch
      · intro x hx
        have hxch : x ∈ ids ch := by cases ch; simp only [T.cs] at hx; simp [ids, hx]
        have hxk : x ≠ k := by
          intro e1
          cases ch with
          | node i2 a2' b2 d2 e2 =>
            simp only [T.id] at hkid; subst hkid
            simp only [T.cs] at hx
            have := hndn.2; simp only [ids, List.nodup_cons] at this
            exact this.1 (e1 ▸ hx)
        have hxj : x ≠ j := fun e1 => hndn.1 (e1 ▸ hxch)
        have hxg : x ≠ g := fun e1 => hg_all.2.1 (by rw [← e1]; simp [ids, idsL, hxch])
        rw [ssHeap_par, ssHeap_ch]
        simp only [hxj, if_false]
        rw [a4 x hxk, a2 x hxg]
        simp [rmHeap, hxj, hxg]
      · rw [ssHeap_par, hkid]; simp only [hkj, if_false]; exact a3
      · rw [ssHeap_ch, hkid, a2 k hkg]; simp [rmHeap, hkg]

/-- tree-level reading of one loop iteration at a non-seed node, on a sibling list / on a tree -/
def stepL (l : List T) (nd : Nat) : List T := spliceL nd liftAdd l
def stepT (t : T) (nd : Nat) : T := splice nd liftAdd t

mutual
theorem postIds_sub : ∀ (t : T) (y : Nat), y ∈ Heap.postIds t → y ∈ ids t
  | .node i a b d cs, y, hy => by
      simp only [Heap.postIds, List.mem_append, List.mem_singleton] at hy
      simp only [ids, List.mem_cons]
      rcases hy with hy | hy
      · exact Or.inr (postIdsL_sub cs y hy)
      · exact Or.inl hy
theorem postIdsL_sub : ∀ (cs : List T) (y : Nat), y ∈ Heap.postIdsL cs → y ∈ idsL cs
  | [], y, hy => by simp [Heap.postIdsL] at hy
  | c :: cs, y, hy => by
      simp only [Heap.postIdsL, List.mem_append] at hy
      simp only [idsL, List.mem_append]
      rcases hy with hy | hy
      · exact Or.inl (postIds_sub c y hy)
      · exact Or.inr (postIdsL_sub cs y hy)
end

theorem sup_ids_sub (t : T) (y : Nat) (hy : y ∈ ids (sup t)) : y ∈ ids t := by
  rw [mem_iff_cnt] at hy ⊢
  exact Nat.le_trans hy (sup_le t y)

theorem supL_ids_sub : ∀ (cs : List T) (y : Nat), y ∈ idsL (supL cs) → y ∈ idsL cs
  | [], y, hy => by simp [supL, idsL] at hy
  | c :: cs, y, hy => by
      simp only [supL, idsL, List.mem_append] at hy ⊢
      rcases hy with hy | hy
      · exact Or.inl (sup_ids_sub c y hy)
      · exact Or.inr (supL_ids_sub cs y hy)

/-- steps strictly inside the element `node i …` of a sibling list act on its child list -/
theorem fold_inside (i : Nat) (x : Option Nat) (l : Option Frac) (s : Option String) (pre post : List T) :
    ∀ (order : List Nat) (cs : List T), (∀ nd ∈ order, nd ≠ i ∧ nd ∉ idsL pre ∧ nd ∉ idsL post) →
    order.foldl stepL (pre ++ .node i x l s cs :: post) = pre ++ .node i x l s (order.foldl stepL cs) :: post
  | [], cs, _ => rfl
  | nd :: order, cs, h => by
      have hnd := h nd (by simp)
      have e : stepL (pre ++ .node i x l s cs :: post) nd = pre ++ .node i x l s (stepL cs nd) :: post := by
        unfold stepL
        rw [spliceL_decomp nd liftAdd _ post hnd.2.2 pre hnd.2.1]
        have hin : i ≠ nd := fun e => hnd.1 e.symm
        have hb : ((T.node i x l s cs).id == nd) = false := by simp [T.id, hin]
        simp [hb, splice]
      simp only [List.foldl_cons, e]
      exact fold_inside i x l s pre post order _ (fun n hn => h n (by simp [hn]))

theorem liftAdd_sup (i : Nat) (x : Option Nat) (l : Option Frac) (s : Option String) (cs : List T) :
    liftAdd (.node i x l s (supL cs)) = [sup (.node i x l s cs)] := by
  simp only [liftAdd, sup, T.cs, T.len]
  split <;> rename_i hh
  · simp [hh]
  · split
    · rename_i c hc; exact absurd hc (hh c)
    · rfl

mutual
/-- the loop over the post-order of one element `u` of a sibling list turns it into `sup u` -/
theorem fold_elem : ∀ (u : T) (pre post : List T), (idsL (pre ++ u :: post)).Nodup →
    (Heap.postIds u).foldl stepL (pre ++ u :: post) = pre ++ sup u :: post
  | .node i x l s cs, pre, post, hnd => by
      have hnd' := hnd
      simp only [idsL_append, idsL, ids] at hnd'
      have hdis1 : ∀ a ∈ idsL pre, ∀ b ∈ (i :: idsL cs) ++ idsL post, a ≠ b := (List.nodup_append.mp hnd').2.2
      have hrest := (List.nodup_append.mp hnd').2.1
      have hndu := (List.nodup_append.mp hrest).1
      have hdis2 : ∀ a ∈ i :: idsL cs, ∀ b ∈ idsL post, a ≠ b := (List.nodup_append.mp hrest).2.2
      have hndu' := List.nodup_cons.mp hndu
      simp only [Heap.postIds, List.foldl_append, List.foldl_cons, List.foldl_nil]
      rw [fold_inside i x l s pre post (Heap.postIdsL cs) cs ?_]
      · have hA := fold_list cs [] (by simpa using hndu'.2)
        simp only [List.nil_append] at hA
        rw [hA]
        have hi_pre : i ∉ idsL pre := fun hm => hdis1 i hm i (by simp) rfl
        have hi_post : i ∉ idsL post := fun hm => hdis2 i (by simp) i hm rfl
        unfold stepL
        rw [spliceL_decomp i liftAdd _ post hi_post pre hi_pre]
        simp [T.id, liftAdd_sup]
      · intro nd hn
        have hin := postIdsL_sub cs nd hn
        refine ⟨fun e => hndu'.1 (e ▸ hin), fun hm => hdis1 nd hm nd (by simp [hin]) rfl,
          fun hm => hdis2 nd (by simp [hin]) nd hm rfl⟩
/-- … and over the post-orders of the elements `cs` behind an already processed prefix `done` -/
theorem fold_list : ∀ (cs done : List T), (idsL (done ++ cs)).Nodup →
    (Heap.postIdsL cs).foldl stepL (done ++ cs) = done ++ supL cs
  | [], done, _ => by simp [Heap.postIdsL, supL]
  | c :: cs, done, hnd => by
      simp only [Heap.postIdsL, List.foldl_append]
      rw [fold_elem c done cs hnd]
      have e : done ++ sup c :: cs = (done ++ [sup c]) ++ cs := by simp
      rw [e, fold_list cs (done ++ [sup c]) ?_]
      · simp [supL]
      · -- ids of `sup c` are among those of `c`
        have hnd' := hnd
        simp only [idsL_append, idsL, List.append_nil] at hnd' ⊢
        have h1 := (List.nodup_append.mp hnd').1
        have h2 := (List.nodup_append.mp hnd').2.1
        have h3 : ∀ a ∈ idsL done, ∀ b ∈ ids c ++ idsL cs, a ≠ b := (List.nodup_append.mp hnd').2.2
        have h4 := (List.nodup_append.mp h2).1
        have h5 := (List.nodup_append.mp h2).2.1
        have h6 : ∀ a ∈ ids c, ∀ b ∈ idsL cs, a ≠ b := (List.nodup_append.mp h2).2.2
        have hsupnd : (ids (sup c)).Nodup := by
          have : WF (sup c) := wf_of_le (show WF c from h4) (sup_le c)
          exact this
        rw [List.append_assoc]
        apply List.nodup_append.mpr
        refine ⟨h1, List.nodup_append.mpr ⟨hsupnd, h5, fun a ha b hb => h6 a (sup_ids_sub c a ha) b hb⟩, ?_⟩
        intro a ha b hb
        simp only [List.mem_append] at hb
        rcases hb with hb | hb
        · exact h3 a ha b (by simp [sup_ids_sub c b hb])
        · exact h3 a ha b (by simp [hb])
end


mutual
theorem splice_single (c : Nat) : ∀ t : T, splice c (fun x => [x]) t = t
  | .node i a b d cs => by simp only [splice, spliceL_single c cs]
theorem spliceL_single (c : Nat) : ∀ cs : List T, spliceL c (fun x => [x]) cs = cs
  | [] => rfl
  | x :: xs => by
      simp only [spliceL]
      split
      · rfl
      · rw [splice_single c x, spliceL_single c xs]
end

/-- one iteration of the loop at a non-seed node of a represented tree -/
theorem supStep_repr (h : Heap) (t : T) (nd : Nat) (hr : Repr h none t) (hw : WF t) (hin : nd ∈ ids t) (hne : nd ≠ t.id) :
    Repr (Heap.supStep h nd) none (stepT t nd) ∧ WF (stepT t nd) ∧ (stepT t nd).id = t.id ∧
    (∀ y ∈ ids t, y ≠ nd → y ∈ ids (stepT t nd)) := by
  obtain ⟨n, hf⟩ := find_exists nd t hin
  obtain ⟨g, hpg, hrn, hgn, _, hndn⟩ := find_sub h nd none t n hr hw hf hne
  have hid : n.id = nd := find_id nd t n hf
  have hchn : h.ch nd = n.cs.map T.id := by rw [← hid]; exact repr_root_ch h (some g) n hrn
  have hex := Aux.splice_exact nd liftAdd t n (fun e => hne e.symm) hf (wf_cnt hw nd)
  have hl : nd ∈ h.ch g := child_listed h nd g none t hr hin hne hpg
  have hgnd : g ≠ nd := fun e => hgn (e ▸ hid ▸ id_mem_ids n)
  unfold stepT
  refine ⟨?_, ?_, Aux.splice_id nd liftAdd t, ?_⟩
  · cases hcs : n.cs with
    | nil =>
      have e1 : Heap.supStep h nd = h := by simp [Heap.supStep, hchn, hcs]
      have e2 : splice nd liftAdd t = t := by
        rw [splice_congr nd liftAdd (fun x => [x]) t ?_ (wf_cnt hw nd) (fun e => hne e.symm), splice_single]
        intro x hx; rw [hf] at hx; injection hx with hx; subst hx; simp [liftAdd, hcs]
      rw [e1, e2]; exact hr
    | cons ch rest =>
      cases rest with
      | cons c2 r2 =>
        have e1 : Heap.supStep h nd = h := by simp [Heap.supStep, hchn, hcs]
        have e2 : splice nd liftAdd t = t := by
          rw [splice_congr nd liftAdd (fun x => [x]) t ?_ (wf_cnt hw nd) (fun e => hne e.symm), splice_single]
          intro x hx; rw [hf] at hx; injection hx with hx; subst hx; simp [liftAdd, hcs]
        rw [e1, e2]; exact hr
      | nil =>
        have hk : h.ch nd = [ch.id] := by rw [hchn, hcs]; rfl
        have e1 : Heap.supStep h nd = ssHeap h g nd ch.id := by
          simp only [Heap.supStep, hk, hpg, removeChild_eq h g nd hl]; rfl
        rw [e1]
        exact spliceG_repr h _ g nd liftAdd (ssHeap_ok h g nd ch.id hk hgnd) hpg _ none t (Nat.le_refl _) hr hw hin hne
  · apply wf_of_le hw
    intro i
    have := hex i
    have hc := cnt_eq i n
    cases hcs : n.cs with
    | nil =>
      have hl : liftAdd n = [n] := by simp [liftAdd, hcs]
      rw [hl] at this; simp only [cntL_cons, cntL_nil] at this; omega
    | cons ch rest =>
      cases rest with
      | cons c2 r2 =>
        have hl : liftAdd n = [n] := by simp [liftAdd, hcs]
        rw [hl] at this; simp only [cntL_cons, cntL_nil] at this; omega
      | nil =>
        have hl : liftAdd n = [ch.withLen (addLen ch.len n.len)] := by simp [liftAdd, hcs]
        rw [hl] at this; rw [hcs] at hc
        simp only [cntL_cons, cntL_nil, cnt_withLen] at this hc; omega
  · intro y hy hyn
    rw [mem_iff_cnt] at hy ⊢
    have := hex y
    have hc := cnt_eq y n
    have hidy : ¬ n.id = y := fun e => hyn (by rw [← e, hid])
    cases hcs : n.cs with
    | nil =>
      have hl : liftAdd n = [n] := by simp [liftAdd, hcs]
      rw [hl] at this; simp only [cntL_cons, cntL_nil] at this; omega
    | cons ch rest =>
      cases rest with
      | cons c2 r2 =>
        have hl : liftAdd n = [n] := by simp [liftAdd, hcs]
        rw [hl] at this; simp only [cntL_cons, cntL_nil] at this; omega
      | nil =>
        have hl : liftAdd n = [ch.withLen (addLen ch.len n.len)] := by simp [liftAdd, hcs]
        rw [hl] at this; rw [hcs] at hc
        simp only [cntL_cons, cntL_nil, cnt_withLen, hidy, if_false] at this hc; omega

/-- the loop over any duplicate-free list of non-seed nodes of the tree -/
theorem supLoop_inner : ∀ (order : List Nat) (h : Heap) (t : T), Repr h none t → WF t → order.Nodup →
    (∀ nd ∈ order, nd ∈ ids t ∧ nd ≠ t.id) →
    Repr (Heap.supLoop h order) none (order.foldl stepT t) ∧ WF (order.foldl stepT t) ∧ (order.foldl stepT t).id = t.id
  | [], h, t, hr, hw, _, _ => ⟨hr, hw, rfl⟩
  | nd :: order, h, t, hr, hw, hnd, hall => by
      have hnd' := List.nodup_cons.mp hnd
      obtain ⟨h0, h1⟩ := hall nd (by simp)
      obtain ⟨s1, s2, s3, s4⟩ := supStep_repr h t nd hr hw h0 h1
      have ih := supLoop_inner order (Heap.supStep h nd) (stepT t nd) s1 s2 hnd'.2 (by
        intro y hy
        have := hall y (by simp [hy])
        have hyn : y ≠ nd := fun e => hnd'.1 (e ▸ hy)
        exact ⟨s4 y this.1 hyn, by rw [s3]; exact this.2⟩)
      simp only [Heap.supLoop, List.foldl_cons] at ih ⊢
      exact ⟨ih.1, ih.2.1, by rw [ih.2.2, s3]⟩

end DendroModel.C03.AuxH

namespace DendroModel.C03.AuxH
open DendroModel DendroModel.C03 DendroModel.C03.Aux DendroModel.C03.HeapAux DendroModel.C03.AuxR

theorem fold_root (i : Nat) (x : Option Nat) (l : Option Frac) (s : Option String) : ∀ (order : List Nat) (cs : List T),
    order.foldl stepT (.node i x l s cs) = .node i x l s (order.foldl stepL cs)
  | [], _ => rfl
  | nd :: order, cs => by
      simp only [List.foldl_cons]
      exact fold_root i x l s order (stepL cs nd)

mutual
theorem postIds_nodup : ∀ t : T, (ids t).Nodup → (Heap.postIds t).Nodup
  | .node i a b d cs, h => by
      simp only [ids, List.nodup_cons] at h
      simp only [Heap.postIds]
      apply List.nodup_append.mpr
      refine ⟨postIdsL_nodup cs h.2, by simp, ?_⟩
      intro y hy z hz
      simp only [List.mem_singleton] at hz
      subst hz
      exact fun e => h.1 (e ▸ postIdsL_sub cs y hy)
theorem postIdsL_nodup : ∀ cs : List T, (idsL cs).Nodup → (Heap.postIdsL cs).Nodup
  | [], _ => by simp [Heap.postIdsL]
  | c :: cs, h => by
      simp only [idsL] at h
      simp only [Heap.postIdsL]
      apply List.nodup_append.mpr
      refine ⟨postIds_nodup c (List.nodup_append.mp h).1, postIdsL_nodup cs (List.nodup_append.mp h).2.1, ?_⟩
      intro y hy z hz
      exact (List.nodup_append.mp h).2.2 y (postIds_sub c y hy) z (postIdsL_sub cs z hz)
end

end DendroModel.C03.AuxH

namespace DendroModel.C03
open DendroModel DendroModel.C03.Aux DendroModel.C03.HeapAux DendroModel.C03.AuxR DendroModel.C03.AuxH

/-! ## the loop of `Tree.suppress_unifurcations` at pointer level -/

/-- **The loop of `Tree.suppress_unifurcations`, as written, at pointer level.**  On a heap that represents a tree without
shared nodes: visiting the nodes in post-order and splicing out every node that has exactly one child at the moment it is
visited (`pos = parent._child_nodes.index(nd); parent.remove_child(nd); parent.insert_child(pos, child);
nd._parent_node = None`; for the parentless seed: `child._parent_node = None`, the child becomes the seed) leaves a heap that
represents exactly the tree-level `sup t` — the function `step` runs for `suppress_unifurcations` and inside
`encode_bipartitions`, `reseed_at`, the pruning routines; in particular its root is parentless. -/
theorem suppressLoop_repr (h : Heap) (t : T) (hr : Repr h none t) (hw : WF t) :
    Repr (Heap.supLoop h (Heap.postIds t)) none (sup t) := by
  cases t with
  | node i x l s cs =>
  have hw' : (ids (T.node i x l s cs)).Nodup := hw
  simp only [ids, List.nodup_cons] at hw'
  have hinner := supLoop_inner (Heap.postIdsL cs) h (.node i x l s cs) hr hw (postIdsL_nodup cs hw'.2) (by
    intro nd hnd
    have := postIdsL_sub cs nd hnd
    exact ⟨by simp [ids, this], by simp only [T.id]; exact fun e => hw'.1 (e ▸ this)⟩)
  have hfold : (Heap.postIdsL cs).foldl stepT (.node i x l s cs) = .node i x l s (supL cs) := by
    rw [fold_root]
    have := fold_list cs [] (by simpa using hw'.2)
    simp only [List.nil_append] at this
    rw [this]
  rw [hfold] at hinner
  obtain ⟨hr1, hw1, _⟩ := hinner
  have hloop : Heap.supLoop h (Heap.postIds (.node i x l s cs)) =
      Heap.supStep (Heap.supLoop h (Heap.postIdsL cs)) i := by
    simp [Heap.supLoop, Heap.postIds, List.foldl_append]
  rw [hloop]
  generalize Heap.supLoop h (Heap.postIdsL cs) = h1 at hr1
  simp only [Repr] at hr1
  obtain ⟨hpar, hch, hrl⟩ := hr1
  have hw1' : (ids (T.node i x l s (supL cs))).Nodup := hw1
  simp only [ids, List.nodup_cons] at hw1'
  simp only [sup]
  match hsl : supL cs, hch, hrl, hw1' with
  | [c], hch, hrl, hw1' =>
    have e : Heap.supStep h1 i = h1.setPar c.id none := by
      simp [Heap.supStep, hch, hpar]
    rw [e]
    simp only [ReprL, and_true] at hrl
    simp only [idsL, List.append_nil] at hw1'
    apply withLen_repr
    apply repr_reparent h1 _ (some i) none c hrl
    · intro y hy
      have : y ≠ c.id := by
        cases c with
        | node j a b d e2 =>
          simp only [T.cs] at hy
          have := hw1'.2; simp only [ids, List.nodup_cons] at this
          simp only [T.id]; exact fun e1 => this.1 (e1 ▸ hy)
      simp [Heap.setPar, this]
    · simp [Heap.setPar]
    · simp [Heap.setPar]
  | [], hch, hrl, _ =>
    have e : Heap.supStep h1 i = h1 := by simp [Heap.supStep, hch]
    rw [e]; simp only [Repr]; exact ⟨hpar, hch, hrl⟩
  | a :: b :: r, hch, hrl, _ =>
    have e : Heap.supStep h1 i = h1 := by simp [Heap.supStep, hch]
    rw [e]; simp only [Repr]; exact ⟨hpar, hch, hrl⟩

/-- end to end from the tree's own heap, through `step`: the heap the loop leaves represents the tree `step` returns for
`suppress_unifurcations` -/
theorem suppressLoop_refines (s s' : St) (hw : WF s.t) (hs : step s .suppressUnif = .ok s') :
    Repr (Heap.supLoop (Heap.ofTree none Heap.empty s.t) (Heap.postIds s.t)) none s'.t := by
  simp only [step] at hs
  injection hs with hs; subst hs
  exact suppressLoop_repr _ s.t (ofTree_repr s.t hw) hw

/-- non-vacuity: ((A,B)x)y over a unary seed — the seed and x-less chain are spliced out: (((A,B))) becomes (A,B) rooted at
the innermost node; and a unary node in the middle of a child list keeps its place -/
example : let t : T := .node 0 none none none [.node 1 none none none [.node 2 none none none
      [.node 3 (some 0) none none [], .node 4 (some 1) none none []]]]
    (sup t).id = 2 ∧ (Heap.supLoop (Heap.ofTree none Heap.empty t) (Heap.postIds t)).par 2 = none ∧
    (Heap.supLoop (Heap.ofTree none Heap.empty t) (Heap.postIds t)).ch 2 = [3, 4] := by
  intro t; refine ⟨by decide, by decide, by decide⟩
example : let t : T := .node 0 none none none [.node 1 (some 0) none none [], .node 2 none none none [.node 3 (some 1) none none []],
      .node 4 (some 2) none none []]
    (sup t).cs.map T.id = [1, 3, 4] ∧ (Heap.supLoop (Heap.ofTree none Heap.empty t) (Heap.postIds t)).ch 0 = [1, 3, 4] ∧
    (Heap.supLoop (Heap.ofTree none Heap.empty t) (Heap.postIds t)).par 3 = some 0 ∧
    (Heap.supLoop (Heap.ofTree none Heap.empty t) (Heap.postIds t)).par 2 = none := by
  intro t; refine ⟨by decide, by decide, by decide, by decide⟩

end DendroModel.C03

namespace DendroModel.C03
open DendroModel DendroModel.C03.Aux DendroModel.C03.HeapAux DendroModel.C03.AuxR DendroModel.C03.AuxH

/-- **`reseed_at(new_seed_node, update_bipartitions=<any>, collapse_unrooted_basal_bifurcation=<any>,
suppress_unifurcations=True)` at pointer level, in full**, for the documented domain (`new_seed_node` an internal node of the
tree, or the seed itself): the inversion chain as written; then, exactly when the guard fires and a child is to be dissolved,
the one `Edge.collapse` of `collapse_basal_bifurcation`; then the loop of `suppress_unifurcations` over the post-order of
the tree reached — the final heap represents the tree `step` returns for `reseedAt target collapse true`.
(This is the full form of `reseedAt_refines_partial`.  A LEAF as new seed — outside the documented domain, issued by the
harness as `undoc` — additionally runs the leaf-target clean-up, which is not in the heap model.) -/
theorem reseedAt_refines (s : St) (target : Nat) (collapse : Bool) (hw : WF s.t) (ht : target ∈ ids s.t)
    (hint : target = s.t.id ∨ ∃ n, T.find? target s.t = some n ∧ n.cs.isEmpty = false) :
    ∃ h1 h2, Heap.reseedChain (Heap.ofTree none Heap.empty s.t) (s.t.size + 2) target = some h1 ∧
      (h2 = h1 ∨ ∃ d, Heap.edgeCollapse h1 d = some h2) ∧
      Repr h2 none (reseedAt target collapse false s).t ∧
      Repr (Heap.supLoop h2 (Heap.postIds (reseedAt target collapse false s).t)) none (reseedAt target collapse true s).t := by
  have hcore : reseedCore target true s.t = reseedCore target false s.t := by
    unfold reseedCore
    split
    · rfl
    · rename_i hne
      rcases hint with e | ⟨n, hf, hk⟩
      · exact absurd (by simp [e]) hne
      · simp only [hf, hk, Bool.false_and, Bool.false_eq_true, if_false]
  have hsup : (reseedAt target collapse true s).t = sup (reseedAt target collapse false s).t := by
    simp only [reseedAt, hcore, encodeStruct, Bool.false_eq_true, if_false, if_true]
  have hw0 : WF (reseedAt target collapse false s).t := wf_of_le hw (reseedAt_le target collapse false s)
  obtain ⟨h1, hc, hcases⟩ := reseedAt_collapse_refines s target collapse hw ht
  rw [hsup]
  rcases hcases with hr | ⟨d, h2, e1, hr, _⟩
  · exact ⟨h1, h1, hc, Or.inl rfl, hr, suppressLoop_repr h1 _ hr hw0⟩
  · exact ⟨h1, h2, hc, Or.inr ⟨d, e1⟩, hr, suppressLoop_repr h2 _ hr hw0⟩

/-- non-vacuity: re-seeding the unrooted (((C,D)x)y,E) at the unary internal node y (1) with every clean-up on: one
inversion, the basal collapse dissolving x, and the suppression loop splicing out the old seed (now unary over E):
the result is y[C, D, E] -/
example : let t : T := .node 0 none none none [.node 1 none none none [.node 2 none none none
        [.node 3 (some 0) none none [], .node 4 (some 1) none none []]], .node 5 (some 2) none none []]
    (∃ n, T.find? 1 t = some n ∧ n.cs.isEmpty = false) ∧
    (reseedAt 1 true true { t := t, rooted := some false }).t.cs.map T.id = [3, 4, 5] ∧
    (((Heap.reseedChain (Heap.ofTree none Heap.empty t) (t.size + 2) 1).bind (fun h => Heap.edgeCollapse h 2)).map
      (fun h => (Heap.supLoop h (Heap.postIds (reseedAt 1 true false { t := t, rooted := some false }).t)))).map
      (fun h => (h.ch 1, h.par 5, h.par 0)) = some ([3, 4, 5], some 1, none) := by
  intro t; refine ⟨⟨_, rfl, by decide⟩, by decide, by decide⟩

end DendroModel.C03


/-! # tie (A): the regenerated decision kernels are what the model does -/
/-! Tie (A) for C03 — every decision kernel regenerated from the current source (`Gen/C03Guards.lean`, written by
`harness/gen/c03guards.py` on every run) is what the hand-written model (`Model/C03.lean`) does at that point.
A semantics-preserving rewrite of the source regenerates a definition for which these proofs still go through
(they only use case analysis, `simp`, `decide`, `omega`); a changed constant, comparison operator, conjunct or
and/or nesting in the source changes the generated definition and breaks the corresponding theorem. -/
namespace DendroModel.C03
open DendroModel

/-! ### K0 — what the atoms `internal` / `leaf` stand for -/

/-- `Node.is_internal()` / `Node.is_leaf()` as regenerated are the model's "has children" / `T.isLeaf`, and are
each other's negation (the generator reads `not x.is_leaf()` as `not (not internal)` on that ground). -/
theorem gen_nodePredicates (c : T) :
    C03Guards.nodeIsInternal c.cs.length = !c.isLeaf ∧ C03Guards.nodeIsLeaf c.cs.length = c.isLeaf
      ∧ ∀ n, C03Guards.nodeIsLeaf n = !C03Guards.nodeIsInternal n := by
  refine ⟨?_, ?_, ?_⟩
  · unfold C03Guards.nodeIsInternal T.isLeaf; cases c.cs <;> simp
  · unfold C03Guards.nodeIsLeaf T.isLeaf; cases c.cs <;> simp
  · intro n; unfold C03Guards.nodeIsLeaf C03Guards.nodeIsInternal; cases n <;> simp

example : C03Guards.nodeIsInternal 0 = false ∧ C03Guards.nodeIsLeaf 0 = true ∧ C03Guards.nodeIsInternal 3 = true := by decide

/-- `Edge.is_internal()` / `Edge.is_leaf()` of an edge that has a head node (every edge the iterators yield) are
"the head node is not a leaf" / "is a leaf". -/
theorem gen_edgePredicates (headLeaf : Bool) :
    C03Guards.edgeIsInternal true headLeaf = !headLeaf ∧ C03Guards.edgeIsLeaf true headLeaf = headLeaf := by
  cases headLeaf <;> decide

example : C03Guards.edgeIsInternal true false = true ∧ C03Guards.edgeIsLeaf true false = false := by decide

/-! ### K1 — `Tree.collapse_unweighted_edges` -/

/-- the model's per-edge test `unweighted` is the regenerated test of the source, on the atoms
`e.length is None`, `e.length <= threshold` (only meaningful for a length that is not None) and `e.is_internal()`. -/
theorem gen_collapsePred (thr : Frac) (c : T) :
    unweighted thr c
      = C03Guards.collapsePred c.len.isNone (match c.len with | some l => l.le thr | none => false) (!c.cs.isEmpty) := by
  unfold unweighted C03Guards.collapsePred
  cases c.len <;> cases c.cs.isEmpty <;> simp <;> cases (Frac.le _ thr) <;> rfl

example : unweighted Frac.zero (.node 1 none none none [.node 2 none none none []]) = true
    ∧ C03Guards.collapsePred true false true = true ∧ C03Guards.collapsePred true false false = false
    ∧ C03Guards.collapsePred false true true = true ∧ C03Guards.collapsePred false false true = false := by decide

/-- the literal default `threshold` in the source is the value the harness's corner cases issue as the default
(`thr = 1/10000000`). -/
theorem gen_defaultThreshold :
    (C03Guards.defaultThresholdNum, C03Guards.defaultThresholdDen) = ((1 : Int), (10000000 : Nat)) := by decide

/-- … and it lies strictly between 0 and 1/1024: with the default, exactly the missing, zero and negative lengths
among the dyadic lengths (denominators up to 8) the harness uses count as "unweighted". -/
theorem gen_defaultThreshold_small :
    0 < C03Guards.defaultThresholdNum ∧ C03Guards.defaultThresholdNum * 1024 < (C03Guards.defaultThresholdDen : Int) := by
  decide

example : unweighted (Frac.mk' C03Guards.defaultThresholdNum C03Guards.defaultThresholdDen)
    (.node 1 none (some (Frac.mk' 1 8)) none [.node 2 none none none []]) = false := by decide

/-! ### K2 — the guard of `collapse_basal_bifurcation()` in `encode_bipartitions` and at the end of `reseed_at` -/

/-- `encodeStruct` (the model of the restructuring done by `encode_bipartitions`) is: collapse the basal bifurcation
under the regenerated guard of `encode_bipartitions`, with the regenerated default `set_as_unrooted_tree`, then
suppress unifurcations if asked. -/
theorem gen_encodeCollapseGuard (suppress collapse : Bool) (s : St) :
    encodeStruct suppress collapse s
      = (let s1 := if C03Guards.encodeCollapseGuard collapse (s.rooted == some true) s.t.cs.length
                   then collapseBasalSt C03Guards.basalSetUnrootedDefault s else s
         if suppress then { s1 with t := sup s1.t } else s1) := by
  unfold encodeStruct C03Guards.encodeCollapseGuard C03Guards.basalSetUnrootedDefault
  by_cases hn : s.t.cs.length = 2
  · have hn' : 2 = s.t.cs.length := hn.symm
    cases collapse <;> cases hr : (s.rooted == some true) <;> simp_all [bne]
  · have hn' : ¬ 2 = s.t.cs.length := fun e => hn e.symm
    cases collapse <;> cases hr : (s.rooted == some true) <;> simp_all [bne]

/-- the `else` branch of `if update_bipartitions:` at the end of `reseed_at` uses the same guard: the model is right
to use one `encodeStruct` for both settings of `update_bipartitions`. -/
theorem gen_reseedCollapseGuard (collapse rooted : Bool) (n : Nat) :
    C03Guards.reseedCollapseGuard collapse rooted n = C03Guards.encodeCollapseGuard collapse rooted n := by
  unfold C03Guards.reseedCollapseGuard C03Guards.encodeCollapseGuard
  by_cases hn : n = 2
  · subst hn; cases collapse <;> cases rooted <;> rfl
  · have hn' : ¬ 2 = n := fun e => hn e.symm
    cases collapse <;> cases rooted <;> simp_all

example : C03Guards.encodeCollapseGuard true false 2 = true ∧ C03Guards.encodeCollapseGuard true true 2 = false
    ∧ C03Guards.encodeCollapseGuard true false 3 = false ∧ C03Guards.reseedCollapseGuard false false 2 = false := by decide

/-! ### K3 — `Tree.collapse_basal_bifurcation` -/

/-- the model's `collapseBasal` makes the regenerated choice: nothing unless the seed has exactly two children;
the second child is dissolved when it has ≥ 2 children, else the first when that has ≥ 2, else nothing. -/
theorem gen_basalChoice (t : T) :
    collapseBasal t = match t.cs with
      | [a, b] => (match C03Guards.basalChoice 2 a.cs.length b.cs.length with
        | 1 => some (t.withCs (a.withLen (addLen a.len b.len) :: b.cs))
        | 2 => some (t.withCs (a.cs ++ [b.withLen (addLen b.len a.len)]))
        | _ => none)
      | _ => none := by
  unfold collapseBasal C03Guards.basalChoice
  rcases t.cs with _ | ⟨a, _ | ⟨b, _ | ⟨c, r⟩⟩⟩
  · rfl
  · rfl
  · by_cases h1 : b.cs.length ≥ 2 <;> by_cases h0 : a.cs.length ≥ 2 <;> simp [h1, h0]
  · rfl

/-- … and returns unchanged whenever the seed does not have exactly two children (the model's `| _ => none`). -/
theorem gen_basalChoice_not2 (n n0 n1 : Nat) (h : n ≠ 2) : C03Guards.basalChoice n n0 n1 = 0 := by
  unfold C03Guards.basalChoice
  split
  · rfl
  · next hc => simp at hc; omega

example : C03Guards.basalChoice 2 0 2 = 1 ∧ C03Guards.basalChoice 2 2 0 = 2 ∧ C03Guards.basalChoice 2 2 2 = 1
    ∧ C03Guards.basalChoice 2 1 1 = 0 ∧ C03Guards.basalChoice 3 2 2 = 0 := by decide

/-! ### K4 — `Node.remove_child(node, suppress_unifurcations=True)` -/

/-- `self` has a parent: the model replaces it by its only child exactly when the regenerated count of remaining
children is met. -/
theorem gen_removeUnaryCount (p c : Nat) (t : T) (hp : parentOf c t = some p) (hr : p ≠ t.id) :
    removeChild p c true t
      = (let t1 := splice c (fun _ => []) t
         match (t1.find? p).map T.cs with
         | some cs =>
           if cs.length = C03Guards.removeUnaryCount then
             .ok (splice p (fun n => cs.map (fun child => child.withLen (tryAdd child.len n.len))) t1)
           else .ok t1
         | none => .ok t1) := by
  unfold removeChild C03Guards.removeUnaryCount
  have hr' : (p != t.id) = true := by simp [bne, hr]
  simp only [hp, hr']
  cases h : (T.find? p (splice c (fun _ => []) t)).map T.cs with
  | none => simp
  | some cs =>
    match cs with
    | [] => simp
    | [x] => simp
    | x :: y :: r => simp

/-- `self` is parentless: with exactly the regenerated number of children left, the regenerated choice (first internal
child first, else the second) says which child the model dissolves in place. -/
theorem gen_removeRootChoice (c : Nat) (t : T) (hp : parentOf c t = some t.id) :
    removeChild t.id c true t
      = (let t1 := splice c (fun _ => []) t
         if t1.cs.length = C03Guards.removeRootCount then
           match t1.cs with
           | [a, b] => (match C03Guards.removeRootChoice (!a.isLeaf) (!b.isLeaf) with
             | 1 => .ok (t1.withCs (a.cs ++ [b.withLen (tryAdd b.len a.len)]))
             | 2 => .ok (t1.withCs (a.withLen (tryAdd a.len b.len) :: b.cs))
             | _ => .ok t1)
           | _ => .ok t1
         else .ok t1) := by
  unfold removeChild C03Guards.removeRootCount C03Guards.removeRootChoice
  simp only [hp]
  generalize splice c (fun _ => []) t = t1
  match h : t1.cs with
  | [] => simp
  | [x] => simp
  | [a, b] => cases ha : a.isLeaf <;> cases hb : b.isLeaf <;> simp [ha, hb]
  | x :: y :: z :: r => simp

example : C03Guards.removeUnaryCount = 1 ∧ C03Guards.removeRootCount = 2 ∧ C03Guards.removeRootChoice true true = 1
    ∧ C03Guards.removeRootChoice false true = 2 ∧ C03Guards.removeRootChoice false false = 0 := by decide

/-! ### K5 — unifurcations -/

/-- `sup` removes a node exactly when, after its children were processed, it has the regenerated number of children
(`len(children) == 1` in `suppress_unifurcations`). -/
theorem gen_supCount (i : Nat) (x : Option Nat) (l : Option Frac) (s : Option String) (cs : List T) :
    sup (.node i x l s cs)
      = if (supL cs).length = C03Guards.supCount then
          (match supL cs with
           | c :: _ => c.withLen (addLen c.len l)
           | [] => .node i x l s [])
        else .node i x l s (supL cs) := by
  unfold C03Guards.supCount
  rw [sup]
  match supL cs with
  | [] => simp
  | [c] => simp
  | a :: b :: r => simp

/-- the per-node test of `encode_bipartitions` is: asked to suppress, and the count of `suppress_unifurcations` —
which is why `encodeStruct` may apply the very same `sup` when `suppress` is set and nothing otherwise. -/
theorem gen_encodeSupGuard (n : Nat) (suppress : Bool) :
    C03Guards.encodeSupGuard n suppress = (suppress && decide (n = C03Guards.supCount)) := by
  unfold C03Guards.encodeSupGuard C03Guards.supCount
  by_cases hn : n = 1
  · subst hn; cases suppress <;> rfl
  · have hn' : ¬ 1 = n := fun e => hn e.symm
    cases suppress <;> simp_all

example : C03Guards.encodeSupGuard 1 true = true ∧ C03Guards.encodeSupGuard 1 false = false
    ∧ C03Guards.encodeSupGuard 2 true = false ∧ C03Guards.supCount = 1 := by decide

/-! ### K6 — `Tree.resolve_polytomies` -/

/-- one round of the model's `joinLoop` is guarded by the regenerated test (`len(node._child_nodes) > limit`, the
same text at the selection of the polytomies and at the `while`: the generator refuses if they differ). -/
theorem gen_resolveGuard (limit f : Nat) (cs : List T) (k : Nat) :
    joinLoop limit (f + 1) cs k
      = if C03Guards.resolveGuard cs.length limit then
          (match cs with
           | c1 :: c2 :: rest => joinLoop limit f (rest ++ [.node k none (some Frac.zero) none [c1, c2]]) (k + 1)
           | _ => (cs, k))
        else (cs, k) := by
  unfold C03Guards.resolveGuard
  match cs with
  | [] => simp [joinLoop]
  | [x] => simp [joinLoop]
  | c1 :: c2 :: rest => simp [joinLoop]

/-- the default `limit` of the source is one the model does not refuse (`step` answers `bad-input` below 2). -/
theorem gen_defaultLimit (s : St) (ub : Bool) :
    ∃ s', step s (.resolve C03Guards.defaultLimit ub) = .ok s' := by
  unfold C03Guards.defaultLimit
  simp [step]

example : C03Guards.resolveGuard 3 2 = true ∧ C03Guards.resolveGuard 2 2 = false ∧ C03Guards.defaultLimit = 2 := by decide

end DendroModel.C03
