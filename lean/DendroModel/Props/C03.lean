import DendroModel.Theory.C03Heap
import DendroModel.Theory.C03Leaves
/-! C03 — property theorems about the definitions `drv_c03` runs (`Model/C03.lean`, `Model/C03Heap.lean`; the driver
executes `step` per operation, `run` for whole histories, and the `Heap.*` primitives).

Obligations (every `theorem` directly in `namespace DendroModel.C03` of this file):
* `step_wf`, `history_wf` — NO SHARING: every operation of the alphabet (all 30 constructors of `Op`, incl. assigning `Tree.seed_node`) and every finite
  history keeps `(ids t).Nodup`, nodes created by the operation included.  This is the part of clause (a) that an
  inductive rose tree does not give for free; "seed parentless / listed once under its parent / edge head and tail"
  are facts about pointers and are proved only where a heap refinement exists (below).  These two theorems say
  nothing about nodes being KEPT — that is `step_keeps_leaves_partial`.  An operation that raises keeps the state by
  construction of `run` (the model has no partially mutated states; the harness checks the real tree after a raise).
* `step_keeps_leaves`, `history_keeps_leaves` — the NOTHING-LOST half of clause (b), in identity form, for every
  operation (shuffle_taxa apart) and every history: on a tree without shared nodes, a taxon-bearing leaf the operation was not asked to remove (or to
  hang a child under) is still a leaf, same node, same taxon.  `step_keeps_leaves_partial` /
  `history_keeps_leaves_partial` (14 operations, no well-formedness hypothesis) are kept as they were.
* `step_no_new_node_taxon`, `step_no_new_leaf` — the NOTHING-GAINED half: no node acquires a taxon; and, when no internal
  node carries a taxon (explicit hypothesis `InnerUntaxed`; false without it), no taxon-bearing leaf appears except on
  nodes the operation created.
* `shuffle_keeps_leaf_taxa` — shuffle_taxa permutes the leaf taxa (`drawTaxa` is a permutation).
* `addChild_subtree_repr` — heap layer: `add_child` of a detached, separately represented SUBTREE (re-attachment).
* `addChild_repr`, `insertChild_repr`, `addChild_refines` — heap layer: `add_child` / `insert_child` of a NEW childless
  node refine the tree-level attachment (end to end from `ofTree`).
* `suppress_keeps_leaf_taxa` — unifurcation suppression keeps the left-to-right list of leaf taxa.
* `ofTree_repr`, `removeChild_repr`, `removeChild_frame`, `removeChild_refines` — heap layer: the pointer-level
  `remove_child` refines the tree-level operation (result represented, removed node parentless, frame property).
* `polytomize_fixpoint`, `dropLeavesFix_fixpoint`, `filterLoop_fixpoint`, `pruneUp_fuel_suffices` — the fuel of the
  bounded loops suffices.
* `reseedChain_refines` (+ `reseedAt_refines_partial`) — heap layer: the edge-inversion chain of `reseed_at`, as written
  (walk up the parent pointers, `Edge.invert` from the seed downwards, clear the new seed's parent), represents the
  tree-level re-seeding before clean-up.

NOT proved here (the definitions exist, are executable and are compared with the code on every run, but carry no
theorem): heap refinement of the `suppress_unifurcations` branch of `remove_child`, the `parent_node` setter,
`Edge.collapse`, `Edge.invert` away from the seed (grandparent branch), the pointer-level clean-up after the inversion
chain, and of `add_child` / `insert_child` of a node that
already is a child or is a re-attached subtree (`addChild_repr` / `insertChild_repr` / `addChild_refines` cover a NEW
childless node only); the error clause (no partially
mutated state exists in the model); clause (c) (masks are outside this model — decided by the oracle).
Helper lemmas are in `DendroModel.C03.Aux` / `.HeapAux` / `.Leaves`. -/
namespace DendroModel.C03.Aux
open DendroModel DendroModel.C03

/-- number of occurrences of node id `i` in a tree / a list of trees -/
def cnt (i : Nat) (t : T) : Nat := (ids t).count i
def cntL (i : Nat) (l : List T) : Nat := (idsL l).count i

@[simp] theorem cnt_node (i j : Nat) (x l s cs) :
    cnt i (.node j x l s cs) = cntL i cs + (if j = i then 1 else 0) := by
  simp [cnt, cntL, ids, List.count_cons]
@[simp] theorem cntL_nil (i : Nat) : cntL i [] = 0 := by simp [cntL, idsL]
@[simp] theorem cntL_cons (i : Nat) (c : T) (cs : List T) : cntL i (c :: cs) = cnt i c + cntL i cs := by
  simp [cnt, cntL, idsL, List.count_append]
@[simp] theorem cntL_append (i : Nat) (a b : List T) : cntL i (a ++ b) = cntL i a + cntL i b := by
  induction a with
  | nil => simp
  | cons x xs ih => simp [ih]; omega

theorem cnt_eq (i : Nat) (t : T) : cnt i t = cntL i t.cs + (if t.id = i then 1 else 0) := by
  cases t; simp only [T.cs, T.id, cnt_node]; rfl
@[simp] theorem cnt_withLen (i : Nat) (t : T) (l) : cnt i (t.withLen l) = cnt i t := by
  cases t; simp [T.withLen]
@[simp] theorem cnt_withCs (i : Nat) (t : T) (cs) : cnt i (t.withCs cs) = cntL i cs + (if t.id = i then 1 else 0) := by
  cases t; simp only [T.withCs, T.id, cnt_node]; rfl
@[simp] theorem id_withLen (t : T) (l) : (t.withLen l).id = t.id := by cases t; rfl
@[simp] theorem id_withCs (t : T) (cs) : (t.withCs cs).id = t.id := by cases t; rfl
@[simp] theorem cs_withLen (t : T) (l) : (t.withLen l).cs = t.cs := by cases t; rfl
@[simp] theorem cs_withCs (t : T) (cs) : (t.withCs cs).cs = cs := by cases t; rfl

theorem wf_iff (t : T) : WF t ↔ ∀ i, cnt i t ≤ 1 := by
  simp [WF, cnt, List.nodup_iff_count]

theorem wf_of_le {t t' : T} (h : WF t) (hle : ∀ i, cnt i t' ≤ cnt i t) : WF t' := by
  rw [wf_iff] at *; intro i; exact Nat.le_trans (hle i) (h i)

/-! ### splice / modify -/
mutual
theorem splice_le (c : Nat) (f : T → List T) (hf : ∀ x i, cntL i (f x) ≤ cnt i x) :
    ∀ (t : T) (i : Nat), cnt i (splice c f t) ≤ cnt i t
  | .node j x l s cs, i => by
      have := spliceL_le c f hf cs i
      simp [splice]; omega
theorem spliceL_le (c : Nat) (f : T → List T) (hf : ∀ x i, cntL i (f x) ≤ cnt i x) :
    ∀ (cs : List T) (i : Nat), cntL i (spliceL c f cs) ≤ cntL i cs
  | [], i => by simp [spliceL]
  | x :: xs, i => by
      simp only [spliceL]
      split
      · have := hf x i; simp; omega
      · have := splice_le c f hf x i; have := spliceL_le c f hf xs i; simp; omega
end

mutual
theorem modify_le (p : Nat) (f : T → T) (hf : ∀ x i, cnt i (f x) ≤ cnt i x) :
    ∀ (t : T) (i : Nat), cnt i (modify p f t) ≤ cnt i t
  | .node j x l s cs, i => by
      simp only [modify]
      split
      · exact hf _ i
      · have := modifyL_le p f hf cs i; simp; omega
theorem modifyL_le (p : Nat) (f : T → T) (hf : ∀ x i, cnt i (f x) ≤ cnt i x) :
    ∀ (cs : List T) (i : Nat), cntL i (modifyL p f cs) ≤ cntL i cs
  | [], i => by simp [modifyL]
  | x :: xs, i => by
      have := modify_le p f hf x i; have := modifyL_le p f hf xs i
      simp [modifyL]; omega
end

/- `f` may add up to `k i` occurrences of `i` at each node named `p` -/
mutual
theorem modify_add (p : Nat) (f : T → T) (k : Nat → Nat) (hf : ∀ x i, cnt i (f x) ≤ cnt i x + k i) :
    ∀ (t : T) (i : Nat), cnt i (modify p f t) ≤ cnt i t + cnt p t * k i
  | .node j x l s cs, i => by
      simp only [modify]
      split
      · rename_i h
        have hj : j = p := by simpa using h
        have := hf (.node j x l s cs) i
        have h1 : 1 ≤ cnt p (.node j x l s cs) := by simp [hj]
        have : k i ≤ cnt p (.node j x l s cs) * k i := Nat.le_mul_of_pos_left _ h1
        omega
      · rename_i h
        have hj : ¬ j = p := by simpa using h
        have := modifyL_add p f k hf cs i
        simp [hj]; omega
theorem modifyL_add (p : Nat) (f : T → T) (k : Nat → Nat) (hf : ∀ x i, cnt i (f x) ≤ cnt i x + k i) :
    ∀ (cs : List T) (i : Nat), cntL i (modifyL p f cs) ≤ cntL i cs + cntL p cs * k i
  | [], i => by simp [modifyL]
  | x :: xs, i => by
      have := modify_add p f k hf x i; have := modifyL_add p f k hf xs i
      simp [modifyL, Nat.add_mul]; omega
end


theorem cntL_ite_le (i : Nat) (b : Bool) (x : T) : cntL i (if b then [] else [x]) ≤ cnt i x := by
  cases b <;> simp

/-! ### clean-up steps never duplicate a node -/
mutual
theorem sup_le : ∀ (t : T) (i : Nat), cnt i (sup t) ≤ cnt i t
  | .node j x l s cs, i => by
      have h := supL_le cs i
      simp only [sup]
      split
      · rename_i c hc
        rw [hc] at h; simp at h ⊢; omega
      · simp; omega
theorem supL_le : ∀ (cs : List T) (i : Nat), cntL i (supL cs) ≤ cntL i cs
  | [], i => by simp [supL]
  | c :: cs, i => by
      have := sup_le c i; have := supL_le cs i
      simp [supL]; omega
end

theorem collapseBasal_le (t t' : T) (h : collapseBasal t = some t') (i : Nat) : cnt i t' ≤ cnt i t := by
  unfold collapseBasal at h
  split at h
  · rename_i a b hcs
    have ha := cnt_eq i a; have hb := cnt_eq i b
    rw [cnt_eq i t, hcs]
    split at h
    · injection h with h; subst h
      simp; omega
    · split at h
      · injection h with h; subst h
        simp; omega
      · cases h
  · cases h

theorem collapseBasalSt_le (su : Bool) (s : St) (i : Nat) : cnt i (collapseBasalSt su s).t ≤ cnt i s.t := by
  unfold collapseBasalSt
  split
  · rename_i t' h; exact collapseBasal_le _ _ h i
  · exact Nat.le_refl _

theorem encodeStruct_le (a b : Bool) (s : St) (i : Nat) : cnt i (encodeStruct a b s).t ≤ cnt i s.t := by
  unfold encodeStruct
  have h1 := collapseBasalSt_le true s i
  split
  · split
    · exact Nat.le_trans (sup_le _ i) h1
    · exact h1
  · split
    · exact sup_le _ i
    · exact Nat.le_refl _

theorem finish_le (a b : Bool) (s : St) (i : Nat) : cnt i (finish a b s).t ≤ cnt i s.t := by
  unfold finish
  have h1 := sup_le s.t i
  split
  · split
    · exact Nat.le_trans (encodeStruct_le _ _ _ i) h1
    · exact h1
  · split
    · exact encodeStruct_le _ _ _ i
    · exact Nat.le_refl _

theorem polyStep_le (t t' : T) (h : polyStep t = some t') (i : Nat) : cnt i t' ≤ cnt i t := by
  unfold polyStep at h
  split at h
  · rename_i l hcs
    have hl := cnt_eq i l
    split at h
    · injection h with h; subst h
      rw [cnt_eq i t, hcs]; simp; omega
    · cases h
  · rename_i l r hcs
    have hl := cnt_eq i l; have hr := cnt_eq i r
    split at h
    · injection h with h; subst h
      rw [cnt_eq i t, hcs]; simp; omega
    · split at h
      · injection h with h; subst h
        rw [cnt_eq i t, hcs]; simp; omega
      · cases h
  · cases h

theorem polytomize_le : ∀ (f : Nat) (t : T) (i : Nat), cnt i (polytomize f t) ≤ cnt i t
  | 0, t, i => by simp [polytomize]
  | f + 1, t, i => by
      simp only [polytomize]
      split
      · rename_i t' h
        exact Nat.le_trans (polytomize_le f t' i) (polyStep_le _ _ h i)
      · exact Nat.le_refl _

mutual
theorem cu_le (thr : Frac) : ∀ (t : T) (i : Nat), cnt i (cu thr t) ≤ cnt i t
  | .node j x l s cs, i => by
      have := cuL_le thr cs i
      simp [cu]; omega
theorem cuL_le (thr : Frac) : ∀ (cs : List T) (i : Nat), cntL i (cuL thr cs) ≤ cntL i cs
  | [], i => by simp [cuL]
  | c :: cs, i => by
      have h1 := cu_le thr c i; have h2 := cuL_le thr cs i
      simp only [cuL]
      split
      · rw [cnt_eq i (cu thr c)] at h1; simp; omega
      · simp; omega
end

mutual
theorem dropLeaves_le (keep : T → Bool) : ∀ (t : T) (i : Nat), cnt i (dropLeaves keep t) ≤ cnt i t
  | .node j x l s cs, i => by
      have := dropLeavesL_le keep cs i
      simp [dropLeaves]; omega
theorem dropLeavesL_le (keep : T → Bool) : ∀ (cs : List T) (i : Nat), cntL i (dropLeavesL keep cs) ≤ cntL i cs
  | [], i => by simp [dropLeavesL]
  | c :: cs, i => by
      have h1 := dropLeaves_le keep c i; have h2 := dropLeavesL_le keep cs i
      simp only [dropLeavesL]
      split
      · split <;> simp <;> omega
      · simp; omega
end

theorem dropLeavesFix_le (keep : T → Bool) : ∀ (f : Nat) (t : T) (i : Nat), cnt i (dropLeavesFix keep f t) ≤ cnt i t
  | 0, t, i => by simp [dropLeavesFix]
  | f + 1, t, i => by
      simp only [dropLeavesFix]
      split
      · exact Nat.le_refl _
      · exact Nat.le_trans (dropLeavesFix_le keep f _ i) (dropLeaves_le keep t i)

mutual
theorem pt_le (bad : Nat → Bool) : ∀ (t : T) (i : Nat), cnt i (pt bad t) ≤ cnt i t
  | .node j x l s cs, i => by
      have := ptL_le bad cs i
      simp [pt]; omega
theorem ptL_le (bad : Nat → Bool) : ∀ (cs : List T) (i : Nat), cntL i (ptL bad cs) ≤ cntL i cs
  | [], i => by simp [ptL]
  | c :: cs, i => by
      have h1 := pt_le bad c i; have h2 := ptL_le bad cs i
      simp only [ptL]
      generalize ptDrop bad c (pt bad c) = b
      have := cntL_ite_le i b (pt bad c)
      rw [cntL_append, cntL_cons]; omega
end

/-! ### re-seeding is a rearrangement -/
mutual
theorem reseedGo_cnt (target : Nat) (rl : Option Frac) :
    ∀ (t : T) (acc : List T) (r : T), reseedGo target rl acc t = some r → ∀ i, cnt i r = cnt i t + cntL i acc
  | .node j x l s cs, acc, r, h, i => by
      simp only [reseedGo] at h
      split at h
      · injection h with h; subst h; simp; omega
      · have := reseedGoL_cnt target rl j x s cs acc [] r h i
        simp at this ⊢; omega
theorem reseedGoL_cnt (target : Nat) (rl : Option Frac) (j : Nat) (x : Option Nat) (s : Option String) :
    ∀ (post acc pre : List T) (r : T), reseedGoL target rl j x s acc pre post = some r →
      ∀ i, cnt i r = cntL i pre + cntL i post + cntL i acc + (if j = i then 1 else 0)
  | [], acc, pre, r, h, i => by simp [reseedGoL] at h
  | c :: post, acc, pre, r, h, i => by
      simp only [reseedGoL] at h
      split at h
      · rename_i r' hr
        injection h with h; subst h
        have := reseedGo_cnt target rl c _ _ hr i
        simp at this ⊢; omega
      · have := reseedGoL_cnt target rl j x s post acc (pre ++ [c]) r h i
        simp at this ⊢; omega
end

theorem reseedCore_le (target : Nat) (b : Bool) (t : T) (i : Nat) : cnt i (reseedCore target b t) ≤ cnt i t := by
  unfold reseedCore
  split
  · exact Nat.le_refl _
  · split
    · exact Nat.le_refl _
    · split
      · exact Nat.le_refl _
      · rename_i t1 h1
        have h := reseedGo_cnt target t.len t [] t1 h1 i
        simp at h
        split
        · split
          · rename_i c hc
            have hc' := cnt_eq i c
            rw [cnt_eq i t1, hc] at h; simp at h ⊢; omega
          · omega
        · omega

/-! ### sorting and rotating are permutations -/
theorem insertBy_cnt (le : T → T → Bool) (x : T) : ∀ (l : List T) (i : Nat), cntL i (insertBy le x l) = cnt i x + cntL i l
  | [], i => by simp [insertBy]
  | y :: ys, i => by
      simp only [insertBy]
      split
      · simp
      · have := insertBy_cnt le x ys i; simp; omega

theorem sortBy_cnt (le : T → T → Bool) : ∀ (l : List T) (i : Nat), cntL i (sortBy le l) = cntL i l
  | [], i => by simp [sortBy]
  | y :: ys, i => by
      have := sortBy_cnt le ys i
      simp only [sortBy, List.foldr_cons] at this ⊢
      rw [insertBy_cnt]; simp; omega

mutual
theorem sortAll_cnt (le : T → T → Bool) : ∀ (t : T) (i : Nat), cnt i (sortAll le t) = cnt i t
  | .node j x l s cs, i => by
      have := sortAllL_cnt le cs i
      simp [sortAll, sortBy_cnt]; omega
theorem sortAllL_cnt (le : T → T → Bool) : ∀ (cs : List T) (i : Nat), cntL i (sortAllL le cs) = cntL i cs
  | [], i => by simp [sortAllL]
  | c :: cs, i => by
      have := sortAll_cnt le c i; have := sortAllL_cnt le cs i
      simp [sortAllL]; omega
end

theorem cntL_reverse (i : Nat) (l : List T) : cntL i l.reverse = cntL i l := by
  induction l with
  | nil => simp
  | cons x xs ih => simp [ih]; omega

theorem cntL_drop_take (i n : Nat) (l : List T) : cntL i (l.drop n ++ l.take n) = cntL i l := by
  have h : cntL i (l.take n ++ l.drop n) = cntL i l := by rw [List.take_append_drop]
  rw [cntL_append] at h ⊢; omega

mutual
theorem rotate_cnt (m : Nat) : ∀ (t : T) (i : Nat), cnt i (rotate m t) = cnt i t
  | .node j x l s cs, i => by
      have := rotateL_cnt m cs i
      simp only [rotate]
      split
      · simp [cntL_reverse]; omega
      · split
        · simp only [cnt_node, cntL_drop_take]; omega
        · simp; omega
theorem rotateL_cnt (m : Nat) : ∀ (cs : List T) (i : Nat), cntL i (rotateL m cs) = cntL i cs
  | [], i => by simp [rotateL]
  | c :: cs, i => by
      have := rotate_cnt m c i; have := rotateL_cnt m cs i
      simp [rotateL]; omega
end

mutual
theorem assignTaxa_cnt : ∀ (t : T) (new : List Nat) (i : Nat), cnt i (assignTaxa t new).1 = cnt i t
  | .node j x l s [], new, i => by
      simp only [assignTaxa]
      split <;> simp
  | .node j x l s (c :: cs), new, i => by
      have := assignTaxaL_cnt (c :: cs) new i
      simp [assignTaxa] at this ⊢; omega
theorem assignTaxaL_cnt : ∀ (cs : List T) (new : List Nat) (i : Nat), cntL i (assignTaxaL cs new).1 = cntL i cs
  | [], new, i => by simp [assignTaxaL]
  | c :: cs, new, i => by
      have := assignTaxa_cnt c new i; have := assignTaxaL_cnt cs (assignTaxa c new).2 i
      simp [assignTaxaL]; omega
end


/-! ### fresh ids -/
theorem foldl_max_ge (l : List Nat) : ∀ acc, acc ≤ l.foldl Nat.max acc ∧ ∀ x ∈ l, x ≤ l.foldl Nat.max acc := by
  induction l with
  | nil => intro acc; simp
  | cons y ys ih =>
    intro acc
    have h := ih (Nat.max acc y)
    simp only [List.foldl_cons, List.mem_cons]
    refine ⟨Nat.le_trans (Nat.le_max_left _ _) h.1, ?_⟩
    intro x hx
    rcases hx with rfl | hx
    · exact Nat.le_trans (Nat.le_max_right _ _) h.1
    · exact h.2 x hx

theorem cnt_fresh (t : T) (i : Nat) (h : maxId t < i) : cnt i t = 0 := by
  unfold cnt
  rw [List.count_eq_zero]
  intro hm
  have := (foldl_max_ge (ids t) 0).2 i hm
  unfold maxId at h; omega

theorem cnt_leafNode (i k : Nat) (x l) : cnt i (leafNode k x l) = if k = i then 1 else 0 := by
  simp [leafNode]

mutual
theorem cnt_shift (k : Nat) : ∀ (t : T) (i : Nat), cnt i (shiftIds k t) = if k ≤ i then cnt (i - k) t else 0
  | .node j x l s cs, i => by
      have h := cntL_shift k cs i
      simp only [shiftIds, cnt_node, h]
      by_cases hk : k ≤ i
      · simp only [hk, if_true]
        by_cases hj : j + k = i
        · have : j = i - k := by omega
          simp [hj, this]; omega
        · have : ¬ j = i - k := by omega
          simp [hj, this]
      · have : ¬ j + k = i := by omega
        simp [hk, this]
theorem cntL_shift (k : Nat) : ∀ (cs : List T) (i : Nat), cntL i (shiftIdsL k cs) = if k ≤ i then cntL (i - k) cs else 0
  | [], i => by simp [shiftIdsL]
  | c :: cs, i => by
      have h1 := cnt_shift k c i; have h2 := cntL_shift k cs i
      simp only [shiftIdsL, cntL_cons, h1, h2]
      split <;> rfl
end

/-! ### attaching a detached subtree -/
theorem cntL_insertAt (i idx : Nat) (x : T) (l : List T) : cntL i (insertAt idx x l) = cnt i x + cntL i l := by
  have h : cntL i (l.take idx ++ l.drop idx) = cntL i l := by rw [List.take_append_drop]
  unfold insertAt
  rw [cntL_append] at h; rw [cntL_append, cntL_cons]; omega

theorem addChild_cnt (p : Nat) (sub t : T) (i : Nat) : cnt i (addChild p sub t) ≤ cnt i t + cnt p t * cnt i sub := by
  unfold addChild
  apply modify_add p _ (fun i => cnt i sub)
  intro x i
  rw [cnt_withCs, cntL_append, cnt_eq i x]; simp; omega

theorem insertChild_cnt (p idx : Nat) (sub t : T) (i : Nat) :
    cnt i (insertChild p idx sub t) ≤ cnt i t + cnt p t * cnt i sub := by
  unfold insertChild
  apply modify_add p _ (fun i => cnt i sub)
  intro x i
  rw [cnt_withCs, cntL_insertAt, cnt_eq i x]; omega

/-- a detached, well-formed subtree whose ids do not occur in `t` can be attached under any node -/
theorem wf_attach {t t' sub : T} {p : Nat} (h : WF t) (hs : WF sub) (hd : ∀ i, 1 ≤ cnt i sub → cnt i t = 0)
    (hle : ∀ i, cnt i t' ≤ cnt i t + cnt p t * cnt i sub) : WF t' := by
  rw [wf_iff] at *
  intro i
  have h1 := hle i; have h2 := h i; have h3 := hs i; have hp := h p
  have h4 : cnt p t * cnt i sub ≤ 1 * cnt i sub := Nat.mul_le_mul_right _ hp
  by_cases h0 : cnt i sub = 0
  · rw [h0] at h1; simp at h1; omega
  · have := hd i (by omega); omega

theorem wf_leafNode (k : Nat) (x l) : WF (leafNode k x l) := by
  rw [wf_iff]; intro i; rw [cnt_leafNode]; split <;> omega

theorem wf_shift (k : Nat) (sub : T) (h : WF sub) : WF (shiftIds k sub) := by
  rw [wf_iff] at *; intro i; rw [cnt_shift]; split
  · exact h _
  · omega

/-! ### detaching and re-attaching -/
mutual
theorem splice_remove (c : Nat) : ∀ (t sub : T), t.id ≠ c → T.find? c t = some sub →
    ∀ i, cnt i (splice c (fun _ => []) t) + cnt i sub ≤ cnt i t
  | .node j x l s cs, sub, hne, hf, i => by
      simp only [T.id] at hne
      have hcj : (c == j) = false := by simp; omega
      simp only [T.find?, hcj] at hf
      have := spliceL_remove c cs sub hf i
      simp [splice]; omega
theorem spliceL_remove (c : Nat) : ∀ (cs : List T) (sub : T), T.findL? c cs = some sub →
    ∀ i, cntL i (spliceL c (fun _ => []) cs) + cnt i sub ≤ cntL i cs
  | [], sub, hf, i => by simp [T.findL?] at hf
  | x :: xs, sub, hf, i => by
      simp only [T.findL?] at hf
      simp only [spliceL]
      by_cases hx : x.id = c
      · have hfx : T.find? c x = some x := by
          cases x with
          | node j a b d e => simp only [T.id] at hx; simp [T.find?, hx]
        rw [hfx] at hf; injection hf with hf; subst hf
        simp [hx]; omega
      · have hb : (x.id == c) = false := by simp [hx]
        simp only [hb]
        split at hf
        · rename_i r hr
          injection hf with hf; subst hf
          have := splice_remove c x r hx hr i
          have := spliceL_le c (fun _ => []) (by intro y k; simp) xs i
          simp; omega
        · have := spliceL_remove c xs sub hf i
          have := splice_le c (fun _ => []) (by intro y k; simp) x i
          simp; omega
end

/-- remove the subtree at `c`, then attach `wrap sub` under `q`: no node is duplicated as long as `wrap` adds only
ids that do not occur in the tree -/
theorem regraft_wf {t sub w : T} {c q : Nat} (h : WF t) (hne : t.id ≠ c) (hf : T.find? c t = some sub)
    (hw : WF w) (hwd : ∀ i, cnt i w ≤ cnt i sub ∨ (cnt i t = 0 ∧ cnt i w ≤ 1)) :
    WF (addChild q w (splice c (fun _ => []) t)) := by
  have hrm := splice_remove c t sub hne hf
  have hle := splice_le c (fun _ => []) (by intro y k; simp) t
  rw [wf_iff] at *
  intro i
  have h1 := addChild_cnt q w (splice c (fun _ => []) t) i
  have hq : cnt q (splice c (fun _ => []) t) ≤ 1 := Nat.le_trans (hle q) (h q)
  have h4 : cnt q (splice c (fun _ => []) t) * cnt i w ≤ 1 * cnt i w := Nat.mul_le_mul_right _ hq
  have := hrm i; have := h i; have := hle i
  rcases hwd i with h5 | h5 <;> omega

theorem cntL_filter_le (p : T → Bool) : ∀ (l : List T) (i : Nat), cntL i (l.filter p) ≤ cntL i l
  | [], i => by simp
  | y :: ys, i => by
      have := cntL_filter_le p ys i
      simp only [List.filter_cons]
      split <;> simp <;> omega

theorem find_filter_cnt (og : Nat) : ∀ (l : List T) (sub : T), l.find? (fun x => x.id == og) = some sub →
    ∀ i, cnt i sub + cntL i (l.filter (fun x => x.id != og)) ≤ cntL i l
  | [], sub, h, i => by simp at h
  | x :: xs, sub, h, i => by
      have hsub := cntL_filter_le (fun x => x.id != og) xs
      by_cases hx : x.id = og
      · simp [List.find?_cons, hx] at h; subst h
        have := hsub i
        simp [List.filter_cons, hx]; omega
      · have hb : (x.id == og) = false := by simp [hx]
        simp only [List.find?_cons, hb] at h
        have := find_filter_cnt og xs sub h i
        simp [List.filter_cons, hx]; omega

/-! ### resolving polytomies: new nodes take the ids `k, k+1, …` -/
def ind (k k' i : Nat) : Nat := if k ≤ i ∧ i < k' then 1 else 0

theorem ind_add (k k1 k2 i : Nat) (h1 : k ≤ k1) (h2 : k1 ≤ k2) : ind k k1 i + ind k1 k2 i = ind k k2 i := by
  unfold ind
  by_cases a : k ≤ i ∧ i < k1 <;> by_cases b : k1 ≤ i ∧ i < k2 <;> by_cases c : k ≤ i ∧ i < k2 <;> simp [a, b, c] <;> omega

theorem ind_self (k i : Nat) : ind k k i = 0 := by
  unfold ind; split <;> omega

theorem ind_succ (k i : Nat) : ind k (k + 1) i = if k = i then 1 else 0 := by
  unfold ind
  by_cases a : k = i
  · subst a; simp
  · have : ¬ (k ≤ i ∧ i < k + 1) := by omega
    simp [a, this]

theorem joinLoop_cnt (limit : Nat) : ∀ (f : Nat) (cs : List T) (k : Nat),
    k ≤ (joinLoop limit f cs k).2 ∧ ∀ i, cntL i (joinLoop limit f cs k).1 ≤ cntL i cs + ind k (joinLoop limit f cs k).2 i
  | 0, cs, k => by simp [joinLoop, ind_self]
  | f + 1, cs, k => by
      simp only [joinLoop]
      split
      · split
        · rename_i c1 c2 rest _hlen
          have ih := joinLoop_cnt limit f (rest ++ [.node k none (some Frac.zero) none [c1, c2]]) (k + 1)
          refine ⟨by omega, ?_⟩
          intro i
          have h1 := ih.2 i
          have h2 := ind_add k (k + 1) _ i (by omega) ih.1
          rw [ind_succ] at h2
          simp at h1 ⊢; omega
        · simp [ind_self]
      · simp [ind_self]

mutual
theorem rp_cnt (limit : Nat) : ∀ (t : T) (k : Nat),
    k ≤ (rp limit t k).2 ∧ ∀ i, cnt i (rp limit t k).1 ≤ cnt i t + ind k (rp limit t k).2 i
  | .node j x l s cs, k => by
      have h1 := rpL_cnt limit cs k
      have h2 := joinLoop_cnt limit (rpL limit cs k).1.length (rpL limit cs k).1 (rpL limit cs k).2
      simp only [rp]
      refine ⟨by omega, ?_⟩
      intro i
      have a := h1.2 i; have b := h2.2 i
      have c := ind_add k _ _ i h1.1 h2.1
      simp; omega
theorem rpL_cnt (limit : Nat) : ∀ (cs : List T) (k : Nat),
    k ≤ (rpL limit cs k).2 ∧ ∀ i, cntL i (rpL limit cs k).1 ≤ cntL i cs + ind k (rpL limit cs k).2 i
  | [], k => by simp [rpL, ind_self]
  | c :: cs, k => by
      have h1 := rp_cnt limit c k
      have h2 := rpL_cnt limit cs (rp limit c k).2
      simp only [rpL]
      refine ⟨by omega, ?_⟩
      intro i
      have a := h1.2 i; have b := h2.2 i
      have c := ind_add k _ _ i h1.1 h2.1
      simp; omega
end

theorem ind_le_one (k k' i : Nat) : ind k k' i ≤ 1 := by unfold ind; split <;> omega
theorem ind_pos (k k' i : Nat) (h : 1 ≤ ind k k' i) : k ≤ i := by
  unfold ind at h; split at h
  · omega
  · omega


/-! ### replacing one node exactly (needs the node id to be unique) -/
mutual
theorem find_pos (c : Nat) : ∀ (t sub : T), T.find? c t = some sub → 1 ≤ cnt c t
  | .node j x l s cs, sub, hf => by
      simp only [T.find?] at hf
      split at hf
      · rename_i h; have : j = c := by have := beq_iff_eq.mp h; omega
        simp [this]
      · have := findL_pos c cs sub hf; simp; omega
theorem findL_pos (c : Nat) : ∀ (cs : List T) (sub : T), T.findL? c cs = some sub → 1 ≤ cntL c cs
  | [], sub, hf => by simp [T.findL?] at hf
  | x :: xs, sub, hf => by
      simp only [T.findL?] at hf
      split at hf
      · rename_i r hr; have := find_pos c x r hr; simp; omega
      · have := findL_pos c xs sub hf; simp; omega
end

mutual
theorem splice_notin (c : Nat) (f : T → List T) : ∀ (t : T), cnt c t = 0 → splice c f t = t
  | .node j x l s cs, h => by
      simp at h
      simp [splice, spliceL_notin c f cs h.1]
theorem spliceL_notin (c : Nat) (f : T → List T) : ∀ (cs : List T), cntL c cs = 0 → spliceL c f cs = cs
  | [], _ => by simp [spliceL]
  | x :: xs, h => by
      simp at h
      have hx : ¬ x.id = c := by
        intro e; have := cnt_eq c x; simp [e] at this; omega
      simp [spliceL, hx, splice_notin c f x h.1, spliceL_notin c f xs h.2]
end

mutual
theorem find_le (c : Nat) : ∀ (t sub : T), T.find? c t = some sub → ∀ i, cnt i sub ≤ cnt i t
  | .node j x l s cs, sub, hf, i => by
      simp only [T.find?] at hf
      split at hf
      · injection hf with hf; subst hf; exact Nat.le_refl _
      · have := findL_le c cs sub hf i; simp; omega
theorem findL_le (c : Nat) : ∀ (cs : List T) (sub : T), T.findL? c cs = some sub → ∀ i, cnt i sub ≤ cntL i cs
  | [], sub, hf, i => by simp [T.findL?] at hf
  | x :: xs, sub, hf, i => by
      simp only [T.findL?] at hf
      split at hf
      · rename_i r hr; injection hf with hf; subst hf
        have := find_le c x _ hr i; simp; omega
      · have := findL_le c xs sub hf i; simp; omega
end

mutual
theorem find_none_cnt (c : Nat) : ∀ (t : T), T.find? c t = none → cnt c t = 0
  | .node j x l s cs, hf => by
      simp only [T.find?] at hf
      split at hf
      · cases hf
      · rename_i h
        have hj : ¬ j = c := by intro e; simp [e] at h
        have := findL_none_cnt c cs hf
        simp [hj, this]
theorem findL_none_cnt (c : Nat) : ∀ (cs : List T), T.findL? c cs = none → cntL c cs = 0
  | [], _ => by simp
  | x :: xs, hf => by
      simp only [T.findL?] at hf
      split at hf
      · cases hf
      · rename_i hnone
        simp [find_none_cnt c x hnone, findL_none_cnt c xs hf]
end

mutual
theorem splice_exact (c : Nat) (f : T → List T) : ∀ (t sub : T), t.id ≠ c → T.find? c t = some sub → cnt c t ≤ 1 →
    ∀ i, cnt i (splice c f t) + cnt i sub = cnt i t + cntL i (f sub)
  | .node j x l s cs, sub, hne, hf, h1, i => by
      simp only [T.id] at hne
      have hcj : (c == j) = false := by simp; omega
      simp only [T.find?, hcj] at hf
      have h1' : cntL c cs ≤ 1 := by simp [hne] at h1; exact h1
      have := spliceL_exact c f cs sub hf h1' i
      simp [splice]; omega
theorem spliceL_exact (c : Nat) (f : T → List T) : ∀ (cs : List T) (sub : T), T.findL? c cs = some sub → cntL c cs ≤ 1 →
    ∀ i, cntL i (spliceL c f cs) + cnt i sub = cntL i cs + cntL i (f sub)
  | [], sub, hf, _, i => by simp [T.findL?] at hf
  | x :: xs, sub, hf, h1, i => by
      simp only [T.findL?] at hf
      simp only [spliceL]
      simp at h1
      by_cases hx : x.id = c
      · have hfx : T.find? c x = some x := by
          cases x with
          | node j a b d e => simp only [T.id] at hx; simp [T.find?, hx]
        rw [hfx] at hf; injection hf with hf; subst hf
        simp [hx]; omega
      · have hb : (x.id == c) = false := by simp [hx]
        simp only [hb]
        split at hf
        · rename_i r hr
          injection hf with hf; subst hf
          have hp := find_pos c x r hr
          have := splice_exact c f x r hx hr (by omega) i
          rw [spliceL_notin c f xs (by omega)]
          simp; omega
        · rename_i hnone
          have := spliceL_exact c f xs sub hf (by omega) i
          have hx0 : cnt c x = 0 := by
            -- `find?` fails on `x`, so `c` does not occur in it
            exact find_none_cnt c x hnone
          rw [splice_notin c f x hx0]
          simp; omega
end


/-! ### per-operation bounds -/
theorem removeChild_le (p c : Nat) (sp : Bool) (t t' : T) (hw : WF t) (h : removeChild p c sp t = .ok t') (i : Nat) :
    cnt i t' ≤ cnt i t := by
  have hle := splice_le c (fun _ => []) (by intro y k; simp) t
  unfold removeChild at h
  split at h
  · cases h
  · simp only at h
    split at h
    · injection h with h; subst h; exact hle i
    · split at h
      · rename_i hp
        split at h
        · rename_i child hfind
          injection h with h; subst h
          -- the node `p` of `t1` has exactly the child `child`
          cases hf : T.find? p (splice c (fun _ => []) t) with
          | none => simp [hf] at hfind
          | some n =>
            simp [hf] at hfind
            have hid : (splice c (fun _ => []) t).id ≠ p := by
              cases t with
              | node j a b d e => simp [splice, T.id] at hp ⊢; omega
            have h1 : cnt p (splice c (fun _ => []) t) ≤ 1 := Nat.le_trans (hle p) ((wf_iff t).mp hw p)
            have := splice_exact p (fun n => [child.withLen (tryAdd child.len n.len)]) _ n hid hf h1 i
            have hn := cnt_eq i n
            rw [hfind] at hn
            simp at this hn; have := hle i; omega
        · injection h with h; subst h; exact hle i
      · split at h
        · rename_i a b hcs
          have h0 := cnt_eq i (splice c (fun _ => []) t)
          rw [hcs] at h0
          have ha := cnt_eq i a; have hb := cnt_eq i b
          split at h
          · injection h with h; subst h; have := hle i; simp at h0 ⊢; omega
          · split at h
            · injection h with h; subst h; have := hle i; simp at h0 ⊢; omega
            · injection h with h; subst h; exact hle i
        · injection h with h; subst h; exact hle i

theorem cntL_map_eq (g : T → T) (hg : ∀ x i, cnt i (g x) = cnt i x) : ∀ (l : List T) (i : Nat), cntL i (l.map g) = cntL i l
  | [], i => by simp
  | x :: xs, i => by simp [hg x i, cntL_map_eq g hg xs i]

theorem edgeCollapse_le (c : Nat) (adj : Bool) (t t' : T) (h : edgeCollapse c adj t = .ok t') (i : Nat) :
    cnt i t' ≤ cnt i t := by
  unfold edgeCollapse at h
  split at h
  · injection h with h; subst h; exact Nat.le_refl _
  · split at h
    · injection h with h; subst h; exact Nat.le_refl _
    · split at h
      · cases h
      · injection h with h; subst h
        apply splice_le
        intro x k
        unfold collapseKids
        rw [cntL_map_eq]
        · rw [cnt_eq k x]; omega
        · intro y k'
          split
          · simp
          · rfl

mutual
theorem leaves_le : ∀ (t : T) (i : Nat), cntL i t.leaves ≤ cnt i t
  | .node j x l s [], i => by simp [T.leaves]
  | .node j x l s (c :: cs), i => by
      have := leavesL_le (c :: cs) i
      simp only [T.leaves, cnt_node]; omega
theorem leavesL_le : ∀ (cs : List T) (i : Nat), cntL i (T.leavesL cs) ≤ cntL i cs
  | [], i => by simp [T.leavesL]
  | c :: cs, i => by
      have := leaves_le c i; have := leavesL_le cs i
      simp [T.leavesL]; omega
end

theorem leaves_le_cs (t : T) (h : t.cs.isEmpty = false) (i : Nat) : cntL i t.leaves ≤ cntL i t.cs := by
  cases t with
  | node j x l s cs =>
    cases cs with
    | nil => simp [T.cs] at h
    | cons c cs => simp only [T.leaves, T.cs]; exact leavesL_le _ i

theorem collapseClade_le (c : Nat) (t : T) (i : Nat) : cnt i (collapseClade c t) ≤ cnt i t := by
  unfold collapseClade
  apply modify_le
  intro x k
  split
  · exact Nat.le_refl _
  · rename_i h
    have := leaves_le_cs x (by simpa using h) k
    rw [cnt_withCs, cnt_eq k x]; omega

theorem insertMove_le (p idx c : Nat) (t : T) (i : Nat) : cnt i (insertMove p idx c t) ≤ cnt i t := by
  unfold insertMove
  apply modify_le
  intro x k
  split
  · rename_i cur sub _ hfind
    split
    · exact Nat.le_refl _
    · have := find_filter_cnt c x.cs sub hfind k
      rw [cnt_withCs, cntL_insertAt, cnt_eq k x]; omega
  · exact Nat.le_refl _

theorem reseedAt_le (target : Nat) (a b : Bool) (s : St) (i : Nat) : cnt i (reseedAt target a b s).t ≤ cnt i s.t := by
  unfold reseedAt
  exact Nat.le_trans (encodeStruct_le _ _ _ i) (reseedCore_le target b s.t i)

theorem rerootAtNode_le (target : Nat) (ub a b : Bool) (s : St) (i : Nat) :
    cnt i (rerootAtNode target ub a b s).t ≤ cnt i s.t := by
  unfold rerootAtNode
  have h1 := reseedAt_le target false a s i
  split
  · exact Nat.le_trans (encodeStruct_le _ _ _ i) h1
  · exact h1

theorem moveFront_le (og : Nat) (t : T) (i : Nat) : cnt i (moveFront og t) ≤ cnt i t := by
  unfold moveFront
  split
  · rename_i sub hfind
    have := find_filter_cnt og _ sub hfind i
    rw [cnt_withCs, cnt_eq i t]; simp; omega
  · exact Nat.le_refl _

theorem toOutgroup_le (og : Nat) (sp : Bool) (s : St) (i : Nat) : cnt i (toOutgroup og sp s).t ≤ cnt i s.t := by
  unfold toOutgroup
  split
  · exact Nat.le_refl _
  · rename_i p _
    have h2 : cnt i (moveFront og (reseedCore p false s.t)) ≤ cnt i s.t :=
      Nat.le_trans (moveFront_le og _ i) (reseedCore_le p false s.t i)
    simp only
    generalize moveFront og (reseedCore p false s.t) = t2 at h2 ⊢
    have h3 : ∀ s3 : St, cnt i s3.t ≤ cnt i t2 →
        cnt i (if sp = true then { s3 with t := sup s3.t } else s3).t ≤ cnt i s.t := by
      intro s3 h; split
      · exact Nat.le_trans (sup_le _ i) (by omega)
      · omega
    apply h3
    split
    · split
      · exact collapseBasalSt_le _ _ i
      · exact Nat.le_refl _
    · exact Nat.le_refl _

theorem loop_le (recursive : Bool) (keep : T → Bool) : ∀ (f : Nat) (t t' : T),
    filterLeaves.loop recursive keep f t = .ok t' → ∀ i, cnt i t' ≤ cnt i t
  | 0, t, t', h, i => by simp [filterLeaves.loop] at h; subst h; exact Nat.le_refl _
  | f + 1, t, t', h, i => by
      simp only [filterLeaves.loop] at h
      split at h
      · split at h
        · injection h with h; subst h; exact Nat.le_refl _
        · cases h
      · split at h
        · injection h with h; subst h; exact dropLeaves_le keep t i
        · exact Nat.le_trans (loop_le recursive keep f _ t' h i) (dropLeaves_le keep t i)

theorem pruneUp_le : ∀ (f c : Nat) (t : T) (i : Nat), cnt i (pruneUp f c t) ≤ cnt i t
  | 0, c, t, i => by
      simp only [pruneUp]; exact splice_le c (fun _ => []) (by intro y k; simp) t i
  | f + 1, c, t, i => by
      have h1 := splice_le c (fun _ => []) (by intro y k; simp) t i
      simp only [pruneUp]
      split
      · exact Nat.le_refl _
      · split
        · split
          · exact Nat.le_trans (pruneUp_le f _ _ i) h1
          · exact h1
        · exact h1

theorem pruneNoTaxa_le (r ub sp : Bool) (s : St) (i : Nat) : cnt i (pruneNoTaxa r ub sp s).t ≤ cnt i s.t := by
  unfold pruneNoTaxa
  apply Nat.le_trans (finish_le _ _ _ i)
  simp only
  split
  · exact dropLeavesFix_le _ _ _ i
  · exact dropLeaves_le _ _ i

end DendroModel.C03.Aux

namespace DendroModel.C03.Aux
open DendroModel DendroModel.C03

/-! ### leaf taxa under unifurcation suppression -/
def ltx (t : T) : List Nat := t.leaves.filterMap T.taxon
def ltxL (l : List T) : List Nat := (T.leavesL l).filterMap T.taxon

theorem ltx_node_cons (i x l s c cs) : ltx (.node i x l s (c :: cs)) = ltxL (c :: cs) := by
  simp [ltx, ltxL, T.leaves]
theorem ltxL_cons (c : T) (cs : List T) : ltxL (c :: cs) = ltx c ++ ltxL cs := by
  simp [ltx, ltxL, T.leavesL, List.filterMap_append]
theorem ltx_withLen (t : T) (l) : ltx (t.withLen l) = ltx t := by
  cases t with
  | node i x l' s cs => cases cs <;> simp [ltx, T.withLen, T.leaves, T.taxon, List.filterMap_cons]

theorem supL_length : ∀ cs : List T, (supL cs).length = cs.length
  | [] => rfl
  | c :: cs => by simp [supL, supL_length cs]

mutual
theorem sup_ltx : ∀ t : T, ltx (sup t) = ltx t
  | .node i x l s [] => by simp [sup, supL]
  | .node i x l s (c :: cs) => by
      have h := supL_ltx (c :: cs)
      have hl := supL_length (c :: cs)
      simp only [sup]
      split
      · rename_i c' hc
        rw [hc] at h
        rw [ltx_withLen, ltx_node_cons, ← h, ltxL_cons]; simp [ltxL, T.leavesL]
      · rename_i cs' hne
        match hs : supL (c :: cs) with
        | [] => rw [hs] at hl; simp at hl
        | d :: ds => rw [ltx_node_cons, ltx_node_cons, ← h, hs]
theorem supL_ltx : ∀ cs : List T, ltxL (supL cs) = ltxL cs
  | [] => by simp [supL]
  | c :: cs => by simp only [supL, ltxL_cons, sup_ltx c, supL_ltx cs]
end

end DendroModel.C03.Aux

namespace DendroModel.C03.Aux
open DendroModel DendroModel.C03

theorem sizeL_append (a b : List T) : T.sizeL (a ++ b) = T.sizeL a + T.sizeL b := by
  induction a with
  | nil => simp [T.sizeL]
  | cons x xs ih => simp [T.sizeL, ih]; omega
theorem size_pos (t : T) : 0 < t.size := by cases t; simp [T.size]; omega
theorem size_eq (t : T) : t.size = 1 + T.sizeL t.cs := by cases t; simp [T.size, T.cs]
theorem size_withLen (t : T) (l) : (t.withLen l).size = t.size := by cases t; simp [T.withLen, T.size]
theorem size_withCs (t : T) (cs) : (t.withCs cs).size = 1 + T.sizeL cs := by cases t; simp [T.withCs, T.size]

theorem polyStep_size (t t' : T) (h : polyStep t = some t') : t'.size < t.size := by
  unfold polyStep at h
  split at h
  · rename_i l hcs
    split at h
    · injection h with h; subst h
      rw [size_withCs, size_eq t, hcs, T.sizeL, size_eq l]; simp [T.sizeL]
    · cases h
  · rename_i l r hcs
    split at h
    · injection h with h; subst h
      rw [size_withCs, size_eq t, hcs]; simp [T.sizeL, size_withLen, size_eq r]
    · split at h
      · injection h with h; subst h
        rw [size_withCs, size_eq t, hcs]; simp [T.sizeL, size_withLen, size_eq l]; omega
      · cases h
  · cases h

theorem polytomize_fix : ∀ (f : Nat) (t : T), t.size ≤ f → polyStep (polytomize f t) = none
  | 0, t, h => by have := size_pos t; omega
  | f + 1, t, h => by
      simp only [polytomize]
      split
      · rename_i t' ht
        have := polyStep_size t t' ht
        exact polytomize_fix f t' (by omega)
      · rename_i ht; exact ht

mutual
theorem dropLeaves_size (keep : T → Bool) : ∀ t : T, (dropLeaves keep t).size ≤ t.size
  | .node i x l s cs => by
      have := dropLeavesL_size keep cs
      simp [dropLeaves, T.size]; omega
theorem dropLeavesL_size (keep : T → Bool) : ∀ cs : List T, T.sizeL (dropLeavesL keep cs) ≤ T.sizeL cs
  | [] => by simp [dropLeavesL]
  | c :: cs => by
      have h1 := dropLeaves_size keep c; have h2 := dropLeavesL_size keep cs
      simp only [dropLeavesL]
      split
      · split <;> simp [sizeL_append, T.sizeL] <;> omega
      · simp [sizeL_append, T.sizeL]; omega
end

theorem dropLeavesFix_fix (keep : T → Bool) : ∀ (f : Nat) (t : T), t.size ≤ f →
    (dropLeaves keep (dropLeavesFix keep f t)).size = (dropLeavesFix keep f t).size
  | 0, t, h => by have := size_pos t; omega
  | f + 1, t, h => by
      simp only [dropLeavesFix]
      split
      · rename_i he; exact beq_iff_eq.mp he
      · rename_i he
        have hle := dropLeaves_size keep t
        have hne : (dropLeaves keep t).size ≠ t.size := by intro e; exact he (by simp [e])
        exact dropLeavesFix_fix keep f _ (by omega)

end DendroModel.C03.Aux

namespace DendroModel.C03.Aux
open DendroModel DendroModel.C03 DendroModel.C03.Leaves

/-! ### leaf retention under the operations that need "ids are unique" -/

mutual
theorem find_id (c : Nat) : ∀ (t n : T), T.find? c t = some n → n.id = c
  | .node j x l s cs, n, hf => by
      simp only [T.find?] at hf
      split at hf
      · rename_i e; injection hf with hf; subst hf; exact (beq_iff_eq.mp e).symm
      · exact findL_id c cs n hf
theorem findL_id (c : Nat) : ∀ (cs : List T) (n : T), T.findL? c cs = some n → n.id = c
  | [], n, hf => by simp [T.findL?] at hf
  | x :: xs, n, hf => by
      simp only [T.findL?] at hf
      split at hf
      · rename_i r hr; injection hf with hf; subst hf; exact find_id c x _ hr
      · exact findL_id c xs n hf
end

mutual
theorem targetInternal_of_cnt_zero (k : Nat) : ∀ t : T, cnt k t = 0 → TargetInternal k t
  | .node j x l s cs, h => by
      simp at h
      simp only [TargetInternal]
      exact ⟨fun e => by omega, targetInternalL_of_cnt_zero k cs h.1⟩
theorem targetInternalL_of_cnt_zero (k : Nat) : ∀ cs : List T, cntL k cs = 0 → TargetInternalL k cs
  | [], _ => by simp [TargetInternalL]
  | c :: cs, h => by
      simp at h
      simp only [TargetInternalL]
      exact ⟨targetInternal_of_cnt_zero k c h.1, targetInternalL_of_cnt_zero k cs h.2⟩
end

/- a leaf that counts for `p` exists, so not every node named `p.1` is internal -/
mutual
theorem leaf_not_internal (p : Nat × Nat) : ∀ t : T, 1 ≤ lc p t → TargetInternal p.1 t → False
  | .node j x l s [], h, hi => by
      simp only [TargetInternal] at hi
      exact hi.1 (lc_leaf_pos p j x l s h).2 rfl
  | .node j x l s (c :: cs), h, hi => by
      simp only [TargetInternal] at hi
      rw [lc_node_cons, ← lcL_cons] at h
      exact leafL_not_internal p (c :: cs) h hi.2
theorem leafL_not_internal (p : Nat × Nat) : ∀ cs : List T, 1 ≤ lcL p cs → TargetInternalL p.1 cs → False
  | [], h, _ => by simp at h
  | c :: cs, h, hi => by
      simp only [TargetInternalL] at hi
      rw [lcL_cons] at h
      by_cases h1 : 1 ≤ lc p c
      · exact leaf_not_internal p c h1 hi.1
      · exact leafL_not_internal p cs (by omega) hi.2
end

mutual
theorem parentOf_pos (c : Nat) : ∀ (t : T) (q : Nat), parentOf c t = some q → 1 ≤ cnt q t
  | .node j x l s cs, q, h => by
      simp only [parentOf] at h
      split at h
      · injection h with h; subst h; simp
      · have := parentOfL_pos c cs q h; simp; omega
theorem parentOfL_pos (c : Nat) : ∀ (cs : List T) (q : Nat), parentOfL c cs = some q → 1 ≤ cntL q cs
  | [], q, h => by simp [parentOfL] at h
  | x :: xs, q, h => by
      simp only [parentOfL] at h
      split at h
      · rename_i r hr; injection h with h; subst h; have := parentOf_pos c x _ hr; simp; omega
      · have := parentOfL_pos c xs q h; simp; omega
end

/- with unique ids, the node that `parentOf` names has children, and it is the only node of that name -/
mutual
theorem parentOf_internal (c : Nat) : ∀ (t : T) (q : Nat), cnt q t ≤ 1 → parentOf c t = some q → TargetInternal q t
  | .node j x l s cs, q, h1, h => by
      simp only [parentOf] at h
      simp only [TargetInternal]
      split at h
      · rename_i hany
        injection h with h; subst h
        have hz : cntL j cs = 0 := by simp at h1; omega
        refine ⟨fun _ => ?_, targetInternalL_of_cnt_zero j cs hz⟩
        intro e; subst e; simp at hany
      · have hp := parentOfL_pos c cs q h
        have hjq : ¬ j = q := by intro e; subst e; simp at h1; omega
        refine ⟨fun e => absurd e hjq, parentOfL_internal c cs q (by simp [hjq] at h1; exact h1) h⟩
theorem parentOfL_internal (c : Nat) : ∀ (cs : List T) (q : Nat), cntL q cs ≤ 1 → parentOfL c cs = some q →
    TargetInternalL q cs
  | [], q, _, h => by simp [parentOfL] at h
  | x :: xs, q, h1, h => by
      simp only [parentOfL] at h
      simp at h1
      simp only [TargetInternalL]
      split at h
      · rename_i r hr; injection h with h; subst h
        have := parentOf_pos c x _ hr
        exact ⟨parentOf_internal c x _ (by omega) hr, targetInternalL_of_cnt_zero _ xs (by omega)⟩
      · rename_i hnone
        have hp := parentOfL_pos c xs q h
        exact ⟨targetInternal_of_cnt_zero q x (by omega), parentOfL_internal c xs q (by omega) h⟩
end

/- with unique ids, if the node found under the name `k` has children then every node named `k` has -/
mutual
theorem find_targetInternal (k : Nat) : ∀ (t n : T), cnt k t ≤ 1 → T.find? k t = some n → n.cs ≠ [] → TargetInternal k t
  | .node j x l s cs, n, h1, hf, hn => by
      simp only [T.find?] at hf
      simp only [TargetInternal]
      split at hf
      · rename_i e
        injection hf with hf; subst hf
        have hjk : j = k := (beq_iff_eq.mp e).symm
        have hz : cntL k cs = 0 := by simp [hjk] at h1; omega
        exact ⟨fun _ => by simpa [T.cs] using hn, targetInternalL_of_cnt_zero k cs hz⟩
      · rename_i e
        have hjk : ¬ j = k := by intro h; subst h; simp at e
        exact ⟨fun h => absurd h hjk, findL_targetInternal k cs n (by simp [hjk] at h1; exact h1) hf hn⟩
theorem findL_targetInternal (k : Nat) : ∀ (cs : List T) (n : T), cntL k cs ≤ 1 → T.findL? k cs = some n → n.cs ≠ [] →
    TargetInternalL k cs
  | [], n, _, hf, _ => by simp [T.findL?] at hf
  | x :: xs, n, h1, hf, hn => by
      simp only [T.findL?] at hf
      simp at h1
      simp only [TargetInternalL]
      split at hf
      · rename_i r hr; injection hf with hf; subst hf
        have := find_pos k x _ hr
        exact ⟨find_targetInternal k x _ (by omega) hr hn, targetInternalL_of_cnt_zero k xs (by omega)⟩
      · rename_i hnone
        exact ⟨targetInternal_of_cnt_zero k x (find_none_cnt k x hnone), findL_targetInternal k xs n (by omega) hf hn⟩
end

/- replacing the unique node `c` (= `sub`) by `f sub`: every leaf of the tree is a leaf of the result or was in `sub`;
what `f sub` brings is there -/
mutual
theorem splice_exact_lc (p) (c : Nat) (f : T → List T) : ∀ (t sub : T), t.id ≠ c → T.find? c t = some sub → cnt c t ≤ 1 →
    lc p t + lcL p (f sub) ≤ lc p (splice c f t) + lc p sub
  | .node j x l s cs, sub, hne, hf, h1 => by
      simp only [T.id] at hne
      have hcj : (c == j) = false := by simp; omega
      simp only [T.find?, hcj] at hf
      have h1' : cntL c cs ≤ 1 := by simp [hne] at h1; exact h1
      have h := spliceL_exact_lc p c f cs sub hf h1'
      have hne' : cs ≠ [] := by intro e; subst e; simp [T.findL?] at hf
      have := lc_ge p j x l s (spliceL c f cs)
      rw [lc_eq_cs p (.node j x l s cs) (by simpa [T.cs] using hne')]
      simp only [splice, T.cs]; omega
theorem spliceL_exact_lc (p) (c : Nat) (f : T → List T) : ∀ (cs : List T) (sub : T), T.findL? c cs = some sub →
    cntL c cs ≤ 1 → lcL p cs + lcL p (f sub) ≤ lcL p (spliceL c f cs) + lc p sub
  | [], sub, hf, _ => by simp [T.findL?] at hf
  | x :: xs, sub, hf, h1 => by
      simp only [T.findL?] at hf
      simp only [spliceL]
      simp at h1
      by_cases hx : x.id = c
      · have hfx : T.find? c x = some x := by
          cases x with
          | node j a b d e => simp only [T.id] at hx; simp [T.find?, hx]
        rw [hfx] at hf; injection hf with hf; subst hf
        simp [hx]; omega
      · have hb : (x.id == c) = false := by simp [hx]
        simp only [hb]
        split at hf
        · rename_i r hr
          injection hf with hf; subst hf
          have hp := find_pos c x r hr
          have := splice_exact_lc p c f x r hx hr (by omega)
          rw [spliceL_notin c f xs (by omega)]
          simp; omega
        · rename_i hnone
          have := spliceL_exact_lc p c f xs sub hf (by omega)
          rw [splice_notin c f x (find_none_cnt c x hnone)]
          simp; omega
end

theorem wf_cnt {t : T} (h : WF t) (i : Nat) : cnt i t ≤ 1 := (wf_iff t).mp h i

theorem splice_id (c : Nat) (f : T → List T) (t : T) : (splice c f t).id = t.id := by
  cases t; simp [splice, T.id]

theorem lcL_map_eq (p) (g : T → T) (hg : ∀ x, lc p (g x) = lc p x) : ∀ l : List T, lcL p (l.map g) = lcL p l
  | [] => by simp
  | x :: xs => by simp [hg x, lcL_map_eq p g hg xs]

theorem removeChild_lc (p) (q c : Nat) (sp : Bool) (t t' : T) (hw : WF t)
    (hk : ∀ sub, T.find? c t = some sub → lc p sub = 0) (h : removeChild q c sp t = .ok t') : lc p t ≤ lc p t' := by
  unfold removeChild at h
  split at h
  · cases h
  · rename_i hpar
    have hq : parentOf c t = some q := by simpa using hpar
    simp only at h
    -- the plain removal
    have h1 : lc p t ≤ lc p (splice c (fun _ => []) t) := by
      cases hf : T.find? c t with
      | none =>
        have := find_none_cnt c t hf
        rw [splice_notin c _ t this]; exact Nat.le_refl _
      | some sub =>
        by_cases hid : t.id = c
        · -- `c` names the root: the subtree found is the whole tree, none of whose leaves is `p`
          have hroot : T.find? c t = some t := by
            cases t with
            | node j x l s cs => simp only [T.id] at hid; simp [T.find?, hid]
          rw [hk t hroot]; exact Nat.zero_le _
        · have := splice_exact_lc p c (fun _ => []) t sub hid hf (wf_cnt hw c)
          have := hk sub hf
          simp at *; omega
    have hle := splice_le c (fun _ => []) (by intro y k; simp) t
    split at h
    · injection h with h; subst h; exact h1
    · split at h
      · rename_i hp
        split at h
        · rename_i child hfind
          injection h with h; subst h
          cases hf : T.find? q (splice c (fun _ => []) t) with
          | none => simp [hf] at hfind
          | some n =>
            simp [hf] at hfind
            have hid : (splice c (fun _ => []) t).id ≠ q := by
              rw [splice_id]; intro e; simp [e] at hp
            have hc1 : cnt q (splice c (fun _ => []) t) ≤ 1 := Nat.le_trans (hle q) (wf_cnt hw q)
            have := splice_exact_lc p q (fun n => [child.withLen (tryAdd child.len n.len)]) _ n hid hf hc1
            have hn : lc p n = lc p child := by rw [lc_eq_cs p n (by rw [hfind]; simp), hfind]; simp
            simp at this; omega
        · injection h with h; subst h; exact h1
      · split at h
        · rename_i a b hcs
          have h0 : lc p (splice c (fun _ => []) t) = lc p a + lc p b := by
            rw [lc_eq_cs p _ (by rw [hcs]; simp), hcs]; simp
          split at h
          · rename_i ha
            injection h with h; subst h
            have := lc_withCs_ge p (splice c (fun _ => []) t) (a.cs ++ [b.withLen (tryAdd b.len a.len)])
            rw [lcL_append] at this
            rw [lc_eq_cs p a (isLeaf_false_ne a ha)] at h0
            simp at this; omega
          · split at h
            · rename_i hb
              injection h with h; subst h
              rw [lc_withCs_cons, lc_withLen]
              rw [lc_eq_cs p b (isLeaf_false_ne b hb)] at h0; omega
            · injection h with h; subst h; exact h1
        · injection h with h; subst h; exact h1

end DendroModel.C03.Aux

namespace DendroModel.C03.Aux
open DendroModel DendroModel.C03 DendroModel.C03.Leaves

theorem edgeCollapse_lc (p) (c : Nat) (adj : Bool) (t t' : T) (hw : WF t) (h : edgeCollapse c adj t = .ok t') :
    lc p t ≤ lc p t' := by
  unfold edgeCollapse at h
  split at h
  · injection h with h; subst h; exact Nat.le_refl _
  · rename_i hroot
    split at h
    · injection h with h; subst h; exact Nat.le_refl _
    · rename_i n hf
      split at h
      · cases h
      · rename_i hne
        injection h with h; subst h
        have hid : t.id ≠ c := by intro e; simp [e] at hroot
        have hn : n.cs ≠ [] := by intro e; simp [e] at hne
        have := splice_exact_lc p c (collapseKids adj) t n hid hf (wf_cnt hw c)
        have hkids : lcL p (collapseKids adj n) = lcL p n.cs := by
          unfold collapseKids
          apply lcL_map_eq
          intro y
          split
          · simp
          · rfl
        rw [hkids, lc_eq_cs p n hn] at this; omega

theorem pruneUp_lc (p) : ∀ (f c : Nat) (t : T), WF t → (∀ sub, T.find? c t = some sub → lc p sub = 0) →
    lc p t ≤ lc p (pruneUp f c t)
  | 0, c, t, hw, hk => by
      simp only [pruneUp]
      cases hf : T.find? c t with
      | none => rw [splice_notin c _ t (find_none_cnt c t hf)]; exact Nat.le_refl _
      | some sub =>
        by_cases hid : t.id = c
        · have hroot : T.find? c t = some t := by
            cases t with
            | node j x l s cs => simp only [T.id] at hid; simp [T.find?, hid]
          rw [hk t hroot]; exact Nat.zero_le _
        · have := splice_exact_lc p c (fun _ => []) t sub hid hf (wf_cnt hw c)
          have := hk sub hf
          simp at *; omega
  | f + 1, c, t, hw, hk => by
      have h0 := pruneUp_lc p 0 c t hw hk
      simp only [pruneUp] at h0
      simp only [pruneUp]
      split
      · exact Nat.le_refl _
      · rename_i q hq
        split
        · rename_i n hn
          split
          · rename_i hcond
            by_cases hz : lc p t = 0
            · rw [hz]; exact Nat.zero_le _
            · -- `p` is a leaf of `t`, `q` is internal in `t`: different nodes
              have hqi := parentOf_internal c t q (wf_cnt hw q) hq
              have hpq : p.1 ≠ q := by
                intro e
                exact leaf_not_internal p t (by omega) (e ▸ hqi)
              have hw1 : WF (splice c (fun _ => []) t) :=
                wf_of_le hw (splice_le c (fun _ => []) (by intro y k; simp) t)
              refine Nat.le_trans h0 (pruneUp_lc p f q _ hw1 ?_)
              intro sub hsub
              rw [hn] at hsub; injection hsub with hsub; subst hsub
              have hnid := find_id q _ n hn
              have hnc : n.cs = [] := by
                simp only [Bool.and_eq_true] at hcond
                simpa using hcond.1
              cases n with
              | node j y l' s' ds =>
                simp only [T.cs] at hnc; subst hnc
                simp only [T.id] at hnid
                apply Nat.eq_zero_of_not_pos; intro hpos
                have := (lc_leaf_pos p j y l' s' hpos).2
                omega
          · exact h0
        · exact h0

/-! attaching under a node other than the leaf in question -/
mutual
theorem modify_lc (p) (q : Nat) (f : T → T) (hf : ∀ x : T, x.id = q → lc p x ≤ lc p (f x)) :
    ∀ t : T, lc p t ≤ lc p (modify q f t)
  | .node j x l s cs => by
      simp only [modify]
      split
      · rename_i e; exact hf _ (by simpa [T.id] using e)
      · cases cs with
        | nil => simp [modifyL]
        | cons c cs =>
          have := modifyL_lc p q f hf (c :: cs)
          exact lc_ge' p j x l s _ _ this (by simp)
theorem modifyL_lc (p) (q : Nat) (f : T → T) (hf : ∀ x : T, x.id = q → lc p x ≤ lc p (f x)) :
    ∀ cs : List T, lcL p cs ≤ lcL p (modifyL q f cs)
  | [] => by simp [modifyL]
  | c :: cs => by
      have := modify_lc p q f hf c; have := modifyL_lc p q f hf cs
      simp [modifyL]; omega
end

/-- a node that is not the leaf `p` keeps its `p`-leaves when it gets more children -/
theorem lc_le_withCs (p : Nat × Nat) (x : T) (cs' : List T) (hx : x.id ≠ p.1) (h : lcL p x.cs ≤ lcL p cs') :
    lc p x ≤ lc p (x.withCs cs') := by
  cases x with
  | node j y l s cs =>
    cases cs with
    | nil =>
      have : lc p (.node j y l s []) = 0 := by
        apply Nat.eq_zero_of_not_pos; intro hpos
        exact hx (lc_leaf_pos p j y l s hpos).2
      rw [this]; exact Nat.zero_le _
    | cons c cs =>
      have := lc_ge p j y l s cs'
      simp only [T.withCs, T.cs] at h ⊢
      rw [lc_node_cons, ← lcL_cons]; omega

theorem lcL_insertAt (p) (idx : Nat) (x : T) (l : List T) : lcL p (insertAt idx x l) = lc p x + lcL p l := by
  have h : lcL p (l.take idx ++ l.drop idx) = lcL p l := by rw [List.take_append_drop]
  unfold insertAt
  rw [lcL_append] at h; rw [lcL_append, lcL_cons]; omega

theorem addChild_lc (p : Nat × Nat) (q : Nat) (sub t : T) (hq : p.1 ≠ q) : lc p t ≤ lc p (addChild q sub t) := by
  unfold addChild
  apply modify_lc
  intro x hx
  exact lc_le_withCs p x _ (by omega) (by simp)

theorem insertChild_lc (p : Nat × Nat) (q idx : Nat) (sub t : T) (hq : p.1 ≠ q) :
    lc p t ≤ lc p (insertChild q idx sub t) := by
  unfold insertChild
  apply modify_lc
  intro x hx
  exact lc_le_withCs p x _ (by omega) (by rw [lcL_insertAt]; omega)

/-! re-attaching: the leaves of the attached subtree are there again -/
mutual
theorem modify_lc_add (p) (q : Nat) (f : T → T) (K : Nat) (hf : ∀ x : T, x.id = q → lc p x + K ≤ lc p (f x)) :
    ∀ t : T, 1 ≤ cnt q t → lc p t + K ≤ lc p (modify q f t)
  | .node j x l s cs, h1 => by
      simp only [modify]
      split
      · rename_i e; exact hf _ (by simpa [T.id] using e)
      · rename_i e
        have hjq : ¬ j = q := by simpa using e
        have hc : 1 ≤ cntL q cs := by simp [hjq] at h1; exact h1
        have hne : cs ≠ [] := by intro e'; subst e'; simp at hc
        have := modifyL_lc_add p q f K hf cs hc
        have h2 := lc_ge p j x l s (modifyL q f cs)
        rw [lc_eq_cs p (.node j x l s cs) (by simpa [T.cs] using hne)]
        simp only [T.cs]; omega
theorem modifyL_lc_add (p) (q : Nat) (f : T → T) (K : Nat) (hf : ∀ x : T, x.id = q → lc p x + K ≤ lc p (f x)) :
    ∀ cs : List T, 1 ≤ cntL q cs → lcL p cs + K ≤ lcL p (modifyL q f cs)
  | [], h1 => by simp at h1
  | c :: cs, h1 => by
      simp at h1
      have hmono := modifyL_lc p q f (fun x hx => Nat.le_trans (Nat.le_add_right _ K) (hf x hx)) cs
      have hmono1 := modify_lc p q f (fun x hx => Nat.le_trans (Nat.le_add_right _ K) (hf x hx)) c
      by_cases hc : 1 ≤ cnt q c
      · have := modify_lc_add p q f K hf c hc
        simp [modifyL]; omega
      · have := modifyL_lc_add p q f K hf cs (by omega)
        simp [modifyL]; omega
end

theorem addChild_lc_add (p : Nat × Nat) (q : Nat) (w t : T) (hq : p.1 ≠ q) (h1 : 1 ≤ cnt q t) :
    lc p t + lc p w ≤ lc p (addChild q w t) := by
  unfold addChild
  apply modify_lc_add p q _ (lc p w) _ t h1
  intro x hx
  cases x with
  | node j y l s cs =>
    simp only [T.id] at hx
    cases cs with
    | nil =>
      have : lc p (.node j y l s []) = 0 := by
        apply Nat.eq_zero_of_not_pos; intro hpos
        have := (lc_leaf_pos p j y l s hpos).2; omega
      simp [T.withCs, T.cs, this]
    | cons c cs => simp [T.withCs, T.cs]; omega

mutual
theorem containsId_cnt (q : Nat) : ∀ t : T, containsId q t = true → 1 ≤ cnt q t
  | .node j x l s cs, h => by
      simp only [containsId, Bool.or_eq_true] at h
      rcases h with h | h
      · have : j = q := by simpa using h
        simp [this]
      · have := containsIdL_cnt q cs h; simp; omega
theorem containsIdL_cnt (q : Nat) : ∀ cs : List T, containsIdL q cs = true → 1 ≤ cntL q cs
  | [], h => by simp [containsIdL] at h
  | c :: cs, h => by
      simp only [containsIdL, Bool.or_eq_true] at h
      rcases h with h | h
      · have := containsId_cnt q c h; simp; omega
      · have := containsIdL_cnt q cs h; simp; omega
end

mutual
theorem cnt_containsId (q : Nat) : ∀ t : T, containsId q t = false → cnt q t = 0
  | .node j x l s cs, h => by
      simp only [containsId, Bool.or_eq_false_iff] at h
      have hj : ¬ j = q := by simpa using h.1
      simp [hj, cntL_containsId q cs h.2]
theorem cntL_containsId (q : Nat) : ∀ cs : List T, containsIdL q cs = false → cntL q cs = 0
  | [], _ => by simp
  | c :: cs, h => by
      simp only [containsIdL, Bool.or_eq_false_iff] at h
      simp [cnt_containsId q c h.1, cntL_containsId q cs h.2]
end

/-- remove the subtree at `c` and hang `w` (which carries the leaves of that subtree) under `q`, a node outside it -/
theorem regraft_lc (p : Nat × Nat) {t sub w : T} {c q : Nat} (hw : WF t) (hne : t.id ≠ c) (hf : T.find? c t = some sub)
    (hq : p.1 ≠ q) (hqt : 1 ≤ cnt q t) (hqs : cnt q sub = 0) (hws : lc p sub ≤ lc p w) :
    lc p t ≤ lc p (addChild q w (splice c (fun _ => []) t)) := by
  have h1 := splice_exact_lc p c (fun _ => []) t sub hne hf (wf_cnt hw c)
  have h2 := splice_exact c (fun _ => []) t sub hne hf (wf_cnt hw c) q
  have h3 := addChild_lc_add p q w (splice c (fun _ => []) t) hq (by simp at h2; omega)
  simp at h1; omega

end DendroModel.C03.Aux

namespace DendroModel.C03.Aux
open DendroModel DendroModel.C03 DendroModel.C03.Leaves

theorem filter_ne_of_cnt_zero (og : Nat) : ∀ l : List T, cntL og l = 0 → l.filter (fun x => x.id != og) = l
  | [], _ => rfl
  | y :: ys, h => by
      simp at h
      have hy : ¬ y.id = og := by
        intro e; have := cnt_eq og y; simp [e] at this; omega
      simp [List.filter_cons, hy, filter_ne_of_cnt_zero og ys h.2]

theorem find_filter_lc (p) (og : Nat) : ∀ (l : List T) (sub : T), l.find? (fun x => x.id == og) = some sub → cntL og l ≤ 1 →
    lcL p l ≤ lc p sub + lcL p (l.filter (fun x => x.id != og))
  | [], sub, h, _ => by simp at h
  | x :: xs, sub, h, h1 => by
      simp at h1
      by_cases hx : x.id = og
      · simp [hx] at h; subst h
        have hc : 1 ≤ cnt og x := by have := cnt_eq og x; simp [hx] at this; omega
        rw [List.filter_cons]; simp [hx]
        rw [filter_ne_of_cnt_zero og xs (by omega)]; omega
      · have hb : (x.id == og) = false := by simp [hx]
        simp only [List.find?_cons, hb] at h
        have := find_filter_lc p og xs sub h (by omega)
        simp [List.filter_cons, hx]; omega

theorem moveFront_lc (p) (og : Nat) (t : T) (h1 : cnt og t ≤ 1) : lc p t ≤ lc p (moveFront og t) := by
  unfold moveFront
  split
  · rename_i sub hfind
    have hne : t.cs ≠ [] := by intro e; rw [e] at hfind; simp at hfind
    have hc : cntL og t.cs ≤ 1 := by have := cnt_eq og t; omega
    have := find_filter_lc p og t.cs sub hfind hc
    rw [lc_withCs_cons, lc_eq_cs p t hne]; exact this
  · exact Nat.le_refl _

/-! `modify` where the function is only well behaved on nodes in which `c` is unique -/
mutual
theorem modify_lc' (p) (q c : Nat) (f : T → T) (hf : ∀ x : T, x.id = q → cnt c x ≤ 1 → lc p x ≤ lc p (f x)) :
    ∀ t : T, cnt c t ≤ 1 → lc p t ≤ lc p (modify q f t)
  | .node j x l s cs, h1 => by
      simp only [modify]
      split
      · rename_i e; exact hf _ (by simpa [T.id] using e) h1
      · cases cs with
        | nil => simp [modifyL]
        | cons d ds =>
          have hc : cntL c (d :: ds) ≤ 1 := by rw [cnt_node] at h1; omega
          have := modifyL_lc' p q c f hf (d :: ds) hc
          exact lc_ge' p j x l s _ _ this (by simp)
theorem modifyL_lc' (p) (q c : Nat) (f : T → T) (hf : ∀ x : T, x.id = q → cnt c x ≤ 1 → lc p x ≤ lc p (f x)) :
    ∀ cs : List T, cntL c cs ≤ 1 → lcL p cs ≤ lcL p (modifyL q f cs)
  | [], _ => by simp [modifyL]
  | d :: ds, h1 => by
      simp at h1
      have := modify_lc' p q c f hf d (by omega); have := modifyL_lc' p q c f hf ds (by omega)
      simp [modifyL]; omega
end

theorem insertMove_lc (p) (q idx c : Nat) (t : T) (hw : WF t) : lc p t ≤ lc p (insertMove q idx c t) := by
  unfold insertMove
  apply modify_lc' p q c _ _ t (wf_cnt hw c)
  intro x _ hx1
  split
  · rename_i cur sub _ hfind
    split
    · exact Nat.le_refl _
    · have hne : x.cs ≠ [] := by intro e; rw [e] at hfind; simp at hfind
      have hc : cntL c x.cs ≤ 1 := by have := cnt_eq c x; omega
      have h := find_filter_lc p c x.cs sub hfind hc
      have := lc_withCs_ge p x (insertAt idx sub (x.cs.filter (fun y => y.id != c)))
      rw [lcL_insertAt] at this
      rw [lc_eq_cs p x hne]; omega
  · exact Nat.le_refl _

/-- `reseedCore` keeps the leaves when the target is the seed itself or an internal node -/
theorem reseedCore_lc' (p) (target : Nat) (b : Bool) (t : T) (hi : t.id = target ∨ TargetInternal target t) :
    lc p t ≤ lc p (reseedCore target b t) := by
  rcases hi with hi | hi
  · unfold reseedCore; simp [hi]
  · exact reseedCore_lc p target b t hi

theorem toOutgroup_lc (p) (og : Nat) (sp : Bool) (s : St) (hw : WF s.t) : lc p s.t ≤ lc p (toOutgroup og sp s).t := by
  unfold toOutgroup
  split
  · exact Nat.le_refl _
  · rename_i q hq
    have hqi := parentOf_internal og s.t q (wf_cnt hw q) hq
    have h1 := reseedCore_lc p q false s.t hqi
    have hcnt : cnt og (reseedCore q false s.t) ≤ 1 := Nat.le_trans (reseedCore_le q false s.t og) (wf_cnt hw og)
    have h2 : lc p s.t ≤ lc p (moveFront og (reseedCore q false s.t)) :=
      Nat.le_trans h1 (moveFront_lc p og _ hcnt)
    simp only
    generalize moveFront og (reseedCore q false s.t) = t2 at h2 ⊢
    have h3 : ∀ s3 : St, lc p t2 ≤ lc p s3.t →
        lc p s.t ≤ lc p (if sp = true then { s3 with t := sup s3.t } else s3).t := by
      intro s3 h; split
      · simp only; rw [sup_lc]; omega
      · omega
    apply h3
    split
    · split
      · exact collapseBasalSt_lc p true ⟨t2, s.rooted⟩
      · exact Nat.le_refl _
    · exact Nat.le_refl _

/-! collapse_clade: the leaves below become the children -/
mutual
theorem leaves_leaves : ∀ t : T, T.leavesL t.leaves = t.leaves
  | .node i x l s [] => by simp [T.leaves, T.leavesL]
  | .node i x l s (c :: cs) => by simp only [T.leaves]; exact leavesL_leaves (c :: cs)
theorem leavesL_leaves : ∀ cs : List T, T.leavesL (T.leavesL cs) = T.leavesL cs
  | [] => by simp [T.leavesL]
  | c :: cs => by
      simp only [T.leavesL]
      rw [leavesL_append, leaves_leaves c, leavesL_leaves cs]
theorem leavesL_append : ∀ a b : List T, T.leavesL (a ++ b) = T.leavesL a ++ T.leavesL b
  | [], b => by simp [T.leavesL]
  | x :: xs, b => by simp [T.leavesL, leavesL_append xs b]
end

theorem lcL_leaves (p) (t : T) : lcL p t.leaves = lc p t := by
  simp only [lcL, lc, lpairsL, lpairs, leaves_leaves]

theorem collapseClade_lc (p) (c : Nat) (t : T) : lc p t ≤ lc p (collapseClade c t) := by
  unfold collapseClade
  apply modify_lc
  intro x _
  split
  · exact Nat.le_refl _
  · have := lc_withCs_ge p x x.leaves
    rw [lcL_leaves] at this; exact this

/-! resolve_polytomies -/
theorem joinLoop_lc (p) (limit : Nat) : ∀ (f : Nat) (cs : List T) (k : Nat), lcL p cs ≤ lcL p (joinLoop limit f cs k).1
  | 0, cs, k => by simp [joinLoop]
  | f + 1, cs, k => by
      simp only [joinLoop]
      split
      · split
        · rename_i c1 c2 rest _
          have := joinLoop_lc p limit f (rest ++ [.node k none (some Frac.zero) none [c1, c2]]) (k + 1)
          simp at this ⊢; omega
        · exact Nat.le_refl _
      · exact Nat.le_refl _

theorem joinLoop_nil (limit : Nat) : ∀ (f : Nat) (cs : List T) (k : Nat), cs ≠ [] → (joinLoop limit f cs k).1 ≠ []
  | 0, cs, k, h => by simpa [joinLoop] using h
  | f + 1, cs, k, h => by
      simp only [joinLoop]
      split
      · split
        · exact joinLoop_nil limit f _ _ (by simp)
        · exact h
      · exact h

mutual
theorem rp_lc (p) (limit : Nat) : ∀ (t : T) (k : Nat), lc p t ≤ lc p (rp limit t k).1
  | .node i x l s [], k => by simp [rp, rpL, joinLoop]
  | .node i x l s (c :: cs), k => by
      have h1 := rpL_lc p limit (c :: cs) k
      have h2 := joinLoop_lc p limit (rpL limit (c :: cs) k).1.length (rpL limit (c :: cs) k).1 (rpL limit (c :: cs) k).2
      simp only [rp]
      exact lc_ge' p i x l s _ _ (Nat.le_trans h1 h2) (by simp)
theorem rpL_lc (p) (limit : Nat) : ∀ (cs : List T) (k : Nat), lcL p cs ≤ lcL p (rpL limit cs k).1
  | [], k => by simp [rpL]
  | c :: cs, k => by
      have := rp_lc p limit c k; have := rpL_lc p limit cs (rp limit c k).2
      simp [rpL]; omega
end

end DendroModel.C03.Aux

namespace DendroModel.C03.Aux
open DendroModel DendroModel.C03 DendroModel.C03.Leaves

theorem any_id_cnt (c : Nat) : ∀ cs : List T, cs.any (fun x => x.id == c) = true → 1 ≤ cntL c cs
  | [], h => by simp at h
  | y :: ys, h => by
      simp only [List.any_cons, Bool.or_eq_true] at h
      rcases h with h | h
      · have : y.id = c := by simpa using h
        have := cnt_eq c y; simp [*] at this; simp; omega
      · have := any_id_cnt c ys h; simp; omega

mutual
theorem parentOf_c_pos (c : Nat) : ∀ (t : T) (q : Nat), parentOf c t = some q → 1 ≤ cntL c t.cs
  | .node j x l s cs, q, h => by
      simp only [parentOf] at h
      simp only [T.cs]
      split at h
      · rename_i hany; exact any_id_cnt c cs hany
      · exact parentOfL_c_pos c cs q h
theorem parentOfL_c_pos (c : Nat) : ∀ (cs : List T) (q : Nat), parentOfL c cs = some q → 1 ≤ cntL c cs
  | [], q, h => by simp [parentOfL] at h
  | x :: xs, q, h => by
      simp only [parentOfL] at h
      split at h
      · rename_i r hr
        have := parentOf_c_pos c x r hr
        have := cnt_eq c x
        simp; omega
      · have := parentOfL_c_pos c xs q h; simp; omega
end

/- with unique ids the parent of `c` is not inside the subtree of `c` -/
mutual
theorem parent_not_in_sub (c : Nat) : ∀ (t : T) (q : Nat) (sub : T), t.id ≠ c → cnt c t ≤ 1 → cnt q t ≤ 1 →
    parentOf c t = some q → T.find? c t = some sub → cnt q sub = 0
  | .node j x l s cs, q, sub, hne, hc1, hq1, hp, hf => by
      simp only [T.id] at hne
      have hcj : (c == j) = false := by simp; omega
      simp only [T.find?, hcj] at hf
      simp only [parentOf] at hp
      have hc1' : cntL c cs ≤ 1 := by simp [hne] at hc1; exact hc1
      split at hp
      · injection hp with hp; subst hp
        have := findL_le c cs sub hf j
        simp at hq1; omega
      · rename_i hany
        have hno : ∀ y ∈ cs, y.id ≠ c := by
          intro y hy e
          apply hany
          exact List.any_eq_true.mpr ⟨y, hy, by simp [e]⟩
        have hq1' : cntL q cs ≤ 1 := by rw [cnt_node] at hq1; omega
        exact parentL_not_in_sub c cs q sub hno hc1' hq1' hp hf
theorem parentL_not_in_sub (c : Nat) : ∀ (cs : List T) (q : Nat) (sub : T), (∀ y ∈ cs, y.id ≠ c) → cntL c cs ≤ 1 →
    cntL q cs ≤ 1 → parentOfL c cs = some q → T.findL? c cs = some sub → cnt q sub = 0
  | [], q, sub, _, _, _, hp, _ => by simp [parentOfL] at hp
  | x :: xs, q, sub, hno, hc1, hq1, hp, hf => by
      simp only [parentOfL] at hp
      simp only [T.findL?] at hf
      simp at hc1 hq1
      have hxid : x.id ≠ c := hno x (by simp)
      split at hp
      · rename_i r hr
        injection hp with hp; subst hp
        have hcx : 1 ≤ cnt c x := by
          have := parentOf_c_pos c x r hr; have := cnt_eq c x; omega
        split at hf
        · rename_i sub' hsub'
          injection hf with hf; subst hf
          exact parent_not_in_sub c x r _ hxid (by omega) (by omega) hr hsub'
        · rename_i hnone
          have := find_none_cnt c x hnone; omega
      · have hcxs := parentOfL_c_pos c xs q hp
        split at hf
        · rename_i sub' hsub'
          have := find_pos c x sub' hsub'; omega
        · exact parentL_not_in_sub c xs q sub (fun y hy => hno y (by simp [hy])) (by omega) (by omega) hp hf
end

theorem modifyL_ne_nil (q : Nat) (f : T → T) : ∀ cs : List T, cs ≠ [] → modifyL q f cs ≠ []
  | [], h => absurd rfl h
  | c :: cs, _ => by simp [modifyL]

mutual
theorem modify_ti (k q : Nat) (f : T → T) (hf : ∀ x : T, TargetInternal k x → TargetInternal k (f x)) :
    ∀ t : T, TargetInternal k t → TargetInternal k (modify q f t)
  | .node j x l s cs, h => by
      simp only [modify]
      split
      · exact hf _ h
      · simp only [TargetInternal] at h ⊢
        exact ⟨fun e => modifyL_ne_nil q f cs (h.1 e), modifyL_ti k q f hf cs h.2⟩
theorem modifyL_ti (k q : Nat) (f : T → T) (hf : ∀ x : T, TargetInternal k x → TargetInternal k (f x)) :
    ∀ cs : List T, TargetInternalL k cs → TargetInternalL k (modifyL q f cs)
  | [], _ => by simp [modifyL, TargetInternalL]
  | c :: cs, h => by
      simp only [TargetInternalL] at h
      simp only [modifyL, TargetInternalL]
      exact ⟨modify_ti k q f hf c h.1, modifyL_ti k q f hf cs h.2⟩
end

theorem tiL_append (k : Nat) : ∀ a b : List T, TargetInternalL k a → TargetInternalL k b → TargetInternalL k (a ++ b)
  | [], b, _, hb => hb
  | x :: xs, b, ha, hb => by
      simp only [TargetInternalL] at ha
      simp only [List.cons_append, TargetInternalL]
      exact ⟨ha.1, tiL_append k xs b ha.2 hb⟩

theorem rerootAtEdge_lc (p : Nat × Nat) (head : Nat) (l1 l2 : Option Frac) (ub sp : Bool) (s : St) (hw : WF s.t)
    (hne : s.t.id ≠ head) : lc p s.t ≤ lc p (rerootAtEdge head (maxId s.t + 1) l1 l2 ub sp s).t := by
  unfold rerootAtEdge
  split
  · rename_i tail sub hq hf
    have hfresh : ∀ i, maxId s.t < i → cnt i s.t = 0 := fun i hi => cnt_fresh s.t i hi
    have hsub : ∀ i, cnt i sub ≤ cnt i s.t := find_le head s.t sub hf
    have hrm : ∀ i, cnt i (splice head (fun _ => []) s.t) ≤ cnt i s.t :=
      splice_le head (fun _ => []) (by intro y k; simp) s.t
    -- the re-seeding target is the new node, which has a child and whose name is fresh
    have hti : TargetInternal (maxId s.t + 1)
        (addChild tail (.node (maxId s.t + 1) none l1 none [sub.withLen l2]) (splice head (fun _ => []) s.t)) := by
      unfold addChild
      apply modify_ti
      · intro x hx
        cases x with
        | node j y l' s' cs =>
          simp only [TargetInternal] at hx
          simp only [T.withCs, T.cs, TargetInternal]
          refine ⟨fun _ => by simp, tiL_append _ _ _ hx.2 ?_⟩
          simp only [TargetInternalL, TargetInternal, and_true]
          refine ⟨fun _ => by simp, ?_⟩
          apply targetInternal_of_cnt_zero
          rw [cnt_withLen]
          have := hsub (maxId s.t + 1); have := hfresh (maxId s.t + 1) (by omega); omega
      · apply targetInternal_of_cnt_zero
        have := hrm (maxId s.t + 1); have := hfresh (maxId s.t + 1) (by omega); omega
    refine Nat.le_trans ?_ (rerootAtNode_lc p _ ub sp true ⟨_, s.rooted⟩ hti)
    by_cases hz : lc p s.t = 0
    · rw [hz]; exact Nat.zero_le _
    · have hqi := parentOf_internal head s.t tail (wf_cnt hw tail) hq
      have hpq : p.1 ≠ tail := by
        intro e; exact leaf_not_internal p s.t (by omega) (e ▸ hqi)
      apply regraft_lc p hw hne hf hpq (parentOf_pos head s.t tail hq)
        (parent_not_in_sub head s.t tail sub hne (wf_cnt hw head) (wf_cnt hw tail) hq hf)
      simp
  · exact Nat.le_refl _

end DendroModel.C03.Aux

namespace DendroModel.C03.Aux
open DendroModel DendroModel.C03

theorem pick_set_perm : ∀ (l : List Nat) (j : Nat) (b : Nat) (hj : j < l.length), (l[j] :: l.set j b).Perm (b :: l)
  | y :: ys, 0, b, _ => by simp; exact List.Perm.swap _ _ _
  | y :: ys, j + 1, b, hj => by
      have hj' : j < ys.length := by simpa using hj
      have ih := pick_set_perm ys j b hj'
      simp only [List.getElem_cons_succ, List.set_cons_succ]
      exact ((List.Perm.swap y (ys[j]) (ys.set j b)).trans (ih.cons y)).trans (List.Perm.swap b y ys)

/-- one draw of `shuffle_taxa`: the picked element together with the remaining pool is the pool -/
theorem draw_step_perm (pool : List Nat) (hne : pool ≠ []) (j : Nat) (hj : j < pool.length) :
    (pool[j]! :: (pool.set j pool.getLast!).dropLast).Perm pool := by
  have hlast : pool.getLast! = pool.getLast hne := by
    cases pool with
    | nil => exact absurd rfl hne
    | cons a as => simp [List.getLast!]
  rw [getElem!_pos pool j hj, hlast]
  have hbe : pool.getLast hne = pool[pool.length - 1]'(by have := List.length_pos_iff.mpr hne; omega) :=
    List.getLast_eq_getElem hne
  generalize pool.getLast hne = b at hbe ⊢
  have h1 := pick_set_perm pool j b hj
  have hne' : pool.set j b ≠ [] := by simpa using hne
  have hsplit := List.dropLast_concat_getLast hne'
  have hgl : (pool.set j b).getLast hne' = b := by
    rw [List.getLast_eq_getElem]
    by_cases e : j = pool.length - 1
    · simp [e]
    · simp only [List.length_set]
      rw [List.getElem_set_ne (by omega)]; exact hbe.symm
  rw [hgl] at hsplit
  rw [← hsplit] at h1
  have h2 : (pool[j] :: b :: (pool.set j b).dropLast).Perm (b :: pool) :=
    ((List.perm_append_singleton _ _).symm.cons _).trans h1
  exact ((List.Perm.swap _ _ _).trans h2).cons_inv

theorem drawTaxa_perm : ∀ (rs pool : List Nat), rs.length = pool.length → (drawTaxa rs pool).Perm pool
  | [], pool, h => by
      have : pool = [] := List.length_eq_zero_iff.mp h.symm
      subst this; simp [drawTaxa]
  | r :: rs, [], h => by simp at h
  | r :: rs, x :: pool, h => by
      simp only [drawTaxa]
      have hne : (x :: pool) ≠ [] := by simp
      have hj : r % (x :: pool).length < (x :: pool).length := Nat.mod_lt _ (by simp)
      have hstep := draw_step_perm (x :: pool) hne _ hj
      have hlen : rs.length = (((x :: pool).set (r % (x :: pool).length) (x :: pool).getLast!).dropLast).length := by
        simp at h ⊢; omega
      exact ((drawTaxa_perm rs _ hlen).cons _).trans hstep

def tl (t : T) : List Nat := t.leaves.filterMap T.taxon
def tlL (l : List T) : List Nat := (T.leavesL l).filterMap T.taxon

theorem tlL_cons (c : T) (cs : List T) : tlL (c :: cs) = tl c ++ tlL cs := by
  simp [tl, tlL, T.leavesL, List.filterMap_append]
theorem tl_node_cons (i x l s c cs) : tl (.node i x l s (c :: cs)) = tlL (c :: cs) := by
  simp [tl, tlL, T.leaves]

mutual
theorem assignTaxa_spec : ∀ (t : T) (new : List Nat), (tl t).length ≤ new.length →
    tl (assignTaxa t new).1 = new.take (tl t).length ∧ (assignTaxa t new).2 = new.drop (tl t).length
  | .node i x l s [], new, h => by
      cases x with
      | none => simp [assignTaxa, tl, T.leaves, T.taxon, List.filterMap_cons]
      | some k =>
        cases new with
        | nil => simp [tl, T.leaves, T.taxon, List.filterMap_cons] at h
        | cons y rest => simp [assignTaxa, tl, T.leaves, T.taxon, List.filterMap_cons]
  | .node i x l s (c :: cs), new, h => by
      rw [tl_node_cons] at h ⊢
      have := assignTaxaL_spec (c :: cs) new h
      simp only [assignTaxa]
      cases hr : (assignTaxaL (c :: cs) new).1 with
      | nil => simp [assignTaxaL] at hr
      | cons d ds => rw [tl_node_cons, ← hr]; exact this
theorem assignTaxaL_spec : ∀ (cs : List T) (new : List Nat), (tlL cs).length ≤ new.length →
    tlL (assignTaxaL cs new).1 = new.take (tlL cs).length ∧ (assignTaxaL cs new).2 = new.drop (tlL cs).length
  | [], new, _ => by simp [assignTaxaL, tlL, T.leavesL]
  | c :: cs, new, h => by
      rw [tlL_cons, List.length_append] at h
      have h1 := assignTaxa_spec c new (by omega)
      have h2 := assignTaxaL_spec cs (assignTaxa c new).2 (by rw [h1.2, List.length_drop]; omega)
      simp only [assignTaxaL]
      rw [tlL_cons, tlL_cons, List.length_append, h1.1, h2.1, h2.2, h1.2, List.drop_drop, List.take_add]
      exact ⟨rfl, by rw [Nat.add_comm]⟩
end

end DendroModel.C03.Aux


namespace DendroModel.C03.AuxP
open DendroModel DendroModel.C03 DendroModel.C03.Aux

/-- number of nodes of `t` that are node `p.1` AND carry taxon `p.2` (at any position, leaf or not) -/
def pc (p : Nat × Nat) (t : T) : Nat := ((T.nodes t).map (fun n => (n.id, n.taxon))).count (p.1, some p.2)
def pcL (p : Nat × Nat) (l : List T) : Nat := ((T.nodesL l).map (fun n => (n.id, n.taxon))).count (p.1, some p.2)

@[simp] theorem pc_node (i : Nat × Nat) (j : Nat) (x l s cs) :
    pc i (.node j x l s cs) = pcL i cs + (if j = i.1 ∧ x = some i.2 then 1 else 0) := by
  simp only [pc, pcL, T.nodes, List.map_cons, List.count_cons, T.id, T.taxon]
  congr 1
  by_cases h : j = i.1 ∧ x = some i.2
  · simp [h]
  · simp only [h, if_false]
    have : ((j, x) == (i.1, some i.2)) = false := by
      simp only [beq_eq_false_iff_ne, ne_eq, Prod.mk.injEq]; exact h
    simp [this]
@[simp] theorem pcL_nil (i : Nat × Nat) : pcL i [] = 0 := by simp [pcL, T.nodesL]
@[simp] theorem pcL_cons (i : Nat × Nat) (c : T) (cs : List T) : pcL i (c :: cs) = pc i c + pcL i cs := by
  simp [pc, pcL, T.nodesL, List.count_append]
@[simp] theorem pcL_append (i : Nat × Nat) (a b : List T) : pcL i (a ++ b) = pcL i a + pcL i b := by
  induction a with
  | nil => simp
  | cons x xs ih => simp [ih]; omega
theorem pc_eq (i : Nat × Nat) (t : T) : pc i t = pcL i t.cs + (if t.id = i.1 ∧ t.taxon = some i.2 then 1 else 0) := by
  cases t; simp only [T.cs, T.id, T.taxon, pc_node]; rfl
@[simp] theorem pc_withLen (i : Nat × Nat) (t : T) (l) : pc i (t.withLen l) = pc i t := by
  cases t; simp [T.withLen]
@[simp] theorem taxon_withLen (t : T) (l) : (t.withLen l).taxon = t.taxon := by cases t; rfl
@[simp] theorem pc_withCs (i : Nat × Nat) (t : T) (cs) :
    pc i (t.withCs cs) = pcL i cs + (if t.id = i.1 ∧ t.taxon = some i.2 then 1 else 0) := by
  cases t; simp only [T.withCs, T.id, T.taxon, pc_node]; rfl

/-! ### splice / modify -/
mutual
theorem splice_le (c : Nat) (f : T → List T) (hf : ∀ x i, pcL i (f x) ≤ pc i x) :
    ∀ (t : T) (i : Nat × Nat), pc i (splice c f t) ≤ pc i t
  | .node j x l s cs, i => by
      have := spliceL_le c f hf cs i
      simp [splice]; omega
theorem spliceL_le (c : Nat) (f : T → List T) (hf : ∀ x i, pcL i (f x) ≤ pc i x) :
    ∀ (cs : List T) (i : Nat × Nat), pcL i (spliceL c f cs) ≤ pcL i cs
  | [], i => by simp [spliceL]
  | x :: xs, i => by
      simp only [spliceL]
      split
      · have := hf x i; simp; omega
      · have := splice_le c f hf x i; have := spliceL_le c f hf xs i; simp; omega
end

mutual
theorem modify_le (p : Nat) (f : T → T) (hf : ∀ x i, pc i (f x) ≤ pc i x) :
    ∀ (t : T) (i : Nat × Nat), pc i (modify p f t) ≤ pc i t
  | .node j x l s cs, i => by
      simp only [modify]
      split
      · exact hf _ i
      · have := modifyL_le p f hf cs i; simp; omega
theorem modifyL_le (p : Nat) (f : T → T) (hf : ∀ x i, pc i (f x) ≤ pc i x) :
    ∀ (cs : List T) (i : Nat × Nat), pcL i (modifyL p f cs) ≤ pcL i cs
  | [], i => by simp [modifyL]
  | x :: xs, i => by
      have := modify_le p f hf x i; have := modifyL_le p f hf xs i
      simp [modifyL]; omega
end

/- `f` may add up to `k i` occurrences of `i` at each node named `p` -/
mutual
theorem modify_add (p : Nat) (f : T → T) (k : Nat × Nat → Nat) (hf : ∀ x i, pc i (f x) ≤ pc i x + k i) :
    ∀ (t : T) (i : Nat × Nat), pc i (modify p f t) ≤ pc i t + cnt p t * k i
  | .node j x l s cs, i => by
      simp only [modify]
      split
      · rename_i h
        have hj : j = p := by simpa using h
        have := hf (.node j x l s cs) i
        have h1 : 1 ≤ cnt p (.node j x l s cs) := by simp [hj]
        have : k i ≤ cnt p (.node j x l s cs) * k i := Nat.le_mul_of_pos_left _ h1
        omega
      · rename_i h
        have hj : ¬ j = p := by simpa using h
        have := modifyL_add p f k hf cs i
        simp [hj]; omega
theorem modifyL_add (p : Nat) (f : T → T) (k : Nat × Nat → Nat) (hf : ∀ x i, pc i (f x) ≤ pc i x + k i) :
    ∀ (cs : List T) (i : Nat × Nat), pcL i (modifyL p f cs) ≤ pcL i cs + cntL p cs * k i
  | [], i => by simp [modifyL]
  | x :: xs, i => by
      have := modify_add p f k hf x i; have := modifyL_add p f k hf xs i
      simp [modifyL, Nat.add_mul]; omega
end


theorem pcL_ite_le (i : Nat × Nat) (b : Bool) (x : T) : pcL i (if b then [] else [x]) ≤ pc i x := by
  cases b <;> simp

/-! ### clean-up steps never duplicate a node -/
mutual
theorem sup_le : ∀ (t : T) (i : Nat × Nat), pc i (sup t) ≤ pc i t
  | .node j x l s cs, i => by
      have h := supL_le cs i
      simp only [sup]
      split
      · rename_i c hc
        rw [hc] at h; simp at h ⊢; omega
      · simp; omega
theorem supL_le : ∀ (cs : List T) (i : Nat × Nat), pcL i (supL cs) ≤ pcL i cs
  | [], i => by simp [supL]
  | c :: cs, i => by
      have := sup_le c i; have := supL_le cs i
      simp [supL]; omega
end

theorem collapseBasal_le (t t' : T) (h : collapseBasal t = some t') (i : Nat × Nat) : pc i t' ≤ pc i t := by
  unfold collapseBasal at h
  split at h
  · rename_i a b hcs
    have ha := pc_eq i a; have hb := pc_eq i b
    rw [pc_eq i t, hcs]
    split at h
    · injection h with h; subst h
      simp; omega
    · split at h
      · injection h with h; subst h
        simp; omega
      · cases h
  · cases h

theorem collapseBasalSt_le (su : Bool) (s : St) (i : Nat × Nat) : pc i (collapseBasalSt su s).t ≤ pc i s.t := by
  unfold collapseBasalSt
  split
  · rename_i t' h; exact collapseBasal_le _ _ h i
  · exact Nat.le_refl _

theorem encodeStruct_le (a b : Bool) (s : St) (i : Nat × Nat) : pc i (encodeStruct a b s).t ≤ pc i s.t := by
  unfold encodeStruct
  have h1 := collapseBasalSt_le true s i
  split
  · split
    · exact Nat.le_trans (sup_le _ i) h1
    · exact h1
  · split
    · exact sup_le _ i
    · exact Nat.le_refl _

theorem finish_le (a b : Bool) (s : St) (i : Nat × Nat) : pc i (finish a b s).t ≤ pc i s.t := by
  unfold finish
  have h1 := sup_le s.t i
  split
  · split
    · exact Nat.le_trans (encodeStruct_le _ _ _ i) h1
    · exact h1
  · split
    · exact encodeStruct_le _ _ _ i
    · exact Nat.le_refl _

theorem polyStep_le (t t' : T) (h : polyStep t = some t') (i : Nat × Nat) : pc i t' ≤ pc i t := by
  unfold polyStep at h
  split at h
  · rename_i l hcs
    have hl := pc_eq i l
    split at h
    · injection h with h; subst h
      rw [pc_eq i t, hcs]; simp; omega
    · cases h
  · rename_i l r hcs
    have hl := pc_eq i l; have hr := pc_eq i r
    split at h
    · injection h with h; subst h
      rw [pc_eq i t, hcs]; simp; omega
    · split at h
      · injection h with h; subst h
        rw [pc_eq i t, hcs]; simp; omega
      · cases h
  · cases h

theorem polytomize_le : ∀ (f : Nat) (t : T) (i : Nat × Nat), pc i (polytomize f t) ≤ pc i t
  | 0, t, i => by simp [polytomize]
  | f + 1, t, i => by
      simp only [polytomize]
      split
      · rename_i t' h
        exact Nat.le_trans (polytomize_le f t' i) (polyStep_le _ _ h i)
      · exact Nat.le_refl _

mutual
theorem cu_le (thr : Frac) : ∀ (t : T) (i : Nat × Nat), pc i (cu thr t) ≤ pc i t
  | .node j x l s cs, i => by
      have := cuL_le thr cs i
      simp [cu]; omega
theorem cuL_le (thr : Frac) : ∀ (cs : List T) (i : Nat × Nat), pcL i (cuL thr cs) ≤ pcL i cs
  | [], i => by simp [cuL]
  | c :: cs, i => by
      have h1 := cu_le thr c i; have h2 := cuL_le thr cs i
      simp only [cuL]
      split
      · rw [pc_eq i (cu thr c)] at h1; simp; omega
      · simp; omega
end

mutual
theorem dropLeaves_le (keep : T → Bool) : ∀ (t : T) (i : Nat × Nat), pc i (dropLeaves keep t) ≤ pc i t
  | .node j x l s cs, i => by
      have := dropLeavesL_le keep cs i
      simp [dropLeaves]; omega
theorem dropLeavesL_le (keep : T → Bool) : ∀ (cs : List T) (i : Nat × Nat), pcL i (dropLeavesL keep cs) ≤ pcL i cs
  | [], i => by simp [dropLeavesL]
  | c :: cs, i => by
      have h1 := dropLeaves_le keep c i; have h2 := dropLeavesL_le keep cs i
      simp only [dropLeavesL]
      split
      · split <;> simp <;> omega
      · simp; omega
end

theorem dropLeavesFix_le (keep : T → Bool) : ∀ (f : Nat) (t : T) (i : Nat × Nat), pc i (dropLeavesFix keep f t) ≤ pc i t
  | 0, t, i => by simp [dropLeavesFix]
  | f + 1, t, i => by
      simp only [dropLeavesFix]
      split
      · exact Nat.le_refl _
      · exact Nat.le_trans (dropLeavesFix_le keep f _ i) (dropLeaves_le keep t i)

mutual
theorem pt_le (bad : Nat → Bool) : ∀ (t : T) (i : Nat × Nat), pc i (pt bad t) ≤ pc i t
  | .node j x l s cs, i => by
      have := ptL_le bad cs i
      simp [pt]; omega
theorem ptL_le (bad : Nat → Bool) : ∀ (cs : List T) (i : Nat × Nat), pcL i (ptL bad cs) ≤ pcL i cs
  | [], i => by simp [ptL]
  | c :: cs, i => by
      have h1 := pt_le bad c i; have h2 := ptL_le bad cs i
      simp only [ptL]
      generalize ptDrop bad c (pt bad c) = b
      have := pcL_ite_le i b (pt bad c)
      rw [pcL_append, pcL_cons]; omega
end

/-! ### re-seeding is a rearrangement -/
mutual
theorem reseedGo_cnt (target : Nat) (rl : Option Frac) :
    ∀ (t : T) (acc : List T) (r : T), reseedGo target rl acc t = some r → ∀ i, pc i r = pc i t + pcL i acc
  | .node j x l s cs, acc, r, h, i => by
      simp only [reseedGo] at h
      split at h
      · injection h with h; subst h; simp; omega
      · have := reseedGoL_cnt target rl j x s cs acc [] r h i
        simp at this ⊢; omega
theorem reseedGoL_cnt (target : Nat) (rl : Option Frac) (j : Nat) (x : Option Nat) (s : Option String) :
    ∀ (post acc pre : List T) (r : T), reseedGoL target rl j x s acc pre post = some r →
      ∀ i, pc i r = pcL i pre + pcL i post + pcL i acc + (if j = i.1 ∧ x = some i.2 then 1 else 0)
  | [], acc, pre, r, h, i => by simp [reseedGoL] at h
  | c :: post, acc, pre, r, h, i => by
      simp only [reseedGoL] at h
      split at h
      · rename_i r' hr
        injection h with h; subst h
        have := reseedGo_cnt target rl c _ _ hr i
        simp at this ⊢; omega
      · have := reseedGoL_cnt target rl j x s post acc (pre ++ [c]) r h i
        simp at this ⊢; omega
end

theorem reseedCore_le (target : Nat) (b : Bool) (t : T) (i : Nat × Nat) : pc i (reseedCore target b t) ≤ pc i t := by
  unfold reseedCore
  split
  · exact Nat.le_refl _
  · split
    · exact Nat.le_refl _
    · split
      · exact Nat.le_refl _
      · rename_i t1 h1
        have h := reseedGo_cnt target t.len t [] t1 h1 i
        simp at h
        split
        · split
          · rename_i c hc
            have hc' := pc_eq i c
            rw [pc_eq i t1, hc] at h; simp at h ⊢; omega
          · omega
        · omega

/-! ### sorting and rotating are permutations -/
theorem insertBy_cnt (le : T → T → Bool) (x : T) : ∀ (l : List T) (i : Nat × Nat), pcL i (insertBy le x l) = pc i x + pcL i l
  | [], i => by simp [insertBy]
  | y :: ys, i => by
      simp only [insertBy]
      split
      · simp
      · have := insertBy_cnt le x ys i; simp; omega

theorem sortBy_cnt (le : T → T → Bool) : ∀ (l : List T) (i : Nat × Nat), pcL i (sortBy le l) = pcL i l
  | [], i => by simp [sortBy]
  | y :: ys, i => by
      have := sortBy_cnt le ys i
      simp only [sortBy, List.foldr_cons] at this ⊢
      rw [insertBy_cnt]; simp; omega

mutual
theorem sortAll_cnt (le : T → T → Bool) : ∀ (t : T) (i : Nat × Nat), pc i (sortAll le t) = pc i t
  | .node j x l s cs, i => by
      have := sortAllL_cnt le cs i
      simp [sortAll, sortBy_cnt]; omega
theorem sortAllL_cnt (le : T → T → Bool) : ∀ (cs : List T) (i : Nat × Nat), pcL i (sortAllL le cs) = pcL i cs
  | [], i => by simp [sortAllL]
  | c :: cs, i => by
      have := sortAll_cnt le c i; have := sortAllL_cnt le cs i
      simp [sortAllL]; omega
end

theorem pcL_reverse (i : Nat × Nat) (l : List T) : pcL i l.reverse = pcL i l := by
  induction l with
  | nil => simp
  | cons x xs ih => simp [ih]; omega

theorem pcL_drop_take (i : Nat × Nat) (n : Nat) (l : List T) : pcL i (l.drop n ++ l.take n) = pcL i l := by
  have h : pcL i (l.take n ++ l.drop n) = pcL i l := by rw [List.take_append_drop]
  rw [pcL_append] at h ⊢; omega

mutual
theorem rotate_cnt (m : Nat) : ∀ (t : T) (i : Nat × Nat), pc i (rotate m t) = pc i t
  | .node j x l s cs, i => by
      have := rotateL_cnt m cs i
      simp only [rotate]
      split
      · simp [pcL_reverse]; omega
      · split
        · simp only [pc_node, pcL_drop_take]; omega
        · simp; omega
theorem rotateL_cnt (m : Nat) : ∀ (cs : List T) (i : Nat × Nat), pcL i (rotateL m cs) = pcL i cs
  | [], i => by simp [rotateL]
  | c :: cs, i => by
      have := rotate_cnt m c i; have := rotateL_cnt m cs i
      simp [rotateL]; omega
end


theorem pcL_insertAt (i : Nat × Nat) (idx : Nat) (x : T) (l : List T) : pcL i (insertAt idx x l) = pc i x + pcL i l := by
  have h : pcL i (l.take idx ++ l.drop idx) = pcL i l := by rw [List.take_append_drop]
  unfold insertAt
  rw [pcL_append] at h; rw [pcL_append, pcL_cons]; omega

theorem addChild_cnt (p : Nat) (sub t : T) (i : Nat × Nat) : pc i (addChild p sub t) ≤ pc i t + cnt p t * pc i sub := by
  unfold addChild
  apply modify_add p _ (fun i => pc i sub)
  intro x i
  rw [pc_withCs, pcL_append, pc_eq i x]; simp; omega

theorem insertChild_cnt (p idx : Nat) (sub t : T) (i : Nat × Nat) :
    pc i (insertChild p idx sub t) ≤ pc i t + cnt p t * pc i sub := by
  unfold insertChild
  apply modify_add p _ (fun i => pc i sub)
  intro x i
  rw [pc_withCs, pcL_insertAt, pc_eq i x]; omega


/-! ### detaching and re-attaching -/
mutual
theorem splice_remove (c : Nat) : ∀ (t sub : T), t.id ≠ c → T.find? c t = some sub →
    ∀ i, pc i (splice c (fun _ => []) t) + pc i sub ≤ pc i t
  | .node j x l s cs, sub, hne, hf, i => by
      simp only [T.id] at hne
      have hcj : (c == j) = false := by simp; omega
      simp only [T.find?, hcj] at hf
      have := spliceL_remove c cs sub hf i
      simp [splice]; omega
theorem spliceL_remove (c : Nat) : ∀ (cs : List T) (sub : T), T.findL? c cs = some sub →
    ∀ i, pcL i (spliceL c (fun _ => []) cs) + pc i sub ≤ pcL i cs
  | [], sub, hf, i => by simp [T.findL?] at hf
  | x :: xs, sub, hf, i => by
      simp only [T.findL?] at hf
      simp only [spliceL]
      by_cases hx : x.id = c
      · have hfx : T.find? c x = some x := by
          cases x with
          | node j a b d e => simp only [T.id] at hx; simp [T.find?, hx]
        rw [hfx] at hf; injection hf with hf; subst hf
        simp [hx]; omega
      · have hb : (x.id == c) = false := by simp [hx]
        simp only [hb]
        split at hf
        · rename_i r hr
          injection hf with hf; subst hf
          have := splice_remove c x r hx hr i
          have := spliceL_le c (fun _ => []) (by intro y k; simp) xs i
          simp; omega
        · have := spliceL_remove c xs sub hf i
          have := splice_le c (fun _ => []) (by intro y k; simp) x i
          simp; omega
end


theorem pcL_filter_le (p : T → Bool) : ∀ (l : List T) (i : Nat × Nat), pcL i (l.filter p) ≤ pcL i l
  | [], i => by simp
  | y :: ys, i => by
      have := pcL_filter_le p ys i
      simp only [List.filter_cons]
      split <;> simp <;> omega

theorem find_filter_cnt (og : Nat) : ∀ (l : List T) (sub : T), l.find? (fun x => x.id == og) = some sub →
    ∀ i, pc i sub + pcL i (l.filter (fun x => x.id != og)) ≤ pcL i l
  | [], sub, h, i => by simp at h
  | x :: xs, sub, h, i => by
      have hsub := pcL_filter_le (fun x => x.id != og) xs
      by_cases hx : x.id = og
      · simp [List.find?_cons, hx] at h; subst h
        have := hsub i
        simp [List.filter_cons, hx]; omega
      · have hb : (x.id == og) = false := by simp [hx]
        simp only [List.find?_cons, hb] at h
        have := find_filter_cnt og xs sub h i
        simp [List.filter_cons, hx]; omega


mutual
theorem find_le (c : Nat) : ∀ (t sub : T), T.find? c t = some sub → ∀ i, pc i sub ≤ pc i t
  | .node j x l s cs, sub, hf, i => by
      simp only [T.find?] at hf
      split at hf
      · injection hf with hf; subst hf; exact Nat.le_refl _
      · have := findL_le c cs sub hf i; simp; omega
theorem findL_le (c : Nat) : ∀ (cs : List T) (sub : T), T.findL? c cs = some sub → ∀ i, pc i sub ≤ pcL i cs
  | [], sub, hf, i => by simp [T.findL?] at hf
  | x :: xs, sub, hf, i => by
      simp only [T.findL?] at hf
      split at hf
      · rename_i r hr; injection hf with hf; subst hf
        have := find_le c x _ hr i; simp; omega
      · have := findL_le c xs sub hf i; simp; omega
end

mutual
theorem splice_exact (c : Nat) (f : T → List T) : ∀ (t sub : T), t.id ≠ c → T.find? c t = some sub → cnt c t ≤ 1 →
    ∀ i, pc i (splice c f t) + pc i sub = pc i t + pcL i (f sub)
  | .node j x l s cs, sub, hne, hf, h1, i => by
      simp only [T.id] at hne
      have hcj : (c == j) = false := by simp; omega
      simp only [T.find?, hcj] at hf
      have h1' : cntL c cs ≤ 1 := by simp [hne] at h1; exact h1
      have := spliceL_exact c f cs sub hf h1' i
      simp [splice]; omega
theorem spliceL_exact (c : Nat) (f : T → List T) : ∀ (cs : List T) (sub : T), T.findL? c cs = some sub → cntL c cs ≤ 1 →
    ∀ i, pcL i (spliceL c f cs) + pc i sub = pcL i cs + pcL i (f sub)
  | [], sub, hf, _, i => by simp [T.findL?] at hf
  | x :: xs, sub, hf, h1, i => by
      simp only [T.findL?] at hf
      simp only [spliceL]
      simp at h1
      by_cases hx : x.id = c
      · have hfx : T.find? c x = some x := by
          cases x with
          | node j a b d e => simp only [T.id] at hx; simp [T.find?, hx]
        rw [hfx] at hf; injection hf with hf; subst hf
        simp [hx]; omega
      · have hb : (x.id == c) = false := by simp [hx]
        simp only [hb]
        split at hf
        · rename_i r hr
          injection hf with hf; subst hf
          have hp := find_pos c x r hr
          have := splice_exact c f x r hx hr (by omega) i
          rw [spliceL_notin c f xs (by omega)]
          simp; omega
        · rename_i hnone
          have := spliceL_exact c f xs sub hf (by omega) i
          have hx0 : cnt c x = 0 := by
            -- `find?` fails on `x`, so `c` does not occur in it
            exact find_none_cnt c x hnone
          rw [splice_notin c f x hx0]
          simp; omega
end

/-! ### per-operation bounds -/
theorem removeChild_le (p c : Nat) (sp : Bool) (t t' : T) (hw : WF t) (h : removeChild p c sp t = .ok t') (i : Nat × Nat) :
    pc i t' ≤ pc i t := by
  have hle := splice_le c (fun _ => []) (by intro y k; simp) t
  unfold removeChild at h
  split at h
  · cases h
  · simp only at h
    split at h
    · injection h with h; subst h; exact hle i
    · split at h
      · rename_i hp
        split at h
        · rename_i child hfind
          injection h with h; subst h
          -- the node `p` of `t1` has exactly the child `child`
          cases hf : T.find? p (splice c (fun _ => []) t) with
          | none => simp [hf] at hfind
          | some n =>
            simp [hf] at hfind
            have hid : (splice c (fun _ => []) t).id ≠ p := by
              cases t with
              | node j a b d e => simp [splice, T.id] at hp ⊢; omega
            have h1 : cnt p (splice c (fun _ => []) t) ≤ 1 := Nat.le_trans (Aux.splice_le c (fun _ => []) (by intro y k; simp) t p) ((wf_iff t).mp hw p)
            have := splice_exact p (fun n => [child.withLen (tryAdd child.len n.len)]) _ n hid hf h1 i
            have hn := pc_eq i n
            rw [hfind] at hn
            simp at this hn; have := hle i; omega
        · injection h with h; subst h; exact hle i
      · split at h
        · rename_i a b hcs
          have h0 := pc_eq i (splice c (fun _ => []) t)
          rw [hcs] at h0
          have ha := pc_eq i a; have hb := pc_eq i b
          split at h
          · injection h with h; subst h; have := hle i; simp at h0 ⊢; omega
          · split at h
            · injection h with h; subst h; have := hle i; simp at h0 ⊢; omega
            · injection h with h; subst h; exact hle i
        · injection h with h; subst h; exact hle i

theorem pcL_map_eq (g : T → T) (hg : ∀ x i, pc i (g x) = pc i x) : ∀ (l : List T) (i : Nat × Nat), pcL i (l.map g) = pcL i l
  | [], i => by simp
  | x :: xs, i => by simp [hg x i, pcL_map_eq g hg xs i]

theorem edgeCollapse_le (c : Nat) (adj : Bool) (t t' : T) (h : edgeCollapse c adj t = .ok t') (i : Nat × Nat) :
    pc i t' ≤ pc i t := by
  unfold edgeCollapse at h
  split at h
  · injection h with h; subst h; exact Nat.le_refl _
  · split at h
    · injection h with h; subst h; exact Nat.le_refl _
    · split at h
      · cases h
      · injection h with h; subst h
        apply splice_le
        intro x k
        unfold collapseKids
        rw [pcL_map_eq]
        · rw [pc_eq k x]; omega
        · intro y k'
          split
          · simp
          · rfl

mutual
theorem leaves_le : ∀ (t : T) (i : Nat × Nat), pcL i t.leaves ≤ pc i t
  | .node j x l s [], i => by simp [T.leaves]
  | .node j x l s (c :: cs), i => by
      have := leavesL_le (c :: cs) i
      simp only [T.leaves, pc_node]; omega
theorem leavesL_le : ∀ (cs : List T) (i : Nat × Nat), pcL i (T.leavesL cs) ≤ pcL i cs
  | [], i => by simp [T.leavesL]
  | c :: cs, i => by
      have := leaves_le c i; have := leavesL_le cs i
      simp [T.leavesL]; omega
end

theorem leaves_le_cs (t : T) (h : t.cs.isEmpty = false) (i : Nat × Nat) : pcL i t.leaves ≤ pcL i t.cs := by
  cases t with
  | node j x l s cs =>
    cases cs with
    | nil => simp [T.cs] at h
    | cons c cs => simp only [T.leaves, T.cs]; exact leavesL_le _ i

theorem collapseClade_le (c : Nat) (t : T) (i : Nat × Nat) : pc i (collapseClade c t) ≤ pc i t := by
  unfold collapseClade
  apply modify_le
  intro x k
  split
  · exact Nat.le_refl _
  · rename_i h
    have := leaves_le_cs x (by simpa using h) k
    rw [pc_withCs, pc_eq k x]; omega

theorem insertMove_le (p idx c : Nat) (t : T) (i : Nat × Nat) : pc i (insertMove p idx c t) ≤ pc i t := by
  unfold insertMove
  apply modify_le
  intro x k
  split
  · rename_i cur sub _ hfind
    split
    · exact Nat.le_refl _
    · have := find_filter_cnt c x.cs sub hfind k
      rw [pc_withCs, pcL_insertAt, pc_eq k x]; omega
  · exact Nat.le_refl _

theorem reseedAt_le (target : Nat) (a b : Bool) (s : St) (i : Nat × Nat) : pc i (reseedAt target a b s).t ≤ pc i s.t := by
  unfold reseedAt
  exact Nat.le_trans (encodeStruct_le _ _ _ i) (reseedCore_le target b s.t i)

theorem rerootAtNode_le (target : Nat) (ub a b : Bool) (s : St) (i : Nat × Nat) :
    pc i (rerootAtNode target ub a b s).t ≤ pc i s.t := by
  unfold rerootAtNode
  have h1 := reseedAt_le target false a s i
  split
  · exact Nat.le_trans (encodeStruct_le _ _ _ i) h1
  · exact h1

theorem moveFront_le (og : Nat) (t : T) (i : Nat × Nat) : pc i (moveFront og t) ≤ pc i t := by
  unfold moveFront
  split
  · rename_i sub hfind
    have := find_filter_cnt og _ sub hfind i
    rw [pc_withCs, pc_eq i t]; simp; omega
  · exact Nat.le_refl _

theorem toOutgroup_le (og : Nat) (sp : Bool) (s : St) (i : Nat × Nat) : pc i (toOutgroup og sp s).t ≤ pc i s.t := by
  unfold toOutgroup
  split
  · exact Nat.le_refl _
  · rename_i p _
    have h2 : pc i (moveFront og (reseedCore p false s.t)) ≤ pc i s.t :=
      Nat.le_trans (moveFront_le og _ i) (reseedCore_le p false s.t i)
    simp only
    generalize moveFront og (reseedCore p false s.t) = t2 at h2 ⊢
    have h3 : ∀ s3 : St, pc i s3.t ≤ pc i t2 →
        pc i (if sp = true then { s3 with t := sup s3.t } else s3).t ≤ pc i s.t := by
      intro s3 h; split
      · exact Nat.le_trans (sup_le _ i) (by omega)
      · omega
    apply h3
    split
    · split
      · exact collapseBasalSt_le _ _ i
      · exact Nat.le_refl _
    · exact Nat.le_refl _

theorem loop_le (recursive : Bool) (keep : T → Bool) : ∀ (f : Nat) (t t' : T),
    filterLeaves.loop recursive keep f t = .ok t' → ∀ i, pc i t' ≤ pc i t
  | 0, t, t', h, i => by simp [filterLeaves.loop] at h; subst h; exact Nat.le_refl _
  | f + 1, t, t', h, i => by
      simp only [filterLeaves.loop] at h
      split at h
      · split at h
        · injection h with h; subst h; exact Nat.le_refl _
        · cases h
      · split at h
        · injection h with h; subst h; exact dropLeaves_le keep t i
        · exact Nat.le_trans (loop_le recursive keep f _ t' h i) (dropLeaves_le keep t i)

theorem pruneUp_le : ∀ (f c : Nat) (t : T) (i : Nat × Nat), pc i (pruneUp f c t) ≤ pc i t
  | 0, c, t, i => by
      simp only [pruneUp]; exact splice_le c (fun _ => []) (by intro y k; simp) t i
  | f + 1, c, t, i => by
      have h1 := splice_le c (fun _ => []) (by intro y k; simp) t i
      simp only [pruneUp]
      split
      · exact Nat.le_refl _
      · split
        · split
          · exact Nat.le_trans (pruneUp_le f _ _ i) h1
          · exact h1
        · exact h1

theorem pruneNoTaxa_le (r ub sp : Bool) (s : St) (i : Nat × Nat) : pc i (pruneNoTaxa r ub sp s).t ≤ pc i s.t := by
  unfold pruneNoTaxa
  apply Nat.le_trans (finish_le _ _ _ i)
  simp only
  split
  · exact dropLeavesFix_le _ _ _ i
  · exact dropLeaves_le _ _ i

/-! ### fresh nodes, resolve, regraft -/
mutual
theorem pc_le_cnt (i : Nat × Nat) : ∀ t : T, pc i t ≤ cnt i.1 t
  | .node j x l s cs => by
      have := pcL_le_cntL i cs
      simp only [pc_node, cnt_node]
      split <;> split <;> first | omega | (rename_i h1 h2; exact absurd h1.1 h2)
theorem pcL_le_cntL (i : Nat × Nat) : ∀ cs : List T, pcL i cs ≤ cntL i.1 cs
  | [] => by simp
  | c :: cs => by have := pc_le_cnt i c; have := pcL_le_cntL i cs; simp; omega
end

theorem pc_fresh (t : T) (i : Nat × Nat) (h : maxId t < i.1) : pc i t = 0 := by
  have := pc_le_cnt i t; have := cnt_fresh t i.1 h; omega

theorem pc_shift_lt (k : Nat) (t : T) (i : Nat × Nat) (h : i.1 < k) : pc i (shiftIds k t) = 0 := by
  have := pc_le_cnt i (shiftIds k t)
  rw [cnt_shift] at this
  have hk : ¬ k ≤ i.1 := by omega
  simp [hk] at this; exact this

theorem joinLoop_pc (limit : Nat) : ∀ (f : Nat) (cs : List T) (k : Nat) (i : Nat × Nat),
    pcL i (joinLoop limit f cs k).1 ≤ pcL i cs
  | 0, cs, k, i => by simp [joinLoop]
  | f + 1, cs, k, i => by
      simp only [joinLoop]
      split
      · split
        · rename_i c1 c2 rest _
          have := joinLoop_pc limit f (rest ++ [.node k none (some Frac.zero) none [c1, c2]]) (k + 1) i
          simp at this ⊢; omega
        · exact Nat.le_refl _
      · exact Nat.le_refl _

mutual
theorem rp_pc (limit : Nat) : ∀ (t : T) (k : Nat) (i : Nat × Nat), pc i (rp limit t k).1 ≤ pc i t
  | .node j x l s cs, k, i => by
      have h1 := rpL_pc limit cs k i
      have h2 := joinLoop_pc limit (rpL limit cs k).1.length (rpL limit cs k).1 (rpL limit cs k).2 i
      simp only [rp, pc_node]; omega
theorem rpL_pc (limit : Nat) : ∀ (cs : List T) (k : Nat) (i : Nat × Nat), pcL i (rpL limit cs k).1 ≤ pcL i cs
  | [], k, i => by simp [rpL]
  | c :: cs, k, i => by
      have := rp_pc limit c k i; have := rpL_pc limit cs (rp limit c k).2 i
      simp [rpL]; omega
end

/-- remove the subtree at `c`, hang `w` under `q`: no (id, taxon) pair appears that was not there, except what `w` adds
beyond `sub` -/
theorem regraft_pc {t sub w : T} {c q : Nat} (h : WF t) (hne : t.id ≠ c) (hf : T.find? c t = some sub)
    (i : Nat × Nat) (hw : pc i w ≤ pc i sub) : pc i (addChild q w (splice c (fun _ => []) t)) ≤ pc i t := by
  have hrm := splice_remove c t sub hne hf i
  have hle := Aux.splice_le c (fun _ => []) (by intro y k; simp) t q
  have h1 := addChild_cnt q w (splice c (fun _ => []) t) i
  have hq : cnt q (splice c (fun _ => []) t) ≤ 1 := Nat.le_trans hle ((wf_iff t).mp h q)
  have h4 : cnt q (splice c (fun _ => []) t) * pc i w ≤ 1 * pc i w := Nat.mul_le_mul_right _ hq
  omega

/-! ### when no internal node carries a taxon, the taxon-bearing nodes are exactly the taxon-bearing leaves -/
mutual
/-- no node that has children carries a taxon -/
def InnerUntaxed : T → Prop
  | .node _ x _ _ cs => (cs ≠ [] → x = none) ∧ InnerUntaxedL cs
def InnerUntaxedL : List T → Prop
  | [] => True
  | c :: cs => InnerUntaxed c ∧ InnerUntaxedL cs
end

open Leaves in
mutual
theorem lc_le_pc (i : Nat × Nat) : ∀ t : T, lc i t ≤ pc i t
  | .node j x l s [] => by
      by_cases h : 1 ≤ lc i (.node j x l s [])
      · obtain ⟨hx, hj⟩ := lc_leaf_pos i j x l s h
        subst hx; subst hj
        have hle : lc i (.node i.1 (some i.2) l s []) ≤ 1 := by
          have h1 : (lpairs (.node i.1 (some i.2) l s [])).length ≤ 1 := by
            simp only [lpairs, T.leaves]
            exact Nat.le_trans (List.length_filterMap_le _ _) (by simp)
          exact Nat.le_trans List.count_le_length h1
        simp; omega
      · simp; omega
  | .node j x l s (c :: cs) => by
      have := lcL_le_pcL i (c :: cs)
      rw [lc_node_cons, ← lcL_cons, pc_node]; omega
theorem lcL_le_pcL (i : Nat × Nat) : ∀ cs : List T, lcL i cs ≤ pcL i cs
  | [] => by simp
  | c :: cs => by have := lc_le_pc i c; have := lcL_le_pcL i cs; simp; omega
end

open Leaves in
mutual
theorem pc_le_lc (i : Nat × Nat) : ∀ t : T, InnerUntaxed t → pc i t ≤ lc i t
  | .node j x l s [], _ => by
      simp only [pc_node, pcL_nil, Nat.zero_add]
      split
      · rename_i h
        simp [lc, lpairs, T.leaves, pairOf, T.taxon, T.id, h.1, h.2, List.filterMap_cons]
      · exact Nat.zero_le _
  | .node j x l s (c :: cs), h => by
      simp only [InnerUntaxed] at h
      have hx := h.1 (by simp)
      have := pcL_le_lcL i (c :: cs) h.2
      rw [lc_node_cons, ← lcL_cons, pc_node]; simp [hx]; simpa using this
theorem pcL_le_lcL (i : Nat × Nat) : ∀ cs : List T, InnerUntaxedL cs → pcL i cs ≤ lcL i cs
  | [], _ => by simp
  | c :: cs, h => by
      simp only [InnerUntaxedL] at h
      have := pc_le_lc i c h.1; have := pcL_le_lcL i cs h.2; simp; omega
end


end DendroModel.C03.AuxP


namespace DendroModel.C03.AuxR
open DendroModel DendroModel.C03 DendroModel.C03.Aux DendroModel.C03.HeapAux

theorem idsL_append : ∀ a b : List T, idsL (a ++ b) = idsL a ++ idsL b
  | [], b => by simp [idsL]
  | x :: xs, b => by simp [idsL, idsL_append xs b]

theorem reprL_split (h : Heap) (q : Option Nat) : ∀ a b : List T, ReprL h q (a ++ b) → ReprL h q a ∧ ReprL h q b
  | [], b, hr => ⟨by simp [ReprL], hr⟩
  | x :: xs, b, hr => by
      simp only [List.cons_append, ReprL] at hr
      have := reprL_split h q xs b hr.2
      simp only [ReprL]
      exact ⟨⟨hr.1, this.1⟩, this.2⟩

theorem map_id_mem_idsL : ∀ (cs : List T) (j : Nat), j ∈ cs.map T.id → j ∈ idsL cs := map_id_sub_idsL

/-- the heap after `Edge.invert` on the edge from the parentless node `i` down to its child `j` -/
def rotHeap (h : Heap) (i j : Nat) : Heap :=
  { par := fun y => if y = i then some j else if y = j then none else h.par y
    ch := fun y => if y = j then h.ch j ++ [i] else if y = i then (h.ch i).erase j else h.ch y }

theorem edgeInvert_root (h : Heap) (i j : Nat) (hij : i ≠ j) (hpj : h.par j = some i) (hpi : h.par i = none)
    (hmem : j ∈ h.ch i) (hni : i ∉ h.ch j) : Heap.edgeInvert h j = some (rotHeap h i j) := by
  have hc : (h.ch i).contains j = true := by simpa using hmem
  simp only [Heap.edgeInvert, hpj, hpi, Heap.removeChild, hc, if_true]
  have hji : j ≠ i := fun e => hij e.symm
  congr 1
  simp only [Heap.addChild, Heap.setPar, Heap.setCh, rotHeap]
  have hc2 : (if j = i then (h.ch i).erase j else h.ch j) = h.ch j := by simp [hji]
  simp only [hji, if_false, if_true]
  have : (h.ch j).contains i = false := by simpa using hni
  simp only [this]
  congr 1


theorem erase_mid (a b : List Nat) (j : Nat) (h : j ∉ a) : (a ++ j :: b).erase j = a ++ b := by
  rw [List.erase_append_right _ h]; simp

/-- one `Edge.invert` at the root: the child `c` becomes the root and the old root, minus `c`, its last child -/
theorem rot (h : Heap) (i : Nat) (x : Option Nat) (l : Option Frac) (s : Option String) (pre post : List T) (c : T)
    (hr : Repr h none (.node i x l s (pre ++ c :: post)))
    (hnd : (ids (.node i x l s (pre ++ c :: post))).Nodup) (l1 l2 : Option Frac) :
    Heap.edgeInvert h c.id = some (rotHeap h i c.id) ∧
    Repr (rotHeap h i c.id) none (.node c.id c.taxon l1 c.label (c.cs ++ [.node i x l2 s (pre ++ post)])) := by
  cases c with
  | node j xj lj sj ds =>
  simp only [T.id, T.taxon, T.label, T.cs]
  simp only [Repr] at hr
  obtain ⟨hpi, hchi, hrl⟩ := hr
  have hsp := reprL_split h (some i) pre (.node j xj lj sj ds :: post) hrl
  have hrc : Repr h (some i) (.node j xj lj sj ds) := by have := hsp.2; simp only [ReprL] at this; exact this.1
  have hrpost : ReprL h (some i) post := by have := hsp.2; simp only [ReprL] at this; exact this.2
  simp only [Repr] at hrc
  obtain ⟨hpj, hchj, hrds⟩ := hrc
  -- distinctness facts
  simp only [ids, idsL_append, idsL] at hnd
  have hnd2 := (List.nodup_cons.mp hnd).2
  have hi_all := (List.nodup_cons.mp hnd).1
  have hi_pre : i ∉ idsL pre := fun hm => hi_all (by simp [hm])
  have hi_j : i ≠ j := fun e => hi_all (by simp [e])
  have hi_ds : i ∉ idsL ds := fun hm => hi_all (by simp [hm])
  have hi_post : i ∉ idsL post := fun hm => hi_all (by simp [hm])
  have hnd_pre := (List.nodup_append.mp hnd2).1
  have hnd_rest := (List.nodup_append.mp hnd2).2.1
  have hdis1 : ∀ a ∈ idsL pre, ∀ b ∈ (j :: idsL ds) ++ idsL post, a ≠ b := (List.nodup_append.mp hnd2).2.2
  have hnd_c := (List.nodup_append.mp hnd_rest).1
  have hdis2 : ∀ a ∈ j :: idsL ds, ∀ b ∈ idsL post, a ≠ b := (List.nodup_append.mp hnd_rest).2.2
  have hj_ds : j ∉ idsL ds := (List.nodup_cons.mp hnd_c).1
  have hij : i ≠ j := hi_j
  have hj_pre : j ∉ idsL pre := fun hm => hdis1 j hm j (by simp) rfl
  have hj_post : j ∉ idsL post := fun hm => hdis2 j (by simp) j hm rfl
  have hmem : j ∈ h.ch i := by rw [hchi]; simp [T.id]
  have hni : i ∉ h.ch j := by
    rw [hchj]; intro hm; exact hi_ds (map_id_mem_idsL ds i hm)
  refine ⟨edgeInvert_root h i j hij hpj hpi hmem hni, ?_⟩
  have hji : j ≠ i := fun e => hij e.symm
  simp only [Repr]
  refine ⟨by simp [rotHeap, hji], ?_, ?_⟩
  · simp [rotHeap, hchj, T.id]
  · apply reprL_append
    · apply agreeL h _ (some j) ds _ hrds
      intro y hy
      have hyi : y ≠ i := fun e => hi_ds (e ▸ hy)
      have hyj : y ≠ j := fun e => hj_ds (e ▸ hy)
      simp [rotHeap, hyi, hyj]
    · simp only [ReprL, Repr, and_true]
      refine ⟨by simp [rotHeap], ?_, ?_⟩
      · have hjp : j ∉ pre.map T.id := fun hm => hj_pre (map_id_mem_idsL pre j hm)
        simp only [rotHeap, hij, if_false, if_true, hchi, List.map_append, List.map_cons, T.id]
        exact erase_mid _ _ j hjp
      · apply reprL_append
        · apply agreeL h _ (some i) pre _ hsp.1
          intro y hy
          have hyi : y ≠ i := fun e => hi_pre (e ▸ hy)
          have hyj : y ≠ j := fun e => hj_pre (e ▸ hy)
          simp [rotHeap, hyi, hyj]
        · apply agreeL h _ (some i) post _ hrpost
          intro y hy
          have hyi : y ≠ i := fun e => hi_post (e ▸ hy)
          have hyj : y ≠ j := fun e => hj_post (e ▸ hy)
          simp [rotHeap, hyi, hyj]


/-! ### the path from the seed down to the target, and the chain of inversions along it -/
mutual
/-- ids of the nodes strictly below the root of `t` on the way to `target` (topmost first); `none` if `target` is not in `t` -/
def pathTo (target : Nat) : T → Option (List Nat)
  | .node i _ _ _ cs => if i == target then some [] else pathToL target cs
def pathToL (target : Nat) : List T → Option (List Nat)
  | [] => none
  | c :: cs => match pathTo target c with
    | some π => some (c.id :: π)
    | none => pathToL target cs
end

/-- `Edge.invert` along a list of edge heads, as `reseed_at` does it -/
def chain (h : Heap) (π : List Nat) : Option Heap :=
  π.foldl (fun hh e => hh.bind fun x => x.edgeInvert e) (some h)

theorem chain_cons (h h1 : Heap) (e : Nat) (π : List Nat) (he : Heap.edgeInvert h e = some h1) :
    chain h (e :: π) = chain h1 π := by
  simp [chain, he]

mutual
theorem go_isSome (target : Nat) (rl : Option Frac) : ∀ (t : T) (acc : List T),
    (reseedGo target rl acc t).isSome = (pathTo target t).isSome
  | .node i x l s cs, acc => by
      simp only [reseedGo, pathTo]
      split
      · rfl
      · exact goL_isSome target rl i x s cs acc []
theorem goL_isSome (target : Nat) (rl : Option Frac) (i : Nat) (x : Option Nat) (s : Option String) :
    ∀ (post acc pre : List T), (reseedGoL target rl i x s acc pre post).isSome = (pathToL target post).isSome
  | [], acc, pre => by simp [reseedGoL, pathToL]
  | c :: post, acc, pre => by
      have h1 := go_isSome target rl c [.node i x c.len s (pre ++ post ++ acc)]
      simp only [reseedGoL, pathToL]
      cases hg : reseedGo target rl [.node i x c.len s (pre ++ post ++ acc)] c with
      | some r =>
        rw [hg] at h1
        cases hp : pathTo target c with
        | some π => simp
        | none => rw [hp] at h1; simp at h1
      | none =>
        rw [hg] at h1
        cases hp : pathTo target c with
        | some π => rw [hp] at h1; simp at h1
        | none => simp only; exact goL_isSome target rl i x s post acc (pre ++ [c])
end

theorem rot_nodup (i : Nat) (x l s) (pre post : List T) (c : T) (l1 l2)
    (h : (ids (.node i x l s (pre ++ c :: post))).Nodup) :
    (ids (.node c.id c.taxon l1 c.label (c.cs ++ [.node i x l2 s (pre ++ post)]))).Nodup := by
  have h' : WF (.node i x l s (pre ++ c :: post)) := h
  show WF _
  rw [wf_iff] at h' ⊢
  intro a
  have := h' a
  have hc := cnt_eq a c
  simp at this ⊢; omega

mutual
theorem chainB (target : Nat) (rl : Option Frac) : ∀ (t : T) (acc : List T) (h : Heap) (π : List Nat) (r : T),
    Repr h none (t.withCs (t.cs ++ acc)) → (ids (t.withCs (t.cs ++ acc))).Nodup → pathTo target t = some π →
    reseedGo target rl acc t = some r → ∃ h', chain h π = some h' ∧ Repr h' none r
  | .node i x l s cs, acc, h, π, r, hr, hnd, hp, hg => by
      simp only [T.withCs, T.cs] at hr hnd
      simp only [pathTo] at hp
      simp only [reseedGo] at hg
      split at hg
      · rename_i e
        simp only [e, if_true] at hp
        injection hp with hp; subst hp
        injection hg with hg; subst hg
        exact ⟨h, rfl, by simp only [Repr] at hr ⊢; exact hr⟩
      · rename_i e
        simp only [e] at hp
        exact chainBL target rl i x l s cs acc [] h π r (by simpa using hr) (by simpa using hnd) hp hg
theorem chainBL (target : Nat) (rl : Option Frac) (i : Nat) (x : Option Nat) (l : Option Frac) (s : Option String) :
    ∀ (post acc pre : List T) (h : Heap) (π : List Nat) (r : T),
    Repr h none (.node i x l s (pre ++ post ++ acc)) → (ids (.node i x l s (pre ++ post ++ acc))).Nodup →
    pathToL target post = some π → reseedGoL target rl i x s acc pre post = some r →
    ∃ h', chain h π = some h' ∧ Repr h' none r
  | [], acc, pre, h, π, r, _, _, hp, _ => by simp [pathToL] at hp
  | c :: post, acc, pre, h, π, r, hr, hnd, hp, hg => by
      have his := go_isSome target rl c [.node i x c.len s (pre ++ post ++ acc)]
      simp only [pathToL] at hp
      simp only [reseedGoL] at hg
      have hassoc : pre ++ (c :: post) ++ acc = pre ++ c :: (post ++ acc) := by simp
      cases hgo : reseedGo target rl [.node i x c.len s (pre ++ post ++ acc)] c with
      | some r' =>
        rw [hgo] at hg his
        injection hg with hg; subst hg
        cases hpc : pathTo target c with
        | none => rw [hpc] at his; simp at his
        | some π' =>
          rw [hpc] at hp
          injection hp with hp; subst hp
          rw [hassoc] at hr hnd
          have hrot := rot h i x l s pre (post ++ acc) c hr hnd c.len c.len
          have hnd' := rot_nodup i x l s pre (post ++ acc) c c.len c.len hnd
          have hr1 : Repr (rotHeap h i c.id) none (c.withCs (c.cs ++ [.node i x c.len s (pre ++ post ++ acc)])) := by
            have := hrot.2
            cases c with
            | node j a b d e =>
              simp only [T.withCs, T.cs, T.id, T.taxon, T.label, T.len] at this ⊢
              rw [List.append_assoc]; simp only [Repr] at this ⊢; exact this
          have hnd1 : (ids (c.withCs (c.cs ++ [.node i x c.len s (pre ++ post ++ acc)]))).Nodup := by
            cases c with
            | node j a b d e =>
              simp only [T.withCs, T.cs, T.id, T.taxon, T.label, T.len] at hnd' ⊢
              rw [List.append_assoc]; exact hnd'
          obtain ⟨h', hc, hrep⟩ := chainB target rl c _ _ π' _ hr1 hnd1 hpc hgo
          exact ⟨h', by rw [chain_cons h _ c.id π' hrot.1]; exact hc, hrep⟩
      | none =>
        rw [hgo] at hg his
        cases hpc : pathTo target c with
        | some π' => rw [hpc] at his; simp at his
        | none =>
          rw [hpc] at hp
          simp only at hp hg
          have hassoc2 : pre ++ [c] ++ post ++ acc = pre ++ (c :: post) ++ acc := by simp
          exact chainBL target rl i x l s post acc (pre ++ [c]) h π r (by rw [hassoc2]; exact hr)
            (by rw [hassoc2]; exact hnd) hp hg
end


/-! ### the list of edges `reseed_at` collects by walking up the parent pointers is that path -/
theorem path_step (h : Heap) (k cur p : Nat) (acc : List Nat) (hp : h.par cur = some p) :
    Heap.reseedChain.path h (k + 1) cur acc = Heap.reseedChain.path h k p (cur :: acc) := by
  simp [Heap.reseedChain.path, hp]

theorem path_top (h : Heap) (k cur : Nat) (acc : List Nat) (hp : h.par cur = none) :
    Heap.reseedChain.path h k cur acc = acc := by
  cases k <;> simp [Heap.reseedChain.path, hp]

mutual
theorem path_up (h : Heap) (target : Nat) : ∀ (t : T) (q : Option Nat) (π : List Nat), Repr h q t →
    pathTo target t = some π → ∀ (k : Nat) (acc : List Nat),
      Heap.reseedChain.path h (k + π.length) target acc = Heap.reseedChain.path h k t.id (π ++ acc)
  | .node i x l s cs, q, π, hr, hp, k, acc => by
      simp only [pathTo] at hp
      simp only [Repr] at hr
      split at hp
      · rename_i e
        injection hp with hp; subst hp
        have : i = target := beq_iff_eq.mp e
        simp [T.id, this]
      · exact pathL_up h target i cs π hr.2.2 hp k acc
theorem pathL_up (h : Heap) (target : Nat) (i : Nat) : ∀ (cs : List T) (π : List Nat), ReprL h (some i) cs →
    pathToL target cs = some π → ∀ (k : Nat) (acc : List Nat),
      Heap.reseedChain.path h (k + π.length) target acc = Heap.reseedChain.path h k i (π ++ acc)
  | [], π, _, hp, _, _ => by simp [pathToL] at hp
  | c :: cs, π, hr, hp, k, acc => by
      simp only [ReprL] at hr
      simp only [pathToL] at hp
      split at hp
      · rename_i π' hpc
        injection hp with hp; subst hp
        have h1 := path_up h target c (some i) π' hr.1 hpc (k + 1) acc
        have hpar : h.par c.id = some i := by
          cases c with
          | node j a b d e => have := hr.1; simp only [Repr] at this; exact this.1
        rw [path_step h k c.id i _ hpar] at h1
        simp only [List.length_cons, List.cons_append]
        rw [← h1]; congr 1; omega
      · exact pathL_up h target i cs π hr.2 hp k acc
end

mutual
theorem pathTo_len (target : Nat) : ∀ (t : T) (π : List Nat), pathTo target t = some π → π.length < t.size
  | .node i x l s cs, π, hp => by
      simp only [pathTo] at hp
      split at hp
      · injection hp with hp; subst hp; simp [T.size]; omega
      · have := pathToL_len target cs π hp; simp [T.size]; omega
theorem pathToL_len (target : Nat) : ∀ (cs : List T) (π : List Nat), pathToL target cs = some π → π.length ≤ T.sizeL cs
  | [], π, hp => by simp [pathToL] at hp
  | c :: cs, π, hp => by
      simp only [pathToL] at hp
      split at hp
      · rename_i π' hpc
        injection hp with hp; subst hp
        have := pathTo_len target c π' hpc; simp [T.sizeL]; omega
      · have := pathToL_len target cs π hp; simp [T.sizeL]; omega
end

mutual
theorem pathTo_none_cnt (target : Nat) : ∀ t : T, pathTo target t = none → cnt target t = 0
  | .node i x l s cs, hp => by
      simp only [pathTo] at hp
      split at hp
      · cases hp
      · rename_i e
        have : ¬ i = target := by simpa using e
        simp [this, pathToL_none_cnt target cs hp]
theorem pathToL_none_cnt (target : Nat) : ∀ cs : List T, pathToL target cs = none → cntL target cs = 0
  | [], _ => by simp
  | c :: cs, hp => by
      simp only [pathToL] at hp
      split at hp
      · cases hp
      · rename_i hpc; simp [pathTo_none_cnt target c hpc, pathToL_none_cnt target cs hp]
end

mutual
theorem reseedGo_id (target : Nat) (rl : Option Frac) : ∀ (t : T) (acc : List T) (r : T),
    reseedGo target rl acc t = some r → r.id = target
  | .node i x l s cs, acc, r, h => by
      simp only [reseedGo] at h
      split at h
      · rename_i e; injection h with h; subst h; exact beq_iff_eq.mp e
      · exact reseedGoL_id target rl i x s cs acc [] r h
theorem reseedGoL_id (target : Nat) (rl : Option Frac) (i : Nat) (x : Option Nat) (s : Option String) :
    ∀ (post acc pre : List T) (r : T), reseedGoL target rl i x s acc pre post = some r → r.id = target
  | [], acc, pre, r, h => by simp [reseedGoL] at h
  | c :: post, acc, pre, r, h => by
      simp only [reseedGoL] at h
      split at h
      · rename_i r' hr; injection h with h; subst h; exact reseedGo_id target rl c _ _ hr
      · exact reseedGoL_id target rl i x s post acc (pre ++ [c]) r h
end

end DendroModel.C03.AuxR


namespace DendroModel.C03.Aux
open DendroModel DendroModel.C03

mutual
theorem dropLeaves_eq_of_size (keep : T → Bool) : ∀ t : T, (dropLeaves keep t).size = t.size → dropLeaves keep t = t
  | .node i x l s cs, h => by
      simp only [dropLeaves, T.size] at h
      simp only [dropLeaves]
      rw [dropLeavesL_eq_of_size keep cs (by omega)]
theorem dropLeavesL_eq_of_size (keep : T → Bool) : ∀ cs : List T, T.sizeL (dropLeavesL keep cs) = T.sizeL cs →
    dropLeavesL keep cs = cs
  | [], _ => by simp [dropLeavesL]
  | c :: cs, h => by
      have h1 := dropLeaves_size keep c; have h2 := dropLeavesL_size keep cs
      have hp := size_pos c
      simp only [dropLeavesL] at h ⊢
      split at h
      · split at h
        · simp [sizeL_append, T.sizeL] at h
          rename_i hc hk
          have hc' : c.cs = [] := by simpa using hc
          simp [hk, hc', dropLeavesL_eq_of_size keep cs (by omega)]
        · simp [sizeL_append, T.sizeL] at h; omega
      · rename_i hne
        simp [sizeL_append, T.sizeL] at h
        simp [hne, dropLeaves_eq_of_size keep c (by omega), dropLeavesL_eq_of_size keep cs (by omega)]
end

theorem loop_fix (keep : T → Bool) : ∀ (f : Nat) (t r : T), t.size ≤ f → filterLeaves.loop true keep f t = .ok r →
    dropLeaves keep r = r
  | 0, t, r, h, _ => by have := size_pos t; omega
  | f + 1, t, r, h, hl => by
      simp only [filterLeaves.loop] at hl
      split at hl
      · rename_i hleaf
        split at hl
        · injection hl with hl; subst hl
          cases t with
          | node i x l s cs =>
            have : cs = [] := by simpa [T.cs] using hleaf
            subst this; simp [dropLeaves, dropLeavesL]
        · cases hl
      · split at hl
        · rename_i hc
          injection hl with hl; subst hl
          have hs : (dropLeaves keep t).size = t.size := by simpa using hc
          rw [dropLeaves_eq_of_size keep t hs]; exact dropLeaves_eq_of_size keep t hs
        · rename_i hc
          have hle := dropLeaves_size keep t
          have hne : (dropLeaves keep t).size ≠ t.size := by intro e; apply hc; simp [e]
          exact loop_fix keep f _ r (by omega) hl

/-! `pruneUp`: more fuel than the size of the tree changes nothing -/
mutual
theorem splice_size_le (c : Nat) : ∀ t : T, (splice c (fun _ => []) t).size ≤ t.size
  | .node i x l s cs => by have := spliceL_size_le c cs; simp [splice, T.size]; omega
theorem spliceL_size_le (c : Nat) : ∀ cs : List T, T.sizeL (spliceL c (fun _ => []) cs) ≤ T.sizeL cs
  | [] => by simp [spliceL]
  | x :: xs => by
      have := splice_size_le c x; have := spliceL_size_le c xs
      simp only [spliceL]
      split <;> simp [T.sizeL] <;> omega
end

theorem any_spliceL_size (c : Nat) : ∀ cs : List T, cs.any (fun x => x.id == c) = true →
    T.sizeL (spliceL c (fun _ => []) cs) < T.sizeL cs
  | [], h => by simp at h
  | x :: xs, h => by
      have hp := size_pos x
      simp only [spliceL]
      split
      · simp [T.sizeL]; omega
      · rename_i hx
        have hx' : (x.id == c) = false := by simpa using hx
        simp only [List.any_cons, hx', Bool.false_or] at h
        have := any_spliceL_size c xs h
        have hle := splice_size_le c x
        simp [T.sizeL]; omega

mutual
theorem splice_size_lt (c : Nat) : ∀ (t : T) (q : Nat), parentOf c t = some q → (splice c (fun _ => []) t).size < t.size
  | .node i x l s cs, q, h => by
      simp only [parentOf] at h
      simp only [splice, T.size]
      split at h
      · rename_i hany; have := any_spliceL_size c cs hany; omega
      · have := spliceL_size_lt c cs q h; omega
theorem spliceL_size_lt (c : Nat) : ∀ (cs : List T) (q : Nat), parentOfL c cs = some q →
    T.sizeL (spliceL c (fun _ => []) cs) < T.sizeL cs
  | [], q, h => by simp [parentOfL] at h
  | x :: xs, q, h => by
      have hp := size_pos x
      simp only [parentOfL] at h
      simp only [spliceL]
      split
      · simp [T.sizeL]; omega
      · split at h
        · rename_i r hr
          have := splice_size_lt c x r hr; have := spliceL_size_le c xs
          simp [T.sizeL]; omega
        · have := spliceL_size_lt c xs q h; have := splice_size_le c x
          simp [T.sizeL]; omega
end

theorem pruneUp_fuel : ∀ (f g c : Nat) (t : T), t.size ≤ f → t.size ≤ g → pruneUp f c t = pruneUp g c t
  | 0, g, c, t, h, _ => by have := size_pos t; omega
  | f + 1, 0, c, t, _, h => by have := size_pos t; omega
  | f + 1, g + 1, c, t, hf, hg => by
      simp only [pruneUp]
      split
      · rfl
      · rename_i q hq
        have hlt := splice_size_lt c t q hq
        split
        · split
          · exact pruneUp_fuel f g q _ (by omega) (by omega)
          · rfl
        · rfl

end DendroModel.C03.Aux


namespace DendroModel.C03
open DendroModel DendroModel.C03.Aux DendroModel.C03.AuxR

/-- subtrees handed to `add_child` / `insert_child` are themselves free of shared nodes
(their ids are renamed apart from the tree's by `step`) -/
def Op.SubWF : Op → Prop
  | .addSub _ sub => WF sub
  | .insertSub _ _ sub => WF sub
  | _ => True

/-- **Clause (a), tree level, one operation.**  Whatever operation of the alphabet is applied to a tree without
shared nodes, with whatever target ids, flags, lengths and taxa, the resulting tree has no shared node either
(nodes created by the operation included).  Together with the tree being an inductive rose tree (single root,
every other node in exactly one child list, no cycles) this is "still a single arborescence". -/
theorem step_wf (s s' : St) (op : Op) (h : WF s.t) (hop : op.SubWF) (hs : step s op = .ok s') : WF s'.t := by
  have fresh : ∀ i, maxId s.t < i → cnt i s.t = 0 := fun i hi => cnt_fresh s.t i hi
  cases op with
  | removeChild p c sp =>
    simp only [step] at hs
    split at hs
    · cases hs
    · split at hs
      · rename_i t' ht
        injection hs with hs; subst hs
        exact wf_of_le h (removeChild_le p c sp s.t t' h ht)
      · cases hs
  | newChild p x l =>
    simp only [step] at hs
    split at hs
    · cases hs
    · injection hs with hs; subst hs
      refine wf_attach h (wf_leafNode _ x l) ?_ (addChild_cnt p _ s.t)
      intro i hi; rw [cnt_leafNode] at hi
      split at hi
      · rename_i e; subst e; exact fresh _ (by omega)
      · omega
  | insertNewChild p idx x l =>
    simp only [step] at hs
    split at hs
    · cases hs
    · injection hs with hs; subst hs
      refine wf_attach h (wf_leafNode _ x l) ?_ (insertChild_cnt p idx _ s.t)
      intro i hi; rw [cnt_leafNode] at hi
      split at hi
      · rename_i e; subst e; exact fresh _ (by omega)
      · omega
  | addSub p sub =>
    simp only [step] at hs
    split at hs
    · cases hs
    · injection hs with hs; subst hs
      refine wf_attach h (wf_shift _ sub hop) ?_ (addChild_cnt p _ s.t)
      intro i hi; rw [cnt_shift] at hi
      split at hi
      · exact fresh _ (by omega)
      · omega
  | insertSub p idx sub =>
    simp only [step] at hs
    split at hs
    · cases hs
    · injection hs with hs; subst hs
      refine wf_attach h (wf_shift _ sub hop) ?_ (insertChild_cnt p idx _ s.t)
      intro i hi; rw [cnt_shift] at hi
      split at hi
      · exact fresh _ (by omega)
      · omega
  | insertMove p idx c =>
    simp only [step] at hs
    split at hs
    · cases hs
    · injection hs with hs; subst hs
      exact wf_of_le h (insertMove_le p idx c s.t)
  | setParent c q =>
    simp only [step] at hs
    split at hs
    · cases hs
    · rename_i sub hf
      split at hs
      · cases hs
      · rename_i hg
        injection hs with hs; subst hs
        have hne : s.t.id ≠ c := by
          intro e; apply hg; simp [e]
        simp only [setParent, hf]
        exact regraft_wf h hne hf (wf_of_le h (fun i => by have := splice_remove c s.t sub hne hf i; omega))
          (fun i => Or.inl (Nat.le_refl _))
  | edgeCollapse c adj =>
    simp only [step] at hs
    split at hs
    · cases hs
    · split at hs
      · rename_i t' ht
        injection hs with hs; subst hs
        exact wf_of_le h (edgeCollapse_le c adj s.t t' ht)
      · cases hs
  | collapseClade c =>
    simp only [step] at hs
    split at hs
    · cases hs
    · injection hs with hs; subst hs
      exact wf_of_le h (collapseClade_le c s.t)
  | reseedAt target a b =>
    simp only [step] at hs
    split at hs
    · cases hs
    · injection hs with hs; subst hs
      exact wf_of_le h (reseedAt_le target a b s)
  | rerootAtNode target ub a b =>
    simp only [step] at hs
    split at hs
    · cases hs
    · injection hs with hs; subst hs
      exact wf_of_le h (rerootAtNode_le target ub a b s)
  | rerootAtEdge head l1 l2 ub sp =>
    simp only [step] at hs
    split at hs
    · cases hs
    · rename_i hg
      injection hs with hs; subst hs
      have hne : s.t.id ≠ head := by
        intro e; apply hg; simp [e]
      unfold rerootAtEdge
      split
      · rename_i tail sub _ hf
        refine wf_of_le ?_ (rerootAtNode_le _ ub sp true _)
        have hsub : ∀ i, cnt i sub ≤ cnt i s.t := fun i => by
          have := splice_remove head s.t sub hne hf i; omega
        have hfr : cnt (maxId s.t + 1) sub = 0 := by
          have := hsub (maxId s.t + 1); have := fresh (maxId s.t + 1) (by omega); omega
        have hcw : ∀ i, cnt i (T.node (maxId s.t + 1) none l1 none [sub.withLen l2]) =
            cnt i sub + (if maxId s.t + 1 = i then 1 else 0) := by
          intro i; simp
        have hwf := (wf_iff s.t).mp h
        apply regraft_wf h hne hf
        · rw [wf_iff]; intro i; rw [hcw]
          split
          · rename_i e; subst e; omega
          · have := hsub i; have := hwf i; omega
        · intro i; rw [hcw]
          split
          · rename_i e; subst e; right; exact ⟨fresh _ (by omega), by omega⟩
          · left; omega
      · exact h
  | toOutgroup og sp =>
    simp only [step] at hs
    split at hs
    · cases hs
    · injection hs with hs; subst hs
      exact wf_of_le h (toOutgroup_le og sp s)
  | suppressUnif =>
    simp only [step] at hs
    injection hs with hs; subst hs
    exact wf_of_le h (sup_le s.t)
  | collapseBasal su =>
    simp only [step] at hs
    injection hs with hs; subst hs
    exact wf_of_le h (collapseBasalSt_le su s)
  | polytomize su =>
    simp only [step] at hs
    injection hs with hs; subst hs
    exact wf_of_le h (polytomize_le _ s.t)
  | collapseUnweighted thr ub =>
    simp only [step] at hs
    injection hs with hs; subst hs
    split
    · exact wf_of_le h (fun i => Nat.le_trans (encodeStruct_le _ _ _ i) (cu_le thr s.t i))
    · exact wf_of_le h (cu_le thr s.t)
  | resolve limit ub =>
    simp only [step] at hs
    split at hs
    · cases hs
    · injection hs with hs; subst hs
      have hr := (rp_cnt limit s.t (maxId s.t + 1)).2
      have hw : WF (rp limit s.t (maxId s.t + 1)).1 := by
        rw [wf_iff]; intro i
        have h1 := hr i; have h2 := (wf_iff s.t).mp h i
        have h3 := ind_le_one (maxId s.t + 1) (rp limit s.t (maxId s.t + 1)).2 i
        have hpos := ind_pos (maxId s.t + 1) (rp limit s.t (maxId s.t + 1)).2 i
        generalize ind (maxId s.t + 1) (rp limit s.t (maxId s.t + 1)).2 i = d at h1 h3 hpos
        by_cases h0 : d = 0
        · omega
        · have := hpos (by omega)
          have := fresh i (by omega); omega
      split
      · exact wf_of_le hw (encodeStruct_le _ _ _)
      · exact hw
  | pruneSubtree c ub sp =>
    simp only [step] at hs
    split at hs
    · cases hs
    · unfold pruneSubtree at hs
      split at hs
      · cases hs
      · injection hs with hs; subst hs
        exact wf_of_le h (fun i => Nat.le_trans (finish_le _ _ _ i) (pruneUp_le _ c s.t i))
  | filterLeaves keep r ub sp =>
    simp only [step] at hs
    unfold filterLeaves at hs
    simp only at hs
    split at hs
    · cases hs
    · rename_i t1 ht
      injection hs with hs; subst hs
      exact wf_of_le h (fun i => Nat.le_trans (finish_le _ _ _ i) (loop_le _ _ _ _ _ ht i))
  | pruneNoTaxa r ub sp =>
    simp only [step] at hs
    injection hs with hs; subst hs
    exact wf_of_le h (pruneNoTaxa_le r ub sp s)
  | pruneTaxa bits ub sp =>
    simp only [step] at hs
    injection hs with hs; subst hs
    exact wf_of_le h (fun i => Nat.le_trans (pruneNoTaxa_le _ _ _ _ i) (pt_le _ s.t i))
  | retainTaxa bits ub sp =>
    simp only [step] at hs
    injection hs with hs; subst hs
    exact wf_of_le h (fun i => Nat.le_trans (pruneNoTaxa_le _ _ _ _ i) (pt_le _ s.t i))
  | ladderize asc =>
    simp only [step] at hs
    injection hs with hs; subst hs
    exact wf_of_le h (fun i => Nat.le_of_eq (sortAll_cnt _ s.t i))
  | reorder =>
    simp only [step] at hs
    injection hs with hs; subst hs
    exact wf_of_le h (fun i => Nat.le_of_eq (sortAll_cnt _ s.t i))
  | rotate mode =>
    simp only [step] at hs
    injection hs with hs; subst hs
    exact wf_of_le h (fun i => Nat.le_of_eq (rotate_cnt mode s.t i))
  | shuffleTaxa rs =>
    simp only [step] at hs
    injection hs with hs; subst hs
    exact wf_of_le h (fun i => Nat.le_of_eq (assignTaxa_cnt s.t _ i))
  | encode a b =>
    simp only [step] at hs
    injection hs with hs; subst hs
    exact wf_of_le h (encodeStruct_le a b s)
  | setSeed n =>
    simp only [step] at hs
    split at hs
    · cases hs
    · rename_i sub hf
      injection hs with hs; subst hs
      exact wf_of_le h (find_le n s.t sub hf)
  | reorient k mode =>
    simp only [step] at hs
    split at hs
    · cases hs
    · injection hs with hs; subst hs
      refine wf_of_le h (fun i => ?_)
      rw [rotate_cnt]
      split
      · exact toOutgroup_le _ _ s i
      · exact reseedAt_le _ _ _ s i

/-- **Clause (a), tree level, every history.**  For every finite sequence of operations (any length, any
targets and flags; an operation that raises its documented error leaves the state as it was) started from a tree
without shared nodes, the final tree has no shared node. -/
theorem history_wf : ∀ (ops : List Op) (s : St), WF s.t → (∀ op ∈ ops, op.SubWF) → WF (run ops s).t
  | [], s, h, _ => h
  | op :: ops, s, h, hall => by
      simp only [run]
      have hop := hall op (by simp)
      have hrest : ∀ o ∈ ops, o.SubWF := fun o ho => hall o (by simp [ho])
      split
      · rename_i s' hs
        exact history_wf ops s' (step_wf s s' op h hop hs) hrest
      · exact history_wf ops s h hrest


/-- **Clause (b) for `suppress_unifurcations`** (and for the suppression pass of `encode_bipartitions`): the
taxa on the leaves, read left to right, are exactly the same before and after — nothing is lost, nothing appears. -/
theorem suppress_keeps_leaf_taxa (t : T) : (sup t).leaves.filterMap T.taxon = t.leaves.filterMap T.taxon :=
  Aux.sup_ltx t

/-! ## heap layer: the pointer book-keeping refines the tree operations -/

/-- The heap the driver builds from a tree without shared nodes *represents* that tree: every node's parent
pointer and child list are those of the tree, the root has no parent (this is clause (a) read on pointers). -/
theorem ofTree_repr (t : T) (h : WF t) : Repr (Heap.ofTree none Heap.empty t) none t :=
  HeapAux.ofTree_repr_aux t none Heap.empty h

/-- `Node.remove_child` at pointer level, as written (`node._parent_node = None; children.remove(node)`), on a heap that
represents `t`, removing a non-root node `c` from the node `p` it names as its parent: it does not raise, and the
resulting heap represents exactly the tree-level result — all other parent pointers and child lists are untouched. -/
theorem removeChild_repr (h : Heap) (t : T) (p c : Nat) (hr : Repr h none t) (hw : WF t)
    (hc : c ∈ ids t) (hne : c ≠ t.id) (hp : h.par c = some p) :
    ∃ h', Heap.removeChild h p c = some h' ∧ Repr h' none (splice c (fun _ => []) t) ∧ h'.par c = none := by
  refine ⟨HeapAux.rmHeap h p c, ?_, ?_, ?_⟩
  · exact HeapAux.removeChild_eq h p c (HeapAux.child_listed h c p none t hr hc hne hp)
  · exact HeapAux.spliceNil_repr h p c none t hr hw hc hne hp
  · simp [HeapAux.rmHeap]

/-- frame property of the pointer-level removal: a represented subtree that mentions neither the removed node nor its
parent is still represented, unchanged (so e.g. the detached subtree's interior keeps its shape) -/
theorem removeChild_frame (h : Heap) (p c : Nat) (q : Option Nat) (u : T) (hc : c ∉ ids u) (hp : p ∉ ids u)
    (hr : Repr h q u) (hl : c ∈ h.ch p) : ∃ h', Heap.removeChild h p c = some h' ∧ Repr h' q u :=
  ⟨HeapAux.rmHeap h p c, HeapAux.removeChild_eq h p c hl, HeapAux.frame h p c q u hc hp hr⟩

/-- end to end for `remove_child`: from a well-formed tree, the pointer routine run on the tree's heap yields a heap
that represents what the tree-level model (`removeChild … false`, the function the driver runs) returns -/
theorem removeChild_refines (t t' : T) (p c : Nat) (hw : WF t) (hc : c ∈ ids t) (hne : c ≠ t.id)
    (hp : (Heap.ofTree none Heap.empty t).par c = some p) (ht : removeChild p c false t = .ok t') :
    ∃ h', Heap.removeChild (Heap.ofTree none Heap.empty t) p c = some h' ∧ Repr h' none t' ∧ WF t' ∧
      h'.par c = none := by
  have hst : t' = splice c (fun _ => []) t := by
    unfold removeChild at ht
    split at ht
    · cases ht
    · simp at ht; exact ht.symm
  obtain ⟨h', h1, h2, h3⟩ := removeChild_repr _ t p c (ofTree_repr t hw) hw hc hne hp
  refine ⟨h', h1, hst ▸ h2, ?_, h3⟩
  exact Aux.wf_of_le hw (Aux.removeChild_le p c false t t' hw ht)


/-- `Node.add_child(node)` at pointer level (`node._parent_node = self; append if absent`) with a fresh, childless
`node = k` (what `new_child` does), on a heap that represents `t`: the resulting heap represents the tree-level
`addChild` — `k` is the last child of `p`, its parent pointer is `p`, every other pointer and child list is untouched -/
theorem addChild_repr (h : Heap) (t : T) (p k : Nat) (x : Option Nat) (l : Option Frac) (hr : Repr h none t)
    (hw : WF t) (hk : k ∉ ids t) (hpk : p ≠ k) (hch : h.ch k = []) (hnot : k ∉ h.ch p) :
    Repr (Heap.addChild h p k) none (addChild p (leafNode k x l) t) := by
  have hc : (h.ch p).contains k = false := by simpa using hnot
  have hkp : k ≠ p := fun e => hpk e.symm
  unfold addChild
  apply HeapAux.attach_repr h (Heap.addChild h p k) p k (leafNode k x l) (fun cs => cs ++ [leafNode k x l])
    ⟨rfl, rfl⟩ _ _ _ _ _ none t hr hw hk
  · simp [Heap.addChild, hnot, Heap.setPar, Heap.setCh, hkp, hch]
  · intro y hy; simp [Heap.addChild, hnot, Heap.setPar, Heap.setCh, hy]
  · intro y hy _; simp [Heap.addChild, hnot, Heap.setPar, Heap.setCh, hy]
  · intro cs hcs
    have e : (Heap.addChild h p k).ch p = h.ch p ++ [k] := by simp [Heap.addChild, hnot, Heap.setPar, Heap.setCh]
    rw [e, hcs]; simp [leafNode, T.id]
  · intro hh q cs h1 h2
    exact HeapAux.reprL_append hh q cs _ h1 (by simp only [ReprL]; exact ⟨h2, trivial⟩)

/-- `Node.insert_child(index, node)` at pointer level with a fresh, childless `node = k` (what `insert_new_child`
does): the resulting heap represents the tree-level `insertChild` — `k` sits at position `index` among `p`'s children -/
theorem insertChild_repr (h : Heap) (t : T) (p idx k : Nat) (x : Option Nat) (l : Option Frac) (hr : Repr h none t)
    (hw : WF t) (hk : k ∉ ids t) (hpk : p ≠ k) (hch : h.ch k = []) (hnot : k ∉ h.ch p) :
    Repr (Heap.insertChild h p idx k) none (insertChild p idx (leafNode k x l) t) := by
  have hc : (h.ch p).idxOf? k = none := by
    rw [List.idxOf?_eq_none_iff]; exact hnot
  have hkp : k ≠ p := fun e => hpk e.symm
  unfold insertChild
  apply HeapAux.attach_repr h (Heap.insertChild h p idx k) p k (leafNode k x l) (fun cs => insertAt idx (leafNode k x l) cs)
    ⟨rfl, rfl⟩ _ _ _ _ _ none t hr hw hk
  · simp [Heap.insertChild, hc, Heap.setPar, Heap.setCh, hkp, hch]
  · intro y hy; simp [Heap.insertChild, hc, Heap.setPar, Heap.setCh, hy]
  · intro y hy _; simp [Heap.insertChild, hc, Heap.setPar, Heap.setCh, hy]
  · intro cs hcs
    have e : (Heap.insertChild h p idx k).ch p = Heap.insertAtN idx k (h.ch p) := by
      simp [Heap.insertChild, hc, Heap.setPar, Heap.setCh]
    rw [e, hcs]; simp [Heap.insertAtN, insertAt, leafNode, T.id, List.map_take, List.map_drop]
  · intro hh q cs h1 h2
    have := HeapAux.reprL_take hh q idx cs h1
    unfold insertAt
    exact HeapAux.reprL_append hh q _ _ this.1 (by simp only [ReprL]; exact ⟨h2, this.2⟩)

/-- end to end for `add_child` / `insert_child` of a new node: from a well-formed tree, the pointer routines run on the
tree's own heap (`ofTree`) yield heaps that represent what the tree-level model returns — the side conditions of
`addChild_repr` / `insertChild_repr` on the heap are consequences of `k` being new (`ofTree_fresh`) -/
theorem addChild_refines (t : T) (p idx k : Nat) (x : Option Nat) (l : Option Frac) (hw : WF t) (hk : k ∉ ids t)
    (hpk : p ≠ k) :
    Repr (Heap.addChild (Heap.ofTree none Heap.empty t) p k) none (addChild p (leafNode k x l) t) ∧
    Repr (Heap.insertChild (Heap.ofTree none Heap.empty t) p idx k) none (insertChild p idx (leafNode k x l) t) := by
  have hf := HeapAux.ofTree_fresh t hw k hk
  exact ⟨addChild_repr _ t p k x l (ofTree_repr t hw) hw hk hpk hf.1 (hf.2 p),
         insertChild_repr _ t p idx k x l (ofTree_repr t hw) hw hk hpk hf.1 (hf.2 p)⟩

/-- ((A,B),(C,D)) -/
def exTreeH : T :=
  .node 0 none none none
    [.node 1 none none none [.node 2 (some 0) none none [], .node 3 (some 1) none none []],
     .node 4 none none none [.node 5 (some 2) none none [], .node 6 (some 3) none none []]]

/-- non-vacuity of the two attachment theorems: node 7 is fresh for `exTree`, the heap built from it satisfies every
hypothesis, and the pointer routine really adds the child -/
example : 7 ∉ ids exTreeH ∧ (Heap.ofTree none Heap.empty exTreeH).ch 7 = [] ∧ 7 ∉ (Heap.ofTree none Heap.empty exTreeH).ch 4 ∧
    (Heap.addChild (Heap.ofTree none Heap.empty exTreeH) 4 7).ch 4 = [5, 6, 7] ∧
    (Heap.insertChild (Heap.ofTree none Heap.empty exTreeH) 4 1 7).ch 4 = [5, 7, 6] := by decide

/-! ## non-vacuity -/

/-- ((A,B),(C,D)) -/
def exTree : T :=
  .node 0 none none none
    [.node 1 none none none [.node 2 (some 0) none none [], .node 3 (some 1) none none []],
     .node 4 none none none [.node 5 (some 2) none none [], .node 6 (some 3) none none []]]

example : WF exTree := by unfold WF; decide
example : Repr (Heap.ofTree none Heap.empty exTree) none exTree := ofTree_repr exTree (by unfold WF; decide)
/-- the hypotheses of `removeChild_repr` are satisfiable, and the operation really changes the tree -/
example : (Heap.ofTree none Heap.empty exTree).par 4 = some 0 ∧ 4 ∈ ids exTree ∧ 4 ≠ exTree.id ∧
    (splice 4 (fun _ => []) exTree).size = 4 := by decide
/-- a history with a documented error in the middle: the erroring step leaves the state, the others act -/
example : (run [.toOutgroup 4 true, .edgeCollapse 2 false, .resolve 2 false]
    { t := exTree, rooted := some false }).t.size = 7 := by decide
example : (step { t := exTree, rooted := none } (.edgeCollapse 2 false)).toOption.isNone = true := by decide


/-! ## clause (b) in identity form: which leaves an operation keeps -/

/-- `op.Keeps t p`: the operation is used inside its documented domain on `t` and was NOT asked to remove the
taxon-bearing leaf `p = (node id, taxon)`.  `False` for the operations `step_keeps_leaves_partial` does not cover. -/
def Op.Keeps (t : T) (p : Nat × Nat) : Op → Prop
  | .suppressUnif | .collapseBasal _ | .polytomize _ | .collapseUnweighted _ _ | .encode _ _ => True
  | .ladderize _ | .reorder | .rotate _ | .pruneNoTaxa _ _ _ => True
  | .reseedAt target _ _ => Leaves.TargetInternal target t          -- "takes an internal node"
  | .rerootAtNode target _ _ _ => Leaves.TargetInternal target t
  | .pruneTaxa bits _ _ => bits.contains p.2 = false                -- its taxon is not among those to prune
  | .retainTaxa bits _ _ => bits.contains p.2 = true                -- its taxon is among those to retain
  | .filterLeaves keep _ _ _ => keep.contains p.1 = true            -- the filter accepts the node
  | _ => False

/-- **Clause (b), identity form, PARTIAL.**  For the operations listed in `Op.Keeps` (unifurcation suppression,
basal collapse / deroot, root polytomy, unweighted-edge collapse, encode/update_bipartitions, ladderize, reorder,
rotate, reseed_at / reroot_at_node on internal nodes, prune_leaves_without_taxa, prune_taxa, retain_taxa,
filter_leaf_nodes) with any flags: a taxon-bearing leaf the operation was not asked to remove is, afterwards, still
a leaf of the tree — the same node carrying the same taxon (`lc p` counts the leaves that are node `p.1` with taxon
`p.2`).  So these operations lose no leaf and change no leaf's taxon; in particular the multiset of leaf taxa can
shrink only by what was asked.
MISSING (hence `_partial`): remove_child, prune_subtree, the add/insert-child family, insert-move, parent setter,
Edge.collapse, collapse_clade, reroot_at_edge, to_outgroup_position, resolve_polytomies, randomly_reorient (all need
the uniqueness-of-ids argument threaded through `splice`/`modify`), and shuffle_taxa (needs: `drawTaxa` is a
permutation).  Those are judged by the oracle on the implementation after every step. -/
theorem step_keeps_leaves_partial (s s' : St) (op : Op) (p : Nat × Nat) (hk : op.Keeps s.t p)
    (hs : step s op = .ok s') : Leaves.lc p s.t ≤ Leaves.lc p s'.t := by
  cases op <;> simp only [Op.Keeps] at hk
  case suppressUnif =>
    simp only [step] at hs; injection hs with hs; subst hs
    simp only; rw [Leaves.sup_lc]; exact Nat.le_refl _
  case collapseBasal su =>
    simp only [step] at hs; injection hs with hs; subst hs
    exact Leaves.collapseBasalSt_lc p su s
  case polytomize su =>
    simp only [step] at hs; injection hs with hs; subst hs
    exact Leaves.polytomize_lc p _ s.t
  case collapseUnweighted thr ub =>
    simp only [step] at hs; injection hs with hs; subst hs
    split
    · exact Nat.le_trans (Leaves.cu_lc p thr s.t) (Leaves.encodeStruct_lc p true true ⟨cu thr s.t, s.rooted⟩)
    · exact Leaves.cu_lc p thr s.t
  case encode a b =>
    simp only [step] at hs; injection hs with hs; subst hs
    exact Leaves.encodeStruct_lc p a b s
  case ladderize asc =>
    simp only [step] at hs; injection hs with hs; subst hs
    simp only [ladderize]; rw [Leaves.sortAll_lc]; exact Nat.le_refl _
  case reorder =>
    simp only [step] at hs; injection hs with hs; subst hs
    simp only [reorder]; rw [Leaves.sortAll_lc]; exact Nat.le_refl _
  case rotate m =>
    simp only [step] at hs; injection hs with hs; subst hs
    simp only; rw [Leaves.rotate_lc]; exact Nat.le_refl _
  case pruneNoTaxa r ub sp =>
    simp only [step] at hs; injection hs with hs; subst hs
    exact Leaves.pruneNoTaxa_lc p r ub sp s
  case reseedAt target a b =>
    simp only [step] at hs
    split at hs
    · cases hs
    · injection hs with hs; subst hs; exact Leaves.reseedAt_lc p target a b s hk
  case rerootAtNode target ub a b =>
    simp only [step] at hs
    split at hs
    · cases hs
    · injection hs with hs; subst hs; exact Leaves.rerootAtNode_lc p target ub a b s hk
  case pruneTaxa bits ub sp =>
    simp only [step] at hs; injection hs with hs; subst hs
    unfold pruneTaxa
    exact Nat.le_trans (Leaves.pt_lc p _ (by simpa using hk) s.t) (Leaves.pruneNoTaxa_lc p true ub sp ⟨pt _ s.t, s.rooted⟩)
  case retainTaxa bits ub sp =>
    simp only [step] at hs; injection hs with hs; subst hs
    unfold pruneTaxa
    exact Nat.le_trans (Leaves.pt_lc p _ (by simp only [hk]; rfl) s.t) (Leaves.pruneNoTaxa_lc p true ub sp ⟨pt _ s.t, s.rooted⟩)
  case filterLeaves keep r ub sp =>
    simp only [step] at hs
    unfold filterLeaves at hs
    simp only at hs
    split at hs
    · cases hs
    · rename_i t1 ht
      injection hs with hs; subst hs
      refine Nat.le_trans (Leaves.loop_lc p r _ ?_ _ _ _ ht) (Leaves.finish_lc p sp ub ⟨t1, s.rooted⟩)
      intro x hx hpos
      cases x with
      | node j y l' s'' ds =>
        simp only [T.cs] at hx; subst hx
        have := (Leaves.lc_leaf_pos p j y l' s'' hpos).2
        simp only [T.id, this]; exact hk
  all_goals exact absurd hk (by simp)

/-- non-vacuity: pruning taxon 2 from ((A,B),(C,D)) keeps leaf 3 (taxon 1) — hypothesis and conclusion are both
non-trivial (`lc` is 1 before and after), and the pruned leaf 5 really goes (`lc` drops from 1 to 0) -/
example : (Op.pruneTaxa [2] false true).Keeps exTree (3, 1) := by simp [Op.Keeps]
example : Leaves.lc (3, 1) exTree = 1 ∧ Leaves.lc (5, 2) exTree = 1 ∧
    ((step { t := exTree, rooted := none } (.pruneTaxa [2] false true)).toOption.map
      (fun s' => (Leaves.lc (3, 1) s'.t, Leaves.lc (5, 2) s'.t))) = some (1, 0) := by decide
example : Leaves.TargetInternal 4 exTree ∧ ¬ Leaves.TargetInternal 5 exTree := by
  simp [Leaves.TargetInternal, Leaves.TargetInternalL, exTree]



/-! ## clause (b), identity form, for EVERY operation -/

/-- `op.KeepsAll t p`: the operation is used inside its documented domain on `t` and was NOT asked to remove the
taxon-bearing leaf `p = (node id, taxon)`, nor to turn that very leaf into an internal node by hanging something
under it.  For the 14 operations of `Op.Keeps` it is `Op.Keeps`. -/
def Op.KeepsAll (t : T) (p : Nat × Nat) : Op → Prop
  | .removeChild _ c _ => ∀ sub, T.find? c t = some sub → Leaves.lc p sub = 0     -- `p` is not in the removed subtree
  | .pruneSubtree c _ _ => ∀ sub, T.find? c t = some sub → Leaves.lc p sub = 0
  | .newChild q _ _ | .insertNewChild q _ _ _ | .addSub q _ | .insertSub q _ _ => p.1 ≠ q   -- nothing is hung under `p`
  | .setParent _ q => p.1 ≠ q
  | .insertMove _ _ _ | .edgeCollapse _ _ | .collapseClade _ | .rerootAtEdge _ _ _ _ _ | .toOutgroup _ _ => True
  | .resolve _ _ | .reorient _ _ => True
  | .setSeed n => n = t.id ∨ Leaves.lc p (splice n (fun _ => []) t) = 0          -- `p` is not in what is left behind
  | .shuffleTaxa _ => False                      -- taxa move between leaves on purpose: `shuffle_keeps_leaf_taxa`
  | op => op.Keeps t p

/-- **Clause (b), identity form, every operation.**  On a tree without shared nodes, whichever operation of the
alphabet completes (any targets, flags, lengths): a taxon-bearing leaf that the operation was not asked to remove
(and under which it was not asked to hang a child) is still a leaf of the tree afterwards — the same node carrying
the same taxon.  Nothing is lost and no leaf's taxon changes; the multiset of leaf taxa can shrink only by what
was asked.  (`shuffle_taxa`, which moves taxa between leaves on purpose, has its own theorem.) -/
theorem step_keeps_leaves (s s' : St) (op : Op) (p : Nat × Nat) (hw : WF s.t) (hk : op.KeepsAll s.t p)
    (hs : step s op = .ok s') : Leaves.lc p s.t ≤ Leaves.lc p s'.t := by
  cases op <;> simp only [Op.KeepsAll] at hk
  case removeChild q c sp =>
    simp only [step] at hs
    split at hs
    · cases hs
    · split at hs
      · rename_i t' ht
        injection hs with hs; subst hs
        exact removeChild_lc p q c sp s.t t' hw hk ht
      · cases hs
  case pruneSubtree c ub sp =>
    simp only [step] at hs
    split at hs
    · cases hs
    · unfold pruneSubtree at hs
      split at hs
      · cases hs
      · injection hs with hs; subst hs
        exact Nat.le_trans (pruneUp_lc p _ c s.t hw hk) (Leaves.finish_lc p sp ub ⟨_, s.rooted⟩)
  case newChild q x l =>
    simp only [step] at hs
    split at hs
    · cases hs
    · injection hs with hs; subst hs; exact addChild_lc p q _ s.t hk
  case insertNewChild q idx x l =>
    simp only [step] at hs
    split at hs
    · cases hs
    · injection hs with hs; subst hs; exact insertChild_lc p q idx _ s.t hk
  case addSub q sub =>
    simp only [step] at hs
    split at hs
    · cases hs
    · injection hs with hs; subst hs; exact addChild_lc p q _ s.t hk
  case insertSub q idx sub =>
    simp only [step] at hs
    split at hs
    · cases hs
    · injection hs with hs; subst hs; exact insertChild_lc p q idx _ s.t hk
  case insertMove q idx c =>
    simp only [step] at hs
    split at hs
    · cases hs
    · injection hs with hs; subst hs; exact insertMove_lc p q idx c s.t hw
  case setParent c q =>
    simp only [step] at hs
    split at hs
    · cases hs
    · rename_i sub hf
      split at hs
      · cases hs
      · rename_i hg
        injection hs with hs; subst hs
        have hne : s.t.id ≠ c := by intro e; apply hg; simp [e]
        have hqs : containsId q sub = false := by
          cases h : containsId q sub with
          | false => rfl
          | true => exfalso; apply hg; simp [h]
        have hqt : containsId q s.t = true := by
          cases h : containsId q s.t with
          | true => rfl
          | false => exfalso; apply hg; simp [h]
        simp only [setParent, hf]
        exact regraft_lc p hw hne hf hk (containsId_cnt q s.t hqt) (cnt_containsId q sub hqs) (Nat.le_refl _)
  case edgeCollapse c adj =>
    simp only [step] at hs
    split at hs
    · cases hs
    · split at hs
      · rename_i t' ht
        injection hs with hs; subst hs
        exact edgeCollapse_lc p c adj s.t t' hw ht
      · cases hs
  case collapseClade c =>
    simp only [step] at hs
    split at hs
    · cases hs
    · injection hs with hs; subst hs; exact collapseClade_lc p c s.t
  case rerootAtEdge head l1 l2 ub sp =>
    simp only [step] at hs
    split at hs
    · cases hs
    · rename_i hg
      injection hs with hs; subst hs
      have hne : s.t.id ≠ head := by intro e; apply hg; simp [e]
      exact rerootAtEdge_lc p head l1 l2 ub sp s hw hne
  case toOutgroup og sp =>
    simp only [step] at hs
    split at hs
    · cases hs
    · injection hs with hs; subst hs; exact toOutgroup_lc p og sp s hw
  case resolve limit ub =>
    simp only [step] at hs
    split at hs
    · cases hs
    · injection hs with hs; subst hs
      have h1 := (rp_lc p limit s.t (maxId s.t + 1))
      split
      · exact Nat.le_trans h1 (Leaves.encodeStruct_lc p true true ⟨_, s.rooted⟩)
      · exact h1
  case reorient k mode =>
    simp only [step] at hs
    split at hs
    · cases hs
    · rename_i n hn
      injection hs with hs; subst hs
      simp only
      rw [Leaves.rotate_lc]
      split
      · exact toOutgroup_lc p k true s hw
      · rename_i hcond
        -- the drawn node is the seed or an internal node
        have hi : s.t.id = k ∨ Leaves.TargetInternal k s.t := by
          by_cases hroot : s.t.id = k
          · exact Or.inl hroot
          · right
            have hne : n.cs ≠ [] := by
              intro e
              apply hcond
              have : (k != s.t.id) = true := by simp; omega
              simp [e, this]
            exact find_targetInternal k s.t n (wf_cnt hw k) hn hne
        unfold reseedAt
        exact Nat.le_trans (reseedCore_lc' p k true s.t hi)
          (Leaves.encodeStruct_lc p true true ⟨reseedCore k true s.t, s.rooted⟩)
  case setSeed n =>
    simp only [step] at hs
    split at hs
    · cases hs
    · rename_i sub hf
      injection hs with hs; subst hs
      rcases hk with hk | hk
      · have hroot : T.find? n s.t = some s.t := by
          cases hst : s.t with
          | node j x l s' cs => rw [hst] at hk; simp only [T.id] at hk; simp [T.find?, hk]
        rw [hroot] at hf; injection hf with hf; subst hf; exact Nat.le_refl _
      · by_cases hid : s.t.id = n
        · have hroot : T.find? n s.t = some s.t := by
            cases hst : s.t with
            | node j x l s' cs => rw [hst] at hid; simp only [T.id] at hid; simp [T.find?, hid]
          rw [hroot] at hf; injection hf with hf; subst hf; exact Nat.le_refl _
        · have := splice_exact_lc p n (fun _ => []) s.t sub hid hf (wf_cnt hw n)
          show Leaves.lc p s.t ≤ Leaves.lc p sub
          simp at this; omega
  all_goals exact step_keeps_leaves_partial s s' _ p hk hs

/-- non-vacuity: moving clade 4 under leaf… no: under node 1 (`setParent 4 1`) keeps leaf 5 a leaf with its taxon;
removing clade 4 is allowed to lose it (the hypothesis then fails) -/
example : (Op.setParent 4 1).KeepsAll exTree (5, 2) ∧ ¬ (Op.removeChild 0 4 false).KeepsAll exTree (5, 2) := by
  constructor
  · simp [Op.KeepsAll]
  · simp only [Op.KeepsAll]; intro h
    have := h (.node 4 none none none [.node 5 (some 2) none none [], .node 6 (some 3) none none []]) (by rfl)
    revert this; decide
example : ((step { t := exTree, rooted := none } (.setParent 4 1)).toOption.map
    (fun s' => Leaves.lc (5, 2) s'.t)) = some 1 := by decide

/-- **Clause (b) for `shuffle_taxa`**: whatever the random draws, the taxa on the leaves afterwards are a
permutation of the taxa on the leaves before (`drawTaxa` is a permutation and `assignTaxa` hands every drawn taxon
to exactly one taxon-bearing leaf) — the multiset of leaf taxa is kept. -/
theorem shuffle_keeps_leaf_taxa (rs : List Nat) (t : T) :
    ((shuffleTaxa rs t).leaves.filterMap T.taxon).Perm (t.leaves.filterMap T.taxon) := by
  unfold shuffleTaxa
  simp only
  have hlen : ((List.range (t.leaves.filterMap T.taxon).length).map (fun k => rs.getD k 0)).length =
      (t.leaves.filterMap T.taxon).length := by simp
  have hp := drawTaxa_perm _ _ hlen
  have hspec := assignTaxa_spec t _ (by show (tl t).length ≤ _; rw [hp.length_eq]; exact Nat.le_refl _)
  show (tl _).Perm (tl t)
  rw [hspec.1]
  have : (tl t).length = (drawTaxa ((List.range (t.leaves.filterMap T.taxon).length).map (fun k => rs.getD k 0))
      (t.leaves.filterMap T.taxon)).length := hp.length_eq.symm
  rw [this, List.take_length]; exact hp

/-- non-vacuity: a shuffle that really moves taxa -/
example : ((shuffleTaxa [0, 0, 0, 0] exTree).leaves.filterMap T.taxon) = [0, 3, 2, 1] := by decide

/-- along a history: every step that completes satisfies `KeepsAll` for `p` on the state it is applied to -/
def KeepsAllAlong (p : Nat × Nat) : List Op → St → Prop
  | [], _ => True
  | op :: ops, s => match step s op with
    | .ok s' => op.KeepsAll s.t p ∧ KeepsAllAlong p ops s'
    | .error _ => KeepsAllAlong p ops s

/-- **Clause (b), identity form, every history.**  Through any finite history over the whole alphabet (shuffle_taxa
excepted), with raising operations in between, started from a tree without shared nodes: a taxon-bearing leaf that no
step was asked to remove (or to hang a child under) is a leaf of the final tree, same node, same taxon. -/
theorem history_keeps_leaves (p : Nat × Nat) : ∀ (ops : List Op) (s : St), WF s.t → (∀ op ∈ ops, op.SubWF) →
    KeepsAllAlong p ops s → Leaves.lc p s.t ≤ Leaves.lc p (run ops s).t
  | [], s, _, _, _ => Nat.le_refl _
  | op :: ops, s, hw, hall, hk => by
      simp only [run]
      simp only [KeepsAllAlong] at hk
      have hop := hall op (by simp)
      have hrest : ∀ o ∈ ops, o.SubWF := fun o ho => hall o (by simp [ho])
      split
      · rename_i s' hs
        rw [hs] at hk
        exact Nat.le_trans (step_keeps_leaves s s' op p hw hk.1 hs)
          (history_keeps_leaves p ops s' (step_wf s s' op hw hop hs) hrest hk.2)
      · rename_i e hs
        rw [hs] at hk
        exact history_keeps_leaves p ops s hw hrest hk

example : KeepsAllAlong (3, 1) [.suppressUnif, .collapseClade 4, .pruneTaxa [2] false true, .ladderize true]
    { t := exTree, rooted := some false } := by
  simp [KeepsAllAlong, step, Op.KeepsAll, Op.Keeps, exTree, containsId, containsIdL, sup, supL]


/-- along a history: every step that completes is one that keeps `p` (judged on the state it is applied to) -/
def KeepsAlong (p : Nat × Nat) : List Op → St → Prop
  | [], _ => True
  | op :: ops, s => match step s op with
    | .ok s' => op.Keeps s.t p ∧ KeepsAlong p ops s'
    | .error _ => KeepsAlong p ops s

/-- **Clause (b), identity form, over whole histories (PARTIAL in the same sense as `step_keeps_leaves_partial`).**
Through any finite history of covered operations none of which was asked to remove the leaf `p`, with operations
that raise in between, `p` stays a leaf of the tree, same node, same taxon. -/
theorem history_keeps_leaves_partial (p : Nat × Nat) : ∀ (ops : List Op) (s : St), KeepsAlong p ops s →
    Leaves.lc p s.t ≤ Leaves.lc p (run ops s).t
  | [], s, _ => Nat.le_refl _
  | op :: ops, s, hk => by
      simp only [run]
      simp only [KeepsAlong] at hk
      split
      · rename_i s' hs
        rw [hs] at hk
        exact Nat.le_trans (step_keeps_leaves_partial s s' op p hk.1 hs) (history_keeps_leaves_partial p ops s' hk.2)
      · rename_i e hs
        rw [hs] at hk
        exact history_keeps_leaves_partial p ops s hk

example : KeepsAlong (3, 1) [.suppressUnif, .pruneTaxa [2] false true, .ladderize true]
    { t := exTree, rooted := some false } := by
  simp [KeepsAlong, step, Op.Keeps]

/-! ## the fuel of the bounded loops suffices -/

/-- `polytomize_root`: with fuel = size of the tree the recursion of `_convert_node_to_root_polytomy` has run to its
end — no further round applies to the result (so the model's bounded loop is the unbounded one) -/
theorem polytomize_fixpoint (t : T) : polyStep (polytomize t.size t) = none :=
  Aux.polytomize_fix t.size t (Nat.le_refl _)

/-- `prune_leaves_without_taxa(recursive=True)` / the pruning loops: with fuel = size of the tree the repeated leaf
removal has reached its fixpoint — another pass removes nothing -/
theorem dropLeavesFix_fixpoint (keep : T → Bool) (t : T) :
    (dropLeaves keep (dropLeavesFix keep t.size t)).size = (dropLeavesFix keep t.size t).size :=
  Aux.dropLeavesFix_fix keep t.size t (Nat.le_refl _)

/-- **No taxon appears from nowhere.**  For every operation except `shuffle_taxa` (which moves taxa on purpose), on a
tree without shared nodes: every node of the result that existed before (id ≤ `maxId`) and carries a taxon carried that
same taxon before — `pc p` counts the nodes that are node `p.1` with taxon `p.2`, at any position. -/
theorem step_no_new_node_taxon (s s' : St) (op : Op) (p : Nat × Nat) (hw : WF s.t)
    (hsh : ∀ rs, op ≠ .shuffleTaxa rs) (hs : step s op = .ok s') (hp : p.1 ≤ maxId s.t) :
    AuxP.pc p s'.t ≤ AuxP.pc p s.t := by
  have hleaf : ∀ x l, AuxP.pc p (leafNode (maxId s.t + 1) x l) = 0 := by
    intro x l
    have := AuxP.pc_le_cnt p (leafNode (maxId s.t + 1) x l)
    rw [cnt_leafNode] at this
    have hne : ¬ maxId s.t + 1 = p.1 := by omega
    simp [hne] at this; exact this
  cases op with
  | removeChild q c sp =>
    simp only [step] at hs
    split at hs
    · cases hs
    · split at hs
      · rename_i t' ht
        injection hs with hs; subst hs
        exact AuxP.removeChild_le q c sp s.t t' hw ht p
      · cases hs
  | newChild q x l =>
    simp only [step] at hs
    split at hs
    · cases hs
    · injection hs with hs; subst hs
      have := AuxP.addChild_cnt q (leafNode (maxId s.t + 1) x l) s.t p
      rw [hleaf] at this; simpa using this
  | insertNewChild q idx x l =>
    simp only [step] at hs
    split at hs
    · cases hs
    · injection hs with hs; subst hs
      have := AuxP.insertChild_cnt q idx (leafNode (maxId s.t + 1) x l) s.t p
      rw [hleaf] at this; simpa using this
  | addSub q sub =>
    simp only [step] at hs
    split at hs
    · cases hs
    · injection hs with hs; subst hs
      have := AuxP.addChild_cnt q (shiftIds (maxId s.t + 1) sub) s.t p
      rw [AuxP.pc_shift_lt _ _ _ (by omega)] at this; simpa using this
  | insertSub q idx sub =>
    simp only [step] at hs
    split at hs
    · cases hs
    · injection hs with hs; subst hs
      have := AuxP.insertChild_cnt q idx (shiftIds (maxId s.t + 1) sub) s.t p
      rw [AuxP.pc_shift_lt _ _ _ (by omega)] at this; simpa using this
  | insertMove q idx c =>
    simp only [step] at hs
    split at hs
    · cases hs
    · injection hs with hs; subst hs; exact AuxP.insertMove_le q idx c s.t p
  | setParent c q =>
    simp only [step] at hs
    split at hs
    · cases hs
    · rename_i sub hf
      split at hs
      · cases hs
      · rename_i hg
        injection hs with hs; subst hs
        have hne : s.t.id ≠ c := by intro e; apply hg; simp [e]
        simp only [setParent, hf]
        exact AuxP.regraft_pc hw hne hf p (Nat.le_refl _)
  | edgeCollapse c adj =>
    simp only [step] at hs
    split at hs
    · cases hs
    · split at hs
      · rename_i t' ht
        injection hs with hs; subst hs
        exact AuxP.edgeCollapse_le c adj s.t t' ht p
      · cases hs
  | collapseClade c =>
    simp only [step] at hs
    split at hs
    · cases hs
    · injection hs with hs; subst hs; exact AuxP.collapseClade_le c s.t p
  | reseedAt target a b =>
    simp only [step] at hs
    split at hs
    · cases hs
    · injection hs with hs; subst hs; exact AuxP.reseedAt_le target a b s p
  | rerootAtNode target ub a b =>
    simp only [step] at hs
    split at hs
    · cases hs
    · injection hs with hs; subst hs; exact AuxP.rerootAtNode_le target ub a b s p
  | rerootAtEdge head l1 l2 ub sp =>
    simp only [step] at hs
    split at hs
    · cases hs
    · rename_i hg
      injection hs with hs; subst hs
      have hne : s.t.id ≠ head := by intro e; apply hg; simp [e]
      unfold rerootAtEdge
      split
      · rename_i tail sub _ hf
        refine Nat.le_trans (AuxP.rerootAtNode_le _ ub sp true _ p) ?_
        apply AuxP.regraft_pc hw hne hf p
        simp
      · exact Nat.le_refl _
  | toOutgroup og sp =>
    simp only [step] at hs
    split at hs
    · cases hs
    · injection hs with hs; subst hs; exact AuxP.toOutgroup_le og sp s p
  | suppressUnif =>
    simp only [step] at hs
    injection hs with hs; subst hs; exact AuxP.sup_le s.t p
  | collapseBasal su =>
    simp only [step] at hs
    injection hs with hs; subst hs; exact AuxP.collapseBasalSt_le su s p
  | polytomize su =>
    simp only [step] at hs
    injection hs with hs; subst hs; exact AuxP.polytomize_le _ s.t p
  | collapseUnweighted thr ub =>
    simp only [step] at hs
    injection hs with hs; subst hs
    split
    · exact Nat.le_trans (AuxP.encodeStruct_le _ _ _ p) (AuxP.cu_le thr s.t p)
    · exact AuxP.cu_le thr s.t p
  | resolve limit ub =>
    simp only [step] at hs
    split at hs
    · cases hs
    · injection hs with hs; subst hs
      have h1 := AuxP.rp_pc limit s.t (maxId s.t + 1) p
      split
      · exact Nat.le_trans (AuxP.encodeStruct_le _ _ _ p) h1
      · exact h1
  | pruneSubtree c ub sp =>
    simp only [step] at hs
    split at hs
    · cases hs
    · unfold pruneSubtree at hs
      split at hs
      · cases hs
      · injection hs with hs; subst hs
        exact Nat.le_trans (AuxP.finish_le _ _ _ p) (AuxP.pruneUp_le _ c s.t p)
  | filterLeaves keep r ub sp =>
    simp only [step] at hs
    unfold filterLeaves at hs
    simp only at hs
    split at hs
    · cases hs
    · rename_i t1 ht
      injection hs with hs; subst hs
      exact Nat.le_trans (AuxP.finish_le _ _ _ p) (AuxP.loop_le _ _ _ _ _ ht p)
  | pruneNoTaxa r ub sp =>
    simp only [step] at hs
    injection hs with hs; subst hs; exact AuxP.pruneNoTaxa_le r ub sp s p
  | pruneTaxa bits ub sp =>
    simp only [step] at hs
    injection hs with hs; subst hs
    exact Nat.le_trans (AuxP.pruneNoTaxa_le _ _ _ _ p) (AuxP.pt_le _ s.t p)
  | retainTaxa bits ub sp =>
    simp only [step] at hs
    injection hs with hs; subst hs
    exact Nat.le_trans (AuxP.pruneNoTaxa_le _ _ _ _ p) (AuxP.pt_le _ s.t p)
  | ladderize asc =>
    simp only [step] at hs
    injection hs with hs; subst hs; exact Nat.le_of_eq (AuxP.sortAll_cnt _ s.t p)
  | reorder =>
    simp only [step] at hs
    injection hs with hs; subst hs; exact Nat.le_of_eq (AuxP.sortAll_cnt _ s.t p)
  | rotate mode =>
    simp only [step] at hs
    injection hs with hs; subst hs; exact Nat.le_of_eq (AuxP.rotate_cnt mode s.t p)
  | shuffleTaxa rs => exact absurd rfl (hsh rs)
  | encode a b =>
    simp only [step] at hs
    injection hs with hs; subst hs; exact AuxP.encodeStruct_le a b s p
  | setSeed n =>
    simp only [step] at hs
    split at hs
    · cases hs
    · rename_i sub hf
      injection hs with hs; subst hs; exact AuxP.find_le n s.t sub hf p
  | reorient k mode =>
    simp only [step] at hs
    split at hs
    · cases hs
    · injection hs with hs; subst hs
      simp only
      rw [AuxP.rotate_cnt]
      split
      · exact AuxP.toOutgroup_le _ _ s p
      · exact AuxP.reseedAt_le _ _ _ s p

/-- **Clause (b), converse direction (no GAIN), under the explicit scope "no internal node carries a taxon".**  On a tree
without shared nodes in which only leaves carry taxa, for every operation except `shuffle_taxa`: no taxon-bearing leaf
appears that was not a taxon-bearing leaf before (same node, same taxon), except on nodes the operation itself created
(`new_child` / `insert_new_child` with a taxon, re-attached subtrees: ids above `maxId`).  With `step_keeps_leaves`
(nothing lost unless asked) this is "the multiset of leaf taxa changes only by the taxa the operation was asked to
remove" — or to add.  WITHOUT the scope hypothesis the statement is false (a taxon-bearing internal node whose children
are all removed becomes a taxon-bearing leaf, in the model and in the library alike); see the report / harness note. -/
theorem step_no_new_leaf (s s' : St) (op : Op) (p : Nat × Nat) (hw : WF s.t) (hin : AuxP.InnerUntaxed s.t)
    (hsh : ∀ rs, op ≠ .shuffleTaxa rs) (hs : step s op = .ok s') :
    Leaves.lc p s'.t ≤ Leaves.lc p s.t ∨ maxId s.t < p.1 := by
  by_cases hp : p.1 ≤ maxId s.t
  · left
    exact Nat.le_trans (AuxP.lc_le_pc p s'.t)
      (Nat.le_trans (step_no_new_node_taxon s s' op p hw hsh hs hp) (AuxP.pc_le_lc p s.t hin))
  · right; omega


/-- non-vacuity: `exTree` is in scope (only leaves carry taxa) … -/
example : AuxP.InnerUntaxed exTree := by simp [AuxP.InnerUntaxed, AuxP.InnerUntaxedL, exTree]
/-- … and the scope hypothesis is what makes the theorem true: a unary seed that carries taxon 7 becomes a taxon-bearing
leaf when the tree is re-seeded at its child (the conclusion fails, the hypothesis too) -/
def exInnerTaxon : T :=
  .node 0 (some 7) none none [.node 1 none none none [.node 2 (some 1) none none [], .node 3 (some 2) none none []]]
example : ¬ AuxP.InnerUntaxed exInnerTaxon := by simp [AuxP.InnerUntaxed, exInnerTaxon]
example : Leaves.lc (0, 7) exInnerTaxon = 0 ∧
    ((step { t := exInnerTaxon, rooted := some true } (.reseedAt 1 false false)).toOption.map
      (fun s' => Leaves.lc (0, 7) s'.t)) = some 1 := by decide
/-- a gain the theorem allows: `new_child` with a taxon creates a taxon-bearing leaf on a fresh id -/
example : ((step { t := exTree, rooted := none } (.newChild 4 (some 9) none)).toOption.map
    (fun s' => (Leaves.lc (7, 9) s'.t, decide (maxId exTree < 7)))) = some (1, true) := by decide


/-- **The edge-inversion chain of `reseed_at` at pointer level.**  On the heap of any tree without shared nodes, for
any target node of the tree: the routine as written — collect the edges by walking up the parent pointers, `Edge.invert`
them from the seed downwards, clear the new seed's parent — does not fail, and the resulting pointer structure
represents exactly the tree-level result of `reseed_at` before its clean-up (`reseedCore target false`): the target is
the parentless root, every node's parent pointer and child list are those of that tree. -/
theorem reseedChain_refines (t : T) (target : Nat) (hw : WF t) (ht : target ∈ ids t) :
    ∃ h', Heap.reseedChain (Heap.ofTree none Heap.empty t) (t.size + 2) target = some h' ∧
      Repr h' none (reseedCore target false t) := by
  have hrep := ofTree_repr t hw
  generalize Heap.ofTree none Heap.empty t = h at hrep
  have hcnt : 1 ≤ cnt target t := by
    have : cnt target t ≠ 0 := by
      intro e; exact (List.count_eq_zero.mp e) ht
    omega
  -- the path exists
  cases hp : pathTo target t with
  | none => have := pathTo_none_cnt target t hp; omega
  | some π =>
    have hlen := pathTo_len target t π hp
    -- what the upward walk collects
    have hpath : Heap.reseedChain.path h (t.size + 2) target [] = π := by
      have hk : t.size + 2 = (t.size + 2 - π.length) + π.length := by omega
      rw [hk, path_up h target t none π hrep hp]
      have hroot : h.par t.id = none := by
        cases t with
        | node i x l s cs => simp only [Repr] at hrep; exact hrep.1
      rw [path_top h _ t.id _ hroot]; simp
    -- the tree-level result
    have hsome : (reseedGo target t.len [] t).isSome = true := by rw [go_isSome, hp]; rfl
    cases hgo : reseedGo target t.len [] t with
    | none => rw [hgo] at hsome; simp at hsome
    | some r =>
      have hr0 : Repr h none (t.withCs (t.cs ++ [])) := by cases t; simpa [T.withCs, T.cs] using hrep
      have hnd0 : (ids (t.withCs (t.cs ++ []))).Nodup := by
        have hw' : (ids t).Nodup := hw
        cases t; simpa [T.withCs, T.cs] using hw'
      obtain ⟨h', hc, hrr⟩ := chainB target t.len t [] h π r hr0 hnd0 hp hgo
      have hrid := reseedGo_id target t.len t [] r hgo
      have hpar : h'.par target = none := by
        cases r with
        | node i x l s cs => simp only [T.id] at hrid; subst hrid; simp only [Repr] at hrr; exact hrr.1
      have hset : Repr (h'.setPar target none) none r := by
        apply HeapAux.agree h' _ none r _ hrr
        intro y _
        by_cases e : y = target
        · subst e; simp [Heap.setPar, hpar]
        · simp [Heap.setPar, e]
      refine ⟨h'.setPar target none, ?_, ?_⟩
      · simp only [Heap.reseedChain, hpath]
        have : List.foldl (fun hh e => hh.bind fun x => x.edgeInvert e) (some h) π = some h' := hc
        rw [this]; rfl
      · -- `reseedCore target false t` is `r` (or `t` itself when the target is the seed, and then `r` is `t` up to lengths)
        unfold reseedCore
        split
        · rename_i e
          cases t with
          | node i x l s cs =>
            have hit : i = target := by simpa [T.id] using e
            subst hit
            simp only [reseedGo, beq_self_eq_true, if_true, List.append_nil] at hgo
            injection hgo with hgo; subst hgo
            simp only [Repr] at hset ⊢; exact hset
        · cases hf : T.find? target t with
          | none => have := find_none_cnt target t hf; omega
          | some n => simp [hgo]; exact hset


/-- the same for `reseed_at(…, collapse_unrooted_basal_bifurcation=False, suppress_unifurcations=False)` as a whole.
PARTIAL: with the clean-up flags switched on, `reseed_at` goes on with `collapse_basal_bifurcation` / `suppress_unifurcations`,
whose pointer-level versions (sequences of `remove_child` / `insert_child` of EXISTING nodes) are not in the heap model;
the tree-level effect of the clean-up is covered by `step_wf` / `step_keeps_leaves` and the per-step correspondence. -/
theorem reseedAt_refines_partial (s : St) (target : Nat) (hw : WF s.t) (ht : target ∈ ids s.t) :
    ∃ h', Heap.reseedChain (Heap.ofTree none Heap.empty s.t) (s.t.size + 2) target = some h' ∧
      Repr h' none (reseedAt target false false s).t := by
  have := reseedChain_refines s.t target hw ht
  simpa [reseedAt, encodeStruct] using this

/-- non-vacuity: re-seeding ((A,B),(C,D)) at leaf C — two inversions; afterwards C (5) is the parentless root with the
single child 4, which lists D (6) and then the old seed 0 -/
example : 5 ∈ ids exTree ∧ (Heap.reseedChain (Heap.ofTree none Heap.empty exTree) (exTree.size + 2) 5).map
    (fun h => (h.par 5, h.ch 5, h.par 4, h.ch 4, h.par 0, h.ch 0)) = some (none, [4], some 5, [6, 0], some 4, [1]) :=
  ⟨by decide, by rfl⟩


/-- `filter_leaf_nodes(recursive=True)`: with the fuel the model gives the loop (size of the tree + 1) it has run to its
end — another pass over the result removes nothing, i.e. every leaf left (other than the seed) is accepted by the filter -/
theorem filterLoop_fixpoint (keep : T → Bool) (t r : T) (h : filterLeaves.loop true keep (t.size + 1) t = .ok r) :
    dropLeaves keep r = r :=
  loop_fix keep (t.size + 1) t r (by omega) h

/-- `prune_subtree`'s climb over emptied ancestors: the fuel the model gives it (size of the tree) suffices — any larger
amount of fuel yields the same tree, so the bounded recursion is the unbounded `while` loop -/
theorem pruneUp_fuel_suffices (c extra : Nat) (t : T) : pruneUp (t.size + extra) c t = pruneUp t.size c t :=
  pruneUp_fuel _ _ c t (by omega) (Nat.le_refl _)


/-- non-vacuity: a filter that rejects A, B and (once it is a leaf) their parent 1 needs three passes on `exTree`; the
loop with the model's fuel reaches the fixpoint; and the climb of `prune_subtree` really climbs (removing leaf 2 of
((A)x,(C,D)) also removes the emptied x) -/
example : (filterLeaves.loop true (fun c => [0, 4, 5, 6].contains c.id) (exTree.size + 1) exTree).toOption.map T.size
    = some 4 := by decide
example : (pruneUp 5 2 (.node 0 none none none [.node 1 none none none [.node 2 (some 0) none none []],
    .node 4 none none none [.node 5 (some 2) none none [], .node 6 (some 3) none none []]])).size = 4 := by decide


/-- `Node.add_child(node)` at pointer level where `node` is the root of a DETACHED SUBTREE `w` (a subtree removed
earlier, as in `addsub`): the heap represents the tree `t` and, separately, the parentless `w`; the two share no node;
`p` is not inside `w`.  Then the resulting heap represents the tree-level `addChild p w t`: `w` hangs as the last child
of `p`, its interior untouched. -/
theorem addChild_subtree_repr (h : Heap) (t w : T) (p : Nat) (hr : Repr h none t) (hrw : Repr h none w) (hw : WF t)
    (hww : WF w) (hdis : ∀ y ∈ ids w, y ∉ ids t) (hpw : p ∉ ids w) (hnot : w.id ∉ h.ch p) :
    Repr (Heap.addChild h p w.id) none (addChild p w t) := by
  cases w with
  | node k x l s cs =>
  simp only [T.id] at hnot ⊢
  have hww' : (ids (T.node k x l s cs)).Nodup := hww
  simp only [ids, List.nodup_cons] at hww'
  simp only [ids, List.mem_cons, not_or] at hpw
  have hk : k ∉ ids t := hdis k (by simp [ids])
  have hkp : k ≠ p := fun e => hpw.1 e.symm
  have hpar : ∀ y, y ≠ k → (Heap.addChild h p k).par y = h.par y := by
    intro y hy; simp [Heap.addChild, hnot, Heap.setPar, Heap.setCh, hy]
  have hch : ∀ y, y ≠ p → (Heap.addChild h p k).ch y = h.ch y := by
    intro y hy; simp [Heap.addChild, hnot, Heap.setPar, Heap.setCh, hy]
  have hw' : Repr (Heap.addChild h p k) (some p) (.node k x l s cs) := by
    simp only [Repr] at hrw ⊢
    refine ⟨by simp [Heap.addChild, hnot, Heap.setPar, Heap.setCh], by rw [hch k hkp]; exact hrw.2.1, ?_⟩
    apply HeapAux.agreeL h _ (some k) cs _ hrw.2.2
    intro y hy
    have hyk : y ≠ k := fun e => hww'.1 (e ▸ hy)
    have hyp : y ≠ p := fun e => hpw.2 (e ▸ hy)
    exact ⟨hpar y hyk, hch y hyp⟩
  unfold addChild
  exact HeapAux.attachSub_repr h _ p k (.node k x l s cs) (fun cs' => cs' ++ [.node k x l s cs]) rfl hw'
    (fun y hy => hpar y hy) (fun y hy _ => hch y hy)
    (by intro cs' hcs
        have e : (Heap.addChild h p k).ch p = h.ch p ++ [k] := by simp [Heap.addChild, hnot, Heap.setPar, Heap.setCh]
        rw [e, hcs]; simp [T.id])
    (by intro hh q cs' h1 h2
        exact HeapAux.reprL_append hh q cs' _ h1 (by simp only [ReprL]; exact ⟨h2, trivial⟩))
    none t hr hw hk


/-- non-vacuity of `addChild_subtree_repr`: one heap holding the tree (0 (1)) and, detached, the subtree (4 (5) (6)) -/
example : let t : T := .node 0 none none none [.node 1 (some 0) none none []]
    let w : T := .node 4 none none none [.node 5 (some 2) none none [], .node 6 (some 3) none none []]
    let h := Heap.ofTree none (Heap.ofTree none Heap.empty t) w
    Repr h none t ∧ Repr h none w ∧ WF t ∧ WF w ∧ (∀ y ∈ ids w, y ∉ ids t) ∧ 1 ∉ ids w ∧ w.id ∉ h.ch 1 ∧
      (Heap.addChild h 1 w.id).ch 1 = [4] := by
  intro t w h
  have hwt : WF t := by unfold WF; decide
  have hww : WF w := by unfold WF; decide
  refine ⟨?_, HeapAux.ofTree_repr_aux w none _ hww, hwt, hww, by decide, by decide, by decide, by decide⟩
  apply HeapAux.agree (Heap.ofTree none Heap.empty t) h none t _ (ofTree_repr t hwt)
  intro y hy
  exact HeapAux.ofTree_outside w none _ y (by revert hy; revert y; decide)

end DendroModel.C03
