import DendroModel.Model.C13
import DendroModel.Theory.C13Sim
import DendroModel.Theory.C13Progress
/-! C13 — property theorems about the reading routes of `Model/C13.lean` (the very definitions `drv_c13` runs).

Only property theorems live in `namespace DendroModel.C13` of this file; helper lemmas are in `DendroModel.C13.Aux`.
The shared tree-statement parser (`newickStmt`) and the shared NEXUS statement parsers are never unfolded: every
theorem holds for whatever they compute. -/
namespace DendroModel.C13.Aux
open DendroModel.C13

/-- `h` maps what one tree-list factory builds to what another one builds from the same sequence of calls -/
structure Hom {σ τ} (S : Sink σ) (T : Sink τ) (h : σ → τ) : Prop where
  newList : ∀ a, h (S.newList a) = T.newList (h a)
  addTree : ∀ a t, h (S.addTree a t) = T.addTree (h a) t

theorem flatten_hom : Hom freshSink pseudoSink (fun bs : List (List Tree) => bs.flatten) := by
  constructor
  · intro a; simp [freshSink, pseudoSink]
  · intro a t
    simp only [freshSink, pseudoSink]
    cases hr : a.reverse with
    | nil =>
      have : a = [] := by simpa using hr
      subst this; simp
    | cons b r =>
      have ha : a = r.reverse ++ [b] := by
        have := congrArg List.reverse hr
        simpa using this
      subst ha
      simp

theorem prefix_hom (l : List Tree) : Hom pseudoSink pseudoSink (fun x => l ++ x) := by
  constructor
  · intro a; rfl
  · intro a t; simp [pseudoSink]

/-! ### NEWICK -/

theorem newickIter_hom {σ τ} (cfg : Cfg) (fl : Flags) (S : Sink σ) (T : Sink τ) (h : σ → τ) (hh : Hom S T h) :
    ∀ (n : Nat) (ts : TS) (ns : List String) (mp : Mapper) (acc : σ), ts.rest.length = n →
      newickIter cfg T ts ns mp (h acc) = (newickIter cfg S ts ns mp acc).map (fun r => (h r.1, r.2)) := by
  intro n
  induction n using Nat.strongRecOn with
  | _ n ih =>
    intro ts ns mp acc hn
    rw [newickIter.eq_def cfg T, newickIter.eq_def cfg S]
    cases hst : newickStmt cfg ts ns mp with
    | error e => simp [Except.map]
    | ok r =>
      obtain ⟨ot, ts', ns', mp'⟩ := r
      cases ot with
      | none => simp [Except.map]
      | some t =>
        simp only []
        by_cases hp : ts'.rest.length < ts.rest.length
        · simp only [hp, dite_true]
          rw [← hh.addTree]
          exact ih _ (hn ▸ hp) ts' ns' mp' _ rfl
        · simp [hp, Except.map]

theorem newickRead_hom {σ τ} (cfg : Cfg) (fl : Flags) (S : Sink σ) (T : Sink τ) (h : σ → τ) (hh : Hom S T h)
    (ts : TS) (ns : List String) (acc : σ) :
    newickRead cfg T ts ns (h acc) = (newickRead cfg S ts ns acc).map (fun r => (h r.1, r.2)) := by
  unfold newickRead
  rw [← hh.newList]
  exact newickIter_hom cfg fl S T h hh _ ts ns _ _ rfl

theorem newickYieldLoop_eq (cfg : Cfg) (fl : Flags) :
    ∀ (n : Nat) (ts : TS) (ns : List String) (mp : Mapper) (out : List Tree), ts.rest.length = n →
      newickYieldLoop cfg ts ns mp out = newickIter cfg pseudoSink ts ns mp out := by
  intro n
  induction n using Nat.strongRecOn with
  | _ n ih =>
    intro ts ns mp out hn
    rw [newickYieldLoop.eq_def, newickIter.eq_def]
    cases hst : newickStmt cfg ts ns mp with
    | error e => rfl
    | ok r =>
      obtain ⟨ot, ts', ns', mp'⟩ := r
      cases ot with
      | none => rfl
      | some t =>
        simp only []
        by_cases hp : ts'.rest.length < ts.rest.length
        · simp only [hp, dite_true]
          exact ih _ (hn ▸ hp) ts' ns' mp' _ rfl
        · simp [hp]

/-! ### NEXUS: runs of TREE statements -/

theorem treeRunR_hom {σ τ} (cfg : Cfg) (fl : Flags) (S : Sink σ) (T : Sink τ) (h : σ → τ) (hh : Hom S T h) :
    ∀ (n : Nat) (c : Doc) (mp : Mapper) (acc : σ), c.ts.rest.length = n →
      treeRunR cfg T c mp (h acc) = (treeRunR cfg S c mp acc).map (fun r => (r.1, r.2.1, h r.2.2.1, r.2.2.2)) := by
  intro n
  induction n using Nat.strongRecOn with
  | _ n ih =>
    intro c mp acc hn
    rw [treeRunR.eq_def cfg T, treeRunR.eq_def cfg S]
    cases hst : nexusTreeStmt cfg c mp with
    | error e => simp [Except.map]
    | ok r =>
      obtain ⟨t, c1, mp1⟩ := r
      simp only []
      rw [← hh.addTree]
      split
      · simp [Except.map]
      · split
        · simp [Except.map]
        · split
          · rename_i hp
            exact ih _ (hn ▸ hp) _ _ _ rfl
          · simp [Except.map]

theorem treeRunY_eq (cfg : Cfg) (fl : Flags) :
    ∀ (n : Nat) (c : Doc) (mp : Mapper) (out : List Tree), c.ts.rest.length = n →
      treeRunY cfg c mp out = treeRunR cfg pseudoSink c mp out := by
  intro n
  induction n using Nat.strongRecOn with
  | _ n ih =>
    intro c mp out hn
    rw [treeRunY.eq_def, treeRunR.eq_def]
    cases hst : nexusTreeStmt cfg c mp with
    | error e => rfl
    | ok r =>
      obtain ⟨t, c1, mp1⟩ := r
      simp only [pseudoSink]
      split
      · rfl
      · split
        · rfl
        · split
          · rename_i hp
            exact ih _ (hn ▸ hp) _ _ _ rfl
          · rfl

/-! ### NEXUS: TREES block -/

theorem treesStepR_hom {σ τ} (cfg : Cfg) (fl : Flags) (S : Sink σ) (T : Sink τ) (h : σ → τ) (hh : Hom S T h)
    (c : Core) (v : BlockVars) (acc : σ) :
    treesStepR cfg fl T c v (h acc) = (treesStepR cfg fl S c v acc).map (fun r => (r.1, r.2.1, h r.2.2)) := by
  unfold treesStepR
  simp only []
  split
  · cases parseLink c.ts.nextU with
    | error e => simp [Except.map]
    | ok r => simp [Except.map]
  · split
    · cases parseTitle c.ts.nextU with
      | error e => simp [Except.map]
      | ok r => simp [Except.map]
    · split
      · cases (if v.haveNs = true then Except.ok { c with ts := c.ts.nextU } else getNamespace fl { c with ts := c.ts.nextU } v.link) with
        | error e => simp [Except.map]
        | ok c2 =>
          simp only []
          cases parseTranslate c2 v.mapper with
          | error e => simp [Except.map]
          | ok r => simp [Except.map]
      · split
        · cases (if v.haveNs = true then Except.ok { c with ts := c.ts.nextU } else getNamespace fl { c with ts := c.ts.nextU } v.link) with
          | error e => simp [Except.map]
          | ok c2 =>
            simp only []
            have key : (if v.haveList = true then h acc else T.newList (h acc)) = h (if v.haveList = true then acc else S.newList acc) := by
              split
              · rfl
              · exact (hh.newList acc).symm
            rw [key, treeRunR_hom cfg fl S T h hh _ _ _ _ rfl]
            cases treeRunR cfg S { ts := c2.ts.clear, ns := c2.ns } (mapperOr v.mapper c2.ns)
                (if v.haveList = true then acc else S.newList acc) with
            | error e => simp [Except.map]
            | ok r => simp [Except.map]
        · split
          · simp [Except.map]
          · simp [Except.map]

theorem treesStepY_eq (cfg : Cfg) (fl : Flags) (c : Core) (v : BlockVars) (out : List Tree) :
    treesStepY cfg fl c v out = treesStepR cfg fl pseudoSink c v out := by
  unfold treesStepY treesStepR
  simp only []
  split
  · rfl
  · split
    · rfl
    · split
      · rfl
      · split
        · cases (if v.haveNs = true then Except.ok { c with ts := c.ts.nextU } else getNamespace fl { c with ts := c.ts.nextU } v.link) with
          | error e => rfl
          | ok c2 =>
            simp only []
            have key : (if v.haveList = true then out else pseudoSink.newList out) = out := by
              split <;> rfl
            rw [key, treeRunY_eq cfg fl _ _ _ _ rfl]
            generalize treeRunR cfg pseudoSink _ _ out = x
            cases x <;> rfl
        · rfl

theorem treesLoopR_hom {σ τ} (cfg : Cfg) (fl : Flags) (S : Sink σ) (T : Sink τ) (h : σ → τ) (hh : Hom S T h) :
    ∀ (n : Nat) (c : Core) (v : BlockVars) (acc : σ), c.ts.rest.length = n →
      treesLoopR cfg fl T c v (h acc) = (treesLoopR cfg fl S c v acc).map (fun r => (r.1, h r.2)) := by
  intro n
  induction n using Nat.strongRecOn with
  | _ n ih =>
    intro c v acc hn
    rw [treesLoopR.eq_def cfg fl T, treesLoopR.eq_def cfg fl S]
    split
    · simp [Except.map]
    · rw [treesStepR_hom cfg fl S T h hh]
      cases treesStepR cfg fl S c v acc with
      | error e => simp [Except.map]
      | ok r =>
        obtain ⟨c5, v5, acc5⟩ := r
        simp only [Except.map]
        split
        · rename_i hp
          exact ih _ (hn ▸ hp) _ _ _ rfl
        · split <;> simp [Except.map]

theorem treesLoopY_eq (cfg : Cfg) (fl : Flags) :
    ∀ (n : Nat) (c : Core) (v : BlockVars) (out : List Tree), c.ts.rest.length = n →
      treesLoopY cfg fl c v out = treesLoopR cfg fl pseudoSink c v out := by
  intro n
  induction n using Nat.strongRecOn with
  | _ n ih =>
    intro c v out hn
    rw [treesLoopY.eq_def, treesLoopR.eq_def]
    split
    · rfl
    · rw [treesStepY_eq]
      cases treesStepR cfg fl pseudoSink c v out with
      | error e => rfl
      | ok r =>
        obtain ⟨c5, v5, out5⟩ := r
        simp only []
        split
        · rename_i hp
          exact ih _ (hn ▸ hp) _ _ _ rfl
        · rfl

theorem treesBlockR_hom {σ τ} (cfg : Cfg) (fl : Flags) (S : Sink σ) (T : Sink τ) (h : σ → τ) (hh : Hom S T h)
    (c : Core) (acc : σ) :
    treesBlockR cfg fl T c (h acc) = (treesBlockR cfg fl S c acc).map (fun r => (r.1, h r.2)) := by
  unfold treesBlockR
  simp only []
  split
  · simp [Except.map]
  · exact treesLoopR_hom cfg fl S T h hh _ _ _ _ rfl

theorem treesBlockY_eq (cfg : Cfg) (fl : Flags) (c : Core) (out : List Tree) :
    treesBlockY cfg fl c out = treesBlockR cfg fl pseudoSink c out := by
  unfold treesBlockY treesBlockR
  simp only []
  split
  · rfl
  · exact treesLoopY_eq cfg fl _ _ _ _ rfl

/-! ### NEXUS: the block loop of the stream -/

theorem streamStepR_hom {σ τ} (cfg : Cfg) (fl : Flags) (S : Sink σ) (T : Sink τ) (h : σ → τ) (hh : Hom S T h)
    (c : Core) (acc : σ) :
    streamStepR cfg fl T c (h acc) = (streamStepR cfg fl S c acc).map (fun r => (r.1, h r.2)) := by
  unfold streamStepR
  simp only []
  split
  · cases parseTaxaBlock fl { c with ts := (seekBegin c.ts.nextU).clear.nextU } with
    | error e => simp [Except.map]
    | ok r => simp [Except.map]
  · split
    · split <;> simp [Except.map]
    · split
      · exact treesBlockR_hom cfg fl S T h hh _ _
      · split
        · split <;> simp [Except.map]
        · split <;> simp [Except.map]

theorem streamStepY_eq (cfg : Cfg) (fl : Flags) (hx : fl.excludeChars = true) (c : Core) (out : List Tree)
    (hs : isSetsKw (dispatchTok c) = false) :
    streamStepY cfg fl c out = streamStepR cfg fl pseudoSink c out := by
  unfold streamStepY streamStepR
  unfold dispatchTok at hs
  simp only [hx]
  generalize hcur : ((seekBegin c.ts.nextU).clear.nextU).cur = cur at *
  by_cases hT : cur = some "TAXA"
  · subst hT; simp
  by_cases hR : cur = some "TREES"
  · subst hR; simp; exact treesBlockY_eq cfg fl _ _
  by_cases hB : cur = some "BEGIN"
  · subst hB; simp [isSetsKw]
  · simp only [beq_iff_eq, hT, hR, hB, hs, if_false, Bool.false_eq_true]
    split <;> rfl

theorem streamLoopR_hom {σ τ} (cfg : Cfg) (fl : Flags) (S : Sink σ) (T : Sink τ) (h : σ → τ) (hh : Hom S T h) :
    ∀ (n : Nat) (c : Core) (acc : σ), c.ts.rest.length = n →
      streamLoopR cfg fl T c (h acc) = (streamLoopR cfg fl S c acc).map (fun r => (r.1, h r.2)) := by
  intro n
  induction n using Nat.strongRecOn with
  | _ n ih =>
    intro c acc hn
    rw [streamLoopR.eq_def cfg fl T, streamLoopR.eq_def cfg fl S]
    split
    · simp [Except.map]
    · rw [streamStepR_hom cfg fl S T h hh]
      cases streamStepR cfg fl S c acc with
      | error e => simp [Except.map]
      | ok r =>
        obtain ⟨c3, acc3⟩ := r
        simp only [Except.map]
        split
        · rename_i hp
          exact ih _ (hn ▸ hp) _ _ rfl
        · split <;> simp [Except.map]

theorem streamLoopY_eq (cfg : Cfg) (fl : Flags) (hx : fl.excludeChars = true) :
    ∀ (n : Nat) (c : Core) (out : List Tree), c.ts.rest.length = n → noSetsBlocks cfg fl pseudoSink c out = true →
      streamLoopY cfg fl c out = streamLoopR cfg fl pseudoSink c out := by
  intro n
  induction n using Nat.strongRecOn with
  | _ n ih =>
    intro c out hn hs
    rw [streamLoopY.eq_def, streamLoopR.eq_def]
    rw [noSetsBlocks.eq_def] at hs
    split
    · rfl
    · rename_i heof
      simp only [heof, Bool.false_eq_true, if_false] at hs
      by_cases hk : isSetsKw (dispatchTok c) = true
      · simp [hk] at hs
      · have hk' : isSetsKw (dispatchTok c) = false := by simpa using hk
        simp only [hk', Bool.false_eq_true, if_false] at hs
        rw [streamStepY_eq cfg fl hx c out hk']
        cases hst : streamStepR cfg fl pseudoSink c out with
        | error e => rfl
        | ok r =>
          obtain ⟨c3, out3⟩ := r
          simp only [hst] at hs
          simp only []
          split
          · rename_i hp
            simp only [hp, dite_true] at hs
            exact ih _ (hn ▸ hp) _ _ rfl hs
          · rfl

theorem nexusRead_hom {σ τ} (cfg : Cfg) (fl : Flags) (S : Sink σ) (T : Sink τ) (h : σ → τ) (hh : Hom S T h) (c : Core) (acc : σ) :
    nexusRead cfg fl T c (h acc) = (nexusRead cfg fl S c acc).map (fun r => (r.1, h r.2)) := by
  unfold nexusRead
  simp only []
  split
  · simp [Except.map]
  · exact streamLoopR_hom cfg fl S T h hh _ _ _ rfl

theorem readWith_hom {σ τ} (sch : Schema) (cfg : Cfg) (fl : Flags) (S : Sink σ) (T : Sink τ) (h : σ → τ) (hh : Hom S T h)
    (toks : List Tok) (tail : List String) (ns : NSObj) (acc : σ) :
    readWith sch cfg fl T toks tail ns (h acc) = (readWith sch cfg fl S toks tail ns acc).map (fun r => (h r.1, r.2)) := by
  cases sch with
  | newick =>
    simp only [readWith]
    rw [newickRead_hom cfg fl S T h hh]
    cases newickRead cfg S { rest := toks, tail := tail } ns.labels acc <;> simp [Except.map]
  | nexus =>
    simp only [readWith]
    rw [nexusRead_hom cfg fl S T h hh]
    cases nexusRead cfg fl S (coreOf toks tail ns) acc <;> simp [Except.map]

theorem dispatchTok_setReg (c : Core) (k l) : dispatchTok (setReg c k l) = dispatchTok c := rfl

/-- on a run that the non-attached reader completes, "no SETS-class block is dispatched" carries over to the attached run -/
theorem noSets_att {σ} (cfg : Cfg) (fl : Flags) (S : Sink σ) : ∀ (n : Nat) (c : Core) (acc : σ) (r),
    c.ts.rest.length = n → streamLoopR cfg fl S c acc = .ok r → noSetsBlocks cfg fl S c acc = true →
    ∀ k l, noSetsBlocks cfg (att fl) S (setReg c k l) acc = true := by
  intro n
  induction n using Nat.strongRecOn with
  | _ n ih =>
    intro c acc r hn h hs k l
    rw [streamLoopR.eq_def] at h
    rw [noSetsBlocks.eq_def] at hs ⊢
    by_cases hc : c.ts.eof = true
    · rw [if_pos (show (setReg c k l).ts.eof = true from hc)]
    · rw [if_neg hc] at h hs
      rw [if_neg (show ¬ (setReg c k l).ts.eof = true from hc), dispatchTok_setReg]
      by_cases hk : isSetsKw (dispatchTok c) = true
      · simp [hk] at hs
      · rw [if_neg hk] at hs ⊢
        cases hst : streamStepR cfg fl S c acc with
        | error e => simp [hst] at h
        | ok x =>
          obtain ⟨c3, acc3⟩ := x
          rw [streamStepR_att cfg fl S c acc _ hst k l]
          simp only [hst] at h hs
          simp only []
          by_cases hp : c3.ts.rest.length < c.ts.rest.length
          · rw [dif_pos hp] at h hs
            rw [dif_pos (show (setReg c3 k l).ts.rest.length < (setReg c k l).ts.rest.length from hp)]
            exact ih _ (hn ▸ hp) c3 acc3 r rfl h hs k l
          · rw [dif_neg (show ¬ (setReg c3 k l).ts.rest.length < (setReg c k l).ts.rest.length from hp)]

theorem pyIdx_neg {α} (l : List α) (c : Nat) (hc : c < l.length) :
    pyIdx l (-(c : Int) - 1) = l[l.length - 1 - c]? := by
  unfold pyIdx
  have n1 : ¬ (0 ≤ -(c : Int) - 1) := by omega
  have p1 : 0 ≤ (l.length : Int) + (-(c : Int) - 1) := by omega
  have e1 : ((l.length : Int) + (-(c : Int) - 1)).toNat = l.length - 1 - c := by omega
  rw [if_neg n1, if_pos p1, e1]

end DendroModel.C13.Aux

namespace DendroModel.C13
open Aux

/-! ### the separately written iterator front ends deliver what the readers deliver -/

/-- NEWICK: `NewickTreeDataYielder._yield_items_from_stream` (its own `while True` loop) yields exactly the trees that
    `NewickReader._read` puts into one list, in the same order, leaves the same namespace and fails on the same inputs —
    for every token stream, every option set, every starting namespace. -/
theorem newick_reader_eq_yielder (cfg : Cfg) (fl : Flags) (ts : TS) (ns : List String) :
    newickYield cfg ts ns = newickRead cfg pseudoSink ts ns [] := by
  unfold newickYield newickRead
  exact newickYieldLoop_eq cfg fl _ ts ns _ _ rfl

/-- NEXUS TREES block: `NexusTreeDataYielder._yield_from_trees_block` (a second copy of the block loop) yields exactly
    the trees `NexusReader._parse_trees_block` appends to its tree list, from the same state to the same state, with the
    same errors — for every token stream, TITLE/LINK/TRANSLATE layout and option set. -/
theorem trees_block_reader_eq_yielder (cfg : Cfg) (fl : Flags) (c : Core) (out : List Tree) :
    treesBlockY cfg fl c out = treesBlockR cfg fl pseudoSink c out :=
  treesBlockY_eq cfg fl c out

/-- NEXUS stream: `NexusTreeDataYielder._yield_items_from_stream` delivers exactly what `NexusReader._parse_nexus_stream`
    delivers into one list under the same settings (`exclude_chars`, as on every tree route).
    PARTIAL: (1) stated for documents on which the reader's block loop never dispatches on a SETS / ASSUMPTIONS / CODONS
    block (`noSetsBlocks`): the reader leaves such a block to be scanned for the next BEGIN, the yielder skips it
    statement by statement, and they agree only when the block is well formed; (2) both front ends run with the same
    `attached` flag, whereas `Tree.yield_from_files` attaches its namespace and `TreeList.get` does not (they differ on
    documents with several TAXA blocks).  Both residues are covered by the correspondence run on generated documents. -/
theorem reader_eq_yielder_partial (cfg : Cfg) (fl : Flags) (hx : fl.excludeChars = true) (c : Core) (out : List Tree)
    (hs : noSetsBlocks cfg fl pseudoSink { c with ts := c.ts.next } out = true) :
    nexusYield cfg fl c out = nexusRead cfg fl pseudoSink c out := by
  unfold nexusYield nexusRead
  simp only []
  split
  · rfl
  · exact streamLoopY_eq cfg fl hx _ _ _ rfl hs

/-- route level, NEWICK: what the driver's `yield` op computes (`Tree.yield_from_files`) is what its `list` op computes
    (`TreeList.get` of the whole source), for every token stream, option set and starting namespace. -/
theorem yield_eq_list_newick (cfg : Cfg) (fl : Flags) (toks : List Tok) (tail : List String) (ns : NSObj) :
    yieldFrom .newick cfg fl toks tail ns = listGet .newick cfg fl toks tail ns [] none none := by
  simp only [yieldFrom, listGet, readWith]
  rw [newick_reader_eq_yielder cfg fl]

/-- route level, NEXUS: `Tree.yield_from_files` (the driver's `yield` op) = `TreeList.get` of the whole source computed
    by the READER front end under the yielder's own settings.
    PARTIAL: the right-hand side runs with `attached := true`, whereas the driver's `list` op (the real `TreeList.get`)
    runs the reader with `attached := false`; the two differ exactly where the reader consults `nsCount`/`nsLabel`
    (several TAXA blocks, LINK to a title, the NTAX refusal of TAXLABELS) — a simulation over `Core` states that differ
    in those two fields is not proved.  Also restricted by `noSetsBlocks` as `reader_eq_yielder_partial`.
    SUPERSEDED for the driver-run statement by `yield_eq_list_nexus` below.  The right-hand side configuration is
    executed by the driver as op `list` with flags `11` and compared by the harness with the real attached route
    (`DataSet.get(taxon_namespace=, exclude_chars=True)`, flattened) on every generated NEXUS document. -/
theorem yield_eq_list_nexus_partial (cfg : Cfg) (fl : Flags) (hx : fl.excludeChars = true) (toks : List Tok) (tail : List String) (ns : NSObj)
    (hs : noSetsBlocks cfg { fl with attached := true } pseudoSink
            { (coreOf toks tail ns) with ts := (coreOf toks tail ns).ts.next } [] = true) :
    yieldFrom .nexus cfg fl toks tail ns = listGet .nexus cfg { fl with attached := true } toks tail ns [] none none := by
  simp only [yieldFrom, listGet, readWith]
  rw [reader_eq_yielder_partial cfg { fl with attached := true } hx (coreOf toks tail ns) [] hs]

/-- the reader front end with an ATTACHED namespace (`DataSet.get(taxon_namespace=…)`, the settings of the iterator) reproduces
    every successful run of the reader without one (`TreeList.get`, `Tree.get`, plain `DataSet.get`): same product of the
    tree-list factory — one list, or the collections — and a namespace with the same labels; for every factory, token
    stream, option set and starting namespace, with NO restriction on SETS-class blocks (both sides are the reader).
    Both sides are driver-run: ops `list` / `blocks` with flags `10` resp. `11`, the latter compared by the harness with
    the real attached route.  One direction only: the attached run also reads what the other refuses (several TAXA
    blocks, a LINK to an unknown title, more TAXLABELS than NTAX — see `taxlabels_limit_refuses`, `link_unknown_refused`). -/
theorem attached_reader_simulates {σ} (cfg : Cfg) (fl : Flags) (S : Sink σ) (toks : List Tok) (tail : List String)
    (ns ns' : NSObj) (acc r : σ)
    (h : readWith .nexus cfg fl S toks tail ns acc = .ok (r, ns')) :
    ∃ ns'', readWith .nexus cfg (att fl) S toks tail ns acc = .ok (r, ns'') ∧ ns''.labels = ns'.labels := by
  simp only [readWith] at h ⊢
  cases hr : nexusRead cfg fl S (coreOf toks tail ns) acc with
  | error e => simp [hr, Except.map] at h
  | ok x =>
    simp only [hr, Except.map] at h
    cases h
    have hA := nexusRead_att cfg fl S (coreOf toks tail ns) acc x hr
      (coreOf toks tail ns).nsCount (coreOf toks tail ns).nsLabel
    have e0 : setReg (coreOf toks tail ns) (coreOf toks tail ns).nsCount (coreOf toks tail ns).nsLabel = coreOf toks tail ns := rfl
    rw [e0] at hA
    rw [hA]
    exact ⟨_, rfl, rfl⟩

/-- route level, NEXUS, both sides as the driver runs them: whenever `TreeList.get` (the `list` op: reader front end,
    namespace NOT attached) reads the whole source, `Tree.yield_from_files` (the `yield` op: the separately written
    iterator front end, namespace attached) delivers exactly the same trees in the same order, attached to the same
    taxa of a namespace with the same labels.  For every option set and starting namespace, and every token stream
    satisfying `hs` below.  One direction and success only: nothing is claimed when the list route fails.
    (The converse fails by design and is a listed known finding: a file with several TAXA blocks is refused by the
    list route and read by the iterator.  The namespace *title* may differ: only the list route records it.)
    Hypothesis `hs : noSetsBlocks …` (an executable predicate of the model, driver op `nosets`; the harness evaluates it
    on every generated NEXUS document and reports the share in the evidence, about 80 %): the block loop of the `list`
    run meets no SETS / ASSUMPTIONS / CODONS block.  It EXCLUDES well-formed documents with such a block on which both
    routes do agree (e.g. `… BEGIN SETS; taxset x = 1; END; BEGIN TREES; …`): there the reader scans the block for the
    next BEGIN while the iterator skips it statement by statement, the intermediate tokenizer states differ (captured
    comments, end-of-input flag) and only a result-level stuttering simulation would relate them — not proved; those
    documents are covered by the correspondence only. -/
theorem yield_eq_list_nexus (cfg : Cfg) (fl : Flags) (hx : fl.excludeChars = true)
    (toks : List Tok) (tail : List String) (ns ns' : NSObj) (trees : List Tree)
    (hlist : listGet .nexus cfg fl toks tail ns [] none none = .ok (trees, ns'))
    (hs : noSetsBlocks cfg fl pseudoSink { (coreOf toks tail ns) with ts := (coreOf toks tail ns).ts.next } [] = true) :
    ∃ ns'', yieldFrom .nexus cfg fl toks tail ns = .ok (trees, ns'') ∧ ns''.labels = ns'.labels := by
  simp only [listGet, readWith] at hlist
  cases hr : nexusRead cfg fl pseudoSink (coreOf toks tail ns) [] with
  | error e => simp [hr, Except.map] at hlist
  | ok r =>
    simp only [hr, Except.map] at hlist
    cases hlist
    -- the attached run from the same state (registry unchanged)
    have hA := nexusRead_att cfg fl pseudoSink (coreOf toks tail ns) [] r hr
      (coreOf toks tail ns).nsCount (coreOf toks tail ns).nsLabel
    have e0 : setReg (coreOf toks tail ns) (coreOf toks tail ns).nsCount (coreOf toks tail ns).nsLabel = coreOf toks tail ns := rfl
    rw [e0] at hA
    -- the stream loop of the non-attached run succeeded: transfer `noSetsBlocks`
    have hloop : streamLoopR cfg fl pseudoSink { (coreOf toks tail ns) with ts := (coreOf toks tail ns).ts.next } [] = .ok r := by
      unfold nexusRead at hr
      by_cases hc : ((coreOf toks tail ns).ts.next.cur.map String.toUpper != some "#NEXUS") = true
      · simp only [hc, if_true] at hr; cases hr
      · have hc' := eq_false_of_ne_true hc
        simp only [hc', Bool.false_eq_true, ↓reduceIte] at hr
        exact hr
    have hsA := noSets_att cfg fl pseudoSink _ _ _ r rfl hloop hs
      (coreOf toks tail ns).nsCount (coreOf toks tail ns).nsLabel
    have hY := reader_eq_yielder_partial cfg (att fl) hx (coreOf toks tail ns) [] hsA
    refine ⟨{ labels := r.1.ns, title := (coreOf toks tail ns).nsLabel }, ?_, rfl⟩
    show (nexusYield cfg (att fl) (coreOf toks tail ns) []).map _ = _
    rw [hY, hA]
    rfl

/-! ### one list, the collections, a data set -/

/-- `TreeList.get` of the whole source = the collections of the source (one fresh list per TREES block, as `Tree.get`
    and the offset routes see them) concatenated in order; same namespace, same errors. -/
theorem whole_eq_flatten (sch : Schema) (cfg : Cfg) (fl : Flags) (toks : List Tok) (tail : List String) (ns : NSObj) :
    listGet sch cfg fl toks tail ns [] none none
      = (readBlocks sch cfg fl toks tail ns).map (fun r => (r.1.flatten, r.2)) := by
  simp only [listGet, readBlocks]
  exact readWith_hom sch cfg fl freshSink pseudoSink _ flatten_hom toks tail ns []

/-- incremental `TreeList.read` into a list that already holds `existing` = `existing` followed by exactly what a read
    into an empty list delivers from the same namespace state (the existing trees are untouched, nothing is lost or
    reordered), for every source and option set. -/
theorem incremental_eq_whole (sch : Schema) (cfg : Cfg) (fl : Flags) (toks : List Tok) (tail : List String) (ns : NSObj)
    (existing : List Tree) :
    listGet sch cfg fl toks tail ns existing none none
      = (listGet sch cfg fl toks tail ns [] none none).map (fun r => (existing ++ r.1, r.2)) := by
  simp only [listGet]
  have := readWith_hom sch cfg fl pseudoSink pseudoSink _ (prefix_hom existing) toks tail ns []
  simpa using this

/-- one `tl.read(collection_offset=c)` into a list holding `existing` appends exactly collection `c` of the source as
    read from the SAME namespace state `ns`.  (Not claimed: a sequence of such calls, each of which starts from the
    namespace the previous one left, `ns'`; that needs `readBlocks … ns'` to deliver the same collections, which is a
    statement about the shared statement parser and is covered by the oracle's per-collection route only.) -/
theorem incremental_collection (sch : Schema) (cfg : Cfg) (fl : Flags) (toks : List Tok) (tail : List String) (ns ns' : NSObj)
    (existing : List Tree) (bs : List (List Tree)) (c : Nat) (b : List Tree)
    (hread : readBlocks sch cfg fl toks tail ns = .ok (bs, ns')) (hb : bs[c]? = some b) :
    listGet sch cfg fl toks tail ns existing (some (c : Int)) none = .ok (existing ++ b, ns') := by
  have hlt : c < bs.length := by
    rcases Nat.lt_or_ge c bs.length with h | h
    · exact h
    · simp [List.getElem?_eq_none h] at hb
  have h1 : ¬ ((c : Int) ≥ (bs.length : Int)) := by omega
  simp [listGet, hread, h1, pyIdx, hb]

/-- `DataSet.get`: the tree lists of the data set, concatenated, are the trees of `TreeList.get`.
    PARTIAL: stated with the same `exclude_chars` on both sides (an instance of `whole_eq_flatten`); the real data-set
    route parses CHARACTERS/DATA/SETS blocks (here a statement skeleton, not the C09 matrix parser) where the tree-list
    route skips them, and NO theorem relates the two settings.  The right-hand side is executed by the driver as op
    `list` with flags `00` and compared with `DataSet.get(...)` flattened; the clause "data set = tree list" at the real,
    differing settings is checked by oracle and correspondence only. -/
theorem dataset_eq_lists_partial (sch : Schema) (cfg : Cfg) (fl : Flags) (toks : List Tok) (tail : List String) (ns : NSObj) :
    (datasetRead sch cfg fl toks tail ns []).map (fun r => (r.1.flatten, r.2))
      = listGet sch cfg { fl with excludeChars := false } toks tail ns [] none none := by
  rw [whole_eq_flatten]
  rfl

/-! ### progress of the shared tree-statement parser: the loops over it need no run-time progress check -/

/-- `NewickReader._parse_tree_statement` consumes at least one token whenever it delivers a tree — for every token stream,
    option set, namespace and mapper (induction through `_parse_tree_node_description`: child loop, comma loop, label /
    length loop).  This is the fact the `while True` loops of `NewickReader.tree_iter` and of the Newick yielder rely on. -/
theorem newickStmt_progress (cfg : Cfg) (ts : TS) (ns : List String) (mp : Mapper) (t : Tree) (ts' : TS) (ns' : List String)
    (mp' : Mapper) (h : newickStmt cfg ts ns mp = .ok (some t, ts', ns', mp')) : ts'.rest.length < ts.rest.length :=
  newickStmt_lt cfg ts ns mp t ts' ns' mp' h

/-- the same for a NEXUS `TREE name = …;` statement -/
theorem nexusTreeStmt_progress (cfg : Cfg) (d : Doc) (mp : Mapper) (t : Tree) (d1 : Doc) (mp1 : Mapper)
    (h : nexusTreeStmt cfg d mp = .ok (t, d1, mp1)) : d1.ts.rest.length < d.ts.rest.length :=
  nexusTreeStmt_lt cfg d mp t d1 mp1 h

/-- hence the run-time progress check of the reader's Newick loop is dead code: the loop satisfies the plain unfolding of
    the Python `while True`, and `Err.stuck` is never produced by this loop itself -/
theorem newickIter_check_dead {σ} (cfg : Cfg) (S : Sink σ) (ts : TS) (ns : List String) (mp : Mapper) (acc : σ) :
    newickIter cfg S ts ns mp acc =
      match newickStmt cfg ts ns mp with
      | .error e => .error e
      | .ok (none, _, ns', _) => .ok (acc, ns')
      | .ok (some t, ts', ns', mp') => newickIter cfg S ts' ns' mp' (S.addTree acc t) := by
  rw [newickIter.eq_def]
  cases hst : newickStmt cfg ts ns mp with
  | error e => rfl
  | ok r =>
    obtain ⟨ot, ts', ns', mp'⟩ := r
    cases ot with
    | none => rfl
    | some t => simp only [dif_pos (newickStmt_lt cfg ts ns mp t ts' ns' mp' hst)]

/-- the same for the Newick yielder's own loop -/
theorem newickYieldLoop_check_dead (cfg : Cfg) (ts : TS) (ns : List String) (mp : Mapper) (out : List Tree) :
    newickYieldLoop cfg ts ns mp out =
      match newickStmt cfg ts ns mp with
      | .error e => .error e
      | .ok (none, _, ns', _) => .ok (out, ns')
      | .ok (some t, ts', ns', mp') => newickYieldLoop cfg ts' ns' mp' (out ++ [t]) := by
  rw [newickYieldLoop.eq_def]
  cases hst : newickStmt cfg ts ns mp with
  | error e => rfl
  | ok r =>
    obtain ⟨ot, ts', ns', mp'⟩ := r
    cases ot with
    | none => rfl
    | some t => simp only [dif_pos (newickStmt_lt cfg ts ns mp t ts' ns' mp' hst)]

/-- and for the runs of consecutive TREE statements of the NEXUS reader … -/
theorem treeRunR_check_dead {σ} (cfg : Cfg) (S : Sink σ) (d : Doc) (mp : Mapper) (acc : σ) :
    treeRunR cfg S d mp acc =
      match nexusTreeStmt cfg d mp with
      | .error e => .error e
      | .ok (t, d1, mp1) =>
        if d1.ts.eof || d1.ts.cur == none || d1.ts.cur == some "" then .ok (d1, mp1, S.addTree acc t, some "TREE")
        else if ({ d1 with ts := d1.ts.castU } : Doc).ts.cur != some "TREE" then
          .ok ({ d1 with ts := d1.ts.castU }, mp1, S.addTree acc t, ({ d1 with ts := d1.ts.castU } : Doc).ts.cur)
        else treeRunR cfg S { d1 with ts := d1.ts.castU } mp1 (S.addTree acc t) := by
  rw [treeRunR.eq_def]
  cases hst : nexusTreeStmt cfg d mp with
  | error e => rfl
  | ok r =>
    obtain ⟨t, d1, mp1⟩ := r
    have hp : ({ d1 with ts := d1.ts.castU } : Doc).ts.rest.length < d.ts.rest.length := nexusTreeStmt_lt cfg d mp t d1 mp1 hst
    simp only [dif_pos hp]

/-- … and of the NEXUS yielder -/
theorem treeRunY_check_dead (cfg : Cfg) (d : Doc) (mp : Mapper) (out : List Tree) :
    treeRunY cfg d mp out =
      match nexusTreeStmt cfg d mp with
      | .error e => .error e
      | .ok (t, d1, mp1) =>
        if d1.ts.eof || d1.ts.cur == none || d1.ts.cur == some "" then .ok (d1, mp1, out ++ [t], some "TREE")
        else if ({ d1 with ts := d1.ts.castU } : Doc).ts.cur != some "TREE" then
          .ok ({ d1 with ts := d1.ts.castU }, mp1, out ++ [t], ({ d1 with ts := d1.ts.castU } : Doc).ts.cur)
        else treeRunY cfg { d1 with ts := d1.ts.castU } mp1 (out ++ [t]) := by
  rw [treeRunY.eq_def]
  cases hst : nexusTreeStmt cfg d mp with
  | error e => rfl
  | ok r =>
    obtain ⟨t, d1, mp1⟩ := r
    have hp : ({ d1 with ts := d1.ts.castU } : Doc).ts.rest.length < d.ts.rest.length := nexusTreeStmt_lt cfg d mp t d1 mp1 hst
    simp only [dif_pos hp]

/-! ### offsets -/

/-- `Tree.get(collection_offset=c, tree_offset=k)` with in-range non-negative offsets delivers exactly tree `k` of
    collection `c` of the source — name included when no `label=` is passed (the repaired behaviour). -/
theorem offset_spec (sch : Schema) (cfg : Cfg) (fl : Flags) (toks : List Tok) (tail : List String) (ns ns' : NSObj)
    (bs : List (List Tree)) (c k : Nat) (b : List Tree) (t : Tree)
    (hread : readBlocks sch cfg fl toks tail ns = .ok (bs, ns'))
    (hb : bs[c]? = some b) (ht : b[k]? = some t) :
    treeGet sch cfg fl toks tail ns (some (c : Int)) (some (k : Int)) none = .ok (t, ns') := by
  have hbs : bs.isEmpty = false := by cases bs <;> simp_all
  have hbe : b.isEmpty = false := by cases b <;> simp_all
  simp [treeGet, hread, hbs, pyIdx, hb, hbe, ht]

/-- negative offsets count from the end, as Python list indices do -/
theorem offset_neg_spec (sch : Schema) (cfg : Cfg) (fl : Flags) (toks : List Tok) (tail : List String) (ns ns' : NSObj)
    (bs : List (List Tree)) (c k : Nat) (b : List Tree) (t : Tree)
    (hread : readBlocks sch cfg fl toks tail ns = .ok (bs, ns'))
    (hc : c < bs.length) (hb : bs[bs.length - 1 - c]? = some b)
    (hk : k < b.length) (ht : b[b.length - 1 - k]? = some t) :
    treeGet sch cfg fl toks tail ns (some (-(c : Int) - 1)) (some (-(k : Int) - 1)) none = .ok (t, ns') := by
  have hbs : bs.isEmpty = false := by cases bs <;> simp_all
  have hbe : b.isEmpty = false := by cases b <;> simp_all
  unfold treeGet
  rw [hread]
  simp only [hbs, Option.getD_some, Bool.false_eq_true, if_false]
  rw [pyIdx_neg bs c hc, hb]
  simp only [hbe, Bool.false_eq_true, if_false]
  rw [pyIdx_neg b k hk, ht]

/-- without offsets `Tree.get` delivers the first tree of the first collection -/
theorem offset_default (sch : Schema) (cfg : Cfg) (fl : Flags) (toks : List Tok) (tail : List String) (ns : NSObj) (label : Option String) :
    treeGet sch cfg fl toks tail ns none none label = treeGet sch cfg fl toks tail ns (some 0) (some 0) label := by
  simp [treeGet]

/-- `label=` renames the delivered tree and changes nothing else; without it the source's name is kept -/
theorem tree_get_label (sch : Schema) (cfg : Cfg) (fl : Flags) (toks : List Tok) (tail : List String) (ns : NSObj)
    (coll tree : Option Int) (l : String) :
    treeGet sch cfg fl toks tail ns coll tree (some l)
      = (treeGet sch cfg fl toks tail ns coll tree none).map (fun r => ({ r.1 with name := some l }, r.2)) := by
  unfold treeGet
  cases readBlocks sch cfg fl toks tail ns with
  | error e => simp [Except.map]
  | ok r =>
    obtain ⟨bs, ns'⟩ := r
    simp only []
    split
    · simp [Except.map]
    · cases pyIdx bs (coll.getD 0) with
      | none => simp [Except.map]
      | some b =>
        simp only []
        split
        · simp [Except.map]
        · cases pyIdx b (tree.getD 0) <;> simp [Except.map]

/-- `TreeList.get(collection_offset=c, tree_offset=k)` delivers the trees `k, k+1, …` of collection `c`, appended to what
    the list already holds -/
theorem offset_list_spec (sch : Schema) (cfg : Cfg) (fl : Flags) (toks : List Tok) (tail : List String) (ns ns' : NSObj)
    (existing : List Tree) (bs : List (List Tree)) (c k : Nat) (b : List Tree)
    (hread : readBlocks sch cfg fl toks tail ns = .ok (bs, ns'))
    (hb : bs[c]? = some b) (hk : k < b.length) :
    listGet sch cfg fl toks tail ns existing (some (c : Int)) (some (k : Int)) = .ok (existing ++ b.drop k, ns') := by
  have hlt : c < bs.length := by
    rcases Nat.lt_or_ge c bs.length with h | h
    · exact h
    · simp [List.getElem?_eq_none h] at hb
  have h1 : ¬ ((c : Int) ≥ (bs.length : Int)) := by omega
  have h2 : ¬ ((k : Int) ≥ (b.length : Int)) := by omega
  simp [listGet, hread, h1, h2, pyIdx, pySuffix, hb]

/-- a `tree_offset` without `collection_offset` addresses the first collection -/
theorem offset_list_default (sch : Schema) (cfg : Cfg) (fl : Flags) (toks : List Tok) (tail : List String) (ns : NSObj)
    (existing : List Tree) (k : Int) :
    listGet sch cfg fl toks tail ns existing none (some k) = listGet sch cfg fl toks tail ns existing (some 0) (some k) := by
  simp [listGet]

/-- the offset routes together, all started from one namespace state `ns`: every tree of every collection is reachable
    through `Tree.get`, and walking the offsets in order enumerates exactly the trees of `TreeList.get` in order -/
theorem offsets_enumerate_whole (sch : Schema) (cfg : Cfg) (fl : Flags) (toks : List Tok) (tail : List String) (ns ns' : NSObj)
    (bs : List (List Tree)) (hread : readBlocks sch cfg fl toks tail ns = .ok (bs, ns')) :
    listGet sch cfg fl toks tail ns [] none none = .ok (bs.flatten, ns') ∧
    ∀ (c k : Nat) (b : List Tree) (t : Tree), bs[c]? = some b → b[k]? = some t →
      treeGet sch cfg fl toks tail ns (some (c : Int)) (some (k : Int)) none = .ok (t, ns') := by
  constructor
  · rw [whole_eq_flatten, hread]; rfl
  · intro c k b t hb ht
    exact offset_spec sch cfg fl toks tail ns ns' bs c k b t hread hb ht

/-! ### non-vacuity: the hypotheses are satisfiable on concrete documents (all arguments explicit: nothing is left
to unification, each declaration elaborates in well under a second) -/
namespace Aux

def tk (s : String) (e : Bool := false) : Tok := { text := s, quoted := false, coms := [], eof := e }

/-- the Newick document `a;` -/
def docA : List Tok := [tk "a", tk ";" true]
def treeA : Tree := { name := none, rooted := none, weight := none, coms := [], root := .mk (some 0) none none [] [] }
def nsA : NSObj := { labels := ["a"], title := none }

set_option maxRecDepth 4000 in
theorem docA_reads : readBlocks .newick {} {} docA [] {} = .ok ([[treeA]], nsA) := by
  simp [readBlocks, readWith, newickRead, docA, tk, freshSink, Mapper.new, enumFrom, newickIter.eq_def, newickStmt,
    skipLeadingSemis.eq_def, TS.req, TS.step, TS.clear, TS.isP, processTreeComments, rootingState, parseNode.eq_def,
    tailLoop.eq_def, suppressTaxon, Mapper.require, lookupCI, TS.next, skipTrailingSemis.eq_def, Except.map, treeA, nsA]

/-- the NEXUS document `#NEXUS` (no blocks); a document with a TREES block follows below (`docT`) -/
def docN : List Tok := [tk "#NEXUS" true]

theorem docN_noSets :
    noSetsBlocks {} {} pseudoSink { (coreOf docN [] {}) with ts := (coreOf docN [] {}).ts.next } [] = true := by
  rw [noSetsBlocks.eq_def]
  simp [coreOf, docN, tk, TS.next, TS.step]

/-! keyword comparisons go through `String.toUpper`, which `decide`/`simp` do not evaluate; the kernel does -/
theorem up1 : "#NEXUS".toUpper = "#NEXUS" := by with_unfolding_all rfl
theorem up2 : "BEGIN".toUpper = "BEGIN" := by with_unfolding_all rfl
theorem up3 : "TREES".toUpper = "TREES" := by with_unfolding_all rfl
theorem up4 : ";".toUpper = ";" := by with_unfolding_all rfl
theorem up5 : "END".toUpper = "END" := by with_unfolding_all rfl
theorem up6 : "TREE".toUpper = "TREE" := by with_unfolding_all rfl

/-- the NEXUS document `#NEXUS BEGIN TREES; TREE t = a; END;` -/
def docT : List Tok :=
  [tk "#NEXUS", tk "BEGIN", tk "TREES", tk ";", tk "TREE", tk "t", tk "=", tk "a", tk ";", tk "END", tk ";" true]

set_option maxRecDepth 8000 in
/-- the `list` op reads it: one tree -/
theorem docT_list : ∃ r, listGet .nexus {} {} docT [] {} [] none none = .ok r ∧ r.1.length = 1 := by
  simp [listGet, readWith, nexusRead, coreOf, docT, tk, TS.next, TS.nextU, TS.step, TS.clear, TS.castU, TS.isP, seekBegin.eq_def,
    streamLoopR.eq_def, streamStepR, treesBlockR, skipSemi.eq_def, treesLoopR.eq_def, treesStepR, getNamespace, newNamespace,
    treeRunR.eq_def, nexusTreeStmt, pseudoSink, mapperOr, Mapper.new, enumFrom, newickStmt, skipLeadingSemis.eq_def, TS.req,
    processTreeComments, rootingState, parseNode.eq_def, tailLoop.eq_def, suppressTaxon, Mapper.require, lookupCI, lookupEx,
    skipTrailingSemis.eq_def, Except.map, Core.withDoc, up1, up2, up3, up5, up6]

set_option maxRecDepth 8000 in
/-- and its block loop meets no SETS-class block -/
theorem docT_noSets :
    noSetsBlocks {} {} pseudoSink { (coreOf docT [] {}) with ts := (coreOf docT [] {}).ts.next } [] = true := by
  simp [noSetsBlocks.eq_def, dispatchTok, isSetsKw, coreOf, docT, tk, TS.next, TS.nextU, TS.step, TS.clear, TS.castU, TS.isP,
    seekBegin.eq_def, streamStepR, treesBlockR, skipSemi.eq_def, treesLoopR.eq_def, treesStepR, getNamespace, newNamespace,
    treeRunR.eq_def, nexusTreeStmt, pseudoSink, mapperOr, Mapper.new, enumFrom, newickStmt, skipLeadingSemis.eq_def, TS.req,
    processTreeComments, rootingState, parseNode.eq_def, tailLoop.eq_def, suppressTaxon, Mapper.require, lookupCI, lookupEx,
    skipTrailingSemis.eq_def, Except.map, Core.withDoc, up1, up2, up3, up5, up6]

/-! #### the simulation lemmas of `Theory/C13Sim.lean` at the level below the whole-document parser (evaluating a whole
TAXA + LINK + TRANSLATE document by `simp` does not finish in reasonable time; these instantiate the branches `docT` does not
reach: the NTAX limit of TAXLABELS, which only the non-attached run applies, and LINK resolution through the registry) -/
theorem la : "a".toLower = "a" := by with_unfolding_all rfl
theorem lb : "b".toLower = "b" := by with_unfolding_all rfl
theorem ux : "x".toUpper = "X" := by with_unfolding_all rfl
theorem uX : "X".toUpper = "X" := by with_unfolding_all rfl
theorem uTitle : "TITLE".toUpper = "TITLE" := by with_unfolding_all rfl

/-- the tokens `a b ;` of a TAXLABELS statement, positioned on `a` -/
def tsLabels : TS := { rest := [tk "b", tk ";"], tail := [], cur := some "a" }

/-- without an attached namespace the NTAX limit refuses the second label of `TAXLABELS a b` under NTAX=1 … -/
theorem taxlabels_limit_refuses : taxlabelsLoop false tsLabels [] (some 1) = .error .parse := by
  simp [taxlabelsLoop.eq_def, tsLabels, tk, nsFind, nsFind.go, TS.next, TS.step, TS.clear, la, lb]

/-- … whereas the attached run accepts it: the flag matters exactly here, and the simulation only goes one way -/
theorem taxlabels_limit_attached : ∃ ts', taxlabelsLoop true tsLabels [] (some 1) = .ok (["a", "b"], ts') := by
  simp [taxlabelsLoop.eq_def, tsLabels, tk, nsFind, nsFind.go, TS.next, TS.step, TS.clear, la, lb]

/-- with NTAX=2 the non-attached run reads both labels: `taxlabels_att` applies to a real success -/
theorem taxlabels_ok : ∃ ts', taxlabelsLoop false tsLabels [] (some 2) = .ok (["a", "b"], ts') := by
  simp [taxlabelsLoop.eq_def, tsLabels, tk, nsFind, nsFind.go, TS.next, TS.step, TS.clear, la, lb]

/-- a state with one registered namespace titled `x` (what `TAXA; TITLE x; …` leaves behind) -/
def coreLinked : Core := { ts := { rest := [], tail := [] }, ns := ["a"], nsCount := 1, nsLabel := some "x" }

/-- `LINK TAXA = X` resolves against it (case-insensitively) on the non-attached run … -/
theorem link_resolves : getNamespace {} coreLinked (some "X") = .ok coreLinked := by
  simp [getNamespace, nsFound, coreLinked, ux, uX]

/-- … and a LINK to an unknown title is refused there, but not on the attached run -/
theorem link_unknown_refused : getNamespace {} coreLinked (some "a") = .error .parse ∧
    getNamespace (att {}) coreLinked (some "a") = .ok coreLinked := by
  constructor
  · simp [getNamespace, nsFound, coreLinked, ux, show "a".toUpper = "A" from by with_unfolding_all rfl]
  · exact getNamespace_att {} _ _

/-- the TITLE branch of the TAXA loop registers a namespace on the non-attached run only -/
theorem taxaTitle_registers :
    ∃ c', taxaTitle {} { ts := { rest := [tk "TITLE", tk "x", tk ";"], tail := [] }, ns := [] } false = .ok (c', true, some "x") ∧
      c'.nsCount = 1 ∧ c'.nsLabel = some "x" := by
  simp [taxaTitle, parseTitle, newNamespace, tk, TS.nextU, TS.castU, TS.req, TS.step, uTitle]

end Aux

example : ∃ ts', taxlabelsLoop true tsLabels [] (some 2) = .ok (["a", "b"], ts') := by
  obtain ⟨ts', h⟩ := taxlabels_ok
  exact ⟨ts', taxlabels_att false _ tsLabels [] (some 2) _ rfl h⟩

example : ∀ k l, getNamespace (att {}) (setReg coreLinked k l) (some "X") = .ok (setReg coreLinked k l) ∧
    setReg coreLinked k l = setReg coreLinked k l :=
  fun k l => ⟨getNamespace_att {} _ _, getNamespace_setReg {} coreLinked coreLinked (some "X") link_resolves k l⟩

example : ∃ c', taxaTitle (att {}) (setReg { ts := { rest := [tk "TITLE", tk "x", tk ";"], tail := [] }, ns := [] } 7 none) false
    = .ok (setReg c' 7 none, true, some "x") := by
  obtain ⟨c', h, _⟩ := taxaTitle_registers
  exact ⟨c', taxaTitle_att {} _ false _ h 7 none⟩

/-- `yield_eq_list_nexus` on a document with a real TREES block: the list op reads one tree, hence the yield op delivers
    that very tree -/
example : ∃ trees ns', listGet .nexus {} {} docT [] {} [] none none = .ok (trees, ns') ∧ trees.length = 1 ∧
    ∃ ns'', yieldFrom .nexus {} {} docT [] {} = .ok (trees, ns'') ∧ ns''.labels = ns'.labels := by
  obtain ⟨r, hr, hlen⟩ := docT_list
  exact ⟨r.1, r.2, hr, hlen, yield_eq_list_nexus {} {} rfl docT [] {} r.2 r.1 hr docT_noSets⟩

example : ∃ r ns'', readWith .nexus {} (att {}) pseudoSink docT [] {} [] = .ok (r, ns'') ∧ r.length = 1 := by
  obtain ⟨x, hx, hlen⟩ := docT_list
  obtain ⟨ns'', h, _⟩ := attached_reader_simulates {} {} pseudoSink docT [] {} x.2 [] x.1 (by simpa [listGet] using hx)
  exact ⟨x.1, ns'', h, hlen⟩

example : nexusYield {} {} (coreOf docT [] {}) [] = nexusRead {} {} pseudoSink (coreOf docT [] {}) [] :=
  reader_eq_yielder_partial {} {} rfl (coreOf docT [] {}) [] docT_noSets

/-- the progress theorem on the statement `a;` -/
example : ∃ t ts' ns' mp', newickStmt {} { rest := docA, tail := [] } [] (Mapper.new [] false) = .ok (some t, ts', ns', mp') ∧
    ts'.rest.length < docA.length := by
  have h : ∃ t ts' ns' mp', newickStmt {} { rest := docA, tail := [] } [] (Mapper.new [] false) = .ok (some t, ts', ns', mp') := by
    simp [docA, tk, Mapper.new, enumFrom, newickStmt, skipLeadingSemis.eq_def, TS.req, TS.step, TS.clear, TS.isP, processTreeComments,
      rootingState, parseNode.eq_def, tailLoop.eq_def, suppressTaxon, Mapper.require, lookupCI, TS.next, skipTrailingSemis.eq_def]
  obtain ⟨t, ts', ns', mp', ht⟩ := h
  exact ⟨t, ts', ns', mp', ht, newickStmt_progress _ _ _ _ _ _ _ _ ht⟩

example : treeGet .newick {} {} docA [] {} (some ((0 : Nat) : Int)) (some ((0 : Nat) : Int)) none = .ok (treeA, nsA) :=
  offset_spec .newick {} {} docA [] {} nsA [[treeA]] 0 0 [treeA] treeA docA_reads rfl rfl

example : treeGet .newick {} {} docA [] {} (some (-((0 : Nat) : Int) - 1)) (some (-((0 : Nat) : Int) - 1)) none = .ok (treeA, nsA) :=
  offset_neg_spec .newick {} {} docA [] {} nsA [[treeA]] 0 0 [treeA] treeA docA_reads (by decide) rfl (by decide) rfl

example : listGet .newick {} {} docA [] {} [treeA, treeA] (some ((0 : Nat) : Int)) (some ((0 : Nat) : Int))
    = .ok ([treeA, treeA] ++ [treeA].drop 0, nsA) :=
  offset_list_spec .newick {} {} docA [] {} nsA [treeA, treeA] [[treeA]] 0 0 [treeA] docA_reads rfl (by decide)

example : yieldFrom .newick {} {} docA [] {} = listGet .newick {} {} docA [] {} [] none none :=
  yield_eq_list_newick {} {} docA [] {}

example : yieldFrom .nexus {} {} docN [] {} = listGet .nexus {} { ({} : Flags) with attached := true } docN [] {} [] none none :=
  yield_eq_list_nexus_partial {} {} rfl docN [] {} (by rw [noSetsBlocks.eq_def]; simp [coreOf, docN, tk, TS.next, TS.step])

example : ∃ ns'', yieldFrom .nexus {} {} docN [] {} = .ok ([], ns'') ∧ ns''.labels = [] :=
  yield_eq_list_nexus {} {} rfl docN [] {} { labels := [], title := none } []
    (by simp [listGet, readWith, nexusRead, coreOf, docN, tk, TS.next, TS.step, streamLoopR.eq_def, Except.map,
          show "#NEXUS".toUpper = "#NEXUS" from by with_unfolding_all rfl]) docN_noSets

example : nexusYield {} {} (coreOf docN [] {}) [] = nexusRead {} {} pseudoSink (coreOf docN [] {}) [] :=
  reader_eq_yielder_partial {} {} rfl (coreOf docN [] {}) [] docN_noSets

end DendroModel.C13
