import DendroModel.Model.C13
import DendroModel.Theory.C13Sim
import DendroModel.Theory.C13Progress
import DendroModel.Theory.C13Hom
import DendroModel.Theory.C13Mono
import DendroModel.Theory.C13Sets
import DendroModel.Theory.C13Chars
import DendroModel.Theory.C13NsMono
import DendroModel.Theory.C13Dead
import DendroModel.Model.C13Ext
/-! C13 — property theorems about the reading routes of `Model/C13.lean` (the very definitions `drv_c13` runs).

Only property theorems live in `namespace DendroModel.C13` of this file; helper lemmas are in `DendroModel.C13.Aux`.
The shared tree-statement parser (`newickStmt`) and the shared NEXUS statement parsers are never unfolded: every
theorem holds for whatever they compute. -/

namespace DendroModel.C13
open Aux

/-! ### the separately written iterator front ends deliver what the readers deliver -/

/-- NEWICK: `NewickTreeDataYielder._yield_items_from_stream` (its own `while True` loop) yields exactly the trees that
    `NewickReader._read` puts into one list, in the same order, leaves the same namespace and fails on the same inputs —
    for every token stream, every option set, every starting namespace. -/
theorem newick_reader_eq_yielder (cfg : Cfg) (fl : Flags) (ts : TS) (ns : List String) :
    newickYield cfg ts ns = newickRead cfg pseudoSink ts ns [] := by
  unfold newickYield newickRead
  exact newickYieldLoop_eq cfg fl _ ts ns _ _ rfl

/-- NEXUS TREES block: `NexusTreeDataYielder._yield_from_trees_block` (a second copy of the block loop) yields exactly
    the trees `NexusReader._parse_trees_block` appends to its tree list, from the same state to the same state, with the
    same errors — for every token stream, TITLE/LINK/TRANSLATE layout and option set. -/
theorem trees_block_reader_eq_yielder (cfg : Cfg) (fl : Flags) (c : Core) (out : List Tree) :
    treesBlockY cfg fl c out = treesBlockR cfg fl pseudoSink c out :=
  treesBlockY_eq cfg fl c out

/-- every turn of the reader's block loop consumes at least one token when there is one, and never gives tokens back — for
    every token stream, block layout and option set (through the TAXA-, TREES-, character- and unknown-block parsers,
    `Theory/C13Mono.lean`); on a dry stream the turn ends at end of input (`streamStepR_dry`). -/
theorem stream_step_consumes {σ} (cfg : Cfg) (fl : Flags) (S : Sink σ) (c : Core) (acc : σ) (r : Core × σ)
    (h : streamStepR cfg fl S c acc = .ok r) :
    r.1.ts.rest.length ≤ c.ts.rest.length ∧ (c.ts.rest ≠ [] → r.1.ts.rest.length < c.ts.rest.length) ∧
    (c.ts.rest = [] → r.1.ts.eof = true) :=
  ⟨(streamStepR_le cfg fl S c acc r h).1, (streamStepR_le cfg fl S c acc r h).2, fun hd => streamStepR_dry cfg fl S c acc r hd h⟩

/-- hence the run-time progress check of `NexusReader._parse_nexus_stream`'s `while not eof` loop is dead code: the model's
    loop satisfies the plain unfolding of the Python loop and never answers `stuck` itself -/
theorem streamLoopR_check_dead {σ} (cfg : Cfg) (fl : Flags) (S : Sink σ) (c : Core) (acc : σ) :
    streamLoopR cfg fl S c acc =
      if c.ts.eof then .ok (c, acc)
      else match streamStepR cfg fl S c acc with
        | .error e => .error e
        | .ok (c3, acc3) => streamLoopR cfg fl S c3 acc3 :=
  streamLoopR_dead cfg fl S c acc

/-- the same for the iterator's copy of the loop -/
theorem streamLoopY_check_dead (cfg : Cfg) (fl : Flags) (c : Core) (out : List Tree) :
    streamLoopY cfg fl c out =
      if c.ts.eof then .ok (c, out)
      else match streamStepY cfg fl c out with
        | .error e => .error e
        | .ok (c3, out3) => streamLoopY cfg fl c3 out3 :=
  streamLoopY_dead cfg fl c out

/-- NEXUS stream: `NexusTreeDataYielder._yield_items_from_stream` delivers exactly what `NexusReader._parse_nexus_stream`
    delivers into one list under the same settings (`exclude_chars`, as on every tree route): same trees, same order, same
    final state, same errors — SETS / ASSUMPTIONS / CODONS blocks INCLUDED, although the two front ends treat them differently
    (the reader does nothing on `BEGIN SETS` and lets its scan for the next `BEGIN` run over the block; the iterator skips the
    block statement by statement up to `END`): a stuttering simulation, `Theory/C13Sets.lean`.
    Hypothesis `hs : setsClean …` (executable, driver op `setsclean`, evaluated by the harness on every generated NEXUS
    document; the share is in the evidence): in every SETS-class block the iterator meets, the statements it skips hold no
    token `BEGIN` and do not run into the end of input.  It is needed: on `BEGIN SETS; BEGIN TREES; …` the reader stops at
    the inner `BEGIN`, the iterator skips it. -/
theorem reader_eq_yielder (cfg : Cfg) (fl : Flags) (hx : fl.excludeChars = true) (c : Core) (out : List Tree)
    (hs : setsClean cfg fl { c with ts := c.ts.next } out = true) :
    nexusYield cfg fl c out = nexusRead cfg fl pseudoSink c out := by
  unfold nexusYield nexusRead
  simp only []
  split
  · rfl
  · exact streamLoopY_eq_clean cfg fl hx _ _ _ rfl hs

/-- route level, NEWICK: what the driver's `yield` op computes (`Tree.yield_from_files`) is what its `list` op computes
    (`TreeList.get` of the whole source), for every token stream, option set and starting namespace. -/
theorem yield_eq_list_newick (cfg : Cfg) (fl : Flags) (toks : List Tok) (tail : List String) (ns : NSObj) :
    yieldFrom .newick cfg fl toks tail ns = listGet .newick cfg fl toks tail ns [] none none := by
  simp only [yieldFrom, listGet, readWith]
  rw [newick_reader_eq_yielder cfg fl]

/-- the reader front end with an ATTACHED namespace (`DataSet.get(taxon_namespace=…)`, the settings of the iterator) reproduces
    every successful run of the reader without one (`TreeList.get`, `Tree.get`, plain `DataSet.get`): same product of the
    tree-list factory — one list, or the collections — and a namespace with the same labels; for every factory, token
    stream, option set and starting namespace, with NO restriction on SETS-class blocks (both sides are the reader).
    Both sides are driver-run: ops `list` / `blocks` with flags `10` resp. `11`, the latter compared by the harness with
    the real attached route.  One direction only: the attached run also reads what the other refuses (several TAXA
    blocks, a LINK to an unknown title, more TAXLABELS than NTAX — see `taxlabels_limit_refuses`, `link_unknown_refused`). -/
theorem attached_reader_simulates {σ} (cfg : Cfg) (fl : Flags) (S : Sink σ) (toks : List Tok) (tail : List String)
    (ns ns' : NSObj) (acc r : σ)
    (h : readWith .nexus cfg fl S toks tail ns acc = .ok (r, ns')) :
    ∃ ns'', readWith .nexus cfg (att fl) S toks tail ns acc = .ok (r, ns'') ∧ ns''.labels = ns'.labels := by
  simp only [readWith] at h ⊢
  cases hr : nexusRead cfg fl S (coreOf toks tail ns) acc with
  | error e => simp [hr, Except.map] at h
  | ok x =>
    simp only [hr, Except.map] at h
    cases h
    have hA := nexusRead_att cfg fl S (coreOf toks tail ns) acc x hr
      (coreOf toks tail ns).nsCount (coreOf toks tail ns).nsLabel
    have e0 : setReg (coreOf toks tail ns) (coreOf toks tail ns).nsCount (coreOf toks tail ns).nsLabel = coreOf toks tail ns := rfl
    rw [e0] at hA
    rw [hA]
    exact ⟨_, rfl, rfl⟩

/-- route level, NEXUS: `Tree.yield_from_files` (the driver's `yield` op: the separately written iterator front end, which
    attaches its namespace) = `TreeList.get` of the whole source computed by the READER front end with an attached namespace
    (driver op `list` with flags `11`, compared by the harness with the real attached route
    `DataSet.get(taxon_namespace=, exclude_chars=True)`, flattened) — full equality: trees, order, namespace, errors.
    Hypothesis `hs` as in `reader_eq_yielder`, on the iterator's own run (what driver op `setsclean` evaluates). -/
theorem yield_eq_attached_list_nexus (cfg : Cfg) (fl : Flags) (hx : fl.excludeChars = true) (toks : List Tok) (tail : List String) (ns : NSObj)
    (hs : setsClean cfg (att fl) { (coreOf toks tail ns) with ts := (coreOf toks tail ns).ts.next } [] = true) :
    yieldFrom .nexus cfg fl toks tail ns = listGet .nexus cfg (att fl) toks tail ns [] none none := by
  simp only [yieldFrom, listGet, readWith]
  show (nexusYield cfg (att fl) (coreOf toks tail ns) []).map _ = _
  rw [reader_eq_yielder cfg (att fl) hx (coreOf toks tail ns) [] hs]

/-- route level, NEXUS, both sides as the driver runs them: whenever `TreeList.get` (the `list` op: reader front end,
    namespace NOT attached) reads the whole source, `Tree.yield_from_files` (the `yield` op: the separately written
    iterator front end, namespace attached) delivers exactly the same trees in the same order, attached to the same
    taxa of a namespace with the same labels.  For every option set and starting namespace, and every token stream
    satisfying `hs` (see `reader_eq_yielder`; SETS-class blocks are covered).  One direction and success only: the converse
    fails by design and is a listed known finding (a file with several TAXA blocks is refused by the list route and read by
    the iterator; see `taxlabels_limit_refuses`, `link_unknown_refused`).  The namespace *title* may differ: only the list
    route records it.  Proof: the attached reader simulates every successful non-attached run (`Theory/C13Sim.lean`), and
    the iterator equals the attached reader (`reader_eq_yielder`). -/
theorem yield_eq_list_nexus (cfg : Cfg) (fl : Flags) (hx : fl.excludeChars = true)
    (toks : List Tok) (tail : List String) (ns ns' : NSObj) (trees : List Tree)
    (hlist : listGet .nexus cfg fl toks tail ns [] none none = .ok (trees, ns'))
    (hs : setsClean cfg (att fl) { (coreOf toks tail ns) with ts := (coreOf toks tail ns).ts.next } [] = true) :
    ∃ ns'', yieldFrom .nexus cfg fl toks tail ns = .ok (trees, ns'') ∧ ns''.labels = ns'.labels := by
  obtain ⟨ns'', h, hl⟩ := attached_reader_simulates cfg fl pseudoSink toks tail ns ns' [] trees (by simpa [listGet] using hlist)
  refine ⟨ns'', ?_, hl⟩
  rw [yield_eq_attached_list_nexus cfg fl hx toks tail ns hs]
  simpa [listGet] using h

/-! ### one list, the collections, a data set -/

/-- `TreeList.get` of the whole source = the collections of the source (one fresh list per TREES block, as `Tree.get`
    and the offset routes see them) concatenated in order; same namespace, same errors. -/
theorem whole_eq_flatten (sch : Schema) (cfg : Cfg) (fl : Flags) (toks : List Tok) (tail : List String) (ns : NSObj) :
    listGet sch cfg fl toks tail ns [] none none
      = (readBlocks sch cfg fl toks tail ns).map (fun r => (r.1.flatten, r.2)) := by
  simp only [listGet, readBlocks]
  exact readWith_hom sch cfg fl freshSink pseudoSink _ flatten_hom toks tail ns []

/-- incremental `TreeList.read` into a list that already holds `existing` = `existing` followed by exactly what a read
    into an empty list delivers from the same namespace state (the existing trees are untouched, nothing is lost or
    reordered), for every source and option set. -/
theorem incremental_eq_whole (sch : Schema) (cfg : Cfg) (fl : Flags) (toks : List Tok) (tail : List String) (ns : NSObj)
    (existing : List Tree) :
    listGet sch cfg fl toks tail ns existing none none
      = (listGet sch cfg fl toks tail ns [] none none).map (fun r => (existing ++ r.1, r.2)) := by
  simp only [listGet]
  have := readWith_hom sch cfg fl pseudoSink pseudoSink _ (prefix_hom existing) toks tail ns []
  simpa using this

/-- one `tl.read(collection_offset=c)` into a list holding `existing` appends exactly collection `c` of the source as
    read from the SAME namespace state `ns`.  (Not claimed: a sequence of such calls, each of which starts from the
    namespace the previous one left, `ns'`; that needs `readBlocks … ns'` to deliver the same collections, which is a
    statement about the shared statement parser and is covered by the oracle's per-collection route only.) -/
theorem incremental_collection (sch : Schema) (cfg : Cfg) (fl : Flags) (toks : List Tok) (tail : List String) (ns ns' : NSObj)
    (existing : List Tree) (bs : List (List Tree)) (c : Nat) (b : List Tree)
    (hread : readBlocks sch cfg fl toks tail ns = .ok (bs, ns')) (hb : bs[c]? = some b) :
    listGet sch cfg fl toks tail ns existing (some (c : Int)) none = .ok (existing ++ b, ns') := by
  have hlt : c < bs.length := by
    rcases Nat.lt_or_ge c bs.length with h | h
    · exact h
    · simp [List.getElem?_eq_none h] at hb
  have h1 : ¬ ((c : Int) ≥ (bs.length : Int)) := by omega
  simp [listGet, hread, h1, pyIdx, hb]

/-- `DataSet.get` / `DataSet.read` at the REAL, differing settings: the data set route parses CHARACTERS / DATA / SETS-class
    blocks (`exclude_chars = False`) where every tree route skips them (`exclude_chars = True`), and still the collections it
    delivers are exactly the collections of the tree routes (`Tree.get` / `TreeList.get(collection_offset=…)`): same trees,
    same grouping, same namespace, same errors.  A second stuttering simulation (`Theory/C13Chars.lean`): the parsing reader
    leaves a block past `END;`, the skipping reader at `END` (a character block) or at `BEGIN SETS` (a SETS-class block), and
    the scan for the next `BEGIN` absorbs the difference.
    Hypothesis `hc : charsClean …` (executable, driver op `charsclean`, evaluated on every generated NEXUS document): between
    those two places there is no token `BEGIN` and neither is the end of input (a document that ends with the `;` of a
    character block's `END;` and nothing after it, not even a line break, is outside; so is a block without `END`).
    In this model a parsed block is its statement skeleton: the matrix parser itself is C09's. -/
theorem dataset_blocks_eq (sch : Schema) (cfg : Cfg) (fl : Flags) (hx : fl.excludeChars = true)
    (toks : List Tok) (tail : List String) (ns : NSObj)
    (hc : charsClean cfg fl freshSink { (coreOf toks tail ns) with ts := (coreOf toks tail ns).ts.next } [] = true) :
    datasetRead sch cfg fl toks tail ns [] = readBlocks sch cfg fl toks tail ns := by
  have hfl : fl = withExclude fl true := by
    cases fl; simp only [withExclude] at *; subst hx; rfl
  cases sch with
  | newick => rfl
  | nexus =>
    simp only [datasetRead, readBlocks, readWith]
    congr 1
    show nexusRead cfg (withExclude fl false) freshSink (coreOf toks tail ns) [] = nexusRead cfg fl freshSink (coreOf toks tail ns) []
    conv => rhs; rw [hfl]
    unfold nexusRead
    simp only []
    split
    · rfl
    · exact streamLoopR_exclude_irrelevant cfg fl freshSink _ _ _ rfl hc

/-- hence: the tree lists of the data set, concatenated, are the trees of `TreeList.get` — both sides as the driver runs them
    (ops `dataset` and `list`) -/
theorem dataset_eq_lists (sch : Schema) (cfg : Cfg) (fl : Flags) (hx : fl.excludeChars = true)
    (toks : List Tok) (tail : List String) (ns : NSObj)
    (hc : charsClean cfg fl freshSink { (coreOf toks tail ns) with ts := (coreOf toks tail ns).ts.next } [] = true) :
    (datasetRead sch cfg fl toks tail ns []).map (fun r => (r.1.flatten, r.2))
      = listGet sch cfg fl toks tail ns [] none none := by
  rw [whole_eq_flatten, dataset_blocks_eq sch cfg fl hx toks tail ns hc]

/-! ### progress of the shared tree-statement parser: the loops over it need no run-time progress check -/

/-- `NewickReader._parse_tree_statement` consumes at least one token whenever it delivers a tree — for every token stream,
    option set, namespace and mapper (induction through `_parse_tree_node_description`: child loop, comma loop, label /
    length loop).  This is the fact the `while True` loops of `NewickReader.tree_iter` and of the Newick yielder rely on. -/
theorem newickStmt_progress (cfg : Cfg) (ts : TS) (ns : List String) (mp : Mapper) (t : Tree) (ts' : TS) (ns' : List String)
    (mp' : Mapper) (h : newickStmt cfg ts ns mp = .ok (some t, ts', ns', mp')) : ts'.rest.length < ts.rest.length :=
  newickStmt_lt cfg ts ns mp t ts' ns' mp' h

/-- the same for a NEXUS `TREE name = …;` statement -/
theorem nexusTreeStmt_progress (cfg : Cfg) (d : Doc) (mp : Mapper) (t : Tree) (d1 : Doc) (mp1 : Mapper)
    (h : nexusTreeStmt cfg d mp = .ok (t, d1, mp1)) : d1.ts.rest.length < d.ts.rest.length :=
  nexusTreeStmt_lt cfg d mp t d1 mp1 h

/-- hence the run-time progress check of the reader's Newick loop is dead code: the loop satisfies the plain unfolding of
    the Python `while True`, and `Err.stuck` is never produced by this loop itself -/
theorem newickIter_check_dead {σ} (cfg : Cfg) (S : Sink σ) (ts : TS) (ns : List String) (mp : Mapper) (acc : σ) :
    newickIter cfg S ts ns mp acc =
      match newickStmt cfg ts ns mp with
      | .error e => .error e
      | .ok (none, _, ns', _) => .ok (acc, ns')
      | .ok (some t, ts', ns', mp') => newickIter cfg S ts' ns' mp' (S.addTree acc t) := by
  rw [newickIter.eq_def]
  cases hst : newickStmt cfg ts ns mp with
  | error e => rfl
  | ok r =>
    obtain ⟨ot, ts', ns', mp'⟩ := r
    cases ot with
    | none => rfl
    | some t => simp only [dif_pos (newickStmt_lt cfg ts ns mp t ts' ns' mp' hst)]

/-- the same for the Newick yielder's own loop -/
theorem newickYieldLoop_check_dead (cfg : Cfg) (ts : TS) (ns : List String) (mp : Mapper) (out : List Tree) :
    newickYieldLoop cfg ts ns mp out =
      match newickStmt cfg ts ns mp with
      | .error e => .error e
      | .ok (none, _, ns', _) => .ok (out, ns')
      | .ok (some t, ts', ns', mp') => newickYieldLoop cfg ts' ns' mp' (out ++ [t]) := by
  rw [newickYieldLoop.eq_def]
  cases hst : newickStmt cfg ts ns mp with
  | error e => rfl
  | ok r =>
    obtain ⟨ot, ts', ns', mp'⟩ := r
    cases ot with
    | none => rfl
    | some t => simp only [dif_pos (newickStmt_lt cfg ts ns mp t ts' ns' mp' hst)]

/-- and for the runs of consecutive TREE statements of the NEXUS reader … -/
theorem treeRunR_check_dead {σ} (cfg : Cfg) (S : Sink σ) (d : Doc) (mp : Mapper) (acc : σ) :
    treeRunR cfg S d mp acc =
      match nexusTreeStmt cfg d mp with
      | .error e => .error e
      | .ok (t, d1, mp1) =>
        if d1.ts.eof || d1.ts.cur == none || d1.ts.cur == some "" then .ok (d1, mp1, S.addTree acc t, some "TREE")
        else if ({ d1 with ts := d1.ts.castU } : Doc).ts.cur != some "TREE" then
          .ok ({ d1 with ts := d1.ts.castU }, mp1, S.addTree acc t, ({ d1 with ts := d1.ts.castU } : Doc).ts.cur)
        else treeRunR cfg S { d1 with ts := d1.ts.castU } mp1 (S.addTree acc t) := by
  rw [treeRunR.eq_def]
  cases hst : nexusTreeStmt cfg d mp with
  | error e => rfl
  | ok r =>
    obtain ⟨t, d1, mp1⟩ := r
    have hp : ({ d1 with ts := d1.ts.castU } : Doc).ts.rest.length < d.ts.rest.length := nexusTreeStmt_lt cfg d mp t d1 mp1 hst
    simp only [dif_pos hp]

/-- … and of the NEXUS yielder -/
theorem treeRunY_check_dead (cfg : Cfg) (d : Doc) (mp : Mapper) (out : List Tree) :
    treeRunY cfg d mp out =
      match nexusTreeStmt cfg d mp with
      | .error e => .error e
      | .ok (t, d1, mp1) =>
        if d1.ts.eof || d1.ts.cur == none || d1.ts.cur == some "" then .ok (d1, mp1, out ++ [t], some "TREE")
        else if ({ d1 with ts := d1.ts.castU } : Doc).ts.cur != some "TREE" then
          .ok ({ d1 with ts := d1.ts.castU }, mp1, out ++ [t], ({ d1 with ts := d1.ts.castU } : Doc).ts.cur)
        else treeRunY cfg { d1 with ts := d1.ts.castU } mp1 (out ++ [t]) := by
  rw [treeRunY.eq_def]
  cases hst : nexusTreeStmt cfg d mp with
  | error e => rfl
  | ok r =>
    obtain ⟨t, d1, mp1⟩ := r
    have hp : ({ d1 with ts := d1.ts.castU } : Doc).ts.rest.length < d.ts.rest.length := nexusTreeStmt_lt cfg d mp t d1 mp1 hst
    simp only [dif_pos hp]

/-- the run-time progress check of the loop of `NexusReader._parse_trees_block` is dead code as well: every turn reads a
    token (`next_token_ucase` first thing) or the stream is dry and the turn ends at end of input, where the Python loop
    stops too (`Theory/C13Dead.lean`) -/
theorem treesLoopR_check_dead {σ} (cfg : Cfg) (fl : Flags) (S : Sink σ) (c : Core) (v : BlockVars) (acc : σ) :
    treesLoopR cfg fl S c v acc =
      if c.ts.eof || v.tok == none || v.tok == some "END" || v.tok == some "ENDBLOCK" then
        .ok ({ c with ts := skipSemi c.ts }, acc)
      else match treesStepR cfg fl S c v acc with
        | .error e => .error e
        | .ok (c5, v5, acc5) => treesLoopR cfg fl S c5 v5 acc5 :=
  treesLoopR_dead cfg fl S c v acc

/-- … of the iterator's copy of that loop … -/
theorem treesLoopY_check_dead (cfg : Cfg) (fl : Flags) (c : Core) (v : BlockVars) (out : List Tree) :
    treesLoopY cfg fl c v out =
      if c.ts.eof || v.tok == none || v.tok == some "END" || v.tok == some "ENDBLOCK" then
        .ok ({ c with ts := skipSemi c.ts }, out)
      else match treesStepY cfg fl c v out with
        | .error e => .error e
        | .ok (c5, v5, out5) => treesLoopY cfg fl c5 v5 out5 :=
  treesLoopY_dead cfg fl c v out

/-- … of `_parse_taxa_block` … -/
theorem taxaLoop_check_dead (fl : Flags) (c : Core) (hv : Bool) :
    taxaLoop fl c hv =
      if c.ts.rest = [] then .error .parse
      else match taxaStep fl c hv with
        | .error e => .error e
        | .ok (c4, have4, tok1) =>
          if tok1 == some "END" || tok1 == some "ENDBLOCK" then .ok { c4 with ts := skipSemi c4.ts }
          else taxaLoop fl c4 have4 :=
  taxaLoop_dead fl c hv

/-- … and the TRANSLATE loop never answers `stuck` (three tokens are read per entry).  What is left with a run-time check:
    the child loop inside the tree-statement parser. -/
theorem translateLoop_never_stuck (d : Doc) (ntax : Option Nat) (mp : Mapper) : translateLoop d ntax mp ≠ .error .stuck :=
  translateLoop_not_stuck _ d ntax mp rfl

/-! ### offsets -/

/-- `Tree.get(collection_offset=c, tree_offset=k)` with in-range non-negative offsets delivers exactly tree `k` of
    collection `c` of the source — name included when no `label=` is passed (the repaired behaviour). -/
theorem offset_spec (sch : Schema) (cfg : Cfg) (fl : Flags) (toks : List Tok) (tail : List String) (ns ns' : NSObj)
    (bs : List (List Tree)) (c k : Nat) (b : List Tree) (t : Tree)
    (hread : readBlocks sch cfg fl toks tail ns = .ok (bs, ns'))
    (hb : bs[c]? = some b) (ht : b[k]? = some t) :
    treeGet sch cfg fl toks tail ns (some (c : Int)) (some (k : Int)) none = .ok (t, ns') := by
  have hbs : bs.isEmpty = false := by cases bs <;> simp_all
  have hbe : b.isEmpty = false := by cases b <;> simp_all
  simp [treeGet, hread, hbs, pyIdx, hb, hbe, ht]

/-- negative offsets count from the end, as Python list indices do -/
theorem offset_neg_spec (sch : Schema) (cfg : Cfg) (fl : Flags) (toks : List Tok) (tail : List String) (ns ns' : NSObj)
    (bs : List (List Tree)) (c k : Nat) (b : List Tree) (t : Tree)
    (hread : readBlocks sch cfg fl toks tail ns = .ok (bs, ns'))
    (hc : c < bs.length) (hb : bs[bs.length - 1 - c]? = some b)
    (hk : k < b.length) (ht : b[b.length - 1 - k]? = some t) :
    treeGet sch cfg fl toks tail ns (some (-(c : Int) - 1)) (some (-(k : Int) - 1)) none = .ok (t, ns') := by
  have hbs : bs.isEmpty = false := by cases bs <;> simp_all
  have hbe : b.isEmpty = false := by cases b <;> simp_all
  unfold treeGet
  rw [hread]
  simp only [hbs, Option.getD_some, Bool.false_eq_true, if_false]
  rw [pyIdx_neg bs c hc, hb]
  simp only [hbe, Bool.false_eq_true, if_false]
  rw [pyIdx_neg b k hk, ht]

/-- without offsets `Tree.get` delivers the first tree of the first collection -/
theorem offset_default (sch : Schema) (cfg : Cfg) (fl : Flags) (toks : List Tok) (tail : List String) (ns : NSObj) (label : Option String) :
    treeGet sch cfg fl toks tail ns none none label = treeGet sch cfg fl toks tail ns (some 0) (some 0) label := by
  simp [treeGet]

/-- `label=` renames the delivered tree and changes nothing else; without it the source's name is kept -/
theorem tree_get_label (sch : Schema) (cfg : Cfg) (fl : Flags) (toks : List Tok) (tail : List String) (ns : NSObj)
    (coll tree : Option Int) (l : String) :
    treeGet sch cfg fl toks tail ns coll tree (some l)
      = (treeGet sch cfg fl toks tail ns coll tree none).map (fun r => ({ r.1 with name := some l }, r.2)) := by
  unfold treeGet
  cases readBlocks sch cfg fl toks tail ns with
  | error e => simp [Except.map]
  | ok r =>
    obtain ⟨bs, ns'⟩ := r
    simp only []
    split
    · simp [Except.map]
    · cases pyIdx bs (coll.getD 0) with
      | none => simp [Except.map]
      | some b =>
        simp only []
        split
        · simp [Except.map]
        · cases pyIdx b (tree.getD 0) <;> simp [Except.map]

/-- `TreeList.get(collection_offset=c, tree_offset=k)` delivers the trees `k, k+1, …` of collection `c`, appended to what
    the list already holds -/
theorem offset_list_spec (sch : Schema) (cfg : Cfg) (fl : Flags) (toks : List Tok) (tail : List String) (ns ns' : NSObj)
    (existing : List Tree) (bs : List (List Tree)) (c k : Nat) (b : List Tree)
    (hread : readBlocks sch cfg fl toks tail ns = .ok (bs, ns'))
    (hb : bs[c]? = some b) (hk : k < b.length) :
    listGet sch cfg fl toks tail ns existing (some (c : Int)) (some (k : Int)) = .ok (existing ++ b.drop k, ns') := by
  have hlt : c < bs.length := by
    rcases Nat.lt_or_ge c bs.length with h | h
    · exact h
    · simp [List.getElem?_eq_none h] at hb
  have h1 : ¬ ((c : Int) ≥ (bs.length : Int)) := by omega
  have h2 : ¬ ((k : Int) ≥ (b.length : Int)) := by omega
  simp [listGet, hread, h1, h2, pyIdx, pySuffix, hb]

/-- a `tree_offset` without `collection_offset` addresses the first collection -/
theorem offset_list_default (sch : Schema) (cfg : Cfg) (fl : Flags) (toks : List Tok) (tail : List String) (ns : NSObj)
    (existing : List Tree) (k : Int) :
    listGet sch cfg fl toks tail ns existing none (some k) = listGet sch cfg fl toks tail ns existing (some 0) (some k) := by
  simp [listGet]

/-- the offset routes together, all started from one namespace state `ns`: every tree of every collection is reachable
    through `Tree.get`, and walking the offsets in order enumerates exactly the trees of `TreeList.get` in order -/
theorem offsets_enumerate_whole (sch : Schema) (cfg : Cfg) (fl : Flags) (toks : List Tok) (tail : List String) (ns ns' : NSObj)
    (bs : List (List Tree)) (hread : readBlocks sch cfg fl toks tail ns = .ok (bs, ns')) :
    listGet sch cfg fl toks tail ns [] none none = .ok (bs.flatten, ns') ∧
    ∀ (c k : Nat) (b : List Tree) (t : Tree), bs[c]? = some b → b[k]? = some t →
      treeGet sch cfg fl toks tail ns (some (c : Int)) (some (k : Int)) none = .ok (t, ns') := by
  constructor
  · rw [whole_eq_flatten, hread]; rfl
  · intro c k b t hb ht
    exact offset_spec sch cfg fl toks tail ns ns' bs c k b t hread hb ht

/-! ### a namespace shared across calls only grows: what was read earlier stays attached to the same taxa -/

/-- every reader route (any tree-list factory, any schema, any settings): the labels in the namespace before the read are still
    there afterwards, at the same positions — a read only appends taxa.  Proved through the shared tree-statement parser
    (`Mapper.require` is the only place a tree statement adds a taxon), TAXLABELS, TRANSLATE and every block loop
    (`Theory/C13NsMono.lean`). -/
theorem namespace_only_grows {σ} (sch : Schema) (cfg : Cfg) (fl : Flags) (S : Sink σ) (toks : List Tok) (tail : List String)
    (ns : NSObj) (acc : σ) (r : σ × NSObj) (h : readWith sch cfg fl S toks tail ns acc = .ok r) : ns.labels <+: r.2.labels :=
  readWith_ns sch cfg fl S toks tail ns acc r h

/-- the same for the iterator route … -/
theorem namespace_only_grows_yield (sch : Schema) (cfg : Cfg) (fl : Flags) (toks : List Tok) (tail : List String) (ns : NSObj)
    (r : List Tree × NSObj) (h : yieldFrom sch cfg fl toks tail ns = .ok r) : ns.labels <+: r.2.labels :=
  yieldFrom_ns sch cfg fl toks tail ns r h

/-- … for `TreeList.get` / `TreeList.read` with any offsets, `Tree.get`, `DataSet.get` / `DataSet.read` … -/
theorem namespace_only_grows_routes (sch : Schema) (cfg : Cfg) (fl : Flags) (toks : List Tok) (tail : List String) (ns : NSObj) :
    (∀ l coll tree r, listGet sch cfg fl toks tail ns l coll tree = .ok r → ns.labels <+: r.2.labels) ∧
    (∀ coll tree label r, treeGet sch cfg fl toks tail ns coll tree label = .ok r → ns.labels <+: r.2.labels) ∧
    (∀ ex r, datasetRead sch cfg fl toks tail ns ex = .ok r → ns.labels <+: r.2.labels) := by
  have hb : ∀ bs ns', readBlocks sch cfg fl toks tail ns = .ok (bs, ns') → ns.labels <+: ns'.labels :=
    fun bs ns' h => readWith_ns sch cfg fl freshSink toks tail ns [] _ h
  refine ⟨?_, ?_, ?_⟩
  · intro l coll tree r h
    unfold listGet at h
    simp only [] at h
    split at h
    · exact readWith_ns sch cfg fl pseudoSink toks tail ns l r h
    · split at h
      · cases h
      · rename_i bs ns' hr
        have a := hb bs ns' hr
        split at h
        · cases h
        · split at h
          · cases h
          · split at h
            · cases h; exact a
            · split at h
              · cases h
              · cases h; exact a
  · intro coll tree label r h
    unfold treeGet at h
    split at h
    · cases h
    · rename_i bs ns' hr
      have a := hb bs ns' hr
      split at h
      · cases h
      · split at h
        · cases h
        · split at h
          · cases h
          · split at h
            · cases h
            · cases h; exact a
  · intro ex r h
    exact readWith_ns sch cfg _ freshSink toks tail ns ex r h

/-- … and for several sources in one call -/
theorem namespace_only_grows_files (sch : Schema) (cfg : Cfg) (fl : Flags) : ∀ (ds : List Content) (ns : NSObj) (r : List (List Tree) × NSObj),
    yieldFiles sch cfg fl ds ns = .ok r → ns.labels <+: r.2.labels := by
  intro ds
  induction ds with
  | nil => intro ns r h; simp [yieldFiles] at h; rw [← h]; exact List.prefix_refl _
  | cons d ds ih =>
    intro ns r h
    simp only [yieldFiles] at h
    cases hy : yieldFrom sch cfg fl d.toks d.tail ns with
    | error e => simp [hy] at h
    | ok x =>
      obtain ⟨ts, ns1⟩ := x
      simp only [hy] at h
      cases hr : yieldFiles sch cfg fl ds ns1 with
      | error e => simp [hr] at h
      | ok y =>
        obtain ⟨tss, ns2⟩ := y
        simp only [hr] at h
        cases h
        have a := yieldFrom_ns sch cfg fl d.toks d.tail ns _ hy
        have b := ih ns1 _ hr
        exact a.trans b

/-- hence a tree read EARLIER into a shared namespace stays attached to the same taxa whatever is read later through whichever
    route: the taxon a node refers to is a position in the namespace, and every position that existed keeps its label
    (the model's rendering of "same `Taxon` object": positions are never reused or reordered) -/
theorem earlier_taxa_keep_their_place (before after : List String) (h : before <+: after) (i : Nat) (hi : i < before.length) :
    after[i]? = before[i]? := by
  obtain ⟨t, rfl⟩ := h
  rw [List.getElem?_append_left hi]

/-! ### several sources in one call -/

/-- successive reads into a list that already holds `l` = `l` followed by what the same reads deliver into an empty list -/
theorem readMany_prefix (sch : Schema) (cfg : Cfg) (fl : Flags) : ∀ (ds : List Content) (ns : NSObj) (l : List Tree),
    readMany sch cfg fl ds ns l = (readMany sch cfg fl ds ns []).map (fun r => (l ++ r.1, r.2)) := by
  intro ds
  induction ds with
  | nil => intro ns l; simp [readMany, Except.map]
  | cons d ds ih =>
    intro ns l
    simp only [readMany]
    rw [incremental_eq_whole sch cfg fl d.toks d.tail ns l]
    cases listGet sch cfg fl d.toks d.tail ns [] none none with
    | error e => simp [Except.map]
    | ok r =>
      obtain ⟨l1, ns1⟩ := r
      simp only [Except.map]
      rw [ih ns1 (l ++ l1), ih ns1 l1]
      cases readMany sch cfg fl ds ns1 [] with
      | error e => simp [Except.map]
      | ok r2 => simp [Except.map, List.append_assoc]

/-- NEWICK, several sources in one call: `Tree.yield_from_files([a, b, …], taxon_namespace=ns)` delivers, file after file,
    exactly the trees that `tl = TreeList(taxon_namespace=ns); tl.read(a); tl.read(b); …` collects — same trees, same order,
    same final namespace (the taxa a file adds are seen by the next one on both routes), same errors; for every list of
    token streams, option set and starting namespace. -/
theorem yield_files_eq_successive_reads_newick (cfg : Cfg) (fl : Flags) : ∀ (ds : List Content) (ns : NSObj),
    (yieldFiles .newick cfg fl ds ns).map (fun r => (r.1.flatten, r.2)) = readMany .newick cfg fl ds ns [] := by
  intro ds
  induction ds with
  | nil => intro ns; simp [yieldFiles, readMany, Except.map]
  | cons d ds ih =>
    intro ns
    simp only [yieldFiles, readMany]
    rw [yield_eq_list_newick cfg fl d.toks d.tail ns]
    cases listGet .newick cfg fl d.toks d.tail ns [] none none with
    | error e => simp [Except.map]
    | ok r =>
      obtain ⟨ts, ns1⟩ := r
      simp only []
      rw [readMany_prefix .newick cfg fl ds ns1 ts, ← ih ns1]
      cases yieldFiles .newick cfg fl ds ns1 with
      | error e => simp [Except.map]
      | ok r2 => simp [Except.map]

/-- `yield_eq_list_nexus` with the two routes started from namespace objects that agree in their LABELS only (the iterator never
    looks at the title; successive calls hand on different titles): whenever `TreeList.get` reads the source from `ns`, the
    iterator started from `ns0` delivers the same trees and leaves the same labels -/
theorem yield_eq_list_nexus_labels (cfg : Cfg) (fl : Flags) (hx : fl.excludeChars = true)
    (toks : List Tok) (tail : List String) (ns ns0 ns' : NSObj) (trees : List Tree) (hl : ns0.labels = ns.labels)
    (hlist : listGet .nexus cfg fl toks tail ns [] none none = .ok (trees, ns'))
    (hs : setsClean cfg (att fl) { (coreOf toks tail ns0) with ts := (coreOf toks tail ns0).ts.next } [] = true) :
    ∃ ns'', yieldFrom .nexus cfg fl toks tail ns0 = .ok (trees, ns'') ∧ ns''.labels = ns'.labels := by
  simp only [listGet, readWith] at hlist
  cases hr : nexusRead cfg fl pseudoSink (coreOf toks tail ns) [] with
  | error e => simp [hr, Except.map] at hlist
  | ok r =>
    simp only [hr, Except.map] at hlist
    cases hlist
    have hA := nexusRead_att cfg fl pseudoSink (coreOf toks tail ns) [] r hr 0 ns0.title
    have e0 : setReg (coreOf toks tail ns) 0 ns0.title = coreOf toks tail ns0 := by
      simp [coreOf, setReg, hl]
    rw [e0] at hA
    have hY := reader_eq_yielder cfg (att fl) hx (coreOf toks tail ns0) [] hs
    refine ⟨{ labels := r.1.ns, title := ns0.title }, ?_, rfl⟩
    show (nexusYield cfg (att fl) (coreOf toks tail ns0) []).map _ = _
    rw [hY, hA]
    rfl

/-- NEXUS, several sources in one call, both sides as the driver runs them (ops `yieldfiles` and `readmany`): whenever
    `tl = TreeList(); tl.read(a); tl.read(b); …` (reader front end, a new reader per call, namespace NOT attached) reads the
    sources, `Tree.yield_from_files([a, b, …])` (ONE iterator object, namespace attached, per-file reader state reset — the
    repaired code) delivers, file after file, exactly those trees in that order and leaves a namespace with the same labels.
    For any number of sources, every option set and starting namespace; hypothesis `filesClean` = `setsClean` for every file at
    the namespace the iterator reaches it with.  One direction and success only, as `yield_eq_list_nexus` (the converse fails
    by design: several TAXA blocks).  The namespaces the two chains hand from file to file differ in their titles only, which the
    attached route never looks at (`yield_eq_list_nexus_labels`). -/
theorem yield_files_eq_successive_reads_nexus (cfg : Cfg) (fl : Flags) (hx : fl.excludeChars = true) :
    ∀ (ds : List Content) (ns ns0 ns' : NSObj) (l : List Tree), ns0.labels = ns.labels →
      readMany .nexus cfg fl ds ns [] = .ok (l, ns') → filesClean cfg fl ds ns0 = true →
      ∃ tss ns'', yieldFiles .nexus cfg fl ds ns0 = .ok (tss, ns'') ∧ tss.flatten = l ∧ ns''.labels = ns'.labels := by
  intro ds
  induction ds with
  | nil =>
    intro ns ns0 ns' l hl h _
    simp only [readMany] at h
    cases h
    exact ⟨[], ns0, rfl, rfl, hl⟩
  | cons d ds ih =>
    intro ns ns0 ns' l hl h hc
    simp only [readMany] at h
    cases h1 : listGet .nexus cfg fl d.toks d.tail ns [] none none with
    | error e => simp [h1] at h
    | ok r =>
      obtain ⟨l1, ns1⟩ := r
      simp only [h1] at h
      rw [readMany_prefix] at h
      cases h2 : readMany .nexus cfg fl ds ns1 [] with
      | error e => simp [h2, Except.map] at h
      | ok r2 =>
        obtain ⟨l2, ns2⟩ := r2
        simp only [h2, Except.map] at h
        cases h
        simp only [filesClean, Bool.and_eq_true] at hc
        obtain ⟨hc1, hc2⟩ := hc
        obtain ⟨ns1', hy, hl1⟩ := yield_eq_list_nexus_labels cfg fl hx d.toks d.tail ns ns0 ns1 l1 hl h1 hc1
        simp only [hy] at hc2
        obtain ⟨tss, ns'', hys, hfl, hl2⟩ := ih ns1 ns1' _ _ hl1 h2 hc2
        refine ⟨l1 :: tss, ns'', ?_, ?_, hl2⟩
        · simp only [yieldFiles, hy, hys]
        · simp [hfl]

/-- several sources in one call = the first source, then the rest from the namespace the first one left (any schema): nothing
    but the namespace is carried from one file to the next (REPAIRED behaviour for the NEXUS iterator, see `yieldFiles`) -/
theorem yield_files_append (sch : Schema) (cfg : Cfg) (fl : Flags) : ∀ (ds es : List Content) (ns : NSObj),
    yieldFiles sch cfg fl (ds ++ es) ns =
      match yieldFiles sch cfg fl ds ns with
      | .error e => .error e
      | .ok (tss, ns1) =>
        match yieldFiles sch cfg fl es ns1 with
        | .error e => .error e
        | .ok (uss, ns2) => .ok (tss ++ uss, ns2) := by
  intro ds
  induction ds with
  | nil =>
    intro es ns
    simp only [List.nil_append, yieldFiles]
    cases yieldFiles sch cfg fl es ns with
    | error e => rfl
    | ok r => simp
  | cons d ds ih =>
    intro es ns
    simp only [List.cons_append, yieldFiles]
    cases yieldFrom sch cfg fl d.toks d.tail ns with
    | error e => rfl
    | ok r =>
      obtain ⟨ts, ns1⟩ := r
      simp only []
      rw [ih es ns1]
      cases yieldFiles sch cfg fl ds ns1 with
      | error e => rfl
      | ok r2 =>
        obtain ⟨tss, ns2⟩ := r2
        simp only []
        cases yieldFiles sch cfg fl es ns2 with
        | error e => rfl
        | ok r3 => simp

/-! ### the tree array -/

/-- is a sequence of rooting states acceptable to an array whose rooting state is `a`? (`validate_rooting`, folded) -/
def Aux.rootOK : Option Bool → List (Option Bool) → Bool
  | _, [] => true
  | none, r :: rs => Aux.rootOK r rs
  | some x, r :: rs => r == some x && Aux.rootOK (some x) rs

/-- `TreeArray.add_trees` records every tree, in order, behind what the array already holds, with the weight rule applied,
    and refuses nothing but a rooting state that differs from the one the array is committed to -/
theorem array_add_trees_spec : ∀ (ts : List Tree) (a : Arr),
    (rootOK a.rooted (ts.map (·.rooted)) = true →
      ∃ a', a.addTrees ts = .ok a' ∧ a'.useWeights = a.useWeights ∧
        a'.entries = a.entries ++ ts.map (fun t => { tree := t, weight := arrWeight a.useWeights t })) ∧
    (rootOK a.rooted (ts.map (·.rooted)) = false → a.addTrees ts = .error .mixed) := by
  intro ts
  induction ts with
  | nil => intro a; simp [Arr.addTrees, rootOK]
  | cons t ts ih =>
    intro a
    cases hr : a.rooted with
    | none =>
      have hstep : a.addTree t = .ok { a with rooted := t.rooted, entries := a.entries ++ [{ tree := t, weight := arrWeight a.useWeights t }] } := by
        simp [Arr.addTree, Arr.validate, hr]
      obtain ⟨ih1, ih2⟩ := ih { a with rooted := t.rooted, entries := a.entries ++ [{ tree := t, weight := arrWeight a.useWeights t }] }
      simp only [List.map_cons, rootOK, Arr.addTrees, hstep]
      constructor
      · intro h
        obtain ⟨a', h1, h2, h3⟩ := ih1 h
        exact ⟨a', h1, h2, by rw [h3]; simp⟩
      · intro h; exact ih2 h
    | some x =>
      by_cases hx : t.rooted = some x
      · have hstep : a.addTree t = .ok { a with entries := a.entries ++ [{ tree := t, weight := arrWeight a.useWeights t }] } := by
          simp [Arr.addTree, Arr.validate, hr, hx]
        obtain ⟨ih1, ih2⟩ := ih { a with entries := a.entries ++ [{ tree := t, weight := arrWeight a.useWeights t }] }
        simp only [List.map_cons, rootOK, Arr.addTrees, hstep, hx, beq_self_eq_true, Bool.true_and]
        simp only [hr] at ih1 ih2 ⊢
        constructor
        · intro h
          obtain ⟨a', h1, h2, h3⟩ := ih1 h
          exact ⟨a', h1, h2, by rw [h3]; simp⟩
        · intro h; exact ih2 h
      · have hstep : a.addTree t = .error .mixed := by
          simp [Arr.addTree, Arr.validate, hr, hx]
        simp [rootOK, Arr.addTrees, hstep, hx]

/-- `TreeArray.read` of a NEWICK source = `TreeList.get` of the source into the array's namespace, followed by `add_trees` of the
    trees past the burn-in: the array sees exactly the trees every other route delivers, in order; full equality, errors
    included (the real code reads through the iterator, `read_from_files([stream])`) -/
theorem array_read_eq_list_then_add_newick (cfg : Cfg) (fl : Flags) (k : Int) (a : Arr) (d : Content) (ns : NSObj) :
    arrReadFromFiles .newick cfg fl k a [d] ns =
      match listGet .newick cfg fl d.toks d.tail ns [] none none with
      | .error e => .error e
      | .ok (l, ns') => (a.addTrees (burnIn l k)).map (·, ns') := by
  simp only [arrReadFromFiles]
  rw [yield_eq_list_newick cfg fl d.toks d.tail ns]
  cases listGet .newick cfg fl d.toks d.tail ns [] none none with
  | error e => rfl
  | ok r =>
    obtain ⟨l, ns'⟩ := r
    simp only []
    cases a.addTrees (burnIn l k) with
    | error e => rfl
    | ok a1 => simp [arrReadFromFiles, Except.map]

/-- the same for a NEXUS source, both sides as the driver runs them (ops `array` and `list`): whenever `TreeList.get` reads the
    source, `TreeArray.read` adds exactly those trees (past the burn-in) — or refuses them for mixed rooting —, and leaves a
    namespace with the same labels.  Hypotheses as in `yield_eq_list_nexus`. -/
theorem array_read_eq_list_then_add_nexus (cfg : Cfg) (fl : Flags) (hx : fl.excludeChars = true) (k : Int) (a : Arr) (d : Content)
    (ns ns' : NSObj) (trees : List Tree)
    (hlist : listGet .nexus cfg fl d.toks d.tail ns [] none none = .ok (trees, ns'))
    (hs : setsClean cfg (att fl) { (coreOf d.toks d.tail ns) with ts := (coreOf d.toks d.tail ns).ts.next } [] = true) :
    ∃ ns'', ns''.labels = ns'.labels ∧
      arrReadFromFiles .nexus cfg fl k a [d] ns = (a.addTrees (burnIn trees k)).map (·, ns'') := by
  obtain ⟨ns'', hy, hl⟩ := yield_eq_list_nexus cfg fl hx d.toks d.tail ns ns' trees hlist hs
  refine ⟨ns'', hl, ?_⟩
  simp only [arrReadFromFiles, hy]
  cases a.addTrees (burnIn trees k) with
  | error e => rfl
  | ok a1 => simp [arrReadFromFiles, Except.map]

/-- `TreeArray.read_from_files` over several sources = the sources read one call after the other, each into the array and the
    namespace the previous call left (any schema, any burn-in) -/
theorem array_files_append (sch : Schema) (cfg : Cfg) (fl : Flags) (k : Int) : ∀ (ds es : List Content) (a : Arr) (ns : NSObj),
    arrReadFromFiles sch cfg fl k a (ds ++ es) ns =
      match arrReadFromFiles sch cfg fl k a ds ns with
      | .error e => .error e
      | .ok (a1, ns1) => arrReadFromFiles sch cfg fl k a1 es ns1 := by
  intro ds
  induction ds with
  | nil => intro es a ns; simp [arrReadFromFiles]
  | cons d ds ih =>
    intro es a ns
    simp only [List.cons_append, arrReadFromFiles]
    cases yieldFrom sch cfg fl d.toks d.tail ns with
    | error e => rfl
    | ok r =>
      obtain ⟨ts, ns1⟩ := r
      simp only []
      cases a.addTrees (burnIn ts k) with
      | error e => rfl
      | ok a1 => simp only []; exact ih es a1 ns1

/-- whatever is read, the entries an array held before are still there, in place, in front of the new ones -/
theorem array_keeps_entries (sch : Schema) (cfg : Cfg) (fl : Flags) (k : Int) : ∀ (ds : List Content) (a a' : Arr) (ns ns' : NSObj),
    arrReadFromFiles sch cfg fl k a ds ns = .ok (a', ns') → ∃ new, a'.entries = a.entries ++ new := by
  intro ds
  induction ds with
  | nil => intro a a' ns ns' h; simp [arrReadFromFiles] at h; exact ⟨[], by rw [← h.1]; simp⟩
  | cons d ds ih =>
    intro a a' ns ns' h
    simp only [arrReadFromFiles] at h
    cases hy : yieldFrom sch cfg fl d.toks d.tail ns with
    | error e => simp [hy] at h
    | ok r =>
      obtain ⟨ts, ns1⟩ := r
      simp only [hy] at h
      cases ha : a.addTrees (burnIn ts k) with
      | error e => simp [ha] at h
      | ok a1 =>
        simp only [ha] at h
        obtain ⟨new, hn⟩ := ih a1 a' ns1 ns' h
        have hok : rootOK a.rooted ((burnIn ts k).map (·.rooted)) = true := by
          cases hb : rootOK a.rooted ((burnIn ts k).map (·.rooted)) with
          | true => rfl
          | false => rw [(array_add_trees_spec (burnIn ts k) a).2 hb] at ha; cases ha
        obtain ⟨a2, h1, _, h3⟩ := (array_add_trees_spec (burnIn ts k) a).1 hok
        rw [ha] at h1; cases h1
        exact ⟨(burnIn ts k).map (fun t => { tree := t, weight := arrWeight a.useWeights t }) ++ new, by rw [hn, h3, List.append_assoc]⟩

/-- the burn-in is Python's `l[k:]` for `k ≥ 0` and drops nothing for `k ≤ 0` -/
theorem burn_in_spec {α} (l : List α) (k : Nat) : burnIn l (k : Int) = l.drop k ∧ burnIn l (-(k : Int)) = l := by
  constructor
  · unfold burnIn
    split
    · rename_i h
      have : k = 0 := by omega
      subst this; simp
    · simp
  · unfold burnIn
    have : (-(k : Int)) ≤ 0 := by omega
    simp [this]

/-! ### string, stream, path: the dispatch on the source keyword, run on the REGENERATED tables (`Gen/C13Keys.lean`) -/

/-- `X.get(data=t)`, `X.get(file=stream over t)`, `X.get(path=p)` with `p` a file holding `t` (and the legacy spellings
    `string=`, `stream=`) all hand the same text to the reader, on `get` and on `read` alike: so every route of this model
    delivers identical results from a string, a stream or a path.  Decided on the keyword list and the two dispatch chains as
    they stand in the source now: a keyword dropped from `target_type_keywords`, or dispatched to another method, breaks it. -/
theorem source_dispatch_irrelevant (w : World) (p : String) (c : Content) (hp : w.files.lookup p = some c) :
    getFrom w [("data", .text c)] true = .ok c ∧ getFrom w [("string", .text c)] true = .ok c ∧
    getFrom w [("file", .text c)] true = .ok c ∧ getFrom w [("stream", .text c)] true = .ok c ∧
    getFrom w [("path", .name p)] true = .ok c ∧
    readFrom w [("data", .text c)] true = .ok c ∧ readFrom w [("string", .text c)] true = .ok c ∧
    readFrom w [("file", .text c)] true = .ok c ∧ readFrom w [("stream", .text c)] true = .ok c ∧
    readFrom w [("path", .name p)] true = .ok c := by
  simp [getFrom, readFrom, extractTarget, openSource, C13Keys.targetKeywords, C13Keys.getDispatch, C13Keys.readDispatch,
    List.lookup, hp]

/-- exactly one source keyword and a schema, else `TypeError` — whatever else is passed -/
theorem source_keyword_exactly_one (w : World) (a b : SrcArg) :
    getFrom w [] true = .error .type ∧ getFrom w [("data", a), ("path", b)] true = .error .type ∧
    getFrom w [("file", a), ("data", b)] true = .error .type ∧ getFrom w [("data", a)] false = .error .type ∧
    readFrom w [] true = .error .type ∧ readFrom w [("data", a), ("path", b)] true = .error .type ∧
    readFrom w [("data", a)] false = .error .type := by
  simp [getFrom, readFrom, extractTarget, C13Keys.targetKeywords]

/-- a path that cannot be opened is an I/O error, not a parse result -/
theorem source_missing_path (w : World) (p : String) (hp : w.files.lookup p = none) :
    getFrom w [("path", .name p)] true = .error .io ∧ readFrom w [("path", .name p)] true = .error .io := by
  simp [getFrom, readFrom, extractTarget, openSource, C13Keys.targetKeywords, C13Keys.getDispatch, C13Keys.readDispatch,
    List.lookup, hp]

/-- `get` and `read` dispatch alike, and every accepted keyword is dispatched (no keyword falls through to the `ValueError`) -/
theorem source_tables_coherent :
    C13Keys.getDispatch = C13Keys.readDispatch ∧
    C13Keys.targetKeywords.all (fun kw => (C13Keys.getDispatch.lookup kw).isSome) = true := by
  constructor
  · rfl
  · decide

/-! ### the keyword tables of the NEXUS front ends, REGENERATED from the source (`Gen/C13Keys.lean`) -/

/-- the reader's copy and the iterator's copy of the TREES-block loop test the same statement keywords with the same effect on
    the loop variable, end on the same tokens, continue a run of TREE statements on the same keyword; their block loops
    stop the scan at the same word — the very facts `trees_block_reader_eq_yielder` and `reader_eq_yielder` build into the
    model's two copies.  Decided on the tables read off `nexusreader.py` and `nexusyielder.py` as they stand now. -/
theorem front_end_copies_agree :
    C13Keys.readerTreesStmts = C13Keys.yielderTreesStmts ∧ C13Keys.readerTreesEnd = C13Keys.yielderTreesEnd ∧
    C13Keys.readerTreeRun = C13Keys.yielderTreeRun ∧ C13Keys.readerScanStop = C13Keys.yielderScanStop ∧
    (∀ p ∈ C13Keys.yielderBlocks, p ∈ C13Keys.readerBlocks) := by
  refine ⟨rfl, rfl, rfl, rfl, ?_⟩
  decide

/-- the model's front ends were written against exactly these tables (`treesStepR`/`treesStepY`: LINK, TITLE and TRANSLATE
    — the latter two clear the loop variable —, TREE, BEGIN; loop ends on END / ENDBLOCK; `seekBegin` stops at BEGIN) -/
theorem trees_block_tables_as_modelled :
    C13Keys.readerTreesStmts = [("BEGIN", false), ("LINK", false), ("TITLE", true), ("TRANSLATE", true), ("TREE", false)] ∧
    C13Keys.readerTreesEnd = ["END", "ENDBLOCK"] ∧ C13Keys.readerTreeRun = ["TREE"] ∧ C13Keys.readerScanStop = ["BEGIN"] :=
  ⟨rfl, rfl, rfl, rfl⟩

/-- the kind of action the reader's block loop takes on a block name, as `streamStepR` tests it -/
def Aux.kindR (cur : Option String) : String :=
  if cur == some "TAXA" then "taxa"
  else if cur == some "CHARACTERS" || cur == some "DATA" then "chars"
  else if cur == some "TREES" then "trees"
  else if isSetsKw cur then "sets"
  else if cur == some "BEGIN" then "error"
  else "skip"

/-- … and the iterator's, as `streamStepY` tests it -/
def Aux.kindY (cur : Option String) : String :=
  if cur == some "TAXA" then "taxa"
  else if cur == some "TREES" then "trees"
  else if cur == some "BEGIN" then "error"
  else "skip"

/-- `streamStepR` is its dispatch on `kindR` (the mirror above is faithful to the definition the driver runs) … -/
theorem streamStepR_by_kind {σ} (cfg : Cfg) (fl : Flags) (S : Sink σ) (c : Core) (acc : σ) :
    streamStepR cfg fl S c acc =
      (let c2 : Core := { c with ts := afterBegin c.ts }
       match kindR (afterBegin c.ts).cur with
       | "taxa" => (parseTaxaBlock fl c2).map (·, acc)
       | "chars" => if fl.excludeChars then .ok ({ c2 with ts := consumeToEndOfBlock c2.ts c2.ts.cur }, acc)
                    else .ok ({ c2 with ts := parsedBlockSkeleton c2.ts }, acc)
       | "trees" => treesBlockR cfg fl S c2 acc
       | "sets" => if fl.excludeChars then .ok (c2, acc) else .ok ({ c2 with ts := parsedBlockSkeleton c2.ts }, acc)
       | "error" => .error .parse
       | _ => .ok ({ c2 with ts := consumeToEndOfBlock c2.ts c2.ts.cur }, acc)) := by
  unfold streamStepR kindR afterBegin
  simp only []
  split
  · simp
  · split
    · simp
    · split
      · simp
      · split
        · simp
        · split <;> simp

/-- … and `kindR` is the look-up in the table REGENERATED from `NexusReader._parse_nexus_stream` (any other name: skipped) -/
theorem reader_block_dispatch_table (t : String) : kindR (some t) = (C13Keys.readerBlocks.lookup t).getD "skip" := by
  unfold kindR isSetsKw C13Keys.readerBlocks
  simp only [List.lookup]
  by_cases h1 : t = "ASSUMPTIONS"
  · subst h1; simp
  by_cases h2 : t = "BEGIN"
  · subst h2; simp
  by_cases h3 : t = "CHARACTERS"
  · subst h3; simp
  by_cases h4 : t = "CODONS"
  · subst h4; simp
  by_cases h5 : t = "DATA"
  · subst h5; simp
  by_cases h6 : t = "SETS"
  · subst h6; simp
  by_cases h7 : t = "TAXA"
  · subst h7; simp
  by_cases h8 : t = "TREES"
  · subst h8; simp
  have e1 : (t == "ASSUMPTIONS") = false := by simp [h1]
  have e2 : (t == "BEGIN") = false := by simp [h2]
  have e3 : (t == "CHARACTERS") = false := by simp [h3]
  have e4 : (t == "CODONS") = false := by simp [h4]
  have e5 : (t == "DATA") = false := by simp [h5]
  have e6 : (t == "SETS") = false := by simp [h6]
  have e7 : (t == "TAXA") = false := by simp [h7]
  have e8 : (t == "TREES") = false := by simp [h8]
  simp [e1, e2, e3, e4, e5, e6, e7, e8]

theorem streamStepY_by_kind (cfg : Cfg) (fl : Flags) (c : Core) (out : List Tree) :
    streamStepY cfg fl c out =
      (let c2 : Core := { c with ts := afterBegin c.ts }
       match kindY (afterBegin c.ts).cur with
       | "taxa" => (parseTaxaBlock fl c2).map (·, out)
       | "trees" => treesBlockY cfg fl c2 out
       | "error" => .error .parse
       | _ => .ok ({ c2 with ts := consumeToEndOfBlock c2.ts c2.ts.cur }, out)) := by
  unfold streamStepY kindY afterBegin
  simp only []
  split
  · simp
  · split
    · simp
    · split <;> simp

/-- the iterator's block dispatch is the table REGENERATED from `NexusTreeDataYielder._yield_items_from_stream` -/
theorem yielder_block_dispatch_table (t : String) : kindY (some t) = (C13Keys.yielderBlocks.lookup t).getD "skip" := by
  unfold kindY C13Keys.yielderBlocks
  simp only [List.lookup]
  by_cases h2 : t = "BEGIN"
  · subst h2; simp
  by_cases h7 : t = "TAXA"
  · subst h7; simp
  by_cases h8 : t = "TREES"
  · subst h8; simp
  have e2 : (t == "BEGIN") = false := by simp [h2]
  have e7 : (t == "TAXA") = false := by simp [h7]
  have e8 : (t == "TREES") = false := by simp [h8]
  simp [e2, e7, e8]

/-! ### non-vacuity: the hypotheses are satisfiable on concrete documents (all arguments explicit: nothing is left
to unification, each declaration elaborates in well under a second) -/
namespace Aux

def tk (s : String) (e : Bool := false) : Tok := { text := s, quoted := false, coms := [], eof := e }

/-- the Newick document `a;` -/
def docA : List Tok := [tk "a", tk ";" true]
def treeA : Tree := { name := none, rooted := none, weight := none, coms := [], root := .mk (some 0) none none [] [] }
def nsA : NSObj := { labels := ["a"], title := none }

set_option maxRecDepth 4000 in
theorem docA_reads : readBlocks .newick {} {} docA [] {} = .ok ([[treeA]], nsA) := by
  simp [readBlocks, readWith, newickRead, docA, tk, freshSink, Mapper.new, enumFrom, newickIter.eq_def, newickStmt,
    skipLeadingSemis.eq_def, TS.req, TS.step, TS.clear, TS.isP, processTreeComments, rootingState, parseNode.eq_def,
    tailLoop.eq_def, suppressTaxon, Mapper.require, lookupCI, TS.next, skipTrailingSemis.eq_def, Except.map, treeA, nsA]

/-- the NEXUS document `#NEXUS` (no blocks); a document with a TREES block follows below (`docT`) -/
def docN : List Tok := [tk "#NEXUS" true]

theorem docN_clean :
    setsClean {} (att {}) { (coreOf docN [] {}) with ts := (coreOf docN [] {}).ts.next } [] = true := by
  rw [setsClean.eq_def]
  simp [coreOf, docN, tk, TS.next, TS.step]

/-! keyword comparisons go through `String.toUpper`, which `decide`/`simp` do not evaluate; the kernel does -/
theorem up1 : "#NEXUS".toUpper = "#NEXUS" := by with_unfolding_all rfl
theorem up2 : "BEGIN".toUpper = "BEGIN" := by with_unfolding_all rfl
theorem up3 : "TREES".toUpper = "TREES" := by with_unfolding_all rfl
theorem up4 : ";".toUpper = ";" := by with_unfolding_all rfl
theorem up5 : "END".toUpper = "END" := by with_unfolding_all rfl
theorem up6 : "TREE".toUpper = "TREE" := by with_unfolding_all rfl

/-- the NEXUS document `#NEXUS BEGIN TREES; TREE t = a; END;` -/
def docT : List Tok :=
  [tk "#NEXUS", tk "BEGIN", tk "TREES", tk ";", tk "TREE", tk "t", tk "=", tk "a", tk ";", tk "END", tk ";" true]

set_option maxRecDepth 8000 in
/-- the `list` op reads it: one tree -/
theorem docT_list : ∃ r, listGet .nexus {} {} docT [] {} [] none none = .ok r ∧ r.1.length = 1 := by
  simp [listGet, readWith, nexusRead, coreOf, docT, tk, TS.next, TS.nextU, TS.step, TS.clear, TS.castU, TS.isP, seekBegin.eq_def,
    streamLoopR.eq_def, streamStepR, treesBlockR, skipSemi.eq_def, treesLoopR.eq_def, treesStepR, getNamespace, newNamespace,
    treeRunR.eq_def, nexusTreeStmt, pseudoSink, mapperOr, Mapper.new, enumFrom, newickStmt, skipLeadingSemis.eq_def, TS.req,
    processTreeComments, rootingState, parseNode.eq_def, tailLoop.eq_def, suppressTaxon, Mapper.require, lookupCI, lookupEx,
    skipTrailingSemis.eq_def, Except.map, Core.withDoc, up1, up2, up3, up5, up6]

theorem up7 : "SETS".toUpper = "SETS" := by with_unfolding_all rfl
theorem up8 : "x".toUpper = "X" := by with_unfolding_all rfl
theorem up9 : "CHARACTERS".toUpper = "CHARACTERS" := by with_unfolding_all rfl

set_option maxRecDepth 8000 in
/-- … and the iterator's run meets no SETS-class block at all -/
theorem docT_clean :
    setsClean {} (att {}) { (coreOf docT [] {}) with ts := (coreOf docT [] {}).ts.next } [] = true := by
  simp [setsClean.eq_def, afterBegin, cleanSkip, cleanTok, consumeToEndOfBlock, consumeLoop.eq_def, isSetsKw, coreOf, docT, tk,
    TS.next, TS.nextU, TS.step, TS.clear, TS.castU, TS.isP, seekBegin.eq_def, streamStepY, treesBlockY, skipSemi.eq_def,
    treesLoopY.eq_def, treesStepY, getNamespace, att, treeRunY.eq_def, nexusTreeStmt, mapperOr, Mapper.new, enumFrom,
    newickStmt, skipLeadingSemis.eq_def, TS.req, processTreeComments, rootingState, parseNode.eq_def, tailLoop.eq_def,
    suppressTaxon, Mapper.require, lookupCI, lookupEx, skipTrailingSemis.eq_def, Core.withDoc, up2, up3, up4, up5, up6]

/-- the NEXUS document `#NEXUS BEGIN SETS; x; END; BEGIN TREES; TREE t = a; END;`: a SETS block in front of the trees -/
def docS : List Tok :=
  [tk "#NEXUS", tk "BEGIN", tk "SETS", tk ";", tk "x", tk ";", tk "END", tk ";",
   tk "BEGIN", tk "TREES", tk ";", tk "TREE", tk "t", tk "=", tk "a", tk ";", tk "END", tk ";" true]

set_option maxRecDepth 16000 in
/-- its SETS block is clean: the hypothesis of `reader_eq_yielder` / `yield_eq_list_nexus` holds on a document that the
    earlier, partial theorems excluded -/
theorem docS_clean :
    setsClean {} (att {}) { (coreOf docS [] {}) with ts := (coreOf docS [] {}).ts.next } [] = true := by
  simp [setsClean.eq_def, afterBegin, cleanSkip, cleanTok, consumeToEndOfBlock, consumeLoop.eq_def, isSetsKw, coreOf, docS, tk,
    TS.next, TS.nextU, TS.step, TS.clear, TS.castU, TS.isP, seekBegin.eq_def, streamStepY, treesBlockY, skipSemi.eq_def,
    treesLoopY.eq_def, treesStepY, getNamespace, att, treeRunY.eq_def, nexusTreeStmt, mapperOr, Mapper.new, enumFrom,
    newickStmt, skipLeadingSemis.eq_def, TS.req, processTreeComments, rootingState, parseNode.eq_def, tailLoop.eq_def,
    suppressTaxon, Mapper.require, lookupCI, lookupEx, skipTrailingSemis.eq_def, Core.withDoc, up2, up3, up4, up5, up6, up7, up8]

set_option maxRecDepth 16000 in
/-- the `list` op reads it (the reader's scan for `BEGIN` runs over the SETS block): one tree -/
theorem docS_list : ∃ r, listGet .nexus {} {} docS [] {} [] none none = .ok r ∧ r.1.length = 1 := by
  simp [listGet, readWith, nexusRead, coreOf, docS, tk, TS.next, TS.nextU, TS.step, TS.clear, TS.castU, TS.isP, seekBegin.eq_def,
    streamLoopR.eq_def, streamStepR, isSetsKw, treesBlockR, skipSemi.eq_def, treesLoopR.eq_def, treesStepR, getNamespace, newNamespace,
    treeRunR.eq_def, nexusTreeStmt, pseudoSink, mapperOr, Mapper.new, enumFrom, newickStmt, skipLeadingSemis.eq_def, TS.req,
    processTreeComments, rootingState, parseNode.eq_def, tailLoop.eq_def, suppressTaxon, Mapper.require, lookupCI, lookupEx,
    skipTrailingSemis.eq_def, Except.map, Core.withDoc, up1, up2, up3, up4, up5, up6, up7, up8]

/-- the NEXUS document `#NEXUS BEGIN CHARACTERS; x; END; BEGIN TREES; TREE t = a; END;` followed by a line break -/
def docC : List Tok :=
  [tk "#NEXUS", tk "BEGIN", tk "CHARACTERS", tk ";", tk "x", tk ";", tk "END", tk ";",
   tk "BEGIN", tk "TREES", tk ";", tk "TREE", tk "t", tk "=", tk "a", tk ";", tk "END", tk ";"]

set_option maxRecDepth 16000 in
/-- its character block is clean: the hypothesis of `dataset_blocks_eq` / `dataset_eq_lists` holds -/
theorem docC_clean :
    charsClean {} {} freshSink { (coreOf docC [] {}) with ts := (coreOf docC [] {}).ts.next } [] = true := by
  simp [charsClean.eq_def, afterBegin, cleanSkip, cleanTok, consumeToEndOfBlock, consumeLoop.eq_def, parsedBlockSkeleton, isSetsKw,
    coreOf, docC, tk, TS.next, TS.nextU, TS.step, TS.clear, TS.castU, TS.isP, seekBegin.eq_def, streamStepR, treesBlockR,
    skipSemi.eq_def, treesLoopR.eq_def, treesStepR, getNamespace, newNamespace, treeRunR.eq_def, nexusTreeStmt, freshSink,
    mapperOr, Mapper.new, enumFrom, newickStmt, skipLeadingSemis.eq_def, TS.req, processTreeComments, rootingState,
    parseNode.eq_def, tailLoop.eq_def, suppressTaxon, Mapper.require, lookupCI, lookupEx, skipTrailingSemis.eq_def,
    Core.withDoc, up2, up3, up4, up5, up6, up8, up9]

/-! #### the simulation lemmas of `Theory/C13Sim.lean` at the level below the whole-document parser (evaluating a whole
TAXA + LINK + TRANSLATE document by `simp` does not finish in reasonable time; these instantiate the branches `docT` does not
reach: the NTAX limit of TAXLABELS, which only the non-attached run applies, and LINK resolution through the registry) -/
theorem la : "a".toLower = "a" := by with_unfolding_all rfl
theorem lb : "b".toLower = "b" := by with_unfolding_all rfl
theorem ux : "x".toUpper = "X" := by with_unfolding_all rfl
theorem uX : "X".toUpper = "X" := by with_unfolding_all rfl
theorem uTitle : "TITLE".toUpper = "TITLE" := by with_unfolding_all rfl

/-- the tokens `a b ;` of a TAXLABELS statement, positioned on `a` -/
def tsLabels : TS := { rest := [tk "b", tk ";"], tail := [], cur := some "a" }

/-- without an attached namespace the NTAX limit refuses the second label of `TAXLABELS a b` under NTAX=1 … -/
theorem taxlabels_limit_refuses : taxlabelsLoop false tsLabels [] (some 1) = .error .parse := by
  simp [taxlabelsLoop.eq_def, tsLabels, tk, nsFind, nsFind.go, TS.next, TS.step, TS.clear, la, lb]

/-- … whereas the attached run accepts it: the flag matters exactly here, and the simulation only goes one way -/
theorem taxlabels_limit_attached : ∃ ts', taxlabelsLoop true tsLabels [] (some 1) = .ok (["a", "b"], ts') := by
  simp [taxlabelsLoop.eq_def, tsLabels, tk, nsFind, nsFind.go, TS.next, TS.step, TS.clear, la, lb]

/-- with NTAX=2 the non-attached run reads both labels: `taxlabels_att` applies to a real success -/
theorem taxlabels_ok : ∃ ts', taxlabelsLoop false tsLabels [] (some 2) = .ok (["a", "b"], ts') := by
  simp [taxlabelsLoop.eq_def, tsLabels, tk, nsFind, nsFind.go, TS.next, TS.step, TS.clear, la, lb]

/-- a state with one registered namespace titled `x` (what `TAXA; TITLE x; …` leaves behind) -/
def coreLinked : Core := { ts := { rest := [], tail := [] }, ns := ["a"], nsCount := 1, nsLabel := some "x" }

/-- `LINK TAXA = X` resolves against it (case-insensitively) on the non-attached run … -/
theorem link_resolves : getNamespace {} coreLinked (some "X") = .ok coreLinked := by
  simp [getNamespace, nsFound, coreLinked, ux, uX]

/-- … and a LINK to an unknown title is refused there, but not on the attached run -/
theorem link_unknown_refused : getNamespace {} coreLinked (some "a") = .error .parse ∧
    getNamespace (att {}) coreLinked (some "a") = .ok coreLinked := by
  constructor
  · simp [getNamespace, nsFound, coreLinked, ux, show "a".toUpper = "A" from by with_unfolding_all rfl]
  · exact getNamespace_att {} _ _

/-- the TITLE branch of the TAXA loop registers a namespace on the non-attached run only -/
theorem taxaTitle_registers :
    ∃ c', taxaTitle {} { ts := { rest := [tk "TITLE", tk "x", tk ";"], tail := [] }, ns := [] } false = .ok (c', true, some "x") ∧
      c'.nsCount = 1 ∧ c'.nsLabel = some "x" := by
  simp [taxaTitle, parseTitle, newNamespace, tk, TS.nextU, TS.castU, TS.req, TS.step, uTitle]

end Aux

example : ∃ ts', taxlabelsLoop true tsLabels [] (some 2) = .ok (["a", "b"], ts') := by
  obtain ⟨ts', h⟩ := taxlabels_ok
  exact ⟨ts', taxlabels_att false _ tsLabels [] (some 2) _ rfl h⟩

example : ∀ k l, getNamespace (att {}) (setReg coreLinked k l) (some "X") = .ok (setReg coreLinked k l) ∧
    setReg coreLinked k l = setReg coreLinked k l :=
  fun k l => ⟨getNamespace_att {} _ _, getNamespace_setReg {} coreLinked coreLinked (some "X") link_resolves k l⟩

example : ∃ c', taxaTitle (att {}) (setReg { ts := { rest := [tk "TITLE", tk "x", tk ";"], tail := [] }, ns := [] } 7 none) false
    = .ok (setReg c' 7 none, true, some "x") := by
  obtain ⟨c', h, _⟩ := taxaTitle_registers
  exact ⟨c', taxaTitle_att {} _ false _ h 7 none⟩

/-- `yield_eq_list_nexus` on a document with a real TREES block: the list op reads one tree, hence the yield op delivers
    that very tree -/
example : ∃ trees ns', listGet .nexus {} {} docT [] {} [] none none = .ok (trees, ns') ∧ trees.length = 1 ∧
    ∃ ns'', yieldFrom .nexus {} {} docT [] {} = .ok (trees, ns'') ∧ ns''.labels = ns'.labels := by
  obtain ⟨r, hr, hlen⟩ := docT_list
  exact ⟨r.1, r.2, hr, hlen, yield_eq_list_nexus {} {} rfl docT [] {} r.2 r.1 hr docT_clean⟩

/-- … and on a document WITH a SETS block (outside the earlier partial theorems): same conclusion -/
example : ∃ trees ns', listGet .nexus {} {} docS [] {} [] none none = .ok (trees, ns') ∧ trees.length = 1 ∧
    ∃ ns'', yieldFrom .nexus {} {} docS [] {} = .ok (trees, ns'') ∧ ns''.labels = ns'.labels := by
  obtain ⟨r, hr, hlen⟩ := docS_list
  exact ⟨r.1, r.2, hr, hlen, yield_eq_list_nexus {} {} rfl docS [] {} r.2 r.1 hr docS_clean⟩

example : nexusYield {} (att {}) (coreOf docS [] {}) [] = nexusRead {} (att {}) pseudoSink (coreOf docS [] {}) [] :=
  reader_eq_yielder {} (att {}) rfl (coreOf docS [] {}) [] docS_clean

example : yieldFrom .nexus {} {} docS [] {} = listGet .nexus {} (att {}) docS [] {} [] none none :=
  yield_eq_attached_list_nexus {} {} rfl docS [] {} docS_clean

/-- `TreeArray.read` of the SETS document: adds exactly the tree `TreeList.get` delivers -/
example : ∃ trees ns', listGet .nexus {} {} docS [] {} [] none none = .ok (trees, ns') ∧ trees.length = 1 ∧
    ∃ ns'', arrReadFromFiles .nexus {} {} 0 {} [{ toks := docS, tail := [] }] {} = (({} : Arr).addTrees (burnIn trees 0)).map (·, ns'') := by
  obtain ⟨r, hr, hlen⟩ := docS_list
  obtain ⟨ns'', _, h⟩ := array_read_eq_list_then_add_nexus {} {} rfl 0 {} { toks := docS, tail := [] } {} r.2 r.1 hr docS_clean
  exact ⟨r.1, r.2, hr, hlen, ns'', h⟩

/-- the data set route on a document with a CHARACTERS block: the same collections as the tree routes -/
example : datasetRead .nexus {} {} docC [] {} [] = readBlocks .nexus {} {} docC [] {} :=
  dataset_blocks_eq .nexus {} {} rfl docC [] {} docC_clean

example : (datasetRead .nexus {} {} docC [] {} []).map (fun r => (r.1.flatten, r.2)) = listGet .nexus {} {} docC [] {} [] none none :=
  dataset_eq_lists .nexus {} {} rfl docC [] {} docC_clean

example : ∃ r ns'', readWith .nexus {} (att {}) pseudoSink docT [] {} [] = .ok (r, ns'') ∧ r.length = 1 := by
  obtain ⟨x, hx, hlen⟩ := docT_list
  obtain ⟨ns'', h, _⟩ := attached_reader_simulates {} {} pseudoSink docT [] {} x.2 [] x.1 (by simpa [listGet] using hx)
  exact ⟨x.1, ns'', h, hlen⟩

/-- two NEXUS sources in one call, `docT` then `docN`: the successive reads succeed, every file is clean, hence the iterator over both
    delivers the one tree -/
example : ∃ tss ns'', yieldFiles .nexus {} {} [{ toks := docT, tail := [] }, { toks := docN, tail := [] }] {} = .ok (tss, ns'') ∧
    tss.flatten.length = 1 := by
  obtain ⟨r, hr, hlen⟩ := docT_list
  have hN : ∀ (ns : NSObj) (l : List Tree), listGet .nexus {} {} docN [] ns l none none = .ok (l, ns) := by
    intro ns l
    cases ns
    simp [listGet, readWith, nexusRead, coreOf, docN, tk, TS.next, TS.step, streamLoopR.eq_def, Except.map, pseudoSink, up1]
  have hread : readMany .nexus {} {} [{ toks := docT, tail := [] }, { toks := docN, tail := [] }] {} [] = .ok (r.1, r.2) := by
    simp [readMany, hr, hN]
  have hclean : filesClean {} {} [{ toks := docT, tail := [] }, { toks := docN, tail := [] }] {} = true := by
    simp only [filesClean, Bool.and_eq_true]
    refine ⟨docT_clean, ?_⟩
    cases hy : yieldFrom .nexus {} {} docT [] {} with
    | error e => rfl
    | ok x =>
      simp only []
      rw [setsClean.eq_def]
      simp [coreOf, docN, tk, TS.next, TS.step]
      split <;> rfl
  obtain ⟨tss, ns'', h, hf, _⟩ := yield_files_eq_successive_reads_nexus {} {} rfl _ {} {} r.2 r.1 rfl hread hclean
  exact ⟨tss, ns'', h, by rw [hf]; exact hlen⟩

/-- two NEWICK sources in one call: `a; a;` — the iterator over both = two successive reads -/
example : (yieldFiles .newick {} {} [{ toks := docA, tail := [] }, { toks := docA, tail := [] }] {}).map (fun r => (r.1.flatten, r.2))
    = readMany .newick {} {} [{ toks := docA, tail := [] }, { toks := docA, tail := [] }] {} [] :=
  yield_files_eq_successive_reads_newick {} {} _ _

/-- a rooted tree after an unrooted one is refused by the array; two unrooted ones are recorded in order -/
example : ({} : Arr).addTrees [{ treeA with rooted := some false }, { treeA with rooted := some true }] = .error .mixed :=
  (array_add_trees_spec _ _).2 (by decide)
example : ∃ a', ({} : Arr).addTrees [{ treeA with rooted := some false }, { treeA with rooted := some false }] = .ok a' ∧
    a'.entries.length = 2 := by
  obtain ⟨a', h, _, h3⟩ := (array_add_trees_spec [{ treeA with rooted := some false }, { treeA with rooted := some false }] {}).1 (by decide)
  exact ⟨a', h, by rw [h3]; rfl⟩

/-- the taxon `a` of the namespace left by a first read of `a;` is still taxon 0 after a second read through the iterator -/
example : ∀ r, yieldFrom .newick {} {} docA [] nsA = .ok r → r.2.labels[0]? = some "a" := by
  intro r h
  have := earlier_taxa_keep_their_place nsA.labels r.2.labels (namespace_only_grows_yield .newick {} {} docA [] nsA r h) 0 (by decide)
  simpa [nsA] using this

/-- the source dispatch on a world with one file -/
example : getFrom { files := [("p", { toks := docA, tail := [] })] } [("path", .name "p")] true
    = getFrom { files := [("p", { toks := docA, tail := [] })] } [("data", .text { toks := docA, tail := [] })] true := by
  have h := source_dispatch_irrelevant { files := [("p", { toks := docA, tail := [] })] } "p" { toks := docA, tail := [] } (by simp [List.lookup])
  rw [h.1, h.2.2.2.2.1]

/-- the progress theorem on the statement `a;` -/
example : ∃ t ts' ns' mp', newickStmt {} { rest := docA, tail := [] } [] (Mapper.new [] false) = .ok (some t, ts', ns', mp') ∧
    ts'.rest.length < docA.length := by
  have h : ∃ t ts' ns' mp', newickStmt {} { rest := docA, tail := [] } [] (Mapper.new [] false) = .ok (some t, ts', ns', mp') := by
    simp [docA, tk, Mapper.new, enumFrom, newickStmt, skipLeadingSemis.eq_def, TS.req, TS.step, TS.clear, TS.isP, processTreeComments,
      rootingState, parseNode.eq_def, tailLoop.eq_def, suppressTaxon, Mapper.require, lookupCI, TS.next, skipTrailingSemis.eq_def]
  obtain ⟨t, ts', ns', mp', ht⟩ := h
  exact ⟨t, ts', ns', mp', ht, newickStmt_progress _ _ _ _ _ _ _ _ ht⟩

example : treeGet .newick {} {} docA [] {} (some ((0 : Nat) : Int)) (some ((0 : Nat) : Int)) none = .ok (treeA, nsA) :=
  offset_spec .newick {} {} docA [] {} nsA [[treeA]] 0 0 [treeA] treeA docA_reads rfl rfl

example : treeGet .newick {} {} docA [] {} (some (-((0 : Nat) : Int) - 1)) (some (-((0 : Nat) : Int) - 1)) none = .ok (treeA, nsA) :=
  offset_neg_spec .newick {} {} docA [] {} nsA [[treeA]] 0 0 [treeA] treeA docA_reads (by decide) rfl (by decide) rfl

example : listGet .newick {} {} docA [] {} [treeA, treeA] (some ((0 : Nat) : Int)) (some ((0 : Nat) : Int))
    = .ok ([treeA, treeA] ++ [treeA].drop 0, nsA) :=
  offset_list_spec .newick {} {} docA [] {} nsA [treeA, treeA] [[treeA]] 0 0 [treeA] docA_reads rfl (by decide)

example : yieldFrom .newick {} {} docA [] {} = listGet .newick {} {} docA [] {} [] none none :=
  yield_eq_list_newick {} {} docA [] {}

example : yieldFrom .nexus {} {} docN [] {} = listGet .nexus {} (att {}) docN [] {} [] none none :=
  yield_eq_attached_list_nexus {} {} rfl docN [] {} docN_clean

example : ∃ ns'', yieldFrom .nexus {} {} docN [] {} = .ok ([], ns'') ∧ ns''.labels = [] :=
  yield_eq_list_nexus {} {} rfl docN [] {} { labels := [], title := none } []
    (by simp [listGet, readWith, nexusRead, coreOf, docN, tk, TS.next, TS.step, streamLoopR.eq_def, Except.map,
          show "#NEXUS".toUpper = "#NEXUS" from by with_unfolding_all rfl]) docN_clean

end DendroModel.C13
