import DendroModel.Model.C07
import DendroModel.Theory.C07Path
import DendroModel.Theory.C17Frac
import DendroModel.Theory.Reseed
import Mathlib.Tactic
/-! C07 — theorems about the executable model `Model/C07.lean` (the definitions `drv_c07` runs). -/

namespace DendroModel.C07.Aux
open DendroModel DendroModel.C07

/-- one `Edge.invert` at the root: the child `c = node j … ds` becomes the root and takes the root's own edge length,
    the old root (minus `c`) becomes its LAST child and takes `c`'s edge length -/
inductive Step : T → T → Prop
  | mk (i : Nat) (x : Option Nat) (l : Option Frac) (s : Option String) (pre : List T)
       (j : Nat) (y : Option Nat) (lc : Option Frac) (sc : Option String) (ds post : List T)
       (hds : ds ≠ []) (hrest : pre ++ post ≠ []) :
      Step (.node i x l s (pre ++ .node j y lc sc ds :: post))
           (.node j y l sc (ds ++ [.node i x lc s (pre ++ post)]))

inductive Reach : T → T → Prop
  | refl (t : T) : Reach t t
  | step {t u v : T} : Step t u → Reach u v → Reach t v

theorem mem_nodes_self (t : T) : t ∈ t.nodes := by
  cases t with
  | node i x l s cs => simp [T.nodes]

theorem nodes_sub_of_mem {c : T} : ∀ {cs : List T}, c ∈ cs → ∀ n ∈ c.nodes, n ∈ T.nodesL cs
  | [], h, _, _ => by simp at h
  | d :: ds, h, n, hn => by
      simp only [T.nodesL, List.mem_append]
      rcases List.mem_cons.mp h with h | h
      · subst h; exact Or.inl hn
      · exact Or.inr (nodes_sub_of_mem h n hn)

theorem inv_cs_ne (tgt : Nat) (t : T) (l : Option Frac) (ups : List T) (r : T)
    (hint : ∀ n ∈ t.nodes, n.id = tgt → n.cs ≠ []) (h : inv tgt t l ups = some r) : t.cs ≠ [] := by
  cases t with
  | node i x l0 s cs =>
    intro hcs
    simp only [T.cs] at hcs
    subst hcs
    rw [inv] at h
    split at h
    · rename_i hi
      have := hint (.node i x l0 s []) (mem_nodes_self _) (by simpa [T.id] using hi)
      exact this rfl
    · simp [invL] at h

mutual
theorem inv_reach (tgt : Nat) : ∀ (t : T) (l : Option Frac) (ups : List T) (r : T),
    (∀ n ∈ t.nodes, n.id = tgt → n.cs ≠ []) → (ups ≠ [] ∨ 2 ≤ t.cs.length) →
    inv tgt t l ups = some r → Reach (.node t.id t.taxon l t.label (t.cs ++ ups)) r
  | .node i x l0 s cs, l, ups, r, hint, h2, h => by
      rw [inv] at h
      simp only [T.id, T.taxon, T.label, T.cs]
      split at h
      · cases h; exact Reach.refl _
      · have := invL_reach tgt cs [] ups i x s l r
          (fun c hc n hn => hint n (by simp only [T.nodes]; exact List.mem_cons_of_mem _ (nodes_sub_of_mem hc n hn)))
          (by simpa [T.cs] using h2) h
        simpa using this
theorem invL_reach (tgt : Nat) : ∀ (post pre ups : List T) (i : Nat) (x : Option Nat) (s : Option String)
    (l : Option Frac) (r : T),
    (∀ c ∈ post, ∀ n ∈ c.nodes, n.id = tgt → n.cs ≠ []) → (ups ≠ [] ∨ 2 ≤ (pre ++ post).length) →
    invL tgt i x s l pre post ups = some r → Reach (.node i x l s (pre ++ post ++ ups)) r
  | [], _, _, _, _, _, _, _, _, _, h => by simp [invL] at h
  | c :: post, pre, ups, i, x, s, l, r, hint, h2, h => by
      rw [invL] at h
      split at h
      · rename_i r' hr'
        cases h
        have hc := hint c (List.mem_cons_self ..)
        have hds := inv_cs_ne tgt c l _ r hc hr'
        have ih := inv_reach tgt c l [.node i x c.len s (pre ++ post ++ ups)] r hc (Or.inl (by simp)) hr'
        cases c with
        | node j y lc sc ds =>
          simp only [T.id, T.taxon, T.label, T.cs, T.len] at ih hds
          have hrest : pre ++ (post ++ ups) ≠ [] := by
            rcases h2 with h2 | h2
            · intro h0; simp at h0; exact h2 h0.2.2
            · intro h0; simp at h0; simp [h0.1, h0.2.1] at h2
          have st := Step.mk i x l s pre j y lc sc ds (post ++ ups) hds hrest
          have e1 : pre ++ T.node j y lc sc ds :: post ++ ups = pre ++ T.node j y lc sc ds :: (post ++ ups) := by simp
          rw [e1]
          have e2 : pre ++ post ++ ups = pre ++ (post ++ ups) := by simp
          rw [e2] at ih
          exact Reach.step st ih
      · have := invL_reach tgt post (pre ++ [c]) ups i x s l r
          (fun d hd => hint d (List.mem_cons_of_mem _ hd)) (by simpa using h2) h
        simpa using this
end

theorem cleanup_flag_none (c s : Bool) (t : T) :
    (cleanup none c s t).2 = none ∨ (cleanup none c s t).2 = some false := by
  simp only [cleanup]
  split
  · exact Or.inr rfl
  · exact Or.inl rfl

theorem sisterCollapses_false (l : List T) : sisterCollapses false l = false := by
  unfold sisterCollapses
  split <;> simp

theorem collapse_head (i : Nat) (x : Option Nat) (l : Option Frac) (s : Option String) (o : T) (rest : List T) (uf : Bool)
    (h : sisterCollapses uf (o :: rest) = true) :
    ∃ o' rest', (collapseBasal (.node i x l s (o :: rest))).cs = o' :: rest' ∧ o'.id = o.id := by
  match rest, h with
  | [b], h =>
    cases b with
    | node j y lb sb bs =>
    cases o with
    | node k z lo so os =>
    simp only [sisterCollapses, Bool.and_eq_true, T.cs] at h
    have h2 : 2 ≤ bs.length := by simpa using h.2
    refine ⟨(T.node k z lo so os).withLen (mergeLen lo lb), bs, ?_, ?_⟩
    · simp [collapseBasal, T.cs, T.len, h2]
    · simp [T.withLen, T.id]
  | [], h => simp [sisterCollapses] at h
  | _ :: _ :: _, h => simp [sisterCollapses] at h

/-! ### observations: leaves, path lengths, total length (rational; `None` counts as 0) -/

def lenQ : Option Frac → ℚ
  | none => 0
  | some f => (f.num : ℚ) / (f.den : ℚ)

mutual
def toLT : T → Path.LT
  | .node i _ l _ [] => .leaf i (lenQ l)
  | .node _ _ l _ (c :: cs) => .node (lenQ l) (toLTL (c :: cs))
def toLTL : List T → List Path.LT
  | [] => []
  | c :: cs => toLT c :: toLTL cs
end

mutual
def totalQ : T → ℚ
  | .node _ _ l _ cs => lenQ l + totalQL cs
def totalQL : List T → ℚ
  | [] => 0
  | c :: cs => totalQ c + totalQL cs
end

theorem toLTL_append (a b : List T) : toLTL (a ++ b) = toLTL a ++ toLTL b := by
  induction a with
  | nil => simp [toLTL]
  | cons c cs ih => simp [toLTL, ih]

theorem toLT_node_ne {i : Nat} {x : Option Nat} {l : Option Frac} {s : Option String} {cs : List T} (h : cs ≠ []) :
    toLT (.node i x l s cs) = .node (lenQ l) (toLTL cs) := by
  cases cs with
  | nil => exact absurd rfl h
  | cons c cs => simp [toLT]

theorem leaves_node_ne {i : Nat} {x : Option Nat} {l : Option Frac} {s : Option String} {cs : List T} (h : cs ≠ []) :
    T.leaves (.node i x l s cs) = T.leavesL cs := by
  cases cs with
  | nil => exact absurd rfl h
  | cons c cs => simp [T.leaves]

theorem leavesL_append (a b : List T) : T.leavesL (a ++ b) = T.leavesL a ++ T.leavesL b := by
  induction a with
  | nil => simp [T.leavesL]
  | cons c cs ih => simp [T.leavesL, ih]

theorem totalQL_append (a b : List T) : totalQL (a ++ b) = totalQL a + totalQL b := by
  induction a with
  | nil => simp [totalQL]
  | cons c cs ih => simp [totalQL, ih]; ring

mutual
theorem leaves_toLT : ∀ t : T, Path.leaves (toLT t) = t.leaves.map T.id
  | .node i x l s [] => by simp [toLT, Path.leaves, T.leaves, T.id]
  | .node i x l s (c :: cs) => by
      simp only [toLT, Path.leaves, T.leaves]
      exact leavesL_toLTL (c :: cs)
theorem leavesL_toLTL : ∀ cs : List T, Path.leavesL (toLTL cs) = (T.leavesL cs).map T.id
  | [] => by simp [toLTL, Path.leavesL, T.leavesL]
  | c :: cs => by
      simp only [toLTL, Path.leavesL, T.leavesL, List.map_append]
      rw [leaves_toLT c, leavesL_toLTL cs]
end

/-- ids of the leaves (childless nodes), left to right -/
def leafIds (t : T) : List Nat := t.leaves.map T.id

/-- length of the path between the leaves with ids `a` and `b` (`none` unless both are leaves below the root) -/
def pathLen (t : T) (a b : Nat) : Option ℚ := Path.distL (toLTL t.cs) a b

theorem step_leaves {t u : T} (h : Step t u) : u.leaves.Perm t.leaves := by
  cases h with
  | mk i x l s pre j y lc sc ds post hds hrest =>
    have h1 : (pre ++ T.node j y lc sc ds :: post) ≠ [] := by simp
    have h2 : (ds ++ [T.node i x lc s (pre ++ post)]) ≠ [] := by simp
    rw [leaves_node_ne h1, leaves_node_ne h2]
    simp only [leavesL_append, T.leavesL, leaves_node_ne hds, leaves_node_ne hrest, List.append_nil]
    -- ds ++ (pre ++ post)  ~  pre ++ (ds ++ post)
    have : (T.leavesL ds ++ (T.leavesL pre ++ T.leavesL post)).Perm (T.leavesL pre ++ (T.leavesL ds ++ T.leavesL post)) := by
      rw [← List.append_assoc, ← List.append_assoc]
      exact List.Perm.append_right _ List.perm_append_comm
    exact this

theorem step_total {t u : T} (h : Step t u) : totalQ u = totalQ t := by
  cases h with
  | mk i x l s pre j y lc sc ds post hds hrest =>
    simp only [totalQ, totalQL_append, totalQL]
    ring

theorem step_paths {t u : T} (h : Step t u) (hnd : (leafIds t).Nodup) (a b : Nat)
    (ha : a ∈ leafIds t) (hb : b ∈ leafIds t) : pathLen u a b = pathLen t a b := by
  cases h with
  | mk i x l s pre j y lc sc ds post hds hrest =>
    have h1 : (pre ++ T.node j y lc sc ds :: post) ≠ [] := by simp
    simp only [leafIds, leaves_node_ne h1] at hnd ha hb
    rw [← leavesL_toLTL] at hnd ha hb
    simp only [pathLen, T.cs]
    simp only [toLTL_append, toLTL, toLT_node_ne hds, toLT_node_ne hrest] at hnd ha hb ⊢
    exact Path.invert_dist (toLTL pre) (toLTL ds) (toLTL post) (lenQ lc) hnd a b ha hb

theorem reach_inv {t r : T} (h : Reach t r) : r.leaves.Perm t.leaves ∧ totalQ r = totalQ t ∧
    ((leafIds t).Nodup → ∀ a b, a ∈ leafIds t → b ∈ leafIds t → pathLen r a b = pathLen t a b) := by
  induction h with
  | refl t => exact ⟨List.Perm.refl _, rfl, fun _ _ _ _ _ => rfl⟩
  | step st _ ih =>
    obtain ⟨ihl, iht, ihp⟩ := ih
    have pl := step_leaves st
    refine ⟨ihl.trans pl, iht.trans (step_total st), ?_⟩
    intro hnd a b ha hb
    have pid : (leafIds _).Perm (leafIds _) := pl.map T.id
    rw [ihp ((pid.nodup_iff).mpr hnd) a b ((pid.mem_iff).mpr ha) ((pid.mem_iff).mpr hb)]
    exact step_paths st hnd a b ha hb

end DendroModel.C07.Aux

namespace DendroModel.C07
open DendroModel DendroModel.C07.Aux

/-! ## (a) the chain of edge inversions -/

/-- `invertTo` (the loop over `edges_to_invert` of `reseed_at`) is a chain of single root inversions -/
theorem invert_is_chain (tgt : Nat) (t : T) (hint : ∀ n ∈ t.nodes, n.id = tgt → n.cs ≠ [])
    (h2 : 2 ≤ t.cs.length) : Reach t (invertTo tgt t) := by
  unfold invertTo
  cases h : inv tgt t t.len [] with
  | none => exact Reach.refl _
  | some r =>
    have := inv_reach tgt t t.len [] r hint (Or.inr h2) h
    cases t with
    | node i x l s cs => simpa [T.id, T.taxon, T.label, T.cs, T.len] using this

/-- **re-seeding keeps the leaves, the total length and every leaf-to-leaf path length** — for every tree whose seed is
    not unary, every internal target node (the documented domain of `reseed_at`), every rooting flag; lengths are exact
    rationals, `None` counting as 0.  Stated for `reseed_at(..., collapse_unrooted_basal_bifurcation=False,
    suppress_unifurcations=False)`, i.e. for the inversion chain itself; the clean-up steps are covered by
    `collapse_basal_*` / `suppress_*` below. -/
theorem reseed_invariant (flag : Option Bool) (tgt : Nat) (t : T)
    (hint : ∀ n ∈ t.nodes, n.id = tgt → n.cs ≠ []) (h2 : 2 ≤ t.cs.length) :
    ((reseedAt flag false false tgt t).1).leaves.Perm t.leaves ∧
    totalQ (reseedAt flag false false tgt t).1 = totalQ t ∧
    ((leafIds t).Nodup → ∀ a b, a ∈ leafIds t → b ∈ leafIds t →
      pathLen (reseedAt flag false false tgt t).1 a b = pathLen t a b) := by
  have e : (reseedAt flag false false tgt t).1 = invertTo tgt t := by
    simp [reseedAt, cleanup]
  rw [e]
  exact reach_inv (invert_is_chain tgt t hint h2)

/-- the same for the hard variant `reroot_at_node(..., suppress_unifurcations=False)` -/
theorem reroot_at_node_invariant (tgt : Nat) (t : T)
    (hint : ∀ n ∈ t.nodes, n.id = tgt → n.cs ≠ []) (h2 : 2 ≤ t.cs.length) :
    ((rerootAtNode false tgt t).1).leaves.Perm t.leaves ∧
    totalQ (rerootAtNode false tgt t).1 = totalQ t ∧
    ((leafIds t).Nodup → ∀ a b, a ∈ leafIds t → b ∈ leafIds t →
      pathLen (rerootAtNode false tgt t).1 a b = pathLen t a b) :=
  reseed_invariant none tgt t hint h2

/-! ## (e) rooting flag -/

/-- hard re-rooting sets the flag -/
theorem reroot_at_node_sets_rooted (s : Bool) (tgt : Nat) (t : T) : (rerootAtNode s tgt t).2 = some true := rfl

theorem reroot_at_edge_sets_rooted (s : Bool) (h nw : Nat) (l1 l2 : Option Frac) (t : T) :
    (rerootAtEdge s h nw l1 l2 t).2 = some true := rfl

theorem reroot_at_midpoint_sets_rooted (s : Bool) (a b nw : Nat) (t : T) (r : T × Option Bool)
    (h : rerootAtMidpoint s a b nw t = some r) : r.2 = some true := by
  unfold rerootAtMidpoint at h
  split at h
  · cases h
  · cases h; rfl
  · split at h
    · cases h
    · cases h; rfl

/-- soft: `reseed_at` leaves a defined rooting flag (rooted or unrooted) as it was, for all flag settings -/
theorem reseed_keeps_flag (b : Bool) (collapse suppress : Bool) (tgt : Nat) (t : T) :
    (reseedAt (some b) collapse suppress tgt t).2 = some b := by
  cases b <;> simp [reseedAt, cleanup, unrootedFlag]

/-- soft: an undefined flag stays undefined or becomes unrooted (exactly when a basal node is dissolved) -/
theorem reseed_flag_undefined (collapse suppress : Bool) (tgt : Nat) (t : T) :
    (reseedAt none collapse suppress tgt t).2 = none ∨ (reseedAt none collapse suppress tgt t).2 = some false := by
  simp only [reseedAt]
  exact cleanup_flag_none _ _ _

theorem to_outgroup_keeps_flag (b : Bool) (suppress : Bool) (og : Nat) (t : T) (r : T × Option Bool)
    (h : toOutgroup (some b) suppress og t = some r) : r.2 = some b := by
  unfold toOutgroup at h
  split at h
  · cases h
  · split at h
    split at h
    · cases h
    · cases h
      cases b
      · simp
      · simp [unrootedFlag, sisterCollapses_false]

/-! ## (b) the midpoint walk -/

/-- rational sum of the edge lengths of a walk segment -/
def wsum (w : List (Nat × Frac × Nat)) : ℚ := (w.map (fun e => e.2.1.toRat)).sum

/-- **where the walk "going up ..." of `reroot_at_midpoint` stops** (exact rational arithmetic): if it answers "inside the
    edge above `nd`, `h` above its head", then the edges passed before sum, together with `h`, to exactly the requested half
    distance and `h` is shorter than that edge; if it answers "exactly at node `p`" then `p` is the PARENT end (tail) of the
    edge at which the lengths passed sum to exactly the half distance (the branch the library got wrong); if it gives up, the
    whole walk is shorter than the half distance.
    `_partial` with respect to clause (b): it locates the new root at the half distance from the deeper leaf `n1` along its
    path to the MRCA; that the other leaf of the pair is then at the same distance follows from `reseed_invariant` (paths are
    kept) but is not assembled into one statement about `rerootAtMidpoint`, and maximality of the pair is an input. -/
theorem midpoint_walk_spec_partial : ∀ (w : List (Nat × Frac × Nat)) (plen : Frac),
    (∀ e ∈ w, e.2.1.WF) → plen.WF →
    (∀ nd h, midWalk w plen = .onEdge nd h → ∃ pre e post, w = pre ++ e :: post ∧ e.1 = nd ∧
        wsum pre + h.toRat = plen.toRat ∧ h.toRat < e.2.1.toRat) ∧
    (∀ p, midWalk w plen = .onNode p → ∃ pre e post, w = pre ++ e :: post ∧ e.2.2 = p ∧
        wsum pre + e.2.1.toRat = plen.toRat) ∧
    (midWalk w plen = .fail → w = [] ∨ wsum w < plen.toRat)
  | [], plen, _, _ => by simp [midWalk]
  | (nd0, l, par) :: rest, plen, hw, hp => by
    have hl : l.WF := hw (nd0, l, par) (List.mem_cons_self ..)
    have hrest : ∀ e ∈ rest, e.2.1.WF := fun e he => hw e (List.mem_cons_of_mem _ he)
    have ih := midpoint_walk_spec_partial rest (plen - l) hrest (Frac.sub_wf _ _)
    have hsub : (plen - l).toRat = plen.toRat - l.toRat := Frac.sub_toRat hp hl
    by_cases h1 : Frac.lt plen l = true
    · have h1' := (Frac.lt_iff hp hl).mp h1
      simp only [midWalk, h1, if_true]
      refine ⟨?_, ?_, ?_⟩
      · intro nd h e
        cases e
        exact ⟨[], (nd0, l, par), rest, rfl, rfl, by simp [wsum], h1'⟩
      · intro p e; cases e
      · intro e; cases e
    · have h1f : Frac.lt plen l = false := by simpa using h1
      have h1' := (Frac.lt_false_iff hp hl).mp h1f
      by_cases h2 : Frac.lt l plen = true
      · have h2' := (Frac.lt_iff hl hp).mp h2
        simp only [midWalk, h1f, h2, if_true, Bool.false_eq_true, if_false]
        obtain ⟨ihe, ihn, ihf⟩ := ih
        refine ⟨?_, ?_, ?_⟩
        · intro nd h e
          obtain ⟨pre, e', post, hwq, hid, hs, hlt⟩ := ihe nd h e
          refine ⟨(nd0, l, par) :: pre, e', post, by simp [hwq], hid, ?_, hlt⟩
          simp only [wsum, List.map_cons, List.sum_cons] at hs ⊢
          rw [hsub] at hs; linarith
        · intro p e
          obtain ⟨pre, e', post, hwq, hid, hs⟩ := ihn p e
          refine ⟨(nd0, l, par) :: pre, e', post, by simp [hwq], hid, ?_⟩
          simp only [wsum, List.map_cons, List.sum_cons] at hs ⊢
          rw [hsub] at hs; linarith
        · intro e
          right
          rcases ihf e with h0 | h0
          · subst h0; simp [wsum]; exact h2'
          · simp only [wsum, List.map_cons, List.sum_cons] at h0 ⊢
            rw [hsub] at h0; linarith
      · have h2f : Frac.lt l plen = false := by simpa using h2
        have h2' := (Frac.lt_false_iff hl hp).mp h2f
        simp only [midWalk, h1f, h2f, Bool.false_eq_true, if_false]
        refine ⟨?_, ?_, ?_⟩
        · intro nd h e; cases e
        · intro p e
          cases e
          exact ⟨[], (nd0, l, par), rest, rfl, rfl, by simp [wsum]; linarith⟩
        · intro e; cases e

/-! ## (d) outgroup first -/

/-- after `to_outgroup_position(og, suppress_unifurcations=False)` the outgroup node is the first child of the root, for every
    rooting flag (the unrooted basal collapse only ever dissolves the sister).  With suppression a unary outgroup node is
    replaced by its child in the same position (checked by the oracle as a leaf-set statement). -/
theorem outgroup_first (flag : Option Bool) (og : Nat) (t : T) (r : T × Option Bool)
    (h : toOutgroup flag false og t = some r) : ∃ o rest, r.1.cs = o :: rest ∧ o.id = og := by
  unfold toOutgroup at h
  split at h
  · cases h
  · split at h
    rename_i i x l s cs _
    split at h
    · cases h
    · rename_i o ho
      have hid : o.id = og := by
        have := List.find?_some ho
        simpa using this
      cases h
      simp only [Bool.false_eq_true, if_false]
      by_cases hd : sisterCollapses (unrootedFlag flag) (o :: cs.filter (fun c => c.id != og)) = true
      · simp only [hd, if_true]
        obtain ⟨o', rest', h1, h2⟩ := collapse_head i x l s o _ _ hd
        exact ⟨o', rest', h1, h2.trans hid⟩
      · simp only [hd]
        exact ⟨o, _, rfl, hid⟩

end DendroModel.C07

namespace DendroModel.C07.Aux
open DendroModel DendroModel.C07

mutual
theorem inv_root (tgt : Nat) : ∀ (t : T) (l : Option Frac) (ups : List T) (r : T),
    inv tgt t l ups = some r → r.id = tgt ∧ r.len = l
  | .node i x l0 s cs, l, ups, r, h => by
      rw [inv] at h
      split at h
      · rename_i hi
        cases h
        exact ⟨by simpa [T.id] using hi, rfl⟩
      · exact invL_root tgt cs [] ups i x s l r h
theorem invL_root (tgt : Nat) : ∀ (post pre ups : List T) (i : Nat) (x : Option Nat) (s : Option String)
    (l : Option Frac) (r : T), invL tgt i x s l pre post ups = some r → r.id = tgt ∧ r.len = l
  | [], _, _, _, _, _, _, _, h => by simp [invL] at h
  | c :: post, pre, ups, i, x, s, l, r, h => by
      rw [invL] at h
      split at h
      · rename_i r' hr'
        cases h
        exact inv_root tgt c l _ r hr'
      · exact invL_root tgt post (pre ++ [c]) ups i x s l r h
end

mutual
theorem inv_some (tgt : Nat) : ∀ (t : T) (l : Option Frac) (ups : List T),
    contains tgt t = true → ∃ r, inv tgt t l ups = some r
  | .node i x l0 s cs, l, ups, h => by
      rw [inv]
      simp only [contains, Bool.or_eq_true] at h
      split
      · exact ⟨_, rfl⟩
      · rename_i hi
        rcases h with h | h
        · exact absurd h hi
        · exact invL_some tgt cs [] ups i x s l h
theorem invL_some (tgt : Nat) : ∀ (post pre ups : List T) (i : Nat) (x : Option Nat) (s : Option String)
    (l : Option Frac), containsL tgt post = true → ∃ r, invL tgt i x s l pre post ups = some r
  | [], _, _, _, _, _, _, h => by simp [containsL] at h
  | c :: post, pre, ups, i, x, s, l, h => by
      rw [invL]
      simp only [containsL, Bool.or_eq_true] at h
      split
      · exact ⟨_, rfl⟩
      · rename_i hnone
        rcases h with h | h
        · obtain ⟨r, hr⟩ := inv_some tgt c l [.node i x c.len s (pre ++ post ++ ups)] h
          rw [hr] at hnone; cases hnone
        · exact invL_some tgt post (pre ++ [c]) ups i x s l h
end
end DendroModel.C07.Aux

namespace DendroModel.C07
open DendroModel DendroModel.C07.Aux

/-- after the inversions the requested node IS the root and carries the old seed's own edge length (the root edge length
    travels with the root), for every node of the tree -/
theorem reseed_root_is_target (tgt : Nat) (t : T) (h : contains tgt t = true) :
    (invertTo tgt t).id = tgt ∧ (invertTo tgt t).len = t.len := by
  obtain ⟨r, hr⟩ := inv_some tgt t t.len [] h
  simp only [invertTo, hr, Option.getD_some]
  exact inv_root tgt t t.len [] r hr

/-! ## the hypotheses are satisfiable, and the theorems speak about the running definitions -/

/-- `((A:1,B:1)X:1,C:2)` with ids 0..4 -/
def exTree : T :=
  .node 0 none none none
    [.node 1 none (some ⟨1, 1⟩) none [.node 2 (some 0) (some ⟨1, 1⟩) none [], .node 3 (some 1) (some ⟨1, 1⟩) none []],
     .node 4 (some 2) (some ⟨2, 1⟩) none []]

example : (∀ n ∈ exTree.nodes, n.id = 1 → n.cs ≠ []) ∧ 2 ≤ exTree.cs.length ∧ (leafIds exTree).Nodup := by
  refine ⟨?_, by decide, by decide⟩
  intro n hn
  simp [exTree, T.nodes, T.nodesL] at hn
  rcases hn with rfl | rfl | rfl | rfl | rfl <;> simp [T.id, T.cs]

example : ((reseedAt (some false) false false 1 exTree).1).id = 1 := by decide
example : contains 1 exTree = true := by decide
example : ∃ r, toOutgroup (some false) false 4 exTree = some r := ⟨_, rfl⟩
example : midWalk [(2, ⟨1, 1⟩, 1), (1, ⟨1, 1⟩, 0)] ⟨2, 1⟩ = .onNode 0 := by decide
example : midWalk [(4, ⟨2, 1⟩, 0)] ⟨3, 2⟩ = .onEdge 4 ⟨3, 2⟩ := by decide

end DendroModel.C07

namespace DendroModel.C07.Aux
open DendroModel DendroModel.C07

theorem insStable_perm (before : T → T → Bool) (x : T) : ∀ l : List T, (insStable before x l).Perm (x :: l)
  | [] => by simp [insStable]
  | y :: r => by
    simp only [insStable]
    split
    · exact ((insStable_perm before x r).cons y).trans (List.Perm.swap x y r)
    · exact List.Perm.refl _

theorem sortStable_perm (before : T → T → Bool) : ∀ l : List T, (sortStable before l).Perm l
  | [] => by simp [sortStable]
  | x :: l => by
    have ih := sortStable_perm before l
    simp only [sortStable, List.foldr_cons] at ih ⊢
    exact (insStable_perm before x _).trans (ih.cons x)

theorem leavesL_perm {a b : List T} (h : a.Perm b) : (T.leavesL a).Perm (T.leavesL b) := by
  induction h with
  | nil => exact List.Perm.refl _
  | cons x _ ih => simp only [T.leavesL]; exact ih.append_left _
  | swap x y l =>
    simp only [T.leavesL]
    rw [← List.append_assoc, ← List.append_assoc]
    exact List.Perm.append_right _ List.perm_append_comm
  | trans _ _ ih1 ih2 => exact ih1.trans ih2

theorem totalQL_perm {a b : List T} (h : a.Perm b) : totalQL a = totalQL b := by
  induction h with
  | nil => rfl
  | cons x _ ih => simp only [totalQL, ih]
  | swap x y l => simp only [totalQL]; ring
  | trans _ _ ih1 ih2 => exact ih1.trans ih2

theorem leavesL_map_perm (f : T → T) : ∀ cs : List T, (∀ c ∈ cs, (f c).leaves.Perm c.leaves) →
    (T.leavesL (cs.map f)).Perm (T.leavesL cs)
  | [], _ => List.Perm.refl _
  | c :: cs, h => by
    simp only [List.map_cons, T.leavesL]
    exact (h c (List.mem_cons_self ..)).append (leavesL_map_perm f cs (fun d hd => h d (List.mem_cons_of_mem _ hd)))

theorem totalQL_map (f : T → T) : ∀ cs : List T, (∀ c ∈ cs, totalQ (f c) = totalQ c) → totalQL (cs.map f) = totalQL cs
  | [], _ => rfl
  | c :: cs, h => by
    simp only [List.map_cons, totalQL]
    rw [h c (List.mem_cons_self ..), totalQL_map f cs (fun d hd => h d (List.mem_cons_of_mem _ hd))]

theorem size_lt_of_mem {c : T} : ∀ {cs : List T}, c ∈ cs → c.size < 1 + T.sizeL cs
  | [], h => by simp at h
  | d :: ds, h => by
    simp only [T.sizeL]
    rcases List.mem_cons.mp h with h | h
    · subst h; omega
    · have := size_lt_of_mem h; omega

theorem leaves_node (i : Nat) (x : Option Nat) (l : Option Frac) (s : Option String) (cs : List T) :
    T.leaves (.node i x l s cs) = if cs = [] then [.node i x l s []] else T.leavesL cs := by
  cases cs <;> simp [T.leaves]

/-- any re-ordering that sorts the child list of every node (whatever the order relation) keeps the leaves and the total length -/
theorem sorted_tree_inv (f : T → T) (before : T → T → Bool)
    (hf : ∀ i x l s cs, f (.node i x l s cs) = .node i x l s (sortStable before (cs.map f))) :
    ∀ (n : Nat) (t : T), t.size ≤ n → (f t).leaves.Perm t.leaves ∧ totalQ (f t) = totalQ t
  | 0, .node i x l s cs, h => by simp [T.size] at h
  | n + 1, .node i x l s cs, h => by
    have ih : ∀ c ∈ cs, (f c).leaves.Perm c.leaves ∧ totalQ (f c) = totalQ c := fun c hc =>
      sorted_tree_inv f before hf n c (by have := size_lt_of_mem hc; simp only [T.size] at h; omega)
    have hp := sortStable_perm before (cs.map f)
    rw [hf]
    refine ⟨?_, ?_⟩
    · rw [leaves_node, leaves_node]
      by_cases hcs : cs = []
      · subst hcs; simp [sortStable]
      · have hne : sortStable before (cs.map f) ≠ [] := by
          intro h0; rw [h0] at hp
          have := hp.length_eq; simp at this; exact hcs (List.length_eq_zero_iff.mp this.symm)
        simp only [hcs, hne, if_false]
        exact (leavesL_perm hp).trans (leavesL_map_perm f cs (fun c hc => (ih c hc).1))
    · simp only [totalQ]
      rw [totalQL_perm hp, totalQL_map f cs (fun c hc => (ih c hc).2)]

theorem ladderizeL_eq_map (asc : Bool) : ∀ cs : List T, ladderizeL asc cs = cs.map (ladderize asc)
  | [] => by simp [ladderizeL]
  | c :: cs => by simp [ladderizeL, ladderizeL_eq_map asc cs]
theorem reorderL_eq_map (asc : Bool) : ∀ cs : List T, reorderL asc cs = cs.map (reorder asc)
  | [] => by simp [reorderL]
  | c :: cs => by simp [reorderL, reorderL_eq_map asc cs]
theorem rotateL_eq_map (rank : Nat → Nat) : ∀ cs : List T, rotateL rank cs = cs.map (rotate rank)
  | [] => by simp [rotateL]
  | c :: cs => by simp [rotateL, rotateL_eq_map rank cs]

end DendroModel.C07.Aux

namespace DendroModel.C07
open DendroModel DendroModel.C07.Aux

/-! ## (a) for the re-ordering operations -/

/-- `ladderize` keeps the leaves and the total length (both directions, all trees) -/
theorem ladderize_invariant_partial (asc : Bool) (t : T) :
    (ladderize asc t).leaves.Perm t.leaves ∧ totalQ (ladderize asc t) = totalQ t :=
  sorted_tree_inv (ladderize asc) _ (fun i x l s cs => by rw [ladderize, ladderizeL_eq_map]) t.size t (Nat.le_refl _)

theorem reorder_invariant_partial (asc : Bool) (t : T) :
    (reorder asc t).leaves.Perm t.leaves ∧ totalQ (reorder asc t) = totalQ t :=
  sorted_tree_inv (reorder asc) _ (fun i x l s cs => by rw [reorder, reorderL_eq_map]) t.size t (Nat.le_refl _)

theorem rotate_invariant_partial (rank : Nat → Nat) (t : T) :
    (rotate rank t).leaves.Perm t.leaves ∧ totalQ (rotate rank t) = totalQ t :=
  sorted_tree_inv (rotate rank) _ (fun i x l s cs => by rw [rotate, rotateL_eq_map]) t.size t (Nat.le_refl _)

end DendroModel.C07

namespace DendroModel.C07.Aux
open DendroModel DendroModel.C07

theorem toHL_append (a b : List T) : T.toHL (a ++ b) = T.toHL a ++ T.toHL b := by
  induction a with
  | nil => simp [T.toHL]
  | cons c cs ih => simp [T.toHL, ih]

theorem toH_node_ne {i : Nat} {x : Option Nat} {l : Option Frac} {s : Option String} {cs : List T} (h : cs ≠ []) :
    T.toH (.node i x l s cs) = .node (T.toHL cs) := by
  cases cs with
  | nil => exact absurd rfl h
  | cons c cs => simp [T.toH]

end DendroModel.C07.Aux

namespace DendroModel.C07
open DendroModel DendroModel.C07.Aux

/-- one inversion step of the chain keeps the set of normalised (unrooted) split masks of the leaf taxa, for every
    labelling in which sibling clades are disjoint and non-empty (`GoodL`) and every reference bit `lo` of the tree.
    `_partial`: single step (the same statement for the whole chain needs `GoodL` to be carried along the chain, which is
    not proved here; the from-scratch split oracle checks it on every generated case). -/
theorem inversion_step_keeps_unrooted_splits_partial {t u : T} (h : Step t u) (lo : Nat)
    (hg : Hier.GoodL (T.toHL t.cs)) (hlo : Hier.bits lo ⊆ Hier.bits (Hier.maskL (T.toHL t.cs)))
    (hsingle : ∀ a, Hier.bits lo ⊆ Hier.bits a ∨ Disjoint (Hier.bits lo) (Hier.bits a)) (hne : lo ≠ 0) :
    ∀ s, s ∈ Hier.usplits lo (T.toH u) ↔ s ∈ Hier.usplits lo (T.toH t) := by
  cases h with
  | mk i x l s pre j y lc sc ds post hds hrest =>
    have h1 : (pre ++ T.node j y lc sc ds :: post) ≠ [] := by simp
    have h2 : (ds ++ [T.node i x lc s (pre ++ post)]) ≠ [] := by simp
    simp only [T.cs, toHL_append, T.toHL, toH_node_ne hds] at hg hlo
    rw [toH_node_ne h1, toH_node_ne h2]
    simp only [toHL_append, T.toHL, toH_node_ne hds, toH_node_ne hrest]
    exact Hier.usplits_invert lo (T.toHL pre) (T.toHL ds) (T.toHL post) hg hlo hsingle hne

end DendroModel.C07
